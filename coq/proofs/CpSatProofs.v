(** CpSatProofs.v — the encoding is sound and complete for feasible complete
    schedules, the rebuild never fails on a satisfying assignment (repaired
    sort key), the constraint set is satisfiable (also for an instance without
    operations, where [AddMaxEquality] is not emitted), lower bounds, optimality
    under the solver contract, soundness of the brute force. *)
From JSL Require Import Base Instance Dstate Filters World Feasible ListFacts DispatchFun Inv Run
  CpSat CpSatSpec CpSatLemmas.
From Coq Require Import Lia Permutation Sorted.

(** ** The rebuilt schedule *)

Definition sorted_rows (kk : sortkey) (I : instance) (sigma : assignment) : schedule :=
  map (sort_by (key_le I kk)) (unsorted_rows I sigma (all_keys I)).

Lemma key_sop_of I sigma k : key (sop_of I sigma k) = k.
Proof. destruct k; reflexivity. Qed.

Lemma dur_is_kdur I x : dur I x = kdur I (key x).
Proof. reflexivity. Qed.

Lemma dur_sop_of I sigma k : dur I (sop_of I sigma k) = kdur I k.
Proof. rewrite dur_is_kdur, key_sop_of. reflexivity. Qed.

Lemma s_end_sop_of I sigma k :
  satd I sigma -> In k (all_keys I) -> s_end I (sop_of I sigma k) = sigma (evar I k).
Proof.
  intros Hs Hk. unfold s_end. rewrite dur_sop_of, (sd_end _ _ Hs k Hk). reflexivity.
Qed.

Lemma all_sops_perm kk I sigma : nonflex I ->
  Permutation (all_sops (sorted_rows kk I sigma)) (map (sop_of I sigma) (all_keys I)).
Proof.
  intros Hnf. unfold all_sops, sorted_rows.
  rewrite (Permutation_concat_map (sort_by (key_le I kk))) by (intros x; apply sort_by_perm).
  unfold unsorted_rows.
  rewrite <- (map_map (fun m => filter (fun k => (kmach I k =? m)%nat) (all_keys I)) (map (sop_of I sigma))).
  rewrite <- concat_map. apply Permutation_map. apply (keys_on_perm I Hnf).
Qed.

Lemma In_all_sops kk I sigma x : nonflex I ->
  (In x (all_sops (sorted_rows kk I sigma)) <-> exists k, In k (all_keys I) /\ x = sop_of I sigma k).
Proof.
  intros Hnf. pose proof (all_sops_perm kk I sigma Hnf) as P. split.
  - intros H. apply (Permutation_in _ P) in H. apply in_map_iff in H.
    destruct H as (k & <- & Hk). eauto.
  - intros (k & Hk & ->). apply (Permutation_in _ (Permutation_sym P)). apply in_map; exact Hk.
Qed.

Lemma nth_row kk I sigma m row :
  nth_error (sorted_rows kk I sigma) m = Some row ->
  (m < num_machines I)%nat /\
  row = sort_by (key_le I kk) (map (sop_of I sigma) (keys_on I m)).
Proof.
  unfold sorted_rows, unsorted_rows. rewrite map_map. intros H.
  destruct (Nat.lt_ge_cases m (num_machines I)) as [Hlt|Hge].
  - split; [exact Hlt|].
    pose proof (nth_error_seq _ _ Hlt) as Hs.
    apply (map_nth_error (fun x => sort_by (key_le I kk)
             (map (sop_of I sigma) (filter (fun k => (kmach I k =? x)%nat) (all_keys I))))) in Hs.
    rewrite Hs in H. inversion H. reflexivity.
  - exfalso. assert (Hn : nth_error (map (fun x => sort_by (key_le I kk)
             (map (sop_of I sigma) (filter (fun k => (kmach I k =? x)%nat) (all_keys I))))
             (seq 0 (num_machines I))) m = None).
    { apply nth_error_None. rewrite map_length, seq_length. exact Hge. }
    congruence.
Qed.

Lemma In_row kk I sigma m x :
  In x (sort_by (key_le I kk) (map (sop_of I sigma) (keys_on I m))) <->
  exists k, In k (keys_on I m) /\ x = sop_of I sigma k.
Proof.
  split.
  - intros H. apply (Permutation_in _ (sort_by_perm _ _)) in H. apply in_map_iff in H.
    destruct H as (k & <- & Hk). eauto.
  - intros (k & Hk & ->). apply (Permutation_in _ (Permutation_sym (sort_by_perm _ _))).
    apply in_map; exact Hk.
Qed.

(** ** [check_schedule] *)

Lemma check_row_spec I m prev row :
  check_row I m prev row = true <->
  (forall x, In x row -> s_mach x = m) /\
  row_sorted I (match prev with Some y => y :: row | None => row end).
Proof.
  revert prev. induction row as [|x t IH]; intros prev.
  - simpl. split; [|reflexivity]. intros _. split; [intros x []|]. destruct prev; exact Logic.I.
  - cbn [check_row]. rewrite !andb_true_iff, Nat.eqb_eq, (IH (Some x)). split.
    + intros [[Hm Hp] [Hall Hs]]. split.
      * intros y [<-|Hy]; [exact Hm|apply Hall; exact Hy].
      * destruct prev as [y|]; [|exact Hs]. split; [apply Z.leb_le; exact Hp|exact Hs].
    + intros [Hall Hs]. split; [split|split].
      * apply Hall. left; reflexivity.
      * destruct prev as [y|]; [|reflexivity]. destruct Hs as [Hs _]. apply Z.leb_le; exact Hs.
      * intros y Hy. apply Hall. right; exact Hy.
      * destruct prev as [y|]; [destruct Hs as [_ Hs]; exact Hs|exact Hs].
Qed.

Lemma check_rows_from_spec I m0 (S : schedule) :
  check_rows_from I m0 S = true <->
  (forall i row, nth_error S i = Some row -> check_row I (m0 + i) None row = true).
Proof.
  revert m0. induction S as [|r t IH]; intros m0; simpl.
  - split; [|reflexivity]. intros _ i row H. destruct i; discriminate.
  - rewrite andb_true_iff, IH. split.
    + intros [H1 H2] i row Hn. destruct i as [|i]; simpl in Hn.
      * inversion Hn; subst. rewrite Nat.add_0_r. exact H1.
      * replace (m0 + Datatypes.S i)%nat with (Datatypes.S m0 + i)%nat by lia. apply H2; exact Hn.
    + intros H. split.
      * specialize (H 0%nat r eq_refl). rewrite Nat.add_0_r in H. exact H.
      * intros i row Hn. specialize (H (Datatypes.S i) row Hn).
        replace (m0 + Datatypes.S i)%nat with (Datatypes.S m0 + i)%nat in H by lia. exact H.
Qed.

Lemma reconstruct_gen_inl kk I sigma (S : schedule) :
  reconstruct_gen kk I (all_keys I) sigma = inl S ->
  S = sorted_rows kk I sigma /\ check_schedule I S = true.
Proof.
  unfold reconstruct_gen. fold (sorted_rows kk I sigma).
  destruct (check_schedule I (sorted_rows kk I sigma)) eqn:E; [|discriminate].
  intros H. inversion H; subst. split; [reflexivity|exact E].
Qed.

(** ** Soundness: a satisfying assignment rebuilds into a feasible complete
    schedule whose makespan is the value of the makespan variable *)

Lemma chain_le I sigma j p q :
  valid I -> satd I sigma -> (p < q)%nat -> In (j, q) (all_keys I) ->
  sigma (evar I (j, p)) <= sigma (svar I (j, q)).
Proof.
  intros Hv Hs Hlt Hq. induction q as [|q IH]; [lia|].
  destruct (Nat.eq_dec p q) as [->|Hne].
  - apply (sd_prec _ _ Hs); exact Hq.
  - pose proof (all_keys_pred _ _ _ Hq) as Hq'.
    assert (H1 : sigma (evar I (j, p)) <= sigma (svar I (j, q))) by (apply IH; [lia|exact Hq']).
    pose proof (sd_end _ _ Hs _ Hq') as H2. pose proof (kdur_nonneg I (j, q) Hv) as H3.
    pose proof (sd_prec _ _ Hs _ _ Hq) as H4. lia.
Qed.

Theorem cp_sound I sigma (S : schedule) :
  valid I -> nonflex I -> sat sigma (cp_encode I) -> reconstruct I sigma = inl S ->
  feasible I S /\ complete I S /\ makespan I S = sigma (mkvar I).
Proof.
  intros Hv Hnf [Hd Hc] Hr. apply sat_cstrs_iff in Hc.
  apply reconstruct_gen_inl in Hr. destruct Hr as [-> Hchk].
  pose proof (In_all_sops KeyStartEnd I sigma) as HIn.
  split; [constructor|split].
  - (* real operation on an eligible machine *)
    intros x Hx. apply HIn in Hx; [|exact Hnf]. destruct Hx as (k & Hk & ->).
    destruct (all_keys_In_kop I k Hk) as (o & Ho & _). exists o. split; [exact Ho|].
    cbn [sop_of s_mach]. rewrite (kmach_spec I k o Hnf Ho). left; reflexivity.
  - (* row = machine *)
    intros m row x Hn Hx. apply nth_row in Hn. destruct Hn as [_ ->].
    apply In_row in Hx. destruct Hx as (k & Hk & ->). apply keys_on_In in Hk. apply Hk.
  - (* at most once *)
    apply (Permutation_NoDup (l := map key (map (sop_of I sigma) (all_keys I)))).
    + apply Permutation_map. apply Permutation_sym. apply all_sops_perm; exact Hnf.
    + rewrite map_map. rewrite (map_ext _ (fun k => k)) by (intros k; apply key_sop_of).
      rewrite map_id. apply all_keys_NoDup.
  - (* job order *)
    intros x y Hx Hy Hj Hp. apply HIn in Hx; [|exact Hnf]. apply HIn in Hy; [|exact Hnf].
    destruct Hx as ([j p] & Hk1 & ->), Hy as ([j' q] & Hk2 & ->). simpl in Hj, Hp. subst j'.
    rewrite (s_end_sop_of I sigma _ Hc Hk1). cbn [sop_of s_start]. apply chain_le; assumption.
  - (* prefix *)
    intros x p Hx Hp. apply HIn in Hx; [|exact Hnf]. destruct Hx as ([j q] & Hk & ->). simpl in Hp.
    exists (sop_of I sigma (j, p)). split; [|reflexivity].
    apply HIn; [exact Hnf|]. exists (j, p). split; [|reflexivity].
    apply (all_keys_below I j p q Hk). lia.
  - (* rows sorted: this is what [check_schedule] checked *)
    intros row Hrow. apply In_nth_error in Hrow. destruct Hrow as [m Hm].
    unfold check_schedule in Hchk. rewrite check_rows_from_spec in Hchk.
    specialize (Hchk m row Hm). apply check_row_spec in Hchk. apply Hchk.
  - (* non-negative starts *)
    intros x Hx. apply HIn in Hx; [|exact Hnf]. destruct Hx as (k & Hk & ->). cbn [sop_of s_start].
    apply (sat_domain_svar I sigma k Hd Hk).
  - (* complete *)
    intros j p o Ho. exists (sop_of I sigma (j, p)). split; [|reflexivity].
    apply HIn; [exact Hnf|]. exists (j, p). split; [|reflexivity]. eapply all_keys_In; exact Ho.
  - (* makespan *)
    unfold makespan. change (fold_right Z.max 0) with maxZ0.
    rewrite (maxZ0_perm _ _ (Permutation_map (s_end I) (all_sops_perm KeyStartEnd I sigma Hnf))).
    destruct (nil_dec (all_keys I)) as [Hnil|Hne].
    { (* no operation: nothing scheduled, and the horizon of the variable is 0 *)
      rewrite (sat_mk_no_ops I sigma Hd Hnil), Hnil. reflexivity. }
    apply maxZ0_eq.
    + intros e He. apply in_map_iff in He. destruct He as (x & <- & Hx).
      apply in_map_iff in Hx. destruct Hx as (k & <- & Hk).
      rewrite (s_end_sop_of I sigma _ Hc Hk). apply (sd_max_le _ _ Hc); exact Hk.
    + destruct (sd_max_ex _ _ Hc Hne) as (k & Hk & ->). rewrite <- (s_end_sop_of I sigma _ Hc Hk).
      apply in_map. apply in_map. exact Hk.
    + apply (sat_domain_mk I sigma Hd).
Qed.

(** ** The rebuild never fails on a satisfying assignment (key (start, end)) *)

Lemma sorted_consecutive I row :
  Sorted (fun a b => key_le I KeyStartEnd a b = true) row -> NoDup row ->
  (forall x y, In x row -> In y row -> x <> y ->
               s_end I x <= s_start y \/ s_end I y <= s_start x) ->
  (forall x, In x row -> s_start x <= s_end I x) ->
  row_sorted I row.
Proof.
  induction row as [|x t IH]; intros Hs Hnd Hdis Hle; [exact Logic.I|].
  destruct t as [|y t']; [exact Logic.I|].
  inversion Hs as [|? ? Hst Hhd]; subst. inversion Hnd as [|? ? Hnx Hnt]; subst.
  split.
  - inversion Hhd as [|? ? Hxy]; subst.
    assert (Hne : x <> y) by (intros ->; apply Hnx; left; reflexivity).
    pose proof (Hdis x y (or_introl eq_refl) (or_intror (or_introl eq_refl)) Hne) as Hd.
    pose proof (Hle x (or_introl eq_refl)) as Hx.
    pose proof (Hle y (or_intror (or_introl eq_refl))) as Hy.
    simpl in Hxy. apply orb_true_iff in Hxy. destruct Hxy as [Hxy|Hxy].
    + apply Z.ltb_lt in Hxy. lia.
    + apply andb_true_iff in Hxy. destruct Hxy as [E1 E2].
      apply Z.eqb_eq in E1. apply Z.leb_le in E2. lia.
  - apply IH; [exact Hst|exact Hnt| |].
    + intros a b Ha Hb. apply Hdis; right; assumption.
    + intros a Ha. apply Hle. right; exact Ha.
Qed.

Lemma sop_of_inj I sigma k1 k2 : sop_of I sigma k1 = sop_of I sigma k2 -> k1 = k2.
Proof. intros H. rewrite <- (key_sop_of I sigma k1), <- (key_sop_of I sigma k2), H. reflexivity. Qed.

Theorem cp_reconstruct_total I sigma :
  valid I -> nonflex I -> sat sigma (cp_encode I) -> exists S, reconstruct I sigma = inl S.
Proof.
  intros Hv Hnf [Hd Hc]. apply sat_cstrs_iff in Hc.
  unfold reconstruct, reconstruct_gen. fold (sorted_rows KeyStartEnd I sigma).
  assert (Hchk : check_schedule I (sorted_rows KeyStartEnd I sigma) = true).
  { unfold check_schedule. apply check_rows_from_spec. intros m row Hn. simpl.
    apply nth_row in Hn. destruct Hn as [Hm ->]. apply check_row_spec. split.
    - intros x Hx. apply In_row in Hx. destruct Hx as (k & Hk & ->). apply keys_on_In in Hk. apply Hk.
    - apply sorted_consecutive.
      + apply sort_by_sorted. apply key_le_total.
      + apply (Permutation_NoDup (Permutation_sym (sort_by_perm _ _))).
        apply NoDup_map_inj; [|apply keys_on_NoDup]. intros a b _ _. apply sop_of_inj.
      + intros x y Hx Hy Hne. apply In_row in Hx. apply In_row in Hy.
        destruct Hx as (k1 & Hk1 & ->), Hy as (k2 & Hk2 & ->).
        assert (Hk12 : k1 <> k2) by (intros ->; apply Hne; reflexivity).
        pose proof (proj1 (proj1 (keys_on_In I m k1) Hk1)) as Hin1.
        pose proof (proj1 (proj1 (keys_on_In I m k2) Hk2)) as Hin2.
        rewrite (s_end_sop_of I sigma _ Hc Hin1), (s_end_sop_of I sigma _ Hc Hin2). cbn [sop_of s_start].
        destruct (FOP_map_In (disjoint sigma) (iv I) (keys_on I m) k1 k2
                    (sd_noov _ _ Hc m Hm) (keys_on_NoDup I m) Hk1 Hk2 Hk12) as [H|H];
          unfold disjoint, iv in H; simpl in H; tauto.
      + intros x Hx. apply In_row in Hx. destruct Hx as (k & Hk & ->).
        apply keys_on_In in Hk. destruct Hk as [Hk _].
        rewrite (s_end_sop_of I sigma _ Hc Hk). cbn [sop_of s_start].
        pose proof (sd_end _ _ Hc k Hk). pose proof (kdur_nonneg I k Hv). lia. }
  rewrite Hchk. eexists; reflexivity.
Qed.

(** ** Completeness: every feasible complete schedule within the horizon is a
    satisfying assignment with its makespan as objective *)

Definition find_sop (S : schedule) (k : nat * nat) : option sop :=
  find (fun x => eqb_key (key x) k) (all_sops S).

Definition sigma_of (I : instance) (S : schedule) : assignment := fun v =>
  if (v =? mkvar I)%nat then makespan I S
  else match nth_error (all_keys I) (Nat.div2 v) with
       | Some k => match find_sop S k with
                   | Some x => if Nat.even v then s_start x else s_end I x
                   | None => 0
                   end
       | None => 0
       end.

Lemma find_sop_some I (S : schedule) k :
  complete I S -> In k (all_keys I) ->
  exists x, find_sop S k = Some x /\ In x (all_sops S) /\ key x = k.
Proof.
  intros Hc Hk. apply all_keys_In_iff in Hk. destruct Hk as [o Ho]. destruct k as [j p].
  destruct (Hc j p o Ho) as (x & Hx & Hkx).
  unfold find_sop. destruct (find (fun x0 => eqb_key (key x0) (j, p)) (all_sops S)) as [x'|] eqn:E.
  - exists x'. apply find_some in E. destruct E as [Hin Hk']. apply eqb_key_eq in Hk'. auto.
  - exfalso. pose proof (find_none _ _ E x Hx) as Hn. simpl in Hn.
    rewrite Hkx in Hn. assert (eqb_key (j, p) (j, p) = true) by (apply eqb_key_eq; reflexivity). congruence.
Qed.

Lemma even_double n : Nat.even (2 * n) = true.
Proof. rewrite Nat.even_mul. reflexivity. Qed.
Lemma even_succ_double n : Nat.even (Datatypes.S (2 * n)) = false.
Proof. rewrite Nat.even_succ. rewrite Nat.odd_mul. reflexivity. Qed.

Lemma sigma_of_svar I (S : schedule) k x :
  In k (all_keys I) -> find_sop S k = Some x -> sigma_of I S (svar I k) = s_start x.
Proof.
  intros Hk Hf. unfold sigma_of, svar. pose proof (op_id_lt I k Hk) as Hlt.
  destruct (Nat.eqb_spec (2 * op_id I (fst k) (snd k)) (mkvar I)) as [E|_]; [unfold mkvar in E; lia|].
  rewrite Nat.div2_double, (op_id_nth I k Hk), Hf, even_double. reflexivity.
Qed.

Lemma sigma_of_evar I (S : schedule) k x :
  In k (all_keys I) -> find_sop S k = Some x -> sigma_of I S (evar I k) = s_end I x.
Proof.
  intros Hk Hf. unfold sigma_of, evar, svar. pose proof (op_id_lt I k Hk) as Hlt.
  destruct (Nat.eqb_spec (Datatypes.S (2 * op_id I (fst k) (snd k))) (mkvar I)) as [E|_]; [unfold mkvar in E; lia|].
  rewrite Nat.div2_succ_double, (op_id_nth I k Hk), Hf, even_succ_double. reflexivity.
Qed.

Lemma sigma_of_mk I (S : schedule) : sigma_of I S (mkvar I) = makespan I S.
Proof. unfold sigma_of. rewrite Nat.eqb_refl. reflexivity. Qed.

Lemma s_end_ge_start I (S : schedule) x : valid I -> feasible I S -> In x (all_sops S) -> s_start x <= s_end I x.
Proof.
  intros Hv Hf Hx. destruct (f_exists _ _ Hf x Hx) as (o & Ho & _).
  unfold s_end, dur. rewrite Ho. pose proof (Hv _ _ _ Ho). lia.
Qed.

Lemma s_end_le_makespan I (S : schedule) x : In x (all_sops S) -> s_end I x <= makespan I S.
Proof. intros Hx. unfold makespan. change (fold_right Z.max 0) with maxZ0. apply maxZ0_ge. apply in_map; exact Hx. Qed.

Lemma makespan_nonneg I (S : schedule) : 0 <= makespan I S.
Proof. unfold makespan. change (fold_right Z.max 0) with maxZ0. apply maxZ0_nonneg. Qed.

(** Within a sorted row any two elements are ordered. *)
Lemma row_sorted_head I x t y :
  row_sorted I (x :: t) -> (forall z, In z (x :: t) -> s_start z <= s_end I z) -> In y t -> s_end I x <= s_start y.
Proof.
  revert x. induction t as [|a t IH]; intros x Hs Hle Hy; [destruct Hy|].
  simpl in Hs. destruct Hs as [Hxa Hs]. destruct Hy as [<-|Hy]; [exact Hxa|].
  assert (s_end I a <= s_start y).
  { apply IH; [exact Hs| |exact Hy]. intros z Hz. apply Hle. right; exact Hz. }
  pose proof (Hle a (or_intror (or_introl eq_refl))). lia.
Qed.

Lemma row_sorted_pairwise I row x y :
  row_sorted I row -> (forall z, In z row -> s_start z <= s_end I z) -> In x row -> In y row ->
  x = y \/ s_end I x <= s_start y \/ s_end I y <= s_start x.
Proof.
  induction row as [|a t IH]; intros Hs Hle Hx Hy; [destruct Hx|].
  assert (Hs' : row_sorted I t) by (destruct t; [exact Logic.I|apply Hs]).
  assert (Hle' : forall z, In z t -> s_start z <= s_end I z) by (intros z Hz; apply Hle; right; exact Hz).
  destruct Hx as [<-|Hx], Hy as [<-|Hy].
  - left; reflexivity.
  - right; left. eapply row_sorted_head; eauto.
  - right; right. eapply row_sorted_head; eauto.
  - apply IH; assumption.
Qed.

Lemma same_row I (S : schedule) x y :
  feasible I S -> In x (all_sops S) -> In y (all_sops S) -> s_mach x = s_mach y ->
  exists row, In row S /\ In x row /\ In y row.
Proof.
  intros Hf Hx Hy Hm. unfold all_sops in *.
  apply In_concat_nth_error in Hx. apply In_concat_nth_error in Hy.
  destruct Hx as (m1 & r1 & Hn1 & Hx), Hy as (m2 & r2 & Hn2 & Hy).
  pose proof (f_row _ _ Hf _ _ _ Hn1 Hx). pose proof (f_row _ _ Hf _ _ _ Hn2 Hy).
  assert (E : m1 = m2) by congruence. rewrite E in Hn1. rewrite Hn1 in Hn2. inversion Hn2; subst r2.
  exists r1. split; [eapply nth_error_In; eauto|auto].
Qed.

Theorem cp_complete I (S : schedule) :
  valid I -> nonflex I ->
  feasible I S -> complete I S -> makespan I S <= total_duration I ->
  sat (sigma_of I S) (cp_encode I) /\ objective (sigma_of I S) (cp_encode I) = makespan I S.
Proof.
  intros Hv Hnf Hf Hc Hmk.
  assert (Hbounds : forall x, In x (all_sops S) ->
            0 <= s_start x /\ s_start x <= s_end I x /\ s_end I x <= total_duration I).
  { intros x Hx. pose proof (f_nonneg _ _ Hf x Hx). pose proof (s_end_ge_start I S x Hv Hf Hx).
    pose proof (s_end_le_makespan I S x Hx). lia. }
  split; [split|].
  - (* domains *)
    intros i lo hi Hn. apply nth_error_In in Hn. apply encode_vars_all in Hn. inversion Hn; subst. clear Hn.
    unfold sigma_of. destruct (i =? mkvar I)%nat; [pose proof (makespan_nonneg I S); lia|].
    pose proof (makespan_nonneg I S) as H0.
    destruct (nth_error (all_keys I) (Nat.div2 i)) as [k|]; [|lia].
    unfold find_sop. destruct (find (fun x => eqb_key (key x) k) (all_sops S)) as [x|] eqn:E; [|lia].
    apply find_some in E. destruct E as [Hx _]. specialize (Hbounds x Hx).
    destruct (Nat.even i); lia.
  - (* constraints *)
    apply sat_cstrs_iff. constructor.
    + intros k Hk. destruct (find_sop_some I S k Hc Hk) as (x & Hfx & Hx & Hkx).
      rewrite (sigma_of_evar I S k x Hk Hfx), (sigma_of_svar I S k x Hk Hfx).
      unfold s_end. rewrite dur_is_kdur, Hkx. reflexivity.
    + intros j p Hk. pose proof (all_keys_pred _ _ _ Hk) as Hk'.
      destruct (find_sop_some I S _ Hc Hk) as (y & Hfy & Hy & Hky).
      destruct (find_sop_some I S _ Hc Hk') as (x & Hfx & Hx & Hkx).
      rewrite (sigma_of_evar I S _ x Hk' Hfx), (sigma_of_svar I S _ y Hk Hfy).
      unfold key in Hkx, Hky. inversion Hkx. inversion Hky.
      apply (f_job _ _ Hf x y Hx Hy); [congruence|lia].
    + intros m Hm. apply FOP_map_intro; [apply keys_on_NoDup|].
      intros a b Ha Hb Hne. apply keys_on_In in Ha. apply keys_on_In in Hb.
      destruct Ha as [Ha Hma], Hb as [Hb Hmb].
      destruct (find_sop_some I S _ Hc Ha) as (x & Hfx & Hx & Hkx).
      destruct (find_sop_some I S _ Hc Hb) as (y & Hfy & Hy & Hky).
      unfold disjoint, iv. cbn [fst snd].
      rewrite (sigma_of_evar I S _ x Ha Hfx), (sigma_of_svar I S _ x Ha Hfx),
              (sigma_of_evar I S _ y Hb Hfy), (sigma_of_svar I S _ y Hb Hfy).
      assert (Hmach : forall z k, In z (all_sops S) -> key z = k -> In k (all_keys I) -> s_mach z = kmach I k).
      { intros z k Hz Hkz Hk. destruct (f_exists _ _ Hf z Hz) as (o & Ho & Hin).
        assert (Hko : kop I k = Some o) by (rewrite <- Hkz; exact Ho).
        rewrite (kmach_spec I k o Hnf Hko) in Hin. destruct Hin as [Hin|[]]. symmetry; exact Hin. }
      assert (Hsame : s_mach x = s_mach y).
      { rewrite (Hmach x a Hx Hkx Ha), (Hmach y b Hy Hky Hb). congruence. }
      destruct (same_row I S x y Hf Hx Hy Hsame) as (row & Hrow & Hxr & Hyr).
      destruct (row_sorted_pairwise I row x y (f_machine _ _ Hf row Hrow)) as [E|H]; auto.
      * intros z Hz. apply (s_end_ge_start I S z Hv Hf). unfold all_sops. apply in_concat. eauto.
      * exfalso. apply Hne. rewrite <- Hkx, <- Hky, E. reflexivity.
    + intros k Hk. destruct (find_sop_some I S k Hc Hk) as (x & Hfx & Hx & _).
      rewrite (sigma_of_evar I S k x Hk Hfx), sigma_of_mk. apply s_end_le_makespan; exact Hx.
    + (* the maximum is attained (when there is an operation) *)
      intros Hne0.
      assert (Hne : map (s_end I) (all_sops S) <> []).
      { destruct (all_keys I) as [|k0 t] eqn:Ek.
        - exfalso. apply Hne0. reflexivity.
        - assert (Hk0 : In k0 (all_keys I)) by (rewrite Ek; left; reflexivity).
          destruct (find_sop_some I S k0 Hc Hk0) as (x & _ & Hx & _).
          intros Hnil. apply (in_map (s_end I)) in Hx. rewrite Hnil in Hx. destruct Hx. }
      assert (Hatt : In (makespan I S) (map (s_end I) (all_sops S))).
      { unfold makespan. change (fold_right Z.max 0) with maxZ0. apply maxZ0_attained; [exact Hne|].
        intros e He. apply in_map_iff in He. destruct He as (x & <- & Hx). specialize (Hbounds x Hx). lia. }
      apply in_map_iff in Hatt. destruct Hatt as (x & Hex & Hx).
      destruct (f_exists _ _ Hf x Hx) as (o & Ho & _).
      assert (Hk : In (key x) (all_keys I)) by (eapply all_keys_In; exact Ho).
      destruct (find_sop_some I S _ Hc Hk) as (x' & Hfx' & Hx' & Hkx').
      assert (x' = x) by (apply (NoDup_key_unique key (all_sops S)); [apply (f_once _ _ Hf)|assumption..]).
      subst x'. exists (key x). split; [exact Hk|].
      rewrite (sigma_of_evar I S _ x Hk Hfx'), sigma_of_mk. symmetry; exact Hex.
  - unfold objective. rewrite encode_obj. apply sigma_of_mk.
Qed.

(** ** The constraint set always has a solution (one operation after the
    other, in job-major order) *)

Definition pre (l : list Z) (q : nat) : Z := sumZ (firstn q l).

Lemma pre_S l q : pre l (Datatypes.S q) = pre l q + nth q l 0.
Proof.
  unfold pre, sumZ. revert q. induction l as [|a t IH]; intros q.
  - destruct q; reflexivity.
  - destruct q as [|q]; [cbn; lia|].
    rewrite !firstn_cons. cbn [fold_right nth]. rewrite IH. lia.
Qed.

Lemma pre_nonneg l q : (forall x, In x l -> 0 <= x) -> 0 <= pre l q.
Proof.
  unfold pre. revert q. induction l as [|a t IH]; intros q H; [destruct q; simpl; lia|].
  destruct q as [|q]; simpl; [lia|].
  pose proof (H a (or_introl eq_refl)). specialize (IH q (fun x Hx => H x (or_intror Hx))). lia.
Qed.

Lemma pre_mono l q1 q2 : (forall x, In x l -> 0 <= x) -> (q1 <= q2)%nat -> pre l q1 <= pre l q2.
Proof.
  intros H Hle. induction Hle as [|q2 Hle IH]; [lia|].
  rewrite pre_S. assert (0 <= nth q2 l 0).
  { destruct (Nat.lt_ge_cases q2 (length l)) as [Hlt|Hge].
    - apply H. apply nth_In; exact Hlt.
    - rewrite nth_overflow by exact Hge. lia. }
  lia.
Qed.

Lemma pre_le_total l q : (forall x, In x l -> 0 <= x) -> pre l q <= sumZ l.
Proof.
  intros H. destruct (Nat.le_ge_cases q (length l)) as [Hle|Hge].
  - replace (sumZ l) with (pre l (length l)) by (unfold pre; rewrite firstn_all; reflexivity).
    apply pre_mono; assumption.
  - unfold pre. rewrite firstn_all2 by exact Hge. lia.
Qed.

Definition durs (I : instance) : list Z := map (kdur I) (all_keys I).

Definition sigma_seq0 (I : instance) : assignment := fun v =>
  pre (durs I) (Nat.div2 v) + (if Nat.even v then 0 else nth (Nat.div2 v) (durs I) 0).
Definition sigma_seq (I : instance) : assignment := fun v =>
  if (v =? mkvar I)%nat then maxZ0 (map (fun k => sigma_seq0 I (evar I k)) (all_keys I))
  else sigma_seq0 I v.

Lemma durs_nonneg I : valid I -> forall x, In x (durs I) -> 0 <= x.
Proof. intros Hv x Hx. unfold durs in Hx. apply in_map_iff in Hx. destruct Hx as (k & <- & _). apply kdur_nonneg; exact Hv. Qed.

Lemma durs_nth I k : In k (all_keys I) -> nth (op_id I (fst k) (snd k)) (durs I) 0 = kdur I k.
Proof.
  intros Hk. apply op_id_nth in Hk. unfold durs.
  apply (map_nth_error (kdur I)) in Hk. apply nth_error_nth. exact Hk.
Qed.

Lemma sigma_seq0_svar I k : sigma_seq0 I (svar I k) = pre (durs I) (op_id I (fst k) (snd k)).
Proof. unfold sigma_seq0, svar. rewrite Nat.div2_double, even_double. lia. Qed.

Lemma sigma_seq0_evar I k : In k (all_keys I) ->
  sigma_seq0 I (evar I k) = pre (durs I) (Datatypes.S (op_id I (fst k) (snd k))).
Proof.
  intros Hk. unfold sigma_seq0, evar, svar.
  rewrite Nat.div2_succ_double, even_succ_double, pre_S. reflexivity.
Qed.

Lemma sigma_seq_svar I k : In k (all_keys I) -> sigma_seq I (svar I k) = pre (durs I) (op_id I (fst k) (snd k)).
Proof.
  intros Hk. unfold sigma_seq. pose proof (op_id_lt I k Hk).
  destruct (Nat.eqb_spec (svar I k) (mkvar I)) as [E|_]; [unfold svar, mkvar in E; lia|].
  apply sigma_seq0_svar.
Qed.

Lemma sigma_seq_evar I k : In k (all_keys I) ->
  sigma_seq I (evar I k) = pre (durs I) (Datatypes.S (op_id I (fst k) (snd k))).
Proof.
  intros Hk. unfold sigma_seq.
  destruct (Nat.eqb_spec (evar I k) (mkvar I)) as [E|_]; [unfold evar, svar, mkvar in E; lia|].
  apply sigma_seq0_evar; exact Hk.
Qed.

Lemma maxZ0_le l c : (forall x, In x l -> x <= c) -> 0 <= c -> maxZ0 l <= c.
Proof.
  unfold maxZ0. intros H H0. induction l as [|a t IH]; simpl; [exact H0|].
  apply Z.max_lub; [apply H; left; reflexivity|]. apply IH. intros x Hx. apply H. right; exact Hx.
Qed.

Lemma total_duration_nonneg I : valid I -> 0 <= total_duration I.
Proof.
  intros Hv. rewrite <- sumZ_durations. fold (durs I).
  replace (sumZ (durs I)) with (pre (durs I) (length (durs I))) by (unfold pre; rewrite firstn_all; reflexivity).
  apply pre_nonneg. apply durs_nonneg; exact Hv.
Qed.

Theorem cp_satisfiable I :
  valid I -> nonflex I -> sat (sigma_seq I) (cp_encode I).
Proof.
  intros Hv Hnf. pose proof (durs_nonneg I Hv) as Hnn.
  assert (Htot : sumZ (durs I) = total_duration I) by apply sumZ_durations.
  assert (H0 : forall v, 0 <= sigma_seq0 I v <= total_duration I).
  { intros v. unfold sigma_seq0. rewrite <- Htot. destruct (Nat.even v).
    - pose proof (pre_nonneg (durs I) (Nat.div2 v) Hnn). pose proof (pre_le_total (durs I) (Nat.div2 v) Hnn). lia.
    - rewrite <- pre_S. pose proof (pre_nonneg (durs I) (Datatypes.S (Nat.div2 v)) Hnn).
      pose proof (pre_le_total (durs I) (Datatypes.S (Nat.div2 v)) Hnn). lia. }
  split.
  - intros i lo hi Hn. apply nth_error_In in Hn. apply encode_vars_all in Hn. inversion Hn; subst.
    unfold sigma_seq. destruct (i =? mkvar I)%nat; [|apply H0].
    split; [apply maxZ0_nonneg|]. apply maxZ0_le; [|apply total_duration_nonneg; exact Hv].
    intros x Hx. apply in_map_iff in Hx. destruct Hx as (k & <- & _). apply H0.
  - apply sat_cstrs_iff. constructor.
    + intros k Hk. rewrite (sigma_seq_evar I k Hk), (sigma_seq_svar I k Hk), pre_S, (durs_nth I k Hk). reflexivity.
    + intros j p Hk. pose proof (all_keys_pred _ _ _ Hk) as Hk'.
      rewrite (sigma_seq_evar I _ Hk'), (sigma_seq_svar I _ Hk). cbn [fst snd].
      replace (op_id I j (Datatypes.S p)) with (Datatypes.S (op_id I j p)) by (unfold op_id; lia). lia.
    + intros m Hm. apply FOP_map_intro; [apply keys_on_NoDup|].
      intros a b Ha Hb Hne. apply keys_on_In in Ha. apply keys_on_In in Hb.
      destruct Ha as [Ha _], Hb as [Hb _]. unfold disjoint, iv. cbn [fst snd].
      rewrite (sigma_seq_evar I a Ha), (sigma_seq_svar I a Ha), (sigma_seq_evar I b Hb), (sigma_seq_svar I b Hb).
      assert (Hid : op_id I (fst a) (snd a) <> op_id I (fst b) (snd b)).
      { intros E. apply Hne. apply (op_id_inj I); assumption. }
      destruct (Nat.lt_ge_cases (op_id I (fst a) (snd a)) (op_id I (fst b) (snd b))) as [Hlt|Hge].
      * left. apply pre_mono; [exact Hnn|lia].
      * right. apply pre_mono; [exact Hnn|lia].
    + intros k Hk. unfold sigma_seq at 2. rewrite Nat.eqb_refl.
      rewrite (sigma_seq_evar I k Hk), <- (sigma_seq0_evar I k Hk).
      apply maxZ0_ge. apply (in_map (fun k0 => sigma_seq0 I (evar I k0))). exact Hk.
    + intros Hne0.
      assert (Hatt : In (sigma_seq I (mkvar I)) (map (fun k => sigma_seq0 I (evar I k)) (all_keys I))).
      { unfold sigma_seq. rewrite Nat.eqb_refl. apply maxZ0_attained.
        - intros Hnil. apply map_eq_nil in Hnil. apply Hne0. exact Hnil.
        - intros x Hx. apply in_map_iff in Hx. destruct Hx as (k & <- & _). apply H0. }
      apply in_map_iff in Hatt. destruct Hatt as (k & Hk & Hin). exists k. split; [exact Hin|].
      rewrite <- Hk. rewrite (sigma_seq_evar I k Hin), (sigma_seq0_evar I k Hin). reflexivity.
Qed.

(** ** Lower bounds for every feasible complete schedule *)

Lemma get_op_get_job I j p : get_op I j p = nth_error (get_job I j) p.
Proof.
  unfold get_op, get_job. destruct (nth_error I j) as [job|] eqn:E.
  - rewrite (nth_error_nth _ _ _ E). reflexivity.
  - rewrite nth_overflow by (apply nth_error_None; exact E). destruct p; reflexivity.
Qed.

Theorem job_length_bound I (S : schedule) j :
  valid I -> feasible I S -> complete I S -> sumZ (map duration (get_job I j)) <= makespan I S.
Proof.
  intros Hv Hf Hc. set (job := get_job I j).
  assert (Hstep : forall p, (p < length job)%nat ->
            exists x, In x (all_sops S) /\ key x = (j, p) /\
                      pre (map duration job) (Datatypes.S p) <= s_end I x).
  { induction p as [|p IH]; intros Hp.
    - destruct (nth_error job 0) as [o|] eqn:Eo; [|apply nth_error_None in Eo; lia].
      assert (Ho : get_op I j 0 = Some o) by (rewrite get_op_get_job; exact Eo).
      destruct (Hc _ _ _ Ho) as (x & Hx & Hk). exists x. split; [exact Hx|split; [exact Hk|]].
      rewrite pre_S. unfold pre. simpl.
      assert (Hd : nth 0 (map duration job) 0 = duration o).
      { apply nth_error_nth. apply map_nth_error. exact Eo. }
      rewrite Hd. unfold s_end, dur. unfold key in Hk. inversion Hk as [[Hj Hpos]]. rewrite Hj, Hpos, Ho.
      pose proof (f_nonneg _ _ Hf x Hx). lia.
    - destruct IH as (x & Hx & Hkx & Hle); [lia|].
      destruct (nth_error job (Datatypes.S p)) as [o|] eqn:Eo; [|apply nth_error_None in Eo; lia].
      assert (Ho : get_op I j (Datatypes.S p) = Some o) by (rewrite get_op_get_job; exact Eo).
      destruct (Hc _ _ _ Ho) as (y & Hy & Hky). exists y. split; [exact Hy|split; [exact Hky|]].
      rewrite pre_S.
      assert (Hd : nth (Datatypes.S p) (map duration job) 0 = duration o).
      { apply nth_error_nth. apply map_nth_error. exact Eo. }
      rewrite Hd. unfold key in Hkx, Hky. inversion Hkx as [[Hj1 Hp1]]. inversion Hky as [[Hj2 Hp2]].
      assert (Hxy : s_end I x <= s_start y) by (apply (f_job _ _ Hf x y Hx Hy); [congruence|lia]).
      unfold s_end at 1. unfold dur. rewrite Hj2, Hp2, Ho. rewrite ?Hp1. lia. }
  destruct (length job) as [|n] eqn:El.
  - apply length_zero_iff_nil in El. rewrite El. simpl. apply makespan_nonneg.
  - destruct (Hstep n) as (x & Hx & _ & Hle); [lia|].
    replace (sumZ (map duration job)) with (pre (map duration job) (Datatypes.S n)).
    + pose proof (s_end_le_makespan I S x Hx). lia.
    + unfold pre. rewrite firstn_all2; [reflexivity|]. rewrite map_length. lia.
Qed.

Lemma sum_incl_le {A} (f : A -> Z) (l l' : list A) :
  NoDup l -> incl l l' -> (forall x, In x l' -> 0 <= f x) -> sumZ (map f l) <= sumZ (map f l').
Proof.
  revert l'. induction l as [|a t IH]; intros l' Hnd Hinc Hnn.
  - simpl. clear Hinc. induction l' as [|b t' IH']; simpl; [lia|].
    pose proof (Hnn b (or_introl eq_refl)). specialize (IH' (fun x Hx => Hnn x (or_intror Hx))). lia.
  - inversion Hnd as [|? ? Hna Hnt]; subst.
    assert (Ha : In a l') by (apply Hinc; left; reflexivity).
    apply in_split in Ha. destruct Ha as (l1 & l2 & ->).
    assert (Hinc' : incl t (l1 ++ l2)).
    { intros x Hx. assert (Hx' : In x (l1 ++ a :: l2)) by (apply Hinc; right; exact Hx).
      apply in_app_iff in Hx'. apply in_app_iff. destruct Hx' as [H|[H|H]]; auto. subst x. contradiction. }
    assert (Hnn' : forall x, In x (l1 ++ l2) -> 0 <= f x).
    { intros x Hx. apply Hnn. apply in_app_iff in Hx. apply in_app_iff. destruct Hx; [left|right; right]; assumption. }
    specialize (IH (l1 ++ l2) Hnt Hinc' Hnn').
    rewrite !map_app, !sumZ_app in *. simpl. lia.
Qed.

Lemma row_sum_le I row t0 :
  row_sorted I row -> row <> [] ->
  (match row with x :: _ => t0 <= s_start x | [] => True end) ->
  t0 + sumZ (map (dur I) row) <= maxZ0 (map (s_end I) row).
Proof.
  revert t0. induction row as [|x t IH]; intros t0 Hs Hne Hhd; [congruence|].
  destruct t as [|y t'].
  - simpl. unfold maxZ0. simpl. unfold s_end. lia.
  - simpl in Hs. destruct Hs as [Hxy Hs].
    specialize (IH (s_end I x) Hs ltac:(discriminate) Hxy).
    change (map (dur I) (x :: y :: t')) with (dur I x :: map (dur I) (y :: t')).
    change (map (s_end I) (x :: y :: t')) with (s_end I x :: map (s_end I) (y :: t')).
    unfold maxZ0, sumZ in *. cbn [fold_right] in *. unfold s_end in *. lia.
Qed.

Theorem machine_load_bound I (S : schedule) m :
  valid I -> nonflex I -> feasible I S -> complete I S -> machine_load I m <= makespan I S.
Proof.
  intros Hv Hnf Hf Hc. unfold machine_load. set (row := nth m S []).
  assert (Hinc : incl (keys_on I m) (map key row)).
  { intros k Hk. apply keys_on_In in Hk. destruct Hk as [Hk Hm].
    apply all_keys_In_iff in Hk. destruct Hk as [o Ho]. destruct k as [j p].
    destruct (Hc j p o Ho) as (x & Hx & Hkx).
    destruct (f_exists _ _ Hf x Hx) as (o' & Ho' & Hin).
    assert (Hko : kop I (j, p) = Some o') by (rewrite <- Hkx; exact Ho').
    rewrite (kmach_spec I (j, p) o' Hnf Hko) in Hin. destruct Hin as [Hin|[]].
    unfold all_sops in Hx. apply In_concat_nth_error in Hx. destruct Hx as (m' & r & Hn & Hxr).
    pose proof (f_row _ _ Hf _ _ _ Hn Hxr) as Hm'.
    assert (E : m' = m) by congruence. rewrite E in Hn.
    unfold row. rewrite (nth_error_nth _ _ _ Hn). rewrite <- Hkx. apply in_map; exact Hxr. }
  assert (Hle1 : sumZ (map (kdur I) (keys_on I m)) <= sumZ (map (kdur I) (map key row))).
  { apply sum_incl_le; [apply keys_on_NoDup|exact Hinc|]. intros k _. apply kdur_nonneg; exact Hv. }
  rewrite map_map in Hle1. rewrite (map_ext _ (dur I)) in Hle1 by (intros x; symmetry; apply dur_is_kdur).
  destruct row as [|x0 t0] eqn:Er.
  - simpl in Hle1. pose proof (makespan_nonneg I S). lia.
  - assert (Hrow : In (x0 :: t0) S).
    { unfold row in Er. destruct (nth_error S m) as [r|] eqn:En.
      - rewrite (nth_error_nth _ _ _ En) in Er. subst r. eapply nth_error_In; exact En.
      - rewrite nth_overflow in Er by (apply nth_error_None; exact En). discriminate. }
    assert (Hx0 : In x0 (all_sops S)) by (unfold all_sops; apply in_concat; exists (x0 :: t0); split; [exact Hrow|left; reflexivity]).
    pose proof (row_sum_le I (x0 :: t0) 0 (f_machine _ _ Hf _ Hrow) ltac:(discriminate) (f_nonneg _ _ Hf x0 Hx0)) as Hle2.
    assert (Hle3 : maxZ0 (map (s_end I) (x0 :: t0)) <= makespan I S).
    { apply maxZ0_le; [|apply makespan_nonneg]. intros e He. apply in_map_iff in He.
      destruct He as (z & <- & Hz). apply s_end_le_makespan. unfold all_sops. apply in_concat. eauto. }
    lia.
Qed.

Theorem lower_bound_le I (S : schedule) :
  valid I -> nonflex I -> feasible I S -> complete I S -> lower_bound I <= makespan I S.
Proof.
  intros Hv Hnf Hf Hc. unfold lower_bound. apply Z.max_lub.
  - apply maxZ0_le; [|apply makespan_nonneg]. intros x Hx. unfold job_durations in Hx.
    apply in_map_iff in Hx. destruct Hx as (job & <- & Hjob). apply In_nth_error in Hjob.
    destruct Hjob as [j Hj]. replace job with (get_job I j) by (unfold get_job; apply nth_error_nth; exact Hj).
    apply job_length_bound; assumption.
  - apply maxZ0_le; [|apply makespan_nonneg]. intros x Hx. apply in_map_iff in Hx.
    destruct Hx as (m & <- & _). apply machine_load_bound; assumption.
Qed.

(** ** Optimality under the solver contract *)

Theorem cp_opt I sigma :
  valid I -> nonflex I ->
  sat sigma (cp_encode I) ->
  (forall tau, sat tau (cp_encode I) -> objective sigma (cp_encode I) <= objective tau (cp_encode I)) ->
  exists S, reconstruct I sigma = inl S /\ feasible I S /\ complete I S /\
            makespan I S = sigma (mkvar I) /\ is_opt I (makespan I S).
Proof.
  intros Hv Hnf Hsat Hmin.
  destruct (cp_reconstruct_total I sigma Hv Hnf Hsat) as [S HS].
  destruct (cp_sound I sigma S Hv Hnf Hsat HS) as (Hf & Hc & Hmk).
  exists S. split; [exact HS|]. split; [exact Hf|]. split; [exact Hc|]. split; [exact Hmk|]. split.
  - exists S. auto.
  - intros S' Hf' Hc'. rewrite Hmk.
    destruct (Z.le_gt_cases (makespan I S') (total_duration I)) as [Hle|Hgt].
    + destruct (cp_complete I S' Hv Hnf Hf' Hc' Hle) as [Hsat' Hobj].
      specialize (Hmin _ Hsat'). rewrite Hobj in Hmin. unfold objective in Hmin. rewrite encode_obj in Hmin. exact Hmin.
    + destruct Hsat as [Hd _]. pose proof (sat_domain_mk I sigma Hd). lia.
Qed.

(** The horizon does not cut off the optimum. *)
Theorem cp_horizon I c :
  valid I -> nonflex I -> is_opt I c -> c <= total_duration I.
Proof.
  intros Hv Hnf [_ Hmin].
  pose proof (cp_satisfiable I Hv Hnf) as Hsat.
  destruct (cp_reconstruct_total I _ Hv Hnf Hsat) as [S HS].
  destruct (cp_sound I _ S Hv Hnf Hsat HS) as (Hf & Hc & Hmk).
  specialize (Hmin S Hf Hc). destruct Hsat as [Hd _]. pose proof (sat_domain_mk I _ Hd). lia.
Qed.

(** ** An instance without operations ([JobShopInstance([])], [[[]]], ...):
    the model has the makespan variable with domain [0, 0] and no constraint;
    every satisfying assignment rebuilds into the schedule without machine
    rows, whose makespan 0 is the optimum. *)

Lemma no_ops_get_op I j p : num_ops I = 0%nat -> get_op I j p = None.
Proof.
  intros Hn. destruct (get_op I j p) as [o|] eqn:E; [|reflexivity].
  apply all_keys_In in E. apply all_keys_nil_iff in Hn. rewrite Hn in E. destruct E.
Qed.

Lemma no_ops_valid I : num_ops I = 0%nat -> valid I.
Proof. intros Hn j p o Ho. rewrite (no_ops_get_op I j p Hn) in Ho. discriminate. Qed.

Lemma no_ops_nonflex I : num_ops I = 0%nat -> nonflex I.
Proof. intros Hn j p o Ho. rewrite (no_ops_get_op I j p Hn) in Ho. discriminate. Qed.

Lemma no_ops_num_machines I : num_ops I = 0%nat -> num_machines I = 0%nat.
Proof.
  unfold num_ops, num_machines. intros Hn. apply length_zero_iff_nil in Hn. rewrite Hn. reflexivity.
Qed.

Lemma no_ops_complete I (S : schedule) : num_ops I = 0%nat -> complete I S.
Proof. intros Hn j p o Ho. rewrite (no_ops_get_op I j p Hn) in Ho. discriminate. Qed.

Lemma feasible_nil I : feasible I [].
Proof.
  constructor.
  - intros x [].
  - intros m row x Hn. destruct m; discriminate.
  - constructor.
  - intros x y [].
  - intros x p [].
  - intros row [].
  - intros x [].
Qed.

Lemma no_ops_is_opt I : num_ops I = 0%nat -> is_opt I 0.
Proof.
  intros Hn. split.
  - exists []. split; [apply feasible_nil|]. split; [apply no_ops_complete; exact Hn|reflexivity].
  - intros S _ _. apply makespan_nonneg.
Qed.

Lemma no_ops_reconstruct I sigma : num_ops I = 0%nat -> reconstruct I sigma = inl [].
Proof.
  intros Hn. unfold reconstruct, reconstruct_gen, unsorted_rows.
  rewrite (no_ops_num_machines I Hn). reflexivity.
Qed.

Theorem cp_no_ops I :
  num_ops I = 0%nat ->
  sat (sigma_seq I) (cp_encode I) /\
  (forall sigma, sat sigma (cp_encode I) ->
     sigma (mkvar I) = 0 /\
     exists S, reconstruct I sigma = inl S /\ S = [] /\
               feasible I S /\ complete I S /\ makespan I S = 0) /\
  is_opt I 0.
Proof.
  intros Hn. pose proof (no_ops_valid I Hn) as Hv. pose proof (no_ops_nonflex I Hn) as Hnf.
  split; [apply cp_satisfiable; assumption|]. split; [|apply no_ops_is_opt; exact Hn].
  intros sigma Hsat.
  assert (Hmk : sigma (mkvar I) = 0).
  { destruct Hsat as [Hd _]. apply (sat_mk_no_ops I sigma Hd). apply all_keys_nil_iff; exact Hn. }
  split; [exact Hmk|]. exists []. split; [apply no_ops_reconstruct; exact Hn|]. split; [reflexivity|].
  split; [apply feasible_nil|]. split; [apply no_ops_complete; exact Hn|reflexivity].
Qed.

(** ** Brute force over dispatch histories: what it returns is the makespan
    of a feasible complete schedule *)

Lemma min_opt_In l c : min_opt l = Some c -> In (Some c) l.
Proof.
  revert c. induction l as [|[x|] t IH]; intros c H; simpl in H; [discriminate| |right; apply IH; exact H].
  destruct (min_opt t) as [y|] eqn:E.
  - inversion H; subst. destruct (Z.min_spec x y) as [[_ ->]|[_ ->]]; [left; reflexivity|right; apply IH; reflexivity].
  - inversion H; subst. left; reflexivity.
Qed.

Lemma bf_step_Inv I w c : valid I -> Inv I (core w) -> Inv I (core (bf_step I w c)).
Proof. intros Hv Hi. unfold bf_step. apply (step_req_Inv unit no_obs_update I w _ Hv Hi). Qed.

Theorem bf_sound fuel I w c :
  valid I -> Inv I (core w) -> bf fuel I w = Some c ->
  exists S, feasible I S /\ complete I S /\ makespan I S = c.
Proof.
  intros Hv. revert w c. induction fuel as [|f IH]; intros w c Hi H; [discriminate|].
  simpl in H. destruct (raw_ready I (core w)) as [|k t] eqn:Er.
  - destruct (is_complete I (sched (core w))) eqn:Ec; [|discriminate]. inversion H; subst.
    exists (sched (core w)). split; [apply Inv_feasible; exact Hi|]. split; [|reflexivity].
    apply (is_complete_spec I (core w) Hi). exact Ec.
  - apply min_opt_In in H. apply in_map_iff in H. destruct H as (c0 & Hc0 & _).
    apply (IH (bf_step I w c0) c); [apply bf_step_Inv; assumption|exact Hc0].
Qed.

Theorem opt_bf_sound I c :
  valid I -> opt_bf I = Some c -> exists S, feasible I S /\ complete I S /\ makespan I S = c.
Proof.
  intros Hv H. unfold opt_bf in H. eapply bf_sound; [exact Hv| |exact H]. simpl. apply Inv_init.
Qed.

(** ** [solve]: no memory, statuses *)

Lemma find_all_false {A} (f : A -> bool) (l : list A) : (forall x, In x l -> f x = false) -> find f l = None.
Proof.
  induction l as [|a t IH]; intros H; simpl; [reflexivity|].
  rewrite (H a (or_introl eq_refl)). apply IH. intros x Hx. apply H. right; exact Hx.
Qed.

Lemma nonflex_no_exn I : nonflex I -> machine_id_exn I = None.
Proof.
  intros Hnf. unfold machine_id_exn. rewrite find_all_false; [reflexivity|].
  intros o Ho. apply in_concat in Ho. destruct Ho as (job & Hjob & Ho).
  apply In_nth_error in Hjob. destruct Hjob as [j Hj]. apply In_nth_error in Ho. destruct Ho as [p Hp].
  destruct (Hnf j p o) as [m Hm]; [unfold get_op; rewrite Hj; exact Hp|]. rewrite Hm. reflexivity.
Qed.

Lemma build_keys I prev : st_keys (build I prev) = all_keys I.
Proof. reflexivity. Qed.

Lemma build_mk I prev : st_mk (build I prev) = Some (mkvar I).
Proof.
  unfold build, set_objective, add_machine_constraints, add_job_constraints, create_variables, reset_model, mkvar.
  simpl. rewrite length_flat2, all_keys_length. reflexivity.
Qed.

(** The outcome of [solve] does not depend on the state the solver object was
    left in by earlier calls, and the model it leaves behind is [cp_encode I]. *)
Theorem solve_no_memory kk I prev stat sigma :
  snd (solve_gen kk I prev stat sigma) = snd (solve_gen kk I fresh_state stat sigma) /\
  (machine_id_exn I = None -> st_model (fst (solve_gen kk I prev stat sigma)) = cp_encode I).
Proof.
  unfold solve_gen, initialize. destruct (machine_id_exn I) as [e|]; [split; [reflexivity|discriminate]|].
  split.
  - rewrite !build_mk, !build_keys. destruct stat; reflexivity.
  - intros _. rewrite build_keys.
    destruct stat; try reflexivity;
      destruct (reconstruct_gen kk I (all_keys I) sigma); reflexivity.
Qed.

(** [NoSolutionFoundError] exactly when the status is neither OPTIMAL nor
    FEASIBLE; otherwise a feasible complete schedule with the reported makespan. *)
Theorem solve_outcome I prev stat sigma :
  valid I -> nonflex I ->
  match stat with
  | StOptimal | StFeasible =>
      sat sigma (cp_encode I) ->
      exists S, snd (solve I prev stat sigma) =
                  inl (S, ((match stat with StOptimal => 1 | _ => 0 end), sigma (mkvar I))) /\
                feasible I S /\ complete I S /\ makespan I S = sigma (mkvar I)
  | _ => snd (solve I prev stat sigma) = inr CpNoSolution
  end.
Proof.
  intros Hv Hnf. unfold solve, solve_gen, initialize. rewrite (nonflex_no_exn I Hnf).
  rewrite build_mk, build_keys.
  destruct stat; try reflexivity; intros Hsat;
    destruct (cp_reconstruct_total I sigma Hv Hnf Hsat) as [S HS];
    unfold reconstruct in HS; rewrite HS; exists S; (split; [reflexivity|]);
    apply (cp_sound I sigma S Hv Hnf Hsat); exact HS.
Qed.

(** An instance without operations, status OPTIMAL: the empty schedule,
    "optimal", makespan 0. *)
Lemma solve_no_ops I prev sigma :
  num_ops I = 0%nat -> sat sigma (cp_encode I) ->
  snd (solve I prev StOptimal sigma) = inl ([], (1, 0)).
Proof.
  intros Hn Hsat. destruct (cp_no_ops I Hn) as (_ & Hall & _). destruct (Hall sigma Hsat) as [Hmk _].
  unfold solve, solve_gen, initialize. rewrite (nonflex_no_exn I (no_ops_nonflex I Hn)).
  rewrite build_mk, build_keys.
  change (reconstruct_gen KeyStartEnd I (all_keys I) sigma) with (reconstruct I sigma).
  rewrite (no_ops_reconstruct I sigma Hn), Hmk. reflexivity.
Qed.

(** Boolean witnesses for the concrete examples. *)
Lemma validb_valid I : validb I = true -> valid I.
Proof.
  unfold validb. rewrite forallb_forall. intros H j p o Hg. unfold get_op in Hg.
  destruct (nth_error I j) as [job|] eqn:Ej; [|discriminate]. apply nth_error_In in Ej.
  specialize (H job Ej). rewrite forallb_forall in H. apply nth_error_In in Hg.
  specialize (H o Hg). unfold valid_opb in H. apply andb_true_iff in H. destruct H as [H _].
  apply Z.leb_le; exact H.
Qed.
