(** ViewsProofs.v — every derived view of an instance equals its definition;
    the numbering is dense and job-major; dictionary and Taillard round trips. *)
From JSL Require Import Base Instance Dstate Filters World Feasible ListFacts Views ViewsSpec.
From Coq Require Import Lia.

(** ** Operations of an instance: [get_op] versus membership *)

Lemma get_op_In (I : instance) j p o : get_op I j p = Some o -> In o (concat I).
Proof.
  unfold get_op. destruct (nth_error I j) as [job|] eqn:E; [|discriminate].
  intros H. apply in_concat. exists job. split; eapply nth_error_In; eauto.
Qed.

Lemma In_get_op (I : instance) o : In o (concat I) -> exists j p, get_op I j p = Some o.
Proof.
  intros H. apply in_concat in H. destruct H as (job & Hj & Ho).
  apply In_nth_error in Hj. destruct Hj as [j Hj]. apply In_nth_error in Ho. destruct Ho as [p Hp].
  exists j, p. unfold get_op. rewrite Hj. exact Hp.
Qed.

Lemma get_op_cons_S (job : list op) (I : instance) j p : get_op (job :: I) (S j) p = get_op I j p.
Proof. reflexivity. Qed.

Lemma single_machine_Forall (I : instance) :
  single_machine I <-> Forall (Forall (fun o => exists m, machines o = [m])) I.
Proof.
  split.
  - intros H. apply Forall_forall. intros job Hj. apply Forall_forall. intros o Ho.
    assert (Hin : In o (concat I)) by (apply in_concat; eauto).
    destruct (In_get_op _ _ Hin) as (j & p & Hg). eapply H; eauto.
  - intros H j p o Hg. unfold get_op in Hg. destruct (nth_error I j) as [job|] eqn:E; [|discriminate].
    rewrite Forall_forall in H. specialize (H job (nth_error_In _ _ E)).
    rewrite Forall_forall in H. apply H. eapply nth_error_In; eauto.
Qed.

Lemma has_machines_Forall (I : instance) :
  has_machines I <-> Forall (fun o => machines o <> []) (concat I).
Proof.
  split.
  - intros H. apply Forall_forall. intros o Ho. destruct (In_get_op _ _ Ho) as (j & p & Hg). eapply H; eauto.
  - intros H j p o Hg. rewrite Forall_forall in H. apply H. eapply get_op_In; eauto.
Qed.

Lemma single_machine_b_spec I : single_machine_b I = true <-> single_machine I.
Proof.
  rewrite single_machine_Forall. unfold single_machine_b. rewrite forallb_forall, Forall_forall.
  split; intros H job Hj; specialize (H job Hj).
  - rewrite forallb_forall in H. apply Forall_forall. intros o Ho. specialize (H o Ho).
    apply Nat.eqb_eq in H. destruct (machines o) as [|m [|m2 t]]; try discriminate. eauto.
  - rewrite Forall_forall in H. apply forallb_forall. intros o Ho. destruct (H o Ho) as [m ->]. reflexivity.
Qed.

Lemma has_machines_b_spec I : has_machines_b I = true <-> has_machines I.
Proof.
  rewrite has_machines_Forall. unfold has_machines_b. rewrite forallb_forall, Forall_forall. split.
  - intros H o Ho. apply in_concat in Ho. destruct Ho as (job & Hj & Ho). specialize (H job Hj).
    rewrite forallb_forall in H. specialize (H o Ho). destruct (machines o); [discriminate|congruence].
  - intros H job Hj. apply forallb_forall. intros o Ho.
    assert (Hin : In o (concat I)) by (apply in_concat; eauto). specialize (H o Hin).
    destruct (machines o); [congruence|reflexivity].
Qed.

Lemma validb_valid I : validb I = true -> valid I.
Proof.
  unfold validb. rewrite forallb_forall. intros H j p o Hg. unfold get_op in Hg.
  destruct (nth_error I j) as [job|] eqn:E; [|discriminate].
  specialize (H job (nth_error_In _ _ E)). rewrite forallb_forall in H.
  specialize (H o (nth_error_In _ _ Hg)). unfold valid_opb in H. apply andb_true_iff in H.
  destruct H as [H _]. apply Z.leb_le; exact H.
Qed.

(** ** Numbering *)

Lemma set_attrs_job_spec j p c job :
  set_attrs_job j p c job =
  (map (fun i => mkattrs j (p + i) (c + i)) (seq 0 (length job)), (c + length job)%nat).
Proof.
  revert p c. induction job as [|o t IH]; intros p c; simpl.
  - f_equal. lia.
  - rewrite IH. simpl. f_equal.
    + f_equal; [f_equal; lia|]. rewrite <- seq_shift, map_map. apply map_ext. intros i. f_equal; lia.
    + lia.
Qed.

Definition attrs_spec (I : instance) : list (list attrs) :=
  map (fun j => map (fun p => mkattrs j p (op_id I j p)) (seq 0 (length (get_job I j)))) (seq 0 (length I)).

Lemma sumN_app a b : sumN (a ++ b) = (sumN a + sumN b)%nat.
Proof. induction a; simpl; lia. Qed.

Lemma op_id_middle (pre : instance) job t p :
  op_id (pre ++ job :: t) (length pre) p = (sumN (map (@length op) pre) + p)%nat.
Proof. unfold op_id. rewrite firstn_app, Nat.sub_diag, firstn_all. simpl. rewrite app_nil_r. reflexivity. Qed.

Lemma get_job_middle (pre : instance) job t : get_job (pre ++ job :: t) (length pre) = job.
Proof. unfold get_job. apply nth_middle. Qed.

Lemma set_attrs_from_spec (pre I' : instance) :
  set_attrs_from (length pre) (sumN (map (@length op) pre)) I' =
  map (fun j => map (fun p => mkattrs j p (op_id (pre ++ I') j p))
                    (seq 0 (length (get_job (pre ++ I') j)))) (seq (length pre) (length I')).
Proof.
  revert pre. induction I' as [|job t IH]; intros pre; [reflexivity|].
  cbn [set_attrs_from length seq map]. rewrite set_attrs_job_spec. cbn [fst snd].
  f_equal.
  - rewrite get_job_middle. apply map_ext. intros p. rewrite op_id_middle. reflexivity.
  - specialize (IH (pre ++ [job])). rewrite app_length, map_app, sumN_app in IH. simpl in IH.
    rewrite Nat.add_0_r, Nat.add_1_r, <- app_assoc in IH. simpl in IH. exact IH.
Qed.

Theorem set_operation_attributes_spec I : set_operation_attributes I = attrs_spec I.
Proof. exact (set_attrs_from_spec [] I). Qed.

Lemma seq_as_map a n : seq a n = map (fun i => (a + i)%nat) (seq 0 n).
Proof.
  revert a. induction n as [|n IH]; intros a; simpl; [reflexivity|].
  f_equal; [lia|]. rewrite (IH (S a)), <- (seq_shift n 0), map_map. apply map_ext. intros i. lia.
Qed.

Lemma all_keys_from_op_id (pre I' : instance) :
  map (fun k => op_id (pre ++ I') (fst k) (snd k)) (all_keys_from (length pre) I') =
  seq (sumN (map (@length op) pre)) (length (concat I')).
Proof.
  revert pre. induction I' as [|job t IH]; intros pre; [reflexivity|].
  cbn [all_keys_from concat]. rewrite map_app, app_length, seq_app. f_equal.
  - unfold job_keys. rewrite map_map. cbn [fst snd].
    rewrite (seq_as_map (sumN _)). apply map_ext. intros p. rewrite op_id_middle. reflexivity.
  - specialize (IH (pre ++ [job])). rewrite app_length, map_app, sumN_app in IH. simpl in IH.
    rewrite Nat.add_0_r, Nat.add_1_r, <- app_assoc in IH. simpl in IH. exact IH.
Qed.

Theorem op_id_dense I : dense_job_major I (op_id I).
Proof. exact (all_keys_from_op_id [] I). Qed.

Lemma all_keys_from_length j I : length (all_keys_from j I) = length (concat I).
Proof.
  revert j. induction I as [|job t IH]; intros j; simpl; [reflexivity|].
  rewrite !app_length, IH. unfold job_keys. rewrite map_length, seq_length. reflexivity.
Qed.

Lemma all_keys_from_In j0 I j p :
  In (j, p) (all_keys_from j0 I) <-> (j0 <= j)%nat /\ exists o, get_op I (j - j0) p = Some o.
Proof.
  revert j0. induction I as [|job t IH]; intros j0; simpl.
  - split; [intros []|]. intros (_ & o & Ho). unfold get_op in Ho. destruct (j - j0)%nat; discriminate.
  - rewrite in_app_iff, IH. unfold job_keys. rewrite in_map_iff. split.
    + intros [(q & Hq & Hin)|(Hle & o & Ho)].
      * inversion Hq; subst. apply in_seq in Hin. split; [lia|]. rewrite Nat.sub_diag.
        unfold get_op. simpl. destruct (nth_error job p) as [o|] eqn:E; [eauto|].
        apply nth_error_None in E. lia.
      * split; [lia|]. exists o. replace (j - j0)%nat with (S (j - S j0)) by lia. exact Ho.
    + intros (Hle & o & Ho). destruct (Nat.eq_dec j j0) as [->|Hne].
      * left. exists p. split; [reflexivity|]. apply in_seq. rewrite Nat.sub_diag in Ho.
        unfold get_op in Ho. simpl in Ho. assert (p < length job)%nat by (apply nth_error_Some; congruence). lia.
      * right. split; [lia|]. exists o. replace (j - j0)%nat with (S (j - S j0)) in Ho by lia. exact Ho.
Qed.

(** The keys of an instance are exactly the (job, position) pairs of its operations. *)
Lemma all_keys_In I j p : In (j, p) (all_keys I) <-> exists o, get_op I j p = Some o.
Proof.
  unfold all_keys. rewrite all_keys_from_In. rewrite Nat.sub_0_r. split; [intros [_ H]; exact H|].
  intros H; split; [lia|exact H].
Qed.

(** Distinct operations have distinct ids, every id is below N, and every
    number below N is the id of some operation. *)
Lemma NoDup_map_inj {A B} (f : A -> B) (l : list A) a b :
  NoDup (map f l) -> In a l -> In b l -> f a = f b -> a = b.
Proof.
  induction l as [|x t IH]; simpl; intros Hn Ha Hb Hf; [contradiction|].
  inversion Hn as [|? ? Hni Hnd]; subst.
  destruct Ha as [->|Ha], Hb as [->|Hb]; auto.
  - exfalso. apply Hni. rewrite Hf. apply in_map; exact Hb.
  - exfalso. apply Hni. rewrite <- Hf. apply in_map; exact Ha.
Qed.

Theorem op_id_injective I j p o j' p' o' :
  get_op I j p = Some o -> get_op I j' p' = Some o' -> op_id I j p = op_id I j' p' -> (j, p) = (j', p').
Proof.
  intros H1 H2 He.
  apply (NoDup_map_inj (fun k => op_id I (fst k) (snd k)) (all_keys I)).
  - rewrite (op_id_dense I). apply seq_NoDup.
  - apply all_keys_In; eauto.
  - apply all_keys_In; eauto.
  - exact He.
Qed.

Theorem op_id_range I j p o : get_op I j p = Some o -> (op_id I j p < num_ops I)%nat.
Proof.
  intros H. assert (Hin : In (op_id I j p) (map (fun k => op_id I (fst k) (snd k)) (all_keys I))).
  { apply in_map_iff. exists (j, p). split; [reflexivity|]. apply all_keys_In; eauto. }
  rewrite (op_id_dense I) in Hin. apply in_seq in Hin. lia.
Qed.

Theorem op_id_onto I n : (n < num_ops I)%nat -> exists j p o, get_op I j p = Some o /\ op_id I j p = n.
Proof.
  intros H. assert (Hin : In n (seq 0 (num_ops I))) by (apply in_seq; lia).
  rewrite <- (op_id_dense I) in Hin. apply in_map_iff in Hin. destruct Hin as ([j p] & He & Hk).
  apply all_keys_In in Hk. destruct Hk as [o Ho]. exists j, p, o. auto.
Qed.

(** ** Counts *)

Lemma fold_max_In (l : list nat) : fold_right Nat.max 0%nat l = 0%nat \/ In (fold_right Nat.max 0%nat l) l.
Proof.
  induction l as [|x t IH]; simpl; [left; reflexivity|].
  destruct IH as [E|H].
  - rewrite E, Nat.max_0_r. destruct x; [left; reflexivity|right; left; reflexivity].
  - destruct (Nat.max_spec x (fold_right Nat.max 0%nat t)) as [[_ ->]|[_ ->]];
      [right; right; exact H|right; left; reflexivity].
Qed.

Lemma fold_max_ge (l : list nat) x : In x l -> (x <= fold_right Nat.max 0%nat l)%nat.
Proof. induction l as [|y t IH]; simpl; [intros []|]. intros [->|H]; [lia|]. specialize (IH H). lia. Qed.

Theorem num_machines_spec I : is_num_machines I (num_machines I).
Proof.
  unfold is_num_machines, num_machines. split.
  - intros j p o m Hg Hm. apply get_op_In in Hg.
    assert (H1 : (S m <= max_mach_op o)%nat) by (apply fold_max_ge; apply in_map; exact Hm).
    assert (H2 : (max_mach_op o <= fold_right Nat.max 0%nat (map max_mach_op (concat I)))%nat)
      by (apply fold_max_ge; apply in_map; exact Hg).
    lia.
  - destruct (fold_max_In (map max_mach_op (concat I))) as [H|H]; [left; exact H|].
    apply in_map_iff in H. destruct H as (o & Ho & Hin).
    destruct (fold_right Nat.max 0%nat (map max_mach_op (concat I))) as [|n] eqn:E; [left; reflexivity|].
    right. destruct (In_get_op _ _ Hin) as (j & p & Hg). exists j, p, o. split; [exact Hg|].
    unfold max_mach_op in Ho. destruct (fold_max_In (map S (machines o))) as [H0|H0]; [lia|].
    rewrite Ho in H0. apply in_map_iff in H0. destruct H0 as (m & Hm & Hmin). simpl. congruence.
Qed.

Lemma fold_left_Zmax_S (ms : list nat) (acc : Z) :
  -1 <= acc ->
  fold_left Z.max (map Z.of_nat ms) acc + 1 =
  Z.max (acc + 1) (Z.of_nat (fold_right Nat.max 0%nat (map S ms))).
Proof.
  revert acc. induction ms as [|m t IH]; intros acc Ha; cbn [fold_left map fold_right]; [lia|].
  rewrite IH by lia. lia.
Qed.

Lemma nm_loop_spec (ops : list op) (acc : Z) :
  -1 <= acc -> Forall (fun o => machines o <> []) ops ->
  exists r, nm_loop ops acc = inl r /\ -1 <= r /\
            r + 1 = Z.max (acc + 1) (Z.of_nat (fold_right Nat.max 0%nat (map max_mach_op ops))).
Proof.
  revert acc. induction ops as [|o t IH]; intros acc Ha Hf; simpl.
  - exists acc. split; [reflexivity|]. lia.
  - inversion Hf as [|? ? Ho Ht]; subst.
    destruct (machines o) as [|m ms] eqn:E; [congruence|].
    pose proof (fold_left_Zmax_S (m :: ms) acc Ha) as Hs.
    destruct (IH (fold_left Z.max (map Z.of_nat (m :: ms)) acc)) as (r & Hr & Hr1 & Hr2).
    + cbn [fold_left map] in Hs |- *. lia.
    + exact Ht.
    + exists r. split; [exact Hr|]. split; [exact Hr1|]. rewrite Hr2, Hs. unfold max_mach_op. rewrite E. lia.
Qed.

Theorem num_machines_code_spec I : has_machines I -> num_machines_code I = inl (num_machines I).
Proof.
  intros H. apply has_machines_Forall in H. unfold num_machines_code, num_machines.
  destruct (nm_loop_spec (concat I) (-1) ltac:(lia) H) as (r & -> & Hr1 & Hr2). f_equal. lia.
Qed.

Theorem num_operations_code_spec I : num_operations_code I = num_ops I.
Proof. unfold num_operations_code, num_ops. symmetry. apply length_concat_sumN. Qed.

Theorem is_flexible_spec I : is_flexible I = true <-> flexible I.
Proof.
  unfold is_flexible, flexible. rewrite existsb_exists. split.
  - intros (job & Hj & He). apply existsb_exists in He. destruct He as (o & Ho & Hl).
    apply Nat.ltb_lt in Hl. assert (Hin : In o (concat I)) by (apply in_concat; eauto).
    destruct (In_get_op _ _ Hin) as (j & p & Hg). eauto.
  - intros (j & p & o & Hg & Hl). unfold get_op in Hg. destruct (nth_error I j) as [job|] eqn:E; [|discriminate].
    exists job. split; [eapply nth_error_In; eauto|]. apply existsb_exists. exists o.
    split; [eapply nth_error_In; eauto|]. apply Nat.ltb_lt; exact Hl.
Qed.

(** ** Matrices *)

Lemma mapE_map {A B} (f : A -> B + exn) (g : A -> B) (l : list A) :
  Forall (fun a => f a = inl (g a)) l -> mapE f l = inl (map g l).
Proof.
  induction l as [|x t IH]; intros H; [reflexivity|].
  inversion H as [|? ? Hx Ht]; subst. simpl. rewrite Hx, (IH Ht). reflexivity.
Qed.

Lemma mapE_Forall2 {A B} (f : A -> B + exn) (l : list A) r :
  mapE f l = inl r -> Forall2 (fun a b => f a = inl b) l r.
Proof.
  revert r. induction l as [|x t IH]; intros r H; simpl in H.
  - inversion H; constructor.
  - destruct (f x) as [y|e] eqn:E; [|discriminate].
    destruct (mapE f t) as [r'|e]; [|discriminate]. inversion H; subst. constructor; auto.
Qed.

Definition machines_matrix_flex (I : instance) : list (list mval) := map (map (fun o => MList (machines o))) I.
Definition machines_matrix_single (I : instance) : list (list mval) := map (map (fun o => MInt (machine_of o))) I.

Theorem machines_matrix_flexible I :
  is_flexible I = true -> machines_matrix_code I = inl (machines_matrix_flex I).
Proof. intros H. unfold machines_matrix_code. rewrite H. reflexivity. Qed.

Lemma single_not_flexible I : single_machine I -> is_flexible I = false.
Proof.
  intros H. destruct (is_flexible I) eqn:E; [|reflexivity].
  apply is_flexible_spec in E. destruct E as (j & p & o & Hg & Hl).
  destruct (H _ _ _ Hg) as [m Hm]. rewrite Hm in Hl. simpl in Hl. lia.
Qed.

Theorem machines_matrix_single_machine I :
  single_machine I -> machines_matrix_code I = inl (machines_matrix_single I).
Proof.
  intros H. unfold machines_matrix_code. rewrite (single_not_flexible _ H).
  apply single_machine_Forall in H. apply mapE_map.
  eapply Forall_impl; [|exact H]. intros job Hj. apply mapE_map.
  eapply Forall_impl; [|exact Hj]. intros o [m Hm]. cbv beta.
  unfold machine_id_code, machine_of. rewrite Hm. reflexivity.
Qed.

(** ** Padded arrays *)

Lemma skipn_repeat {A} (x : A) k n : skipn k (repeat x n) = repeat x (n - k).
Proof.
  revert k. induction n as [|n IH]; intros k; [destruct k; reflexivity|].
  destruct k as [|k]; [reflexivity|]. simpl. apply IH.
Qed.

Lemma fill_1d_pad {A} n (row : list A) : fill_1d n row = pad n row.
Proof. unfold fill_1d, pad. rewrite skipn_repeat. reflexivity. Qed.

Lemma fold_left_max_spec (l : list nat) a :
  fold_left Nat.max l a = Nat.max a (fold_right Nat.max 0%nat l).
Proof. revert a. induction l as [|x t IH]; intros a; simpl; [lia|]. rewrite IH. lia. Qed.

Lemma max_len_code_spec {A} (ll : list (list A)) : ll <> [] -> max_len_code ll = inl (max_len ll).
Proof.
  destruct ll as [|r t]; [congruence|]. intros _. unfold max_len_code, max_len.
  rewrite fold_left_max_spec. reflexivity.
Qed.

Lemma max_len_map {A B} (f : A -> B) (ll : list (list A)) : max_len (map (map f) ll) = max_len ll.
Proof. unfold max_len. rewrite map_map. f_equal. apply map_ext. intros l. apply map_length. Qed.

Theorem durations_matrix_array_spec I :
  I <> [] -> durations_matrix_array_code I = inl (durations_array_spec I).
Proof.
  intros H. unfold durations_matrix_array_code, fill_2d, durations_array_spec.
  rewrite max_len_code_spec by (unfold durations_matrix; destruct I; [congruence|discriminate]).
  unfold durations_matrix at 1. rewrite max_len_map. f_equal. apply map_ext. intros row. apply fill_1d_pad.
Qed.

Theorem machines_matrix_array_single_machine I :
  I <> [] -> single_machine I -> machines_matrix_array_code I = inl (A2 (machines_array2_spec I)).
Proof.
  intros Hne H. unfold machines_matrix_array_code.
  rewrite (machines_matrix_single_machine _ H), (single_not_flexible _ H).
  unfold fill_2d, machines_matrix_single. rewrite map_map.
  rewrite max_len_code_spec by (destruct I; [congruence|discriminate]).
  do 2 f_equal. unfold machines_array2_spec. rewrite map_map.
  assert (Hl : max_len (map (fun x : list op => map mval_int (map (fun o : op => MInt (machine_of o)) x)) I) = max_len I).
  { unfold max_len. rewrite map_map. f_equal. apply map_ext. intros l. rewrite !map_length. reflexivity. }
  rewrite Hl. apply map_ext. intros job. rewrite fill_1d_pad, map_map. reflexivity.
Qed.

Lemma inner_fold_spec {A} (matrix : list (list (list A))) a :
  fold_left (fun acc row => fold_left (fun x r => Nat.max x (length r)) row acc) matrix a =
  Nat.max a (max_len (concat matrix)).
Proof.
  revert a. induction matrix as [|row t IH]; intros a; simpl; [unfold max_len; simpl; lia|].
  rewrite IH. unfold max_len. rewrite map_app, fold_right_app.
  assert (Hrow : forall (row : list (list A)) b, fold_left (fun x r => Nat.max x (length r)) row b =
                                Nat.max b (fold_right Nat.max 0%nat (map (@length A) row))).
  { clear. induction row as [|r t IH]; intros b; simpl; [lia|]. rewrite IH. lia. }
  rewrite Hrow.
  assert (Hfr : forall (l : list nat) c, fold_right Nat.max c l = Nat.max c (fold_right Nat.max 0%nat l)).
  { clear. induction l as [|x t IH]; intros c; simpl; [lia|]. rewrite IH. lia. }
  rewrite (Hfr (map (@length A) row) (fold_right Nat.max 0%nat (map (@length A) (concat t)))). lia.
Qed.

Lemma fill_3d_spec {A} (matrix : list (list (list A))) r0 t0 t :
  matrix = (r0 :: t0) :: t ->
  fill_3d matrix =
  inl (map (fun row => map (pad (max_len (concat matrix))) row
                       ++ repeat (repeat None (max_len (concat matrix))) (max_len matrix - length row)) matrix).
Proof.
  intros E. unfold fill_3d. rewrite max_len_code_spec by (rewrite E; discriminate).
  rewrite E at 1. cbv iota. rewrite inner_fold_spec.
  assert (Hmax : Nat.max (length r0) (max_len (concat matrix)) = max_len (concat matrix)).
  { apply Nat.max_r. unfold max_len. apply fold_max_ge. apply in_map. rewrite E. simpl. left; reflexivity. }
  rewrite Hmax. f_equal. apply map_ext. intros row. rewrite skipn_repeat. f_equal.
  apply map_ext. intros r. apply fill_1d_pad.
Qed.

Theorem machines_matrix_array_flexible I o0 t0 t :
  I = (o0 :: t0) :: t -> is_flexible I = true ->
  machines_matrix_array_code I = inl (A3 (machines_array3_spec I)).
Proof.
  intros HI Hf. unfold machines_matrix_array_code. rewrite (machines_matrix_flexible _ Hf), Hf.
  rewrite (fill_3d_spec (machines_matrix I) (machines o0) (map machines t0) (map (map machines) t))
    by (rewrite HI; reflexivity).
  do 2 f_equal. unfold machines_array3_spec, machines_matrix.
  rewrite concat_map, max_len_map, map_map. apply map_ext. intros job.
  rewrite map_length, map_map. reflexivity.
Qed.

(** ** Per-machine views: the triple loop as one fold over (key, machine) pairs *)

Definition km_list (I : instance) : list ((nat * nat) * nat) :=
  flat_map (fun k => map (pair k) (kmachines I k)) (all_keys I).

Lemma fold_left_flat_map {S A B} (f : S -> A -> B -> S) (h : A -> list B) (l : list A) (s : S) :
  fold_left (fun acc k => fold_left (fun a m => f a k m) (h k) acc) l s =
  fold_left (fun a km => f a (fst km) (snd km)) (flat_map (fun k => map (pair k) (h k)) l) s.
Proof.
  revert s. induction l as [|k t IH]; intros s; simpl; [reflexivity|].
  rewrite fold_left_app, <- IH. f_equal.
  generalize (h k) s. clear. induction l as [|m t IH]; intros s; simpl; [reflexivity|]. apply IH.
Qed.

Lemma fold_machines_km {S} I (f : S -> nat * nat -> nat -> S) s :
  fold_machines I f s = fold_left (fun a km => f a (fst km) (snd km)) (km_list I) s.
Proof. unfold fold_machines, km_list. apply fold_left_flat_map. Qed.

Definition on_m (m : nat) (km : (nat * nat) * nat) : bool := (m =? snd km)%nat.

Lemma km_filter_spec I m : map fst (filter (on_m m) (km_list I)) = obm_spec I m.
Proof.
  unfold km_list, obm_spec. induction (all_keys I) as [|k t IH]; simpl; [reflexivity|].
  rewrite filter_app, map_app, IH. f_equal.
  unfold count_m. generalize (kmachines I k). clear. induction l as [|x t IH]; simpl; [reflexivity|].
  unfold on_m at 1. simpl. destruct (m =? x)%nat; simpl; rewrite IH; reflexivity.
Qed.

Lemma km_list_bound I k m : In (k, m) (km_list I) -> (m < num_machines I)%nat.
Proof.
  unfold km_list. rewrite in_flat_map. intros (k' & Hk & Hin). apply in_map_iff in Hin.
  destruct Hin as (m' & He & Hm). inversion He; subst.
  unfold kmachines, kop in Hm. destruct (get_op I (fst k) (snd k)) as [o|] eqn:E; [|destruct Hm].
  eapply (proj1 (num_machines_spec I)); eauto.
Qed.

(** generic step lemma: a fold of point updates, read at one index *)
Lemma fold_upd_nth {A} (g : A -> (nat * nat) -> A) (L : list ((nat * nat) * nat)) (acc : list A) (d : A) m :
  (forall k x, In (k, x) L -> (x < length acc)%nat) ->
  length (fold_left (fun a km => upd a (snd km) (g (nth (snd km) a d) (fst km))) L acc) = length acc /\
  nth m (fold_left (fun a km => upd a (snd km) (g (nth (snd km) a d) (fst km))) L acc) d =
  fold_left g (map fst (filter (on_m m) L)) (nth m acc d).
Proof.
  revert acc. induction L as [|[k x] t IH]; intros acc Hb; simpl; [auto|].
  assert (Hx : (x < length acc)%nat) by (apply (Hb k); left; reflexivity).
  destruct (IH (upd acc x (g (nth x acc d) k))) as [Hl Hn].
  { intros k' x' Hin. rewrite length_upd. apply (Hb k'). right; exact Hin. }
  rewrite length_upd in Hl. split; [exact Hl|]. rewrite Hn. unfold on_m at 2. simpl.
  destruct (Nat.eqb_spec m x) as [->|Hne]; simpl.
  - rewrite nth_upd_eq by exact Hx. reflexivity.
  - rewrite nth_upd_neq by congruence. reflexivity.
Qed.

Lemma list_eq_nth {A} (l : list A) (f : nat -> A) n d :
  length l = n -> (forall m, (m < n)%nat -> nth m l d = f m) -> l = map f (seq 0 n).
Proof.
  intros Hl Hn. apply nth_ext with (d := d) (d' := f 0%nat).
  - rewrite map_length, seq_length. exact Hl.
  - intros i Hi. rewrite Hl in Hi. rewrite Hn by exact Hi.
    rewrite (nth_indep _ _ (f (nth i (seq 0 n) 0%nat))) by (rewrite map_length, seq_length; exact Hi).
    rewrite map_nth, seq_nth by exact Hi. reflexivity.
Qed.

Lemma km_bound_repeat {A} I (x : A) k m :
  In (k, m) (km_list I) -> (m < length (repeat x (num_machines I)))%nat.
Proof. rewrite repeat_length. apply km_list_bound. Qed.

Lemma fold_left_snoc {A} (l a : list A) : fold_left (fun row k => row ++ [k]) l a = a ++ l.
Proof.
  revert a. induction l as [|x t IH]; intros a; simpl; [rewrite app_nil_r; reflexivity|].
  rewrite IH, <- app_assoc. reflexivity.
Qed.

Theorem operations_by_machine_spec I :
  has_machines I ->
  operations_by_machine_code I = inl (map (obm_spec I) (seq 0 (num_machines I))).
Proof.
  intros H. unfold operations_by_machine_code. rewrite (num_machines_code_spec _ H). f_equal.
  rewrite fold_machines_km.
  apply list_eq_nth with (d := []).
  - destruct (fold_upd_nth (fun row k => row ++ [k]) (km_list I) (repeat [] (num_machines I)) [] 0%nat
                (km_bound_repeat I [])) as [Hl _].
    rewrite Hl. apply repeat_length.
  - intros m Hm.
    destruct (fold_upd_nth (fun row k => row ++ [k]) (km_list I) (repeat [] (num_machines I)) [] m
                (km_bound_repeat I [])) as [_ Hn].
    rewrite Hn, nth_repeat by exact Hm. rewrite km_filter_spec.
    apply (fold_left_snoc (obm_spec I m) []).
Qed.

Lemma fold_left_mapped {A B C} (g : A -> B -> A) (h : C -> B) (l : list C) (a : A) :
  fold_left (fun x k => g x (h k)) l a = fold_left g (map h l) a.
Proof. revert a. induction l as [|x t IH]; intros a; simpl; [reflexivity|]. apply IH. Qed.

Lemma fold_left_add (l : list Z) a : fold_left Z.add l a = a + sumZ l.
Proof. revert a. induction l as [|x t IH]; intros a; simpl; [lia|]. rewrite IH. lia. Qed.

Lemma fold_left_Zmax (l : list Z) a : fold_left Z.max l a = Z.max a (fold_right Z.max a l).
Proof.
  revert a. induction l as [|x t IH]; intros a; simpl; [lia|]. rewrite IH.
  assert (H : forall (l : list Z) b c, b <= c -> fold_right Z.max c l = Z.max c (fold_right Z.max b l)).
  { clear. induction l as [|y t IH]; intros b c Hbc; simpl; [lia|]. rewrite (IH b c Hbc). lia. }
  rewrite (H t a (Z.max a x)) by lia. lia.
Qed.

Lemma fold_left_Zmax0 (l : list Z) : fold_left Z.max l 0 = maxZ0 l.
Proof. rewrite fold_left_Zmax. unfold maxZ0. assert (0 <= fold_right Z.max 0 l) by (induction l; simpl; lia). lia. Qed.

Theorem machine_loads_spec I :
  has_machines I -> machine_loads_code I = inl (map (load_spec I) (seq 0 (num_machines I))).
Proof.
  intros H. unfold machine_loads_code. rewrite (num_machines_code_spec _ H). f_equal.
  rewrite fold_machines_km. unfold nthZ.
  apply list_eq_nth with (d := 0).
  - destruct (fold_upd_nth (fun a k => a + kdur I k) (km_list I) (repeat 0 (num_machines I)) 0 0%nat
                (km_bound_repeat I 0)) as [Hl _].
    rewrite Hl. apply repeat_length.
  - intros m Hm.
    destruct (fold_upd_nth (fun a k => a + kdur I k) (km_list I) (repeat 0 (num_machines I)) 0 m
                (km_bound_repeat I 0)) as [_ Hn].
    rewrite Hn, nth_repeat by exact Hm. rewrite km_filter_spec. unfold load_spec.
    generalize (obm_spec I m). intros l.
    rewrite (fold_left_mapped Z.add (kdur I)), fold_left_add. lia.
Qed.

Theorem max_duration_per_machine_spec I :
  has_machines I ->
  max_duration_per_machine_code I = inl (map (maxdur_machine_spec I) (seq 0 (num_machines I))).
Proof.
  intros H. unfold max_duration_per_machine_code. rewrite (num_machines_code_spec _ H). f_equal.
  rewrite fold_machines_km. unfold nthZ.
  apply list_eq_nth with (d := 0).
  - destruct (fold_upd_nth (fun a k => Z.max a (kdur I k)) (km_list I) (repeat 0 (num_machines I)) 0 0%nat
                (km_bound_repeat I 0)) as [Hl _].
    rewrite Hl. apply repeat_length.
  - intros m Hm.
    destruct (fold_upd_nth (fun a k => Z.max a (kdur I k)) (km_list I) (repeat 0 (num_machines I)) 0 m
                (km_bound_repeat I 0)) as [_ Hn].
    rewrite Hn, nth_repeat by exact Hm. rewrite km_filter_spec. unfold maxdur_machine_spec.
    generalize (obm_spec I m). intros l.
    rewrite (fold_left_mapped Z.max (kdur I)). apply fold_left_Zmax0.
Qed.

(** ** Maxima and totals *)

Lemma max_list_code_spec (l : list Z) x : max_list_code l = inl x -> is_max l x.
Proof.
  destruct l as [|a t]; [discriminate|]. simpl. intros H. inversion H; subst. clear H.
  revert a. induction t as [|b t IH]; intros a; simpl.
  - split; [left; reflexivity|]. intros y [->|[]]. lia.
  - destruct (IH (Z.max a b)) as [Hin Hle]. split.
    + destruct Hin as [E|Hin]; [|right; right; exact Hin].
      rewrite <- E. destruct (Z.max_spec a b) as [[_ ->]|[_ ->]]; [right; left|left]; reflexivity.
    + intros y [->|[->|Hy]].
      * specialize (Hle (Z.max y b) (or_introl eq_refl)). lia.
      * specialize (Hle (Z.max a y) (or_introl eq_refl)). lia.
      * apply Hle. right; exact Hy.
Qed.

Lemma is_maxb_spec l x : is_maxb l x = true <-> is_max l x.
Proof.
  unfold is_maxb, is_max. rewrite andb_true_iff, existsb_exists, forallb_forall. split.
  - intros [(y & Hy & He) Hall]. apply Z.eqb_eq in He. subst y. split; [exact Hy|].
    intros y Hy'. apply Z.leb_le. apply Hall; exact Hy'.
  - intros [Hin Hall]. split; [exists x; split; [exact Hin|apply Z.eqb_refl]|].
    intros y Hy. apply Z.leb_le. apply Hall; exact Hy.
Qed.

Lemma max_list_code_defined (l : list Z) : l <> [] -> exists x, max_list_code l = inl x.
Proof. destruct l; [congruence|]. intros _. eexists; reflexivity. Qed.

Lemma Forall2_weaken {A B} (P Q : A -> B -> Prop) l r :
  (forall a b, P a b -> Q a b) -> Forall2 P l r -> Forall2 Q l r.
Proof. intros H F. induction F; constructor; auto. Qed.

Theorem max_duration_per_job_spec I l :
  max_duration_per_job_code I = inl l -> Forall2 (fun job x => is_max (map duration job) x) I l.
Proof.
  intros H. apply mapE_Forall2 in H. eapply Forall2_weaken; [|exact H].
  intros job x Hx. apply max_list_code_spec; exact Hx.
Qed.

Theorem max_duration_per_job_defined I :
  Forall (fun job => job <> []) I -> exists l, max_duration_per_job_code I = inl l.
Proof.
  unfold max_duration_per_job_code. induction I as [|job t IH]; intros H; [eexists; reflexivity|].
  inversion H as [|? ? Hj Ht]; subst. simpl.
  destruct (max_list_code_defined (map duration job)) as [x ->]; [destruct job; [congruence|discriminate]|].
  destruct (IH Ht) as [l ->]. eexists; reflexivity.
Qed.

Theorem max_duration_spec I x : max_duration_code I = inl x -> is_max (all_durations I) x.
Proof.
  unfold max_duration_code. destruct (max_duration_per_job_code I) as [l|e] eqn:E; [|discriminate].
  intros Hx. apply max_list_code_spec in Hx. apply max_duration_per_job_spec in E.
  destruct Hx as [Hin Hle]. unfold all_durations. split.
  - clear Hle. induction E as [|job y I' l' Hy _ IH]; [destruct Hin|].
    simpl. rewrite map_app, in_app_iff. destruct Hin as [->|Hin]; [left; apply Hy|right; apply IH; exact Hin].
  - intros y Hy. clear Hin.
    induction E as [|job z I' l' Hz _ IH]; [destruct Hy|].
    simpl in Hy. rewrite map_app, in_app_iff in Hy. destruct Hy as [Hy|Hy].
    + destruct Hz as [_ Hz]. specialize (Hz y Hy). specialize (Hle z (or_introl eq_refl)). lia.
    + apply IH; [|exact Hy]. intros w Hw. apply Hle. right; exact Hw.
Qed.

Theorem max_duration_defined I :
  I <> [] -> Forall (fun job => job <> []) I -> exists x, max_duration_code I = inl x.
Proof.
  intros Hne H. unfold max_duration_code. destruct (max_duration_per_job_defined I H) as [l Hl].
  rewrite Hl. apply max_list_code_defined.
  apply mapE_Forall2 in Hl. destruct Hl; [congruence|discriminate].
Qed.

Lemma sumZ_app a b : sumZ (a ++ b) = sumZ a + sumZ b.
Proof. induction a; simpl; lia. Qed.

Theorem total_duration_spec I : total_duration_code I = sumZ (all_durations I).
Proof.
  unfold total_duration_code, job_durations, all_durations.
  induction I as [|job t IH]; simpl; [reflexivity|]. rewrite map_app, sumZ_app, IH. reflexivity.
Qed.

(** ** to_dict / from_matrices *)

Section DictProofs.
  Variables Nm Md : Type.

  Lemma fm_job_spec (g : op -> mval) (pre job : list op) :
    Forall (fun o => op_of (duration o) (g o) = o) job ->
    fm_job (map duration job) (length pre) (Some (map g (pre ++ job))) = inl job.
  Proof.
    revert pre. induction job as [|o t IH]; intros pre H; [reflexivity|].
    inversion H as [|? ? Ho Ht]; subst. cbn [map fm_job].
    assert (Hn : nth_error (map g (pre ++ o :: t)) (length pre) = Some (g o)).
    { rewrite nth_error_map, nth_error_app2, Nat.sub_diag by lia. reflexivity. }
    rewrite Hn. specialize (IH (pre ++ [o]) Ht). rewrite app_length, <- app_assoc in IH. simpl in IH.
    rewrite Nat.add_1_r in IH. rewrite IH, Ho. reflexivity.
  Qed.

  Lemma fm_jobs_spec (g : op -> mval) (pre I' : instance) :
    Forall (Forall (fun o => op_of (duration o) (g o) = o)) I' ->
    fm_jobs (map (map duration) I') (length pre) (map (map g) (pre ++ I')) = inl I'.
  Proof.
    revert pre. induction I' as [|job t IH]; intros pre H; [reflexivity|].
    inversion H as [|? ? Hj Ht]; subst. cbn [map fm_jobs].
    assert (Hn : nth_error (map (map g) (pre ++ job :: t)) (length pre) = Some (map g job)).
    { rewrite nth_error_map, nth_error_app2, Nat.sub_diag by lia. reflexivity. }
    rewrite Hn. pose proof (fm_job_spec g [] job Hj) as Hfj. cbn [length app] in Hfj. rewrite Hfj.
    specialize (IH (pre ++ [job]) Ht). rewrite app_length, <- app_assoc in IH. simpl in IH.
    rewrite Nat.add_1_r in IH. rewrite IH. reflexivity.
  Qed.

  (** Converting to a dictionary and back reproduces the operations (machine
      lists included), the name and the metadata. *)
  Theorem from_matrices_to_dict (X : inst_obj Nm Md) :
    is_flexible (io_jobs X) = true \/ single_machine (io_jobs X) ->
    exists D, to_dict X = inl D /\ from_matrices D = inl X.
  Proof.
    destruct X as [I nm md]. cbn [io_jobs]. intros [Hf|Hs]; unfold to_dict; cbn [io_jobs io_name io_meta].
    - rewrite (machines_matrix_flexible _ Hf). eexists. split; [reflexivity|].
      unfold from_matrices. cbn [d_dur d_mach d_name d_meta]. unfold durations_matrix, machines_matrix_flex.
      pose proof (fm_jobs_spec (fun o => MList (machines o)) [] I) as Hfm. cbn [length app] in Hfm.
      rewrite Hfm; [reflexivity|].
      apply Forall_forall. intros job _. apply Forall_forall. intros [ms d] _. reflexivity.
    - rewrite (machines_matrix_single_machine _ Hs). eexists. split; [reflexivity|].
      unfold from_matrices. cbn [d_dur d_mach d_name d_meta]. unfold durations_matrix, machines_matrix_single.
      pose proof (fm_jobs_spec (fun o => MInt (machine_of o)) [] I) as Hfm. cbn [length app] in Hfm.
      rewrite Hfm; [reflexivity|].
      apply single_machine_Forall in Hs. eapply Forall_impl; [|exact Hs]. intros job Hj.
      eapply Forall_impl; [|exact Hj]. intros [ms d] [m Hm]. simpl in Hm. subst ms. reflexivity.
  Qed.
End DictProofs.

(** ** Taillard text *)

Lemma stride2_cons2 {A} (x y : A) l : stride2 (x :: y :: l) = x :: stride2 l.
Proof. reflexivity. Qed.

Lemma stride2_tl_cons {A} (y : A) l : stride2 (y :: l) = y :: stride2 (tl l).
Proof. destruct l; reflexivity. Qed.

Lemma row_ops_cons2 m d rest : row_ops (m :: d :: rest) = mkop [Z.to_nat m] d :: row_ops rest.
Proof. unfold row_ops. cbn [tl]. rewrite stride2_cons2, stride2_tl_cons. reflexivity. Qed.

Lemma row_ops_job_row job :
  Forall (fun o => exists m, machines o = [m]) job -> row_ops (job_row job) = job.
Proof.
  induction job as [|o t IH]; intros H; [reflexivity|].
  inversion H as [|? ? [m Hm] Ht]; subst. unfold job_row. cbn [flat_map app].
  rewrite row_ops_cons2. fold (job_row t). rewrite (IH Ht). f_equal.
  destruct o as [ms d]. simpl in Hm. subst ms. unfold machine_of. simpl. rewrite Nat2Z.id. reflexivity.
Qed.

Lemma parse_lines_comments b c ls : parse_lines b (repeat TComment c ++ ls) = parse_lines b ls.
Proof. induction c; simpl; auto. Qed.

Theorem parse_print_taillard c I : single_machine I -> parse_taillard (print_taillard c I) = I.
Proof.
  intros H. apply single_machine_Forall in H. unfold parse_taillard, print_taillard.
  rewrite parse_lines_comments. cbn [parse_lines].
  induction I as [|job t IH]; [reflexivity|]. inversion H as [|? ? Hj Ht]; subst.
  cbn [map parse_lines]. rewrite (row_ops_job_row _ Hj), (IH Ht). reflexivity.
Qed.

(** Comment lines may stand anywhere. *)
Theorem parse_ignores_comments ls : parse_taillard ls = parse_taillard (drop_comments ls).
Proof.
  unfold parse_taillard. generalize false. induction ls as [|l t IH]; intros b; [reflexivity|].
  destruct l as [|r]; simpl; [apply IH|]. destruct b; [rewrite IH; reflexivity|apply IH].
Qed.
