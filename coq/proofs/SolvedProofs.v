(** SolvedProofs.v — the solved disjunctive graph of a schedule: its exact
    edge set; for a complete feasible schedule with positive durations every
    edge goes forward in time (so the graph is acyclic and no path outweighs
    the makespan); for dispatcher-built schedules a tight chain back to time 0
    exists from the operation that ends last (critical path = makespan). *)
From JSL Require Import Base Instance Dstate Filters World Graph Feasible GraphSpec ListFacts OpIds
  GraphFacts GraphStages GraphProofs GraphSpecFacts DispatchFun Inv Run.
From Coq Require Import Lia Permutation.

(** ** edge set *)

Definition sops_valid (I : instance) (S : schedule) : Prop :=
  forall x, In x (all_sops S) -> exists o, get_op I (s_job x) (s_pos x) = Some o.

Lemma sop_id_lt I S x : sops_valid I S -> In x (all_sops S) -> (sop_id I x < num_ops I)%nat.
Proof. intros Hv Hx. destruct (Hv x Hx) as [o Ho]. unfold sop_id. eapply op_id_lt; eauto. Qed.

Lemma solved_block I S u v t :
  In (u, v, t) (solved_edge_list I S) <-> t = EDisj /\ row_consecutive I S u v.
Proof.
  unfold solved_edge_list, row_consecutive. rewrite in_flat_map. split.
  - intros (row & Hr & H). apply in_map_iff in H. destruct H as ([x y] & E & Hc). simpl in E.
    inversion E; subst. apply consecutive_split in Hc. destruct Hc as (l1 & l2 & ->).
    split; [reflexivity|]. exists (l1 ++ x :: y :: l2), l1, x, y, l2. auto.
  - intros (-> & row & l1 & x & y & l2 & Hr & -> & -> & ->). exists (l1 ++ x :: y :: l2).
    split; [exact Hr|]. apply in_map_iff. exists (x, y). split; [reflexivity|].
    apply consecutive_split. eauto.
Qed.

Lemma row_consecutive_lt I S u v :
  sops_valid I S -> row_consecutive I S u v -> (u < num_ops I)%nat /\ (v < num_ops I)%nat.
Proof.
  intros Hv (row & l1 & x & y & l2 & Hr & -> & -> & ->).
  split; apply (sop_id_lt I S); auto; unfold all_sops; apply in_concat; eexists; (split; [exact Hr|]);
    apply in_app_iff; right; simpl; auto.
Qed.

Theorem solved_char I S : nonempty_jobs I -> sops_valid I S ->
  exists G w, build_solved_disjunctive_graph I S = Some G /\ stage I G (nodes_disjunctive I) w /\
    forall u v t, In (u, v, t) (g_edges G) <-> spec_solved I S u v t.
Proof.
  intros Hne Hval. pose proof (stage_new I) as S0.
  pose proof (conj_block _ _ _ _ S0) as HC.
  destruct (stage_add_edges I _ _ _ (conjunctive_edge_list (new_graph I)) S0) as (g1 & E1 & S1 & _).
  { intros u v t H. apply HC in H. rewrite length_op_nodes. apply job_chain_lt. tauto. }
  assert (S2 : stage I (add_source_sink_nodes g1) (nodes_disjunctive I)
                     ([] ++ conjunctive_edge_list (new_graph I))).
  { unfold add_source_sink_nodes, nodes_disjunctive.
    change [(num_ops I, SourceNode); (Datatypes.S (num_ops I), SinkNode)]
      with ([(num_ops I, SourceNode)] ++ [(Datatypes.S (num_ops I), SinkNode)]).
    rewrite app_assoc.
    apply stage_add_node_at; [exact Logic.I| |rewrite app_length, length_op_nodes; simpl; lia].
    apply stage_add_node_at; [exact Logic.I|exact S1|rewrite length_op_nodes; reflexivity]. }
  destruct (ss_block _ _ _ _ S2 (num_ops I) (Datatypes.S (num_ops I)) Hne) as (l & El & HS).
  assert (Hlen : length (nodes_disjunctive I) = Datatypes.S (Datatypes.S (num_ops I))).
  { unfold nodes_disjunctive. rewrite app_length, length_op_nodes. simpl. lia. }
  destruct (stage_add_edges I _ _ _ l S2) as (g3 & E3 & S3 & _).
  { intros u v t H. apply HS in H. rewrite Hlen.
    destruct H as (_ & [[-> (j & o & Hop)]|[-> (j & p & o & Hop & _)]]); apply is_op_lt in Hop; lia. }
  pose proof (solved_block I S) as HR.
  destruct (stage_add_edges I _ _ _ (solved_edge_list I S) S3) as (g4 & E4 & S4 & _).
  { intros u v t H. apply HR in H. rewrite Hlen. destruct (row_consecutive_lt I S u v Hval) as [A B]; [tauto|]. lia. }
  exists g4. eexists. split; [|split; [exact S4|]].
  - unfold build_solved_disjunctive_graph, add_conjunctive_edges. rewrite E1. simpl.
    unfold add_source_sink_edges.
    rewrite (st_types _ _ _ _ S2 NSource), (st_types _ _ _ _ S2 NSink).
    unfold nodes_disjunctive. rewrite !filter_app, !filter_op_nodes. simpl.
    change (g_by_job (add_source_sink_nodes g1)) with (g_by_job g1) in El. rewrite El, E3. simpl. exact E4.
  - intros u v t. rewrite (st_edges _ _ _ _ S4), edges_of_writes. simpl app. rewrite !last_write_app.
    destruct (last_write_char _ _ _ HR u v) as [R1 R2].
    destruct (last_write_char _ _ _ HC u v) as [C1 C2].
    destruct (last_write_char _ EConj
               (fun u v => (u = num_ops I /\ exists j o, is_op I v j 0 o) \/
                           (v = Datatypes.S (num_ops I) /\ exists j p o, is_op I u j p o /\ get_op I j (Datatypes.S p) = None))
               HS u v) as [X1 X2].
    unfold spec_solved, conj_edge, src_edge, snk_edge.
    destruct (last_write (solved_edge_list I S) u v) as [t1|] eqn:L1.
    + pose proof (proj1 (R1 t1) eq_refl) as [-> HP]. split.
      * intros H. inversion H; subst. left. auto.
      * intros [[-> _]|[-> [_ Hn]]]; [reflexivity|contradiction].
    + pose proof (proj1 R2 eq_refl) as HnR.
      destruct (last_write l u v) as [t2|] eqn:L2.
      * pose proof (proj1 (X1 t2) eq_refl) as [-> HP]. split.
        -- intros H. inversion H; subst. right. split; [reflexivity|]. tauto.
        -- intros [[-> Hr]|[-> _]]; [contradiction|reflexivity].
      * pose proof (proj1 X2 eq_refl) as HnP. rewrite C1. split.
        -- intros [-> Hc]. right. auto.
        -- intros [[-> Hr]|[-> [[H|H] _]]]; [contradiction|auto|tauto].
Qed.

(** ** times *)

Lemma NoDup_map_inj {A B} (f : A -> B) (l : list A) x y :
  NoDup (map f l) -> In x l -> In y l -> f x = f y -> x = y.
Proof.
  induction l as [|a t IH]; simpl; [tauto|]. intros Hnd Hx Hy E. inversion Hnd as [|? ? Hni Hnd']; subst.
  destruct Hx as [->|Hx], Hy as [->|Hy]; auto.
  - exfalso. apply Hni. rewrite E. apply in_map. exact Hy.
  - exfalso. apply Hni. rewrite <- E. apply in_map. exact Hx.
Qed.

Lemma makespan_ge I S x : In x (all_sops S) -> s_end I x <= makespan I S.
Proof.
  unfold makespan. induction (all_sops S) as [|a t IH]; simpl; [tauto|]. intros [->|H]; [lia|].
  specialize (IH H). lia.
Qed.

Lemma makespan_nonneg I S : 0 <= makespan I S.
Proof. unfold makespan. induction (all_sops S) as [|a t IH]; simpl; lia. Qed.

Lemma max_attained (l : list Z) : l <> [] -> (forall e, In e l -> 0 <= e) -> In (fold_right Z.max 0 l) l.
Proof.
  induction l as [|a t IH]; [congruence|]. intros _ Hpos. simpl.
  destruct t as [|b t'].
  - simpl. left. pose proof (Hpos a (or_introl eq_refl)). lia.
  - assert (Ht : In (fold_right Z.max 0 (b :: t')) (b :: t')).
    { apply IH; [discriminate|]. intros e He. apply Hpos. right. exact He. }
    destruct (Z.max_spec a (fold_right Z.max 0 (b :: t'))) as [[_ ->]|[_ ->]]; [right; exact Ht|left; reflexivity].
Qed.

Section Times.
  Variables (I : instance) (S : schedule).
  Hypothesis Hf : feasible I S.

  Lemma feasible_valid : sops_valid I S.
  Proof. intros x Hx. destruct (f_exists _ _ Hf x Hx) as (o & Ho & _). eauto. Qed.

  Lemma sop_id_key x y :
    In x (all_sops S) -> In y (all_sops S) -> sop_id I x = sop_id I y -> x = y.
  Proof.
    intros Hx Hy E. destruct (feasible_valid x Hx) as [o Ho]. destruct (feasible_valid y Hy) as [o' Ho'].
    unfold sop_id in E. destruct (op_id_inj _ _ _ _ _ _ _ Ho Ho' E) as [E1 E2].
    apply (NoDup_map_inj key (all_sops S)); auto; [apply (f_once _ _ Hf)|]. unfold key. congruence.
  Qed.

  Lemma find_sop_In x : In x (all_sops S) -> find_sop I S (sop_id I x) = Some x.
  Proof.
    intros Hx. unfold find_sop. destruct (find _ (all_sops S)) as [y|] eqn:E.
    - apply find_some in E. destruct E as [Hy E]. apply Nat.eqb_eq in E. f_equal. apply sop_id_key; auto.
    - pose proof (find_none _ _ E x Hx) as H. simpl in H. rewrite Nat.eqb_refl in H. discriminate.
  Qed.

  Lemma node_times_sop x :
    In x (all_sops S) -> node_start I S (sop_id I x) = s_start x /\ node_end I S (sop_id I x) = s_end I x.
  Proof.
    intros Hx. unfold node_start, node_end. rewrite (find_sop_In x Hx).
    assert (E : (sop_id I x <? num_ops I)%nat = true)
      by (apply Nat.ltb_lt; eapply sop_id_lt; eauto using feasible_valid).
    rewrite E. auto.
  Qed.

  Lemma node_dur_sop x : In x (all_sops S) -> node_dur I (sop_id I x) = dur I x.
  Proof.
    intros Hx. destruct (feasible_valid x Hx) as [o Ho]. unfold node_dur.
    assert (E : key_of_id I (sop_id I x) = Some (s_job x, s_pos x)) by (apply key_of_id_spec; eauto).
    rewrite E. rewrite (kdur_of _ _ _ _ Ho). unfold dur. rewrite Ho. reflexivity.
  Qed.

  Lemma node_source : node_start I S (num_ops I) = 0 /\ node_end I S (num_ops I) = 0.
  Proof. unfold node_start, node_end. rewrite Nat.ltb_irrefl, Nat.eqb_refl. auto. Qed.

  Lemma node_sink : node_start I S (Datatypes.S (num_ops I)) = makespan I S /\
                    node_end I S (Datatypes.S (num_ops I)) = makespan I S.
  Proof.
    unfold node_start, node_end.
    assert (E1 : (Datatypes.S (num_ops I) <? num_ops I)%nat = false) by (apply Nat.ltb_ge; lia).
    assert (E2 : (Datatypes.S (num_ops I) =? num_ops I)%nat = false) by (apply Nat.eqb_neq; lia).
    rewrite E1, E2. auto.
  Qed.

  Hypothesis Hc : complete I S.

  Lemma sop_of_op u j p o :
    is_op I u j p o -> exists x, In x (all_sops S) /\ key x = (j, p) /\ sop_id I x = u.
  Proof.
    intros [Ho ->]. destruct (Hc _ _ _ Ho) as (x & Hx & Hk). exists x. split; [exact Hx|]. split; [exact Hk|].
    unfold key in Hk. inversion Hk. reflexivity.
  Qed.

  Lemma row_sorted_mid l1 x y l2 : row_sorted I (l1 ++ x :: y :: l2) -> s_end I x <= s_start y.
  Proof.
    induction l1 as [|a t IH]; simpl.
    - tauto.
    - destruct (t ++ x :: y :: l2) eqn:E; [destruct t; discriminate|]. intros [_ H]. apply IH. exact H.
  Qed.

  Lemma in_row_all row x : In row S -> In x row -> In x (all_sops S).
  Proof. intros Hr Hx. unfold all_sops. apply in_concat. eauto. Qed.

  (** every prescribed edge goes forward in time *)
  Lemma edge_time u v t : spec_solved I S u v t -> node_end I S u <= node_start I S v.
  Proof.
    intros [[_ Hr]|[_ [[Hj|[Hs|Hk]] _]]].
    - destruct Hr as (row & l1 & x & y & l2 & Hrow & -> & -> & ->).
      assert (Hx : In x (all_sops S)) by (eapply in_row_all; eauto; apply in_app_iff; right; simpl; auto).
      assert (Hy : In y (all_sops S)) by (eapply in_row_all; eauto; apply in_app_iff; right; simpl; auto).
      rewrite (proj2 (node_times_sop x Hx)), (proj1 (node_times_sop y Hy)).
      eapply row_sorted_mid. apply (f_machine _ _ Hf). exact Hrow.
    - destruct Hj as (j & p & o & o' & H1 & H2).
      destruct (sop_of_op _ _ _ _ H1) as (x & Hx & Kx & <-).
      destruct (sop_of_op _ _ _ _ H2) as (y & Hy & Ky & <-).
      rewrite (proj2 (node_times_sop x Hx)), (proj1 (node_times_sop y Hy)).
      unfold key in Kx, Ky. inversion Kx. inversion Ky. apply (f_job _ _ Hf); auto; lia.
    - destruct Hs as (-> & j & o & H). destruct (sop_of_op _ _ _ _ H) as (y & Hy & _ & <-).
      rewrite (proj2 node_source), (proj1 (node_times_sop y Hy)). apply (f_nonneg _ _ Hf). exact Hy.
    - destruct Hk as (-> & j & p & o & H & _). destruct (sop_of_op _ _ _ _ H) as (x & Hx & _ & <-).
      rewrite (proj1 node_sink), (proj2 (node_times_sop x Hx)). apply makespan_ge. exact Hx.
  Qed.

  (** every node: start + weight = end *)
  Lemma node_time_eq u : node_start I S u + node_dur I u = node_end I S u.
  Proof.
    destruct (Nat.lt_ge_cases u (num_ops I)) as [Hu|Hu].
    - destruct (id_is_some_op I u Hu) as (j & p & o & Ho & ->).
      destruct (sop_of_op (op_id I j p) j p o (conj Ho eq_refl)) as (x & Hx & _ & E).
      rewrite <- E, (proj1 (node_times_sop x Hx)), (proj2 (node_times_sop x Hx)), (node_dur_sop x Hx).
      reflexivity.
    - assert (Ed : node_dur I u = 0).
      { unfold node_dur, key_of_id. rewrite (proj2 (nth_error_None (all_keys I) u)); [reflexivity|].
        rewrite length_all_keys. exact Hu. }
      rewrite Ed. unfold node_start, node_end. destruct (u <? num_ops I)%nat eqn:E.
      + apply Nat.ltb_lt in E. lia.
      + destruct (u =? num_ops I)%nat; lia.
  Qed.

  Lemma node_end_le u : node_end I S u <= makespan I S.
  Proof.
    pose proof (makespan_nonneg I S). unfold node_end. destruct (u <? num_ops I)%nat.
    - destruct (find_sop I S u) as [x|] eqn:E; [|lia]. apply find_some in E. apply makespan_ge. tauto.
    - destruct (u =? num_ops I)%nat; lia.
  Qed.

  Lemma node_start_ge u : 0 <= node_start I S u.
  Proof.
    pose proof (makespan_nonneg I S). unfold node_start. destruct (u <? num_ops I)%nat.
    - destruct (find_sop I S u) as [x|] eqn:E; [|lia]. apply find_some in E. apply (f_nonneg _ _ Hf). tauto.
    - destruct (u =? num_ops I)%nat; lia.
  Qed.

  Variable es : list edge.
  Hypothesis Hes : forall u v t, In (u, v, t) es <-> spec_solved I S u v t.

  Lemma walk_weight l : walk es l -> l <> [] ->
    node_start I S (hd 0%nat l) + sumZ (map (node_dur I) l) <= node_end I S (last l 0%nat).
  Proof.
    induction l as [|u r IH]; [congruence|]. intros Hw _. destruct r as [|v r'].
    - simpl. pose proof (node_time_eq u). lia.
    - destruct Hw as [[t Ht] Hw]. specialize (IH Hw ltac:(discriminate)).
      apply Hes, edge_time in Ht. pose proof (node_time_eq u).
      change (last (u :: v :: r') 0%nat) with (last (v :: r') 0%nat).
      change (hd 0%nat (u :: v :: r')) with u. change (hd 0%nat (v :: r')) with v in IH.
      change (sumZ (map (node_dur I) (u :: v :: r'))) with (node_dur I u + sumZ (map (node_dur I) (v :: r'))).
      lia.
  Qed.

  Theorem walk_le_makespan l : walk es l -> sumZ (map (node_dur I) l) <= makespan I S.
  Proof.
    intros Hw. destruct l as [|u r]; [simpl; apply makespan_nonneg|].
    pose proof (walk_weight (u :: r) Hw ltac:(discriminate)).
    pose proof (node_end_le (last (u :: r) 0%nat)). pose proof (node_start_ge (hd 0%nat (u :: r))). lia.
  Qed.

  (** *** acyclic *)
  Hypothesis Hpos : positive I.

  Definition rk (u : nat) : Z :=
    if (u <? num_ops I)%nat then 2 * node_start I S u + 1
    else if (u =? num_ops I)%nat then 0 else 2 * makespan I S + 2.

  Lemma rk_sop x : In x (all_sops S) -> rk (sop_id I x) = 2 * s_start x + 1.
  Proof.
    intros Hx. unfold rk.
    assert (E : (sop_id I x <? num_ops I)%nat = true)
      by (apply Nat.ltb_lt; eapply sop_id_lt; eauto using feasible_valid).
    rewrite E, (proj1 (node_times_sop x Hx)). reflexivity.
  Qed.

  Lemma dur_pos x : In x (all_sops S) -> 0 < dur I x.
  Proof.
    intros Hx. destruct (feasible_valid x Hx) as [o Ho]. unfold dur. rewrite Ho. apply (Hpos _ _ _ Ho).
  Qed.

  Lemma edge_rank u v t : spec_solved I S u v t -> rk u < rk v.
  Proof.
    intros [[_ Hr]|[_ [[Hj|[Hs|Hk]] _]]].
    - destruct Hr as (row & l1 & x & y & l2 & Hrow & -> & -> & ->).
      assert (Hx : In x (all_sops S)) by (eapply in_row_all; eauto; apply in_app_iff; right; simpl; auto).
      assert (Hy : In y (all_sops S)) by (eapply in_row_all; eauto; apply in_app_iff; right; simpl; auto).
      rewrite (rk_sop x Hx), (rk_sop y Hy).
      assert (s_end I x <= s_start y) by (eapply row_sorted_mid; apply (f_machine _ _ Hf); exact Hrow).
      pose proof (dur_pos x Hx). unfold s_end in *. lia.
    - destruct Hj as (j & p & o & o' & H1 & H2).
      destruct (sop_of_op _ _ _ _ H1) as (x & Hx & Kx & <-).
      destruct (sop_of_op _ _ _ _ H2) as (y & Hy & Ky & <-).
      rewrite (rk_sop x Hx), (rk_sop y Hy). unfold key in Kx, Ky. inversion Kx. inversion Ky.
      assert (s_end I x <= s_start y) by (apply (f_job _ _ Hf); auto; lia).
      pose proof (dur_pos x Hx). unfold s_end in *. lia.
    - destruct Hs as (-> & j & o & H). destruct (sop_of_op _ _ _ _ H) as (y & Hy & _ & <-).
      rewrite (rk_sop y Hy). unfold rk. rewrite Nat.ltb_irrefl, Nat.eqb_refl.
      pose proof (f_nonneg _ _ Hf y Hy). lia.
    - destruct Hk as (-> & j & p & o & H & _). destruct (sop_of_op _ _ _ _ H) as (x & Hx & _ & <-).
      rewrite (rk_sop x Hx). unfold rk.
      assert (E1 : (Datatypes.S (num_ops I) <? num_ops I)%nat = false) by (apply Nat.ltb_ge; lia).
      assert (E2 : (Datatypes.S (num_ops I) =? num_ops I)%nat = false) by (apply Nat.eqb_neq; lia).
      rewrite E1, E2. pose proof (makespan_ge I S x Hx). pose proof (dur_pos x Hx). unfold s_end in *. lia.
  Qed.

  Lemma walk_rank l : walk es l -> forall u r, l = u :: r -> r <> [] -> rk u < rk (last r 0%nat).
  Proof.
    induction l as [|a t IH]; intros Hw u r E Hr; [discriminate|]. inversion E; subst a t. clear E.
    destruct r as [|v r']; [congruence|]. destruct Hw as [[ty Ht] Hw].
    apply Hes, edge_rank in Ht. destruct r' as [|v' r''].
    - simpl. exact Ht.
    - specialize (IH Hw v (v' :: r'') eq_refl ltac:(discriminate)).
      change (last (v :: v' :: r'') 0%nat) with (last (v' :: r'') 0%nat). lia.
  Qed.

  (** no closed walk: the graph is acyclic *)
  Theorem walk_acyclic l : walk es l -> (2 <= length l)%nat -> hd 0%nat l <> last l 0%nat.
  Proof.
    intros Hw Hlen. destruct l as [|u r]; [simpl in Hlen; lia|]. destruct r as [|v r']; [simpl in Hlen; lia|].
    pose proof (walk_rank _ Hw u (v :: r') eq_refl ltac:(discriminate)) as H.
    change (last (u :: v :: r') 0%nat) with (last (v :: r') 0%nat). simpl hd. intros E. rewrite <- E in H. lia.
  Qed.
End Times.

Theorem solved_dag I S : nonempty_jobs I -> positive I -> feasible I S -> complete I S ->
  exists G, build_solved_disjunctive_graph I S = Some G /\ g_nodes G = nodes_disjunctive I /\
    (forall u v t, In (u, v, t) (g_edges G) <-> spec_solved I S u v t) /\
    (forall u v t, In (u, v, t) (g_edges G) -> node_end I S u <= node_start I S v) /\
    (forall l, walk (g_edges G) l -> (2 <= length l)%nat -> hd 0%nat l <> last l 0%nat) /\
    (forall l, walk (g_edges G) l -> sumZ (map (node_dur I) l) <= makespan I S).
Proof.
  intros Hne Hpos Hf Hc. destruct (solved_char I S Hne (feasible_valid I S Hf)) as (G & w & E & Hs & He).
  exists G. split; [exact E|]. split; [apply (st_nodes _ _ _ _ Hs)|]. split; [exact He|]. split; [|split].
  - intros u v t H. apply He in H. eapply edge_time; eauto.
  - intros l. apply (walk_acyclic I S Hf Hc (g_edges G) He Hpos).
  - intros l. apply (walk_le_makespan I S Hf Hc (g_edges G) He).
Qed.

(** ** dispatcher-built schedules: a tight chain back to time 0 *)

Definition row_pred (S : schedule) (y x : sop) : Prop :=
  exists row l1 l2, In row S /\ row = l1 ++ y :: x :: l2.

(** [x] starts at 0 as the first operation of its job, or exactly when its
    job predecessor ends, or exactly when its machine predecessor ends. *)
Definition tight_at (I : instance) (S : schedule) (x : sop) : Prop :=
  (s_pos x = 0%nat /\ s_start x = 0) \/
  (exists y, In y (all_sops S) /\ s_job y = s_job x /\ Datatypes.S (s_pos y) = s_pos x /\ s_end I y = s_start x) \/
  (exists y, row_pred S y x /\ s_end I y = s_start x).
Definition Tight (I : instance) (S : schedule) : Prop := forall x, In x (all_sops S) -> tight_at I S x.

Lemma row_pred_upd S m row x a b :
  nth_error S m = Some row -> row_pred S a b -> row_pred (upd S m (row ++ [x])) a b.
Proof.
  intros Hm (r & l1 & l2 & Hr & ->). destruct (In_nth_error _ _ Hr) as [k Hk].
  assert (Hlen : (m < length S)%nat) by (apply nth_error_Some; congruence).
  destruct (Nat.eq_dec m k) as [<-|Hne].
  - rewrite Hm in Hk. inversion Hk; subst row. exists ((l1 ++ a :: b :: l2) ++ [x]), l1, (l2 ++ [x]). split.
    + eapply nth_error_In. apply nth_error_upd_eq. exact Hlen.
    + rewrite <- app_assoc. reflexivity.
  - exists (l1 ++ a :: b :: l2), l1, l2. split; [|reflexivity].
    eapply nth_error_In. rewrite nth_error_upd_neq by exact Hne. exact Hk.
Qed.

Lemma last_opt_some_split {A} (l : list A) y : last_opt l = Some y -> exists l', l = l' ++ [y].
Proof.
  unfold last_opt. destruct (rev l) as [|z t] eqn:E; [discriminate|]. intros H. inversion H; subst.
  exists (rev t). rewrite <- (rev_involutive l), E. reflexivity.
Qed.

Lemma last_opt_none_nil {A} (l : list A) : last_opt l = None -> l = [].
Proof.
  unfold last_opt. destruct (rev l) as [|z t] eqn:E; [|discriminate]. intros _.
  rewrite <- (rev_involutive l), E. reflexivity.
Qed.

Theorem Tight_apply_sop I d r x o row :
  Inv I d -> Tight I (sched d) -> accepted I d r x o row -> Tight I (sched (apply_sop I d x row)).
Proof.
  intros Hi Ht Ha. destruct Ha as [Aop Ajob Apos Anext Aelig Amach Arange Astart Arow Alast].
  assert (Hperm : Permutation (all_sops (upd (sched d) (s_mach x) (row ++ [x]))) (x :: all_sops (sched d)))
    by (apply concat_upd_perm; exact Arow).
  assert (Hin : forall y, In y (all_sops (upd (sched d) (s_mach x) (row ++ [x]))) <-> y = x \/ In y (all_sops (sched d))).
  { intros y. split; intros H.
    - apply (Permutation_in _ Hperm) in H. destruct H; auto.
    - apply (Permutation_in _ (Permutation_sym Hperm)). destruct H; [left; auto|right; auto]. }
  unfold apply_sop. cbn [sched]. intros y Hy. apply Hin in Hy. destruct Hy as [->|Hy].
  - (* the new operation *)
    assert (Hjf : 0 <= nthZ (jfree d) (r_job r)) by apply (i_nonneg_jf _ _ Hi).
    assert (Hjob_case : s_start x = nthZ (jfree d) (r_job r) -> tight_at I (upd (sched d) (s_mach x) (row ++ [x])) x).
    { intros E. destruct (i_jfree _ _ Hi (r_job r)) as [[H0 Hz]|(y & Hy & Hk & Hp & He)].
      - left. split; [rewrite Apos, <- Anext; exact H0|rewrite E; exact Hz].
      - right. left. exists y. split; [apply Hin; right; exact Hy|]. unfold key in Hk. injection Hk as Hkj Hkp.
        split; [congruence|]. split; [rewrite Apos, <- Anext; lia|congruence]. }
    destruct (Z.max_spec (nthZ (mfree d) (s_mach x)) (nthZ (jfree d) (r_job r))) as [[_ E]|[Hle E]].
    + apply Hjob_case. congruence.
    + destruct (i_rows _ _ Hi _ _ Arow) as (_ & _ & Hl). unfold last_end in Hl.
      destruct (last_opt row) as [y|] eqn:El.
      * right. right. exists y. split; [|congruence].
        destruct (last_opt_some_split _ _ El) as [l' ->].
        exists ((l' ++ [y]) ++ [x]), l', []. split.
        -- eapply nth_error_In. apply nth_error_upd_eq. apply nth_error_Some. congruence.
        -- rewrite <- app_assoc. reflexivity.
      * apply Hjob_case. lia.
  - destruct (Ht y Hy) as [H|[(z & Hz & H)|(z & Hz & H)]].
    + left. exact H.
    + right. left. exists z. split; [apply Hin; right; exact Hz|exact H].
    + right. right. exists z. split; [apply row_pred_upd; assumption|exact H].
Qed.

Section RunTight.
  Variable O : Type.
  Variable o_update : instance -> list fname -> dstate -> sop -> O -> O.

  Lemma step_req_Tight I w r :
    valid I -> Inv I (core w) -> Tight I (sched (core w)) ->
    Tight I (sched (core (step_req O o_update I w r))).
  Proof.
    intros Hv Hi Ht. destruct (step_req_cases O o_update I w r) as [[-> _]|(x & o & row & Ha & -> & _)]; [exact Ht|].
    simpl. eapply Tight_apply_sop; eauto.
  Qed.

  Lemma fold_step_Tight I rs : forall w,
    valid I -> Inv I (core w) -> Tight I (sched (core w)) ->
    Tight I (sched (core (fold_left (step_req O o_update I) rs w))).
  Proof.
    induction rs as [|r t IH]; intros w Hv Hi Ht; simpl; [exact Ht|].
    apply IH; [exact Hv|apply step_req_Inv; assumption|apply step_req_Tight; assumption].
  Qed.

  Theorem run_Tight I fs rs : valid I -> Tight I (sched (core (run_reqs O o_update I fs rs))).
  Proof.
    intros Hv. apply fold_step_Tight; [exact Hv|simpl; apply Inv_init|].
    intros x Hx. unfold init_w, init_d, all_sops in Hx. cbn [core sched] in Hx.
    rewrite concat_repeat_nil in Hx. destruct Hx.
  Qed.
End RunTight.

Lemma positive_valid I : positive I -> valid I.
Proof. intros H j p o Ho. destruct (H j p o Ho). lia. Qed.

Lemma walk_snoc es l u v : walk es (l ++ [u]) -> has_edge es u v -> walk es ((l ++ [u]) ++ [v]).
Proof.
  induction l as [|a t IH]; simpl.
  - intros _ H. auto.
  - intros Hw He. destruct (t ++ [u]) as [|b r] eqn:E; [destruct t; discriminate|].
    destruct Hw as [H1 H2]. simpl. split; [exact H1|]. apply IH; assumption.
Qed.

Section Critical.
  Variables (I : instance) (S : schedule) (es : list edge).
  Hypothesis Hf : feasible I S.
  Hypothesis Hc : complete I S.
  Hypothesis Hpos : positive I.
  Hypothesis Ht : Tight I S.
  Hypothesis Hes : forall u v t, In (u, v, t) es <-> spec_solved I S u v t.

  Lemma has_edge_row u v : row_consecutive I S u v -> has_edge es u v.
  Proof. intros H. exists EDisj. apply Hes. left. auto. Qed.

  Lemma has_edge_conj u v : conj_edge I u v -> has_edge es u v.
  Proof.
    intros H. destruct (row_consecutiveb I S u v) eqn:E.
    - apply has_edge_row. apply row_consecutiveb_spec. exact E.
    - exists EConj. apply Hes. right. split; [reflexivity|]. split; [exact H|].
      intros Hr. apply row_consecutiveb_spec in Hr. congruence.
  Qed.

  Lemma is_op_sop x : In x (all_sops S) -> exists o, is_op I (sop_id I x) (s_job x) (s_pos x) o.
  Proof. intros Hx. destruct (feasible_valid I S Hf x Hx) as [o Ho]. exists o. split; auto. Qed.

  (** the chain: a walk from the source to [x] whose weight is [end x] *)
  Lemma chain_to n : forall x, In x (all_sops S) -> (Z.to_nat (s_start x) < n)%nat ->
    exists l, walk es (num_ops I :: l ++ [sop_id I x]) /\
              sumZ (map (node_dur I) (l ++ [sop_id I x])) = s_end I x.
  Proof.
    induction n as [|n IH]; intros x Hx Hn; [lia|].
    assert (Hdx : node_dur I (sop_id I x) = dur I x) by (apply (node_dur_sop I S Hf); exact Hx).
    assert (Hext : forall y, In y (all_sops S) -> s_end I y = s_start x ->
                     has_edge es (sop_id I y) (sop_id I x) ->
                     exists l, walk es (num_ops I :: l ++ [sop_id I x]) /\
                               sumZ (map (node_dur I) (l ++ [sop_id I x])) = s_end I x).
    { intros y Hy He Hedge.
      assert (Hlt : (Z.to_nat (s_start y) < n)%nat).
      { pose proof (dur_pos I S Hf Hpos y Hy). pose proof (f_nonneg _ _ Hf y Hy).
        pose proof (f_nonneg _ _ Hf x Hx). unfold s_end in He. lia. }
      destruct (IH y Hy Hlt) as (l & Hw & Hsum). exists (l ++ [sop_id I y]). split.
      - change (num_ops I :: (l ++ [sop_id I y]) ++ [sop_id I x])
          with (((num_ops I :: l) ++ [sop_id I y]) ++ [sop_id I x]).
        apply walk_snoc; [exact Hw|exact Hedge].
      - rewrite map_app. simpl. rewrite Hdx.
        assert (Hs : forall a b, sumZ (a ++ [b]) = sumZ a + b).
        { intros a b. induction a as [|c a IHa]; simpl; [lia|]. rewrite IHa. lia. }
        rewrite Hs, Hsum. unfold s_end in *. lia. }
    destruct (Ht x Hx) as [[Hp0 Hs0]|[(y & Hy & Hj & Hp & He)|(y & Hr & He)]].
    - exists []. simpl. split.
      + split; [|exact Logic.I]. apply has_edge_conj. right. left. split; [reflexivity|].
        destruct (is_op_sop x Hx) as [o Ho]. rewrite Hp0 in Ho. eauto.
      + rewrite Hdx. unfold s_end. lia.
    - apply (Hext y Hy He). apply has_edge_conj. left.
      destruct (is_op_sop x Hx) as [o Ho]. destruct (is_op_sop y Hy) as [o' Ho'].
      rewrite Hj in Ho'. rewrite <- Hp in Ho. exists (s_job x), (s_pos y), o', o. auto.
    - destruct Hr as (row & l1 & l2 & Hrow & Erow).
      assert (Hy : In y (all_sops S)).
      { eapply in_row_all; [exact Hrow|]. rewrite Erow. apply in_app_iff. right. simpl. auto. }
      apply (Hext y Hy He). apply has_edge_row. exists row, l1, y, x, l2. auto.
  Qed.

  Hypothesis Hnonempty : all_sops S <> [].

  Theorem critical_walk :
    exists l, walk es (num_ops I :: l ++ [Datatypes.S (num_ops I)]) /\
              sumZ (map (node_dur I) l) = makespan I S.
  Proof.
    assert (Hmax : In (makespan I S) (map (s_end I) (all_sops S))).
    { unfold makespan. apply max_attained.
      - destruct (all_sops S); [congruence|discriminate].
      - intros e He. apply in_map_iff in He. destruct He as (x & <- & Hx).
        pose proof (f_nonneg _ _ Hf x Hx). pose proof (dur_pos I S Hf Hpos x Hx). unfold s_end. lia. }
    apply in_map_iff in Hmax. destruct Hmax as (x & Hend & Hx).
    destruct (chain_to (Datatypes.S (Z.to_nat (s_start x))) x Hx ltac:(lia)) as (l & Hw & Hsum).
    exists (l ++ [sop_id I x]). split; [|rewrite Hsum; exact Hend].
    change (num_ops I :: (l ++ [sop_id I x]) ++ [Datatypes.S (num_ops I)])
      with (((num_ops I :: l) ++ [sop_id I x]) ++ [Datatypes.S (num_ops I)]).
    apply walk_snoc; [exact Hw|]. apply has_edge_conj. right. right. split; [reflexivity|].
    destruct (is_op_sop x Hx) as [o Ho]. exists (s_job x), (s_pos x), o. split; [exact Ho|].
    destruct (get_op I (s_job x) (Datatypes.S (s_pos x))) as [o'|] eqn:E; [|reflexivity]. exfalso.
    destruct (Hc _ _ _ E) as (y & Hy & Ky). unfold key in Ky. inversion Ky.
    assert (s_end I x <= s_start y) by (apply (f_job _ _ Hf); auto; lia).
    pose proof (dur_pos I S Hf Hpos y Hy). pose proof (makespan_ge I S y Hy). unfold s_end in *. lia.
  Qed.
End Critical.

Section CriticalRun.
  Variable O : Type.
  Variable o_update : instance -> list fname -> dstate -> sop -> O -> O.

  Theorem critical_path I fs rs :
    nonempty_jobs I -> I <> [] -> positive I ->
    complete I (sched (core (run_reqs O o_update I fs rs))) ->
    exists G l,
      build_solved_disjunctive_graph I (sched (core (run_reqs O o_update I fs rs))) = Some G /\
      walk (g_edges G) (num_ops I :: l ++ [Datatypes.S (num_ops I)]) /\
      sumZ (map (node_dur I) l) = makespan I (sched (core (run_reqs O o_update I fs rs))) /\
      (forall l', walk (g_edges G) l' ->
                  sumZ (map (node_dur I) l') <= makespan I (sched (core (run_reqs O o_update I fs rs)))).
  Proof.
    intros Hne Hnil Hpos Hc. set (S := sched (core (run_reqs O o_update I fs rs))) in *.
    pose proof (positive_valid I Hpos) as Hv.
    assert (Hf : feasible I S) by (apply Inv_feasible; apply run_Inv; exact Hv).
    assert (Ht : Tight I S) by (apply run_Tight; exact Hv).
    destruct (solved_dag I S Hne Hpos Hf Hc) as (G & E & _ & He & _ & _ & Hle).
    assert (Hsome : all_sops S <> []).
    { destruct I as [|job r]; [congruence|]. destruct job as [|o job'].
      - exfalso. apply (Hne []); [left; reflexivity|reflexivity].
      - destruct (Hc 0%nat 0%nat o eq_refl) as (x & Hx & _). intros E0. rewrite E0 in Hx. destruct Hx. }
    destruct (critical_walk I S (g_edges G) Hf Hc Hpos Ht He Hsome) as (l & Hw & Hsum).
    exists G, l. auto.
  Qed.
End CriticalRun.
