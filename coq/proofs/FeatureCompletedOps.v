(** FeatureCompletedOps.v — C11: IsCompletedObserver, operation level. The flags
    are sticky (set when the operation is seen completed, never cleared), so
    the claim rests on C06: the set of completed operations only grows (no
    filter; or any filters on positive durations). Every operation that still
    has work left shows 0. *)
From JSL Require Import Base Instance Dstate Filters World Observers Feasible ListFacts DispatchFun Inv Run
     Derived Tracking Replay OpIds Partition Clock
     FeatureObservers FeatureBase FeatureSimple FeatureSpec FeatureProofs.
From Coq Require Import Lia Permutation.

Section CompletedOps.
  Variable I : instance.
  Variable fs : list fname.
  Hypothesis Hv : valid I.
  Hypothesis Hm : has_machines I.
  Hypothesis Hcase : fs = [] \/ positive I.
  Variable m : ftm.

  Record cops_inv (d : dstate) (o : fobs) : Prop := {
    co_kind : fo_kind o = FIsCompleted;
    co_ops : if t_ops m
             then exists g : nat * nat -> Z, fo_ops o = Some (map g (all_keys I)) /\
                    forall k, In k (all_keys I) -> g k = 0 \/ (g k = 1 /\ In k (completed_of I fs d))
             else fo_ops o = None
  }.

  Lemma cops_inv_init : cops_inv (init_d I) (fresh_comp I m).
  Proof.
    unfold fresh_comp, zero_obj. constructor; cbn [fo_kind fo_ops set_rem set_feats blank]; [reflexivity|].
    destruct (t_ops m); cbn [when]; [|reflexivity].
    exists (fun _ => 0). split; [rewrite (zeros_keys I); reflexivity|]. intros k _. left; reflexivity.
  Qed.

  Lemma completed_in_keys d k : In k (completed_of I fs d) -> In k (all_keys I).
  Proof.
    unfold completed_of. rewrite filter_In. intros [H _]. destruct k as [j p].
    unfold scheduled_ops in H. apply In_scheduled_from in H. destruct H as (_ & _ & _ & _ & H).
    rewrite Nat.sub_0_r in H. apply In_all_keys. apply get_op_of_pos_lt. exact H.
  Qed.

  Lemma cops_inv_step d r x o : Inv I d -> cops_inv d o -> sop_of_request I d r = Some x ->
    cops_inv (apply_sop I d x (row_of d x)) (obj_step I fs (apply_sop I d x (row_of d x)) x o).
  Proof.
    intros Hi [K Ho] E. unfold obj_step, upd_obs. rewrite K.
    constructor; cbn [fo_kind fo_ops set_rem set_feats]; [exact K|].
    destruct (t_ops m); [|rewrite Ho; reflexivity].
    destruct Ho as (g & Hg & Hc). rewrite Hg. cbn [option_map].
    set (d' := apply_sop I d x (row_of d x)).
    rewrite (fold_upd_keys I (fun _ => 1)) by (intros k Hk; apply (completed_in_keys d' k Hk)).
    eexists. split; [reflexivity|]. intros k Hk. cbv beta.
    destruct (mem_key k (completed_of I fs d')) eqn:Em.
    - right. split; [reflexivity|apply mem_key_In; exact Em].
    - destruct (Hc k Hk) as [H0|[H1 Hin]]; [left; exact H0|]. exfalso.
      assert (Hin' : In k (completed_of I fs d')).
      { pose proof (completed_step fsys f_update I Hv Hm (fw fs d empty_sys) r fs k) as Hs.
        rewrite (core_step_req fsys f_update I (fw fs d empty_sys) r) in Hs. cbn [core fw] in Hs.
        unfold apply_req in Hs. rewrite E in Hs. apply (Hs Hi Hcase Hin). }
      apply mem_key_In in Hin'. congruence.
  Qed.

  Theorem completed_ops_after rs s0 i :
    placed s0 i (fresh_comp I m) ->
    let w := after_run I fs s0 rs in
    t_ops m = true -> forall j p op, get_op I j p = Some op -> op_work_left I fs (rows w) (j, p) = true ->
        cell (fo_ops (feat w i)) (op_id I j p) = Some (sp_completed_op I fs (rows w) (j, p)).
  Proof.
    intros Hp.
    destruct (inv_run I fs Hv cops_inv (fun d o H => ltac:(rewrite (co_kind d o H); discriminate))
                      cops_inv_step rs s0 i _ Hp cops_inv_init) as [Hi [K Ho]].
    cbv zeta. unfold rows. set (d := core (after_run I fs s0 rs)) in *.
    intros Ht j p op Hop Hw. rewrite Ht in Ho. destruct Ho as (g & Hg & Hc). rewrite Hg.
    rewrite (cell_map_keys I g j p op Hop).
    unfold op_work_left in Hw. apply negb_true_iff in Hw. unfold sp_completed_op. rewrite Hw. cbn [zb].
    assert (Hk : In (j, p) (all_keys I)) by (apply In_all_keys; eauto).
    destruct (Hc _ Hk) as [H0|[_ Hin]]; [rewrite H0; reflexivity|]. exfalso.
    apply (completed_char I Hv d fs (j, p) Hi) in Hin. destruct Hin as (y & Hy & Hky & Hle).
    unfold sp_done in Hw. rewrite <- Hky, (sp_find_in I d Hi y Hy) in Hw.
    rewrite (sp_now_eq I fs d Hi) in Hw. apply Z.leb_gt in Hw.
    change (p_now I fs d) with (now_of I fs d) in Hle. lia.
  Qed.
End CompletedOps.
