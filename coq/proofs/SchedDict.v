(** SchedDict.v — [Schedule.from_dict (Schedule.to_dict S)] for dispatcher-built
    schedules, and uniqueness of the semi-active schedule of given sequences. *)
From JSL Require Import Base Instance Dstate Filters World Feasible ListFacts DispatchFun Inv Run
  Views ViewsSpec ViewsProofs FjsInv FjsStep FjsRebuild.
From Coq Require Import Lia.

Section SchedDict.
  Variables Nm Md Sm : Type.

  Theorem sched_dict_roundtrip I (nm : Nm) (md : Md) (sm : Sm) hT dT :
    valid I -> single_machine I -> Hist I hT dT -> is_complete I (sched dT) = true ->
    exists D, sched_to_dict (mkso (mkio I nm md) (sched dT) sm) = inl D /\
              sched_from_dict D = FDOk (mkso (mkio I nm md) (sched dT) sm).
  Proof.
    intros Hv Hs Hh Hc.
    destruct (from_matrices_to_dict Nm Md (mkio I nm md) (or_intror Hs)) as (D0 & Ht & Hf).
    exists (mksd D0 (job_sequences (sched dT)) sm). unfold sched_to_dict, sched_from_dict.
    cbn [so_inst so_rows so_meta sd_inst sd_seqs sd_meta]. rewrite Ht, Hf. cbn [io_jobs].
    rewrite (fjs_rebuilds_target I Hv Hs hT dT Hh Hc). split; reflexivity.
  Qed.
End SchedDict.

Section RunRebuild.
  Variable O : Type.
  Variable o_update : instance -> list fname -> dstate -> sop -> O -> O.

  Theorem run_reqs_rebuilt I fs rs :
    valid I -> single_machine I ->
    is_complete I (sched (core (run_reqs O o_update I fs rs))) = true ->
    from_job_sequences I (job_sequences (sched (core (run_reqs O o_update I fs rs)))) =
    FOk (sched (core (run_reqs O o_update I fs rs))).
  Proof.
    intros Hv Hs Hc. destruct (run_Hist O o_update I fs rs Hv) as [h Hh].
    exact (fjs_rebuilds_target I Hv Hs h _ Hh Hc).
  Qed.

  Theorem run_reqs_dict_roundtrip (Nm Md Sm : Type) I fs rs (nm : Nm) (md : Md) (sm : Sm) :
    valid I -> single_machine I ->
    is_complete I (sched (core (run_reqs O o_update I fs rs))) = true ->
    exists D, sched_to_dict (mkso (mkio I nm md) (sched (core (run_reqs O o_update I fs rs))) sm) = inl D /\
              sched_from_dict D = FDOk (mkso (mkio I nm md) (sched (core (run_reqs O o_update I fs rs))) sm).
  Proof.
    intros Hv Hs Hc. destruct (run_Hist O o_update I fs rs Hv) as [h Hh].
    exact (sched_dict_roundtrip Nm Md Sm I nm md sm h _ Hv Hs Hh Hc).
  Qed.

  (** Semi-active uniqueness: complete dispatcher-built schedules with the same
      per-machine job sequences are the same schedule (start times included),
      whatever the two request lists were. *)
  Theorem semi_active_unique I fs rs fs' rs' :
    valid I -> single_machine I ->
    is_complete I (sched (core (run_reqs O o_update I fs rs))) = true ->
    is_complete I (sched (core (run_reqs O o_update I fs' rs'))) = true ->
    job_sequences (sched (core (run_reqs O o_update I fs rs))) =
    job_sequences (sched (core (run_reqs O o_update I fs' rs'))) ->
    sched (core (run_reqs O o_update I fs rs)) = sched (core (run_reqs O o_update I fs' rs')).
  Proof.
    intros Hv Hs Hc Hc' E.
    pose proof (run_reqs_rebuilt I fs rs Hv Hs Hc) as H1.
    pose proof (run_reqs_rebuilt I fs' rs' Hv Hs Hc') as H2.
    rewrite E, H2 in H1. inversion H1. reflexivity.
  Qed.
End RunRebuild.
