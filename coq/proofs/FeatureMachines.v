(** FeatureMachines.v — C11: machine-level counts and sums of
    RemainingOperations and Duration on NON-FLEXIBLE instances equal the
    count / summed duration of the unscheduled operations of the machine. *)
From JSL Require Import Base Instance Dstate Filters World Observers Feasible ListFacts DispatchFun Inv Run
     Derived Tracking Replay OpIds Partition FeatureObservers FeatureBase FeatureSimple FeatureSpec FeatureProofs.
From Coq Require Import Lia Permutation.

(** ** list facts *)
Lemma dedup_mem e l : mem_nat e (dedup_nat l) = mem_nat e l.
Proof.
  induction l as [|x t IH]; simpl; [reflexivity|]. destruct (mem_nat x t) eqn:Ex; simpl; rewrite IH.
  - destruct (e =? x)%nat eqn:E; [|reflexivity]. apply Nat.eqb_eq in E. subst. rewrite Ex. reflexivity.
  - reflexivity.
Qed.

Lemma dedup_nodup l : NoDup (dedup_nat l).
Proof.
  induction l as [|x t IH]; simpl; [constructor|]. destruct (mem_nat x t) eqn:Ex; [exact IH|].
  constructor; [|exact IH]. intro Hin. apply mem_nat_In in Hin. rewrite dedup_mem in Hin. congruence.
Qed.

Lemma count_nodup e l : NoDup l -> length (filter (fun k => (k =? e)%nat) l) = if mem_nat e l then 1%nat else 0%nat.
Proof.
  induction 1 as [|x t Hni Hnd IH]; simpl; [reflexivity|]. rewrite (Nat.eqb_sym e x).
  destruct (x =? e)%nat eqn:E; simpl.
  - apply Nat.eqb_eq in E. subst. rewrite IH.
    destruct (mem_nat e t) eqn:Em; [apply mem_nat_In in Em; contradiction|reflexivity].
  - exact IH.
Qed.

Lemma sumZ_cons x l : sumZ (x :: l) = x + sumZ l.
Proof. reflexivity. Qed.

Lemma filter_flip_sum {A} (w : A -> Z) (f f' : A -> bool) (k0 : A) l :
  NoDup l -> In k0 l -> f k0 = true -> f' k0 = false -> (forall k, k <> k0 -> f' k = f k) ->
  sumZ (map w (filter f l)) = w k0 + sumZ (map w (filter f' l)).
Proof.
  intros Hnd Hin H1 H2 Hoth. induction l as [|a t IH]; [contradiction|].
  inversion Hnd as [|? ? Hni Hnd']; subst. destruct Hin as [->|Hin].
  - cbn [filter]. rewrite H1, H2. cbn [map]. rewrite sumZ_cons.
    rewrite (filter_ext_in f' f t); [reflexivity|]. intros k Hk. apply Hoth. intro; subst; contradiction.
  - cbn [filter]. rewrite (Hoth a) by (intro; subst; contradiction).
    destruct (f a); cbn [map]; rewrite ?sumZ_cons, (IH Hnd' Hin); ring.
Qed.

Lemma length_as_sum {A} (l : list A) : Z.of_nat (length l) = sumZ (map (fun _ => 1) l).
Proof. induction l as [|a t IH]; [reflexivity|]. cbn [length map]. rewrite sumZ_cons, Nat2Z.inj_succ, <- IH. lia. Qed.

Section Machines.
  Variable I : instance.
  Variable fs : list fname.
  Hypothesis Hv : valid I.
  Hypothesis Hnf : is_flexible I = false.

  Let M := num_machines I.
  Definition onm (mm : nat) (k : nat * nat) : bool := mem_nat mm (kmachines I k).
  Definition unsched_on (d : dstate) (mm : nat) (k : nat * nat) : bool := onm mm k && negb (is_sched d k).

  Lemma nonflex_op j p o : get_op I j p = Some o -> (length (machines o) <= 1)%nat.
  Proof.
    intros Ho. destruct (get_op_In_job I j p o Ho) as [Hjob Hin].
    unfold is_flexible in Hnf.
    destruct (le_lt_dec (length (machines o)) 1) as [H|H]; [exact H|]. exfalso.
    assert (Hex : existsb (fun job => existsb (fun o => (1 <? length (machines o))%nat) job) I = true).
    { apply existsb_exists. exists (get_job I j). split; [exact Hjob|]. apply existsb_exists. exists o.
      split; [exact Hin|]. apply Nat.ltb_lt. exact H. }
    congruence.
  Qed.

  Lemma nonflex_single j p o mm : get_op I j p = Some o -> In mm (machines o) -> machines o = [mm].
  Proof.
    intros Ho Hin. pose proof (nonflex_op j p o Ho) as Hl.
    destruct (machines o) as [|a [|b t]]; simpl in *; [contradiction| |lia].
    destruct Hin as [->|[]]. reflexivity.
  Qed.

  (** *** the initial machine arrays *)
  Lemma inner_fold ms : forall v e, NoDup ms -> (forall a, In a ms -> (a < length v)%nat) -> (e < length v)%nat ->
    nthZ (fold_left (fun v a => addat v a 1) ms v) e = nthZ v e + (if mem_nat e ms then 1 else 0).
  Proof.
    intros v e Hnd Hlt He. rewrite (fold_addat_count (fun a : nat => a) ms v e Hlt He).
    rewrite (count_nodup e ms Hnd). destruct (mem_nat e ms); reflexivity.
  Qed.

  Lemma outer_fold (L : list (nat * nat)) : forall v e,
    (forall k a, In k L -> In a (kmachines I k) -> (a < length v)%nat) -> (e < length v)%nat ->
    nthZ (fold_left (fun v k => fold_left (fun v a => addat v a 1) (dedup_nat (kmachines I k)) v) L v) e =
    nthZ v e + Z.of_nat (length (filter (onm e) L)).
  Proof.
    induction L as [|k t IH]; intros v e Hlt He; simpl; [lia|].
    rewrite IH.
    - rewrite inner_fold; [|apply dedup_nodup| |exact He].
      + rewrite dedup_mem. unfold onm at 2. destruct (mem_nat e (kmachines I k)); simpl; lia.
      + intros a Ha. apply mem_nat_In in Ha. rewrite dedup_mem in Ha. apply mem_nat_In in Ha.
        apply (Hlt k a); [left; reflexivity|exact Ha].
    - intros k' a Hk' Ha. rewrite length_fold_addat. apply (Hlt k' a); [right; exact Hk'|exact Ha].
    - rewrite length_fold_addat. exact He.
  Qed.

  Lemma kmachines_lt k a : In k (all_keys I) -> In a (kmachines I k) -> (a < M)%nat.
  Proof.
    intros Hk Ha. destruct k as [j p]. apply In_all_keys in Hk. destruct Hk as [o Ho].
    rewrite (kmachines_of I j p o Ho) in Ha. eapply machine_lt; eauto.
  Qed.

  Lemma remm0_count mm : (mm < M)%nat ->
    nthZ (remm0 I) mm = Z.of_nat (length (filter (onm mm) (all_keys I))).
  Proof.
    intros Hm. unfold remm0, count_mach. rewrite outer_fold.
    - unfold nthZ, zeros. rewrite nth_repeat by exact Hm. lia.
    - intros k a Hk Ha. unfold zeros. rewrite repeat_length. apply (kmachines_lt k a Hk Ha).
    - unfold zeros. rewrite repeat_length. exact Hm.
  Qed.

  Lemma loads_sum mm : (mm < M)%nat ->
    nthZ (machine_loads I) mm = sumZ (map (kdur I) (filter (onm mm) (all_keys I))).
  Proof.
    intros Hm. unfold machine_loads. rewrite nthZ_map_seq by exact Hm.
    assert (Hall : forall k, In k (all_keys I) -> (length (kmachines I k) <= 1)%nat).
    { intros [j p] Hk. apply In_all_keys in Hk. destruct Hk as [o Ho]. rewrite (kmachines_of I j p o Ho).
      apply (nonflex_op j p o Ho). }
    induction (all_keys I) as [|k t IH]; [reflexivity|].
    simpl. rewrite sumZ_app. rewrite IH by (intros k' Hk'; apply Hall; right; exact Hk').
    pose proof (Hall k (or_introl eq_refl)) as Hl. unfold onm at 2.
    destruct (kmachines I k) as [|a [|b u]]; simpl in *; [reflexivity| |lia].
    rewrite (Nat.eqb_sym mm a). destruct (a =? mm)%nat; simpl; lia.
  Qed.

  (** *** what has been dispatched on a machine + what is left = everything *)
  Record mach_inv (d : dstate) : Prop := {
    mi_cnt : forall mm, (mm < M)%nat ->
      Z.of_nat (length (nth mm (sched d) [])) + Z.of_nat (length (filter (unsched_on d mm) (all_keys I))) =
      Z.of_nat (length (filter (onm mm) (all_keys I)));
    mi_sum : forall mm, (mm < M)%nat ->
      sumZ (map (dur I) (nth mm (sched d) [])) + sumZ (map (kdur I) (filter (unsched_on d mm) (all_keys I))) =
      sumZ (map (kdur I) (filter (onm mm) (all_keys I)))
  }.

  Lemma mach_inv_init : mach_inv (init_d I).
  Proof.
    assert (Hf : forall mm, filter (unsched_on (init_d I) mm) (all_keys I) = filter (onm mm) (all_keys I)).
    { intros mm. apply filter_ext. intros k. unfold unsched_on. rewrite is_sched_init. apply andb_true_r. }
    constructor; intros mm Hm; rewrite Hf, row_init.
    - cbn [length]. lia.
    - cbn [map]. change (sumZ []) with 0. lia.
  Qed.

  Lemma mach_inv_step d r x : Inv I d -> mach_inv d -> sop_of_request I d r = Some x ->
    mach_inv (apply_sop I d x (row_of d x)).
  Proof.
    intros Hi [Hc Hs] E. set (d' := apply_sop I d x (row_of d x)).
    destruct (st_op I d r x E) as (o & Ho & Hin).
    assert (Hk : kmachines I (key x) = [s_mach x]).
    { unfold key. rewrite (kmachines_of I _ _ o Ho). apply (nonflex_single _ _ o _ Ho Hin). }
    assert (Hflip : forall mm w,
      sumZ (map w (filter (unsched_on d mm) (all_keys I))) =
      (if (mm =? s_mach x)%nat then w (key x) else 0) + sumZ (map w (filter (unsched_on d' mm) (all_keys I)))).
    { intros mm w. destruct (mm =? s_mach x)%nat eqn:Em.
      - apply Nat.eqb_eq in Em. subst mm.
        apply filter_flip_sum; [apply all_keys_from_nodup|apply (st_key_in I d r x E)| | |].
        + unfold unsched_on, onm. rewrite Hk, (st_unsched_before I d r x E). simpl. rewrite Nat.eqb_refl. reflexivity.
        + unfold unsched_on, d'. rewrite (st_is_sched I d Hi r x E).
          rewrite (proj2 (eqb_key_eq (key x) (key x)) eq_refl). simpl. apply andb_false_r.
        + intros k Hne. unfold unsched_on, d'. rewrite (st_is_sched I d Hi r x E).
          destruct (eqb_key k (key x)) eqn:Ek; [apply eqb_key_eq in Ek; contradiction|reflexivity].
      - rewrite Z.add_0_l. f_equal. f_equal. apply filter_ext. intros k.
        unfold unsched_on, d'. rewrite (st_is_sched I d Hi r x E).
        destruct (eqb_key k (key x)) eqn:Ek; [|reflexivity].
        apply eqb_key_eq in Ek. subst k. unfold onm. rewrite Hk. simpl. rewrite Em. reflexivity. }
    constructor; intros mm Hm.
    - rewrite <- (Hc mm Hm). rewrite !length_as_sum. rewrite (Hflip mm (fun _ => 1)).
      unfold d'. rewrite (row_step I d Hi r x E mm). destruct (mm =? s_mach x)%nat eqn:Em.
      + apply Nat.eqb_eq in Em. subst mm. unfold row_of. rewrite map_app, sumZ_app. cbn [map]. rewrite !sumZ_cons. change (sumZ []) with 0. cbv beta. lia.
      + lia.
    - rewrite <- (Hs mm Hm). rewrite (Hflip mm (kdur I)).
      unfold d'. rewrite (row_step I d Hi r x E mm). destruct (mm =? s_mach x)%nat eqn:Em.
      + apply Nat.eqb_eq in Em. subst mm. unfold row_of. rewrite map_app, sumZ_app. cbn [map]. rewrite !sumZ_cons. change (sumZ []) with 0.
        assert (Hd : dur I x = kdur I (key x)) by reflexivity. lia.
      + lia.
  Qed.

  Lemma mach_inv_run rs : forall d, Inv I d -> mach_inv d ->
    mach_inv (fold_left (apply_req I) rs d) /\ Inv I (fold_left (apply_req I) rs d).
  Proof.
    induction rs as [|r t IH]; intros d Hi Hq; simpl; [split; assumption|].
    unfold apply_req at 2 4. destruct (sop_of_request I d r) as [x|] eqn:E.
    - destruct (sop_of_request_accepted I d r x E) as (o & Ha).
      apply IH; [eapply Inv_apply_sop; eauto|apply (mach_inv_step d r x Hi Hq E)].
    - apply IH; assumption.
  Qed.

  (** *** the theorems with the machine level included *)
  Theorem remaining_full_after m rs s0 i :
    t_ops m = false -> placed s0 i (fresh_rem I m) ->
    let w := after_run I fs s0 rs in
    (t_jobs m = true -> forall j, (j < num_jobs I)%nat ->
        cell (fo_jobs (feat w i)) j = Some (sp_rem_job I (rows w) j)) /\
    (t_mach m = true -> forall mm, (mm < num_machines I)%nat ->
        cell (fo_mach (feat w i)) mm = Some (sp_rem_mach I (rows w) mm)).
  Proof.
    intros H0 Hp. destruct (remaining_after I fs Hv m rs s0 i H0 Hp) as [Hj Hm]. cbv zeta. split; [exact Hj|].
    intros Ht mm Hmm. rewrite (Hm Ht). unfold rows. rewrite core_after_run.
    destruct (mach_inv_run rs (init_d I) (Inv_init I) mach_inv_init) as [[Hc _] Hi].
    set (d := fold_left (apply_req I) rs (init_d I)) in *.
    unfold remm_vec. rewrite cell_map_seq by exact Hmm. f_equal.
    rewrite (remm0_count mm Hmm). specialize (Hc mm Hmm). unfold sp_rem_mach.
    rewrite (filter_ext (fun k => on_machine I mm k && negb (sp_scheduled (sched d) k)) (unsched_on d mm))
      by (intros k; rewrite (sp_scheduled_eq I d Hi); reflexivity).
    lia.
  Qed.

  Theorem duration_full_after m rs s0 i :
    placed s0 i (fresh I fs FDuration m) ->
    let w := after_run I fs s0 rs in
    (t_ops m = true -> forall j p op, get_op I j p = Some op -> sp_scheduled (rows w) (j, p) = false ->
        cell (fo_ops (feat w i)) (op_id I j p) = Some (sp_dur_op I fs (rows w) (j, p))) /\
    (t_jobs m = true -> forall j, (j < num_jobs I)%nat ->
        cell (fo_jobs (feat w i)) j = Some (sp_dur_job I (rows w) j)) /\
    (t_mach m = true -> forall mm, (mm < num_machines I)%nat ->
        cell (fo_mach (feat w i)) mm = Some (sp_dur_mach I (rows w) mm)).
  Proof.
    intros Hp. destruct (duration_after I fs Hv m rs s0 i Hp) as (Ho & Hj & Hm). cbv zeta.
    split; [exact Ho|]. split; [exact Hj|].
    intros Ht mm Hmm. rewrite (Hm Ht). unfold rows. rewrite core_after_run.
    destruct (mach_inv_run rs (init_d I) (Inv_init I) mach_inv_init) as [[_ Hs] Hi].
    set (d := fold_left (apply_req I) rs (init_d I)) in *.
    unfold durm_vec. rewrite cell_map_seq by exact Hmm. f_equal.
    rewrite (loads_sum mm Hmm). specialize (Hs mm Hmm). unfold sp_dur_mach.
    rewrite (filter_ext (fun k => on_machine I mm k && negb (sp_scheduled (sched d) k)) (unsched_on d mm))
      by (intros k; rewrite (sp_scheduled_eq I d Hi); reflexivity).
    lia.
  Qed.
End Machines.

(** the statements of properties/C11.v: machine level guarded by non-flexibility *)
Theorem remaining_operations_after (I : instance) (fs : list fname) :
  valid I -> forall m rs s0 i,
    t_ops m = false -> placed s0 i (fresh_rem I m) ->
    let w := after_run I fs s0 rs in
    (t_jobs m = true -> forall j, (j < num_jobs I)%nat ->
        cell (fo_jobs (feat w i)) j = Some (sp_rem_job I (rows w) j)) /\
    (t_mach m = true -> is_flexible I = false -> forall mm, (mm < num_machines I)%nat ->
        cell (fo_mach (feat w i)) mm = Some (sp_rem_mach I (rows w) mm)).
Proof.
  intros Hv m rs s0 i H0 Hp. cbv zeta. split.
  - apply (remaining_after I fs Hv m rs s0 i H0 Hp).
  - intros Ht Hnf. apply (remaining_full_after I fs Hv Hnf m rs s0 i H0 Hp). exact Ht.
Qed.

Theorem duration_partial_after (I : instance) (fs : list fname) :
  valid I -> forall m rs s0 i,
    placed s0 i (fresh I fs FDuration m) ->
    let w := after_run I fs s0 rs in
    (t_ops m = true -> forall j p op, get_op I j p = Some op -> sp_scheduled (rows w) (j, p) = false ->
        cell (fo_ops (feat w i)) (op_id I j p) = Some (sp_dur_op I fs (rows w) (j, p))) /\
    (t_jobs m = true -> forall j, (j < num_jobs I)%nat ->
        cell (fo_jobs (feat w i)) j = Some (sp_dur_job I (rows w) j)) /\
    (t_mach m = true -> is_flexible I = false -> forall mm, (mm < num_machines I)%nat ->
        cell (fo_mach (feat w i)) mm = Some (sp_dur_mach I (rows w) mm)).
Proof.
  intros Hv m rs s0 i Hp. cbv zeta. destruct (duration_after I fs Hv m rs s0 i Hp) as (Ho & Hj & _).
  split; [exact Ho|]. split; [exact Hj|].
  intros Ht Hnf. apply (duration_full_after I fs Hv Hnf m rs s0 i Hp). exact Ht.
Qed.
