(** Clock.v — C06: time only moves forward. *)
From JSL Require Import Base Instance Dstate Filters World Feasible ListFacts DispatchFun Inv Run Derived Tracking
     Partition Replay Rewards FilterSpec FilterFacts Sublist NoDeadlock.
From Coq Require Import Lia.

Lemma nthZ_upd l i v m : (i < length l)%nat -> nthZ (upd l i v) m = if (m =? i)%nat then v else nthZ l m.
Proof.
  intros H. unfold nthZ. destruct (m =? i)%nat eqn:E.
  - apply Nat.eqb_eq in E. subst. apply nth_upd_eq. exact H.
  - apply Nat.eqb_neq in E. apply nth_upd_neq. congruence.
Qed.
Lemma nthN_upd l i v m : (i < length l)%nat -> nthN (upd l i v) m = if (m =? i)%nat then v else nthN l m.
Proof.
  intros H. unfold nthN. destruct (m =? i)%nat eqn:E.
  - apply Nat.eqb_eq in E. subst. apply nth_upd_eq. exact H.
  - apply Nat.eqb_neq in E. apply nth_upd_neq. congruence.
Qed.

(** ** the clock does not depend on the filters (positive durations) *)
Section FiltersClock.
  Variable I : instance.
  Hypothesis Hv : valid I.
  Variable d : dstate.
  Hypothesis Hi : Inv I d.

  Lemma filter_empty f : apply_filter I d f [] = [].
  Proof.
    assert (H : sublist (apply_filter I d f []) []) by (apply (filter_sublist I d Hi f []); intros k []).
    inversion H; reflexivity.
  Qed.

  Lemma one_filter_same_clock f L :
    ops_ok I L -> (forall k, In k L -> 0 < kdur I k) ->
    min_start_time I d (apply_filter I d f L) = min_start_time I d L.
  Proof.
    intros HL Hpos. destruct L as [|k0 r] eqn:EL; [rewrite filter_empty; reflexivity|]. rewrite <- EL in *.
    assert (Hne : L <> []) by (rewrite EL; discriminate). clear EL.
    set (L' := apply_filter I d f L).
    assert (Hs : sublist L' L) by (apply (filter_sublist I d Hi f L HL)).
    assert (HL' : ops_ok I L') by (eapply ops_ok_sublist; eauto).
    destruct (filter_keeps_min I d Hi L HL f Hpos Hne) as (k & m & Hk & Hm & Ht). fold L' in Hk.
    assert (Hne' : L' <> []) by (intro H0; rewrite H0 in Hk; contradiction).
    change (t0 I d L' = t0 I d L). apply Z.le_antisymm.
    - rewrite <- Ht. apply (t0_lower I d L' HL' k m Hk Hm).
    - destruct (t0_attained I d L' HL' Hne') as (k' & m' & Hk' & Hm' & Ht'). rewrite <- Ht'.
      apply (t0_lower I d L HL k' m'); [eapply sublist_In; eauto|exact Hm'].
  Qed.

  Theorem filters_same_clock fs : forall L,
    ops_ok I L -> (forall k, In k L -> 0 < kdur I k) ->
    min_start_time I d (apply_filters I d fs L) = min_start_time I d L.
  Proof.
    induction fs as [|f fs IH]; intros L HL Hpos; [reflexivity|].
    unfold apply_filters in *. simpl.
    assert (Hs : sublist (apply_filter I d f L) L) by (apply (filter_sublist I d Hi f L HL)).
    rewrite IH.
    - apply one_filter_same_clock; assumption.
    - eapply ops_ok_sublist; eauto.
    - intros k Hk. apply Hpos. eapply sublist_In; eauto.
  Qed.
End FiltersClock.

(** ** what "ongoing" means on sorted rows *)
Section Ongoing.
  Variable I : instance.

  Lemma sorted_app_inv row x :
    (forall z, In z row -> 0 <= dur I z) -> row_sorted I (row ++ [x]) ->
    row_sorted I row /\ forall z, In z row -> s_end I z <= s_start x.
  Proof.
    induction row as [|a t IH]; intros Hd Hs; [split; [exact Logic.I|intros z []]|].
    destruct t as [|b t'].
    - simpl in Hs. destruct Hs as [H _]. split; [exact Logic.I|]. intros z [<-|[]]. exact H.
    - change ((a :: b :: t') ++ [x]) with (a :: (b :: t') ++ [x]) in Hs.
      change ((b :: t') ++ [x]) with (b :: t' ++ [x]) in Hs. cbn [row_sorted] in Hs.
      destruct Hs as [Hab Hs].
      assert (Hd' : forall z, In z (b :: t') -> 0 <= dur I z) by (intros z Hz; apply Hd; right; exact Hz).
      destruct (IH Hd' Hs) as [Hs' Hle]. split.
      + cbn [row_sorted]. split; assumption.
      + intros z [<-|Hz]; [|apply Hle; exact Hz].
        pose proof (Hle b (or_introl eq_refl)) as Hb. pose proof (Hd' b (or_introl eq_refl)) as Hdb.
        unfold s_end in *. lia.
  Qed.

  Lemma twr_char t row :
    (forall z, In z row -> 0 <= dur I z) -> row_sorted I row ->
    forall y, In y (take_while_running I t (rev row)) <-> In y row /\ t < s_end I y.
  Proof.
    induction row as [|x row IH] using rev_ind; intros Hd Hs y.
    - simpl. tauto.
    - rewrite rev_app_distr. simpl.
      assert (Hd' : forall z, In z row -> 0 <= dur I z) by (intros z Hz; apply Hd; apply in_or_app; left; exact Hz).
      destruct (sorted_app_inv row x Hd' Hs) as [Hs' Hle].
      pose proof (Hd x ltac:(apply in_or_app; right; left; reflexivity)) as Hdx.
      destruct (s_end I x <=? t) eqn:E.
      + apply Z.leb_le in E. split; [intros []|]. intros [Hin Hlt]. apply in_app_iff in Hin.
        destruct Hin as [Hin|[<-|[]]]; [|lia]. specialize (Hle y Hin). unfold s_end in *. lia.
      + apply Z.leb_gt in E. simpl. rewrite (IH Hd' Hs' y), in_app_iff. simpl. split.
        * intros [<-|[H1 H2]]; [split; [right; left; reflexivity|lia]|split; [left; exact H1|exact H2]].
        * intros [[H1|[<-|[]]] H2]; [right; split; assumption|left; reflexivity].
  Qed.
End Ongoing.

Section OngoingInv.
  Variable I : instance.
  Hypothesis Hv : valid I.
  Variable d : dstate.
  Hypothesis Hi : Inv I d.

  Lemma sop_dur_nonneg x : In x (all_sops (sched d)) -> 0 <= dur I x.
  Proof.
    intros Hx. destruct (i_sop _ _ Hi x Hx) as ((o & Ho & _) & _). unfold dur. rewrite Ho. eapply Hv; eauto.
  Qed.

  (** ongoing at time t = scheduled and not yet ended at t *)
  Theorem ongoing_char t y : In y (ongoing_at I t (sched d)) <-> In y (all_sops (sched d)) /\ t < s_end I y.
  Proof.
    unfold ongoing_at. rewrite in_flat_map. split.
    - intros (row & Hrow & Hy).
      assert (Hd : forall z, In z row -> 0 <= dur I z)
        by (intros z Hz; apply sop_dur_nonneg; apply in_concat; exists row; split; assumption).
      apply In_nth_error in Hrow. destruct Hrow as (m & Hm).
      destruct (i_rows _ _ Hi m row Hm) as (Hs & _).
      apply (twr_char I t row Hd Hs) in Hy. destruct Hy as [Hin Hlt]. split; [|exact Hlt].
      apply In_concat_nth_error. eauto.
    - intros [Hin Hlt]. apply In_concat_nth_error in Hin. destruct Hin as (m & row & Hm & Hy).
      exists row. split; [eapply nth_error_In; eauto|].
      assert (Hd : forall z, In z row -> 0 <= dur I z)
        by (intros z Hz; apply sop_dur_nonneg; apply In_concat_nth_error; eauto).
      destruct (i_rows _ _ Hi m row Hm) as (Hs & _).
      apply (twr_char I t row Hd Hs). split; assumption.
  Qed.
End OngoingInv.

(** ** the unfiltered clock never goes back *)
Section Mono.
  Variable I : instance.
  Hypothesis Hv : valid I.
  Hypothesis Hm : has_machines I.
  Variable d : dstate.
  Hypothesis Hi : Inv I d.
  Variables (r : request) (x : sop) (o : op) (row : list sop).
  Hypothesis Ha : accepted I d r x o row.

  Let d' := apply_sop I d x row.
  Let L := raw_ready I d.
  Let L' := raw_ready I d'.

  Lemma Inv' : Inv I d'.
  Proof. eapply Inv_apply_sop; eauto. Qed.

  Lemma x_op : get_op I (s_job x) (s_pos x) = Some o.
  Proof. rewrite (a_job _ _ _ _ _ _ Ha), (a_pos _ _ _ _ _ _ Ha). apply (a_op _ _ _ _ _ _ Ha). Qed.

  Lemma x_ready : In (s_job x, s_pos x) L.
  Proof.
    apply (In_raw_ready I d Hi). destruct (get_op_bounds _ _ _ _ x_op) as [Hj Hp].
    repeat split; [exact Hj| |exact Hp].
    rewrite (a_job _ _ _ _ _ _ Ha), (a_pos _ _ _ _ _ _ Ha). symmetry. apply (a_next _ _ _ _ _ _ Ha).
  Qed.

  Lemma x_start : s_start x = start_time d (s_job x) (s_mach x).
  Proof. rewrite (a_start _ _ _ _ _ _ Ha), (a_job _ _ _ _ _ _ Ha). reflexivity. Qed.

  Lemma x_dur : 0 <= dur I x.
  Proof. unfold dur. rewrite x_op. eapply Hv. apply x_op. Qed.

  Lemma now_le_start : min_start_time I d L <= s_start x.
  Proof.
    rewrite x_start. change (t0 I d L <= start_time d (fst (s_job x, s_pos x)) (s_mach x)).
    apply (t0_lower I d L (raw_ready_ok I Hm d Hi)); [apply x_ready|].
    unfold kmachines, kop. simpl. rewrite x_op. apply (a_elig _ _ _ _ _ _ Ha).
  Qed.

  Lemma mfree_grows m : nthZ (mfree d) m <= nthZ (mfree d') m.
  Proof.
    unfold d', apply_sop. cbn [mfree]. rewrite nthZ_upd by (apply (a_inrange _ _ _ _ _ _ Ha)).
    destruct (m =? s_mach x)%nat eqn:E; [|lia]. apply Nat.eqb_eq in E. subst m.
    pose proof x_dur. pose proof (a_start _ _ _ _ _ _ Ha). unfold s_end. lia.
  Qed.

  Lemma job_in_range : (s_job x < length I)%nat.
  Proof. destruct (get_op_bounds _ _ _ _ x_op); assumption. Qed.

  Lemma start'_ge j p m :
    In (j, p) L' -> In m (kmachines I (j, p)) -> min_start_time I d L <= start_time d' j m.
  Proof.
    intros Hk Hmm. apply (In_raw_ready I d' Inv') in Hk. destruct Hk as (Hj & Hp & Hlt).
    unfold start_time. destruct (Nat.eq_dec j (s_job x)) as [->|Hne].
    - (* the dispatched job: its clock is the end of x *)
      assert (E : nthZ (jfree d') (s_job x) = s_end I x).
      { unfold d', apply_sop. cbn [jfree]. rewrite nthZ_upd by (rewrite (i_len_jf _ _ Hi); apply job_in_range).
        rewrite Nat.eqb_refl. reflexivity. }
      rewrite E. pose proof now_le_start. pose proof x_dur. unfold s_end. lia.
    - (* another job: it was ready before, on a machine that is not free earlier now *)
      assert (En : nthN (jnext d') j = nthN (jnext d) j).
      { unfold d', apply_sop. cbn [jnext]. rewrite nthN_upd by (rewrite (i_len_jn _ _ Hi); apply job_in_range).
        destruct (j =? s_job x)%nat eqn:E; [apply Nat.eqb_eq in E; contradiction|reflexivity]. }
      assert (Ef : nthZ (jfree d') j = nthZ (jfree d) j).
      { unfold d', apply_sop. cbn [jfree]. rewrite nthZ_upd by (rewrite (i_len_jf _ _ Hi); apply job_in_range).
        destruct (j =? s_job x)%nat eqn:E; [apply Nat.eqb_eq in E; contradiction|reflexivity]. }
      assert (Hold : In (j, p) L) by (apply (In_raw_ready I d Hi); rewrite <- En; auto).
      pose proof (t0_lower I d L (raw_ready_ok I Hm d Hi) (j, p) m Hold Hmm) as Hlow.
      unfold t0, start_time in Hlow. simpl in Hlow. rewrite Ef. pose proof (mfree_grows m). lia.
  Qed.

  Theorem clock_monotone : min_start_time I d L <= min_start_time I d' L'.
  Proof.
    assert (Hcases : L' = [] \/ L' <> []) by (destruct L'; [left; reflexivity|right; discriminate]).
    destruct Hcases as [EL'|Hne].
    - (* nothing left: the clock becomes the makespan, which is at least the end of x *)
      rewrite EL'. change (min_start_time I d' []) with (makespan_code I (sched d')).
      rewrite (makespan_derived I d' Inv'). unfold d'. rewrite (step_makespan I d r x o row Ha).
      pose proof now_le_start. pose proof x_dur. unfold s_end. lia.
    - 
      destruct (t0_attained I d' L' (raw_ready_ok I Hm d' Inv') Hne) as ([j p] & m & Hk & Hmm & Ht).
      change (min_start_time I d L <= t0 I d' L'). rewrite <- Ht. apply (start'_ge j p m Hk Hmm).
  Qed.
End Mono.

(** ** completed operations only accumulate; at completion the clock is the makespan *)
Section Completed.
  Variable I : instance.
  Hypothesis Hv : valid I.
  Hypothesis Hm : has_machines I.

  (** completed at [t] in state [d] = scheduled with end <= t *)
  Lemma completed_char d fs k : Inv I d ->
    (In k (p_completed I fs d) <->
     exists y, In y (all_sops (sched d)) /\ key y = k /\ s_end I y <= p_now I fs d).
  Proof.
    intros Hi. unfold p_completed. rewrite filter_In, (scheduled_is_schedule I d Hi), negb_true_iff. split.
    - intros [Hin Hno]. apply in_map_iff in Hin. destruct Hin as (y & Hk & Hy). exists y. repeat split; auto.
      destruct (Z_le_dec (s_end I y) (p_now I fs d)) as [H|H]; [exact H|exfalso].
      assert (Hon : In y (p_ongoing I fs d)) by (apply (ongoing_char I Hv d Hi); split; [exact Hy|lia]).
      assert (Hmem : mem_key k (map key (p_ongoing I fs d)) = true)
        by (apply mem_key_In; apply in_map_iff; exists y; split; assumption).
      congruence.
    - intros (y & Hy & Hk & Hle). split; [apply in_map_iff; exists y; split; assumption|].
      destruct (mem_key k (map key (p_ongoing I fs d))) eqn:E; [exfalso|reflexivity].
      apply mem_key_In in E. apply in_map_iff in E. destruct E as (z & Hkz & Hz).
      apply (ongoing_char I Hv d Hi) in Hz. destruct Hz as [Hz Hlt].
      assert (z = y).
      { pose proof (i_nodup _ _ Hi) as Hnd. assert (Hkk : key z = key y) by congruence. clear -Hnd Hz Hy Hkk.
        induction (all_sops (sched d)) as [|a t IH]; [contradiction|].
        simpl in Hnd. inversion Hnd as [|? ? Hni Hnd']; subst.
        destruct Hz as [->|Hz], Hy as [->|Hy]; auto.
        - exfalso. apply Hni. apply in_map_iff. exists y. split; [congruence|exact Hy].
        - exfalso. apply Hni. apply in_map_iff. exists z. split; [congruence|exact Hz]. }
      subst z. lia.
  Qed.

  Theorem completed_monotone d fs r x o row k :
    Inv I d -> accepted I d r x o row ->
    p_now I fs d <= p_now I fs (apply_sop I d x row) ->
    In k (p_completed I fs d) -> In k (p_completed I fs (apply_sop I d x row)).
  Proof.
    intros Hi Ha Hnow Hk. pose proof (Inv_apply_sop I d r x o row Hv Hi Ha) as Hi'.
    apply (completed_char d fs k Hi) in Hk. destruct Hk as (y & Hy & Hky & Hle).
    apply (completed_char _ fs k Hi'). exists y. repeat split; [|exact Hky|lia].
    unfold apply_sop. cbn [sched].
    apply (Permutation.Permutation_in _ (Permutation.Permutation_sym (concat_upd_perm _ _ _ x (a_row _ _ _ _ _ _ Ha)))).
    right. exact Hy.
  Qed.

  Theorem now_at_completion d fs :
    Inv I d -> complete I (sched d) -> p_now I fs d = makespan I (sched d).
  Proof.
    intros Hi Hc. unfold p_now.
    assert (Hr : raw_ready I d = []).
    { destruct (raw_ready I d) as [|[j p] t] eqn:E; [reflexivity|exfalso].
      assert (Hin : In (j, p) (raw_ready I d)) by (rewrite E; left; reflexivity).
      apply (In_raw_ready I d Hi) in Hin. destruct Hin as (_ & Hp & Hlt).
      pose proof (proj1 (Inv_all_scheduled_iff _ _ Hi) (proj1 (Inv_complete_iff _ _ Hi) Hc) j). lia. }
    assert (Ha : p_avail I fs d = []).
    { pose proof (available_sublist_ready I Hv Hm d Hi fs) as Hs. unfold available in Hs. unfold p_avail, p_raw.
      rewrite Hr in *. inversion Hs; reflexivity. }
    rewrite Ha. simpl. rewrite (makespan_derived I d Hi). reflexivity.
  Qed.
End Completed.

(** ** along request lists *)
Section ClockRun.
  Variable O : Type.
  Variable o_update : instance -> list fname -> dstate -> sop -> O -> O.
  Variable I : instance.
  Hypothesis Hv : valid I.
  Hypothesis Hm : has_machines I.

  Lemma positive_ready d : Inv I d -> positive I -> forall k, In k (raw_ready I d) -> 0 < kdur I k.
  Proof.
    intros Hi Hp k Hk. destruct (raw_ready_ok I Hm d Hi k Hk) as (o & Ho & _).
    unfold kdur. rewrite Ho. unfold kop in Ho. destruct (Hp _ _ _ Ho) as [H _]. exact H.
  Qed.

  Theorem now_filters_irrelevant d fs : Inv I d -> positive I -> p_now I fs d = p_now I [] d.
  Proof.
    intros Hi Hp. unfold p_now, p_avail, p_raw.
    apply (filters_same_clock I d Hi fs _ (raw_ready_ok I Hm d Hi) (positive_ready d Hi Hp)).
  Qed.

  Theorem now_step_unfiltered (w : world O) r :
    Inv I (core w) -> p_now I [] (core w) <= p_now I [] (core (step_req O o_update I w r)).
  Proof.
    intros Hi. destruct (step_req_cases O o_update I w r) as [[-> _]|(x & o & row & Ha & -> & _)]; [lia|].
    cbn [core after]. apply (clock_monotone I Hv Hm (core w) Hi r x o row Ha).
  Qed.

  Theorem now_step_filtered (w : world O) r fs :
    positive I -> Inv I (core w) -> p_now I fs (core w) <= p_now I fs (core (step_req O o_update I w r)).
  Proof.
    intros Hp Hi. rewrite (now_filters_irrelevant _ fs Hi Hp).
    rewrite (now_filters_irrelevant _ fs (step_req_Inv O o_update I w r Hv Hi) Hp).
    apply now_step_unfiltered. exact Hi.
  Qed.

  Theorem completed_step (w : world O) r fs k :
    Inv I (core w) -> (fs = [] \/ positive I) ->
    In k (p_completed I fs (core w)) -> In k (p_completed I fs (core (step_req O o_update I w r))).
  Proof.
    intros Hi Hcase Hk.
    assert (Hnow : p_now I fs (core w) <= p_now I fs (core (step_req O o_update I w r))).
    { destruct Hcase as [->|Hp]; [apply now_step_unfiltered|apply now_step_filtered]; assumption. }
    destruct (step_req_cases O o_update I w r) as [[E _]|(x & o & row & Ha & E & _)]; rewrite E in *; [exact Hk|].
    cbn [core after] in *. apply (completed_monotone I Hv (core w) fs r x o row k Hi Ha Hnow Hk).
  Qed.
End ClockRun.
