(** FjsInv.v — what a dispatcher-built schedule remembers of the order in
    which it was built: besides [Inv], every row lists its operations in
    dispatch order, same-job operations appear in position order, and every
    start time is forced by the two predecessors (semi-active). *)
From JSL Require Import Base Instance Dstate Filters World Feasible ListFacts DispatchFun Inv Run.
From Coq Require Import Lia Permutation.

Definition rows_mono (sc : schedule) : Prop :=
  forall m l1 x l2 y, nth_error sc m = Some (l1 ++ x :: l2) -> In y l2 ->
                      s_job x = s_job y -> (s_pos x < s_pos y)%nat.

(** [jp] is the end of the job predecessor of [x] (0 for a first operation) *)
Definition job_pred_end (I : instance) (sc : schedule) (x : sop) (jp : Z) : Prop :=
  (s_pos x = 0%nat /\ jp = 0) \/
  (exists y, In y (all_sops sc) /\ s_job y = s_job x /\ S (s_pos y) = s_pos x /\ jp = s_end I y).

Definition starts_forced (I : instance) (sc : schedule) : Prop :=
  forall m l1 x l2, nth_error sc m = Some (l1 ++ x :: l2) ->
    exists jp, job_pred_end I sc x jp /\ s_start x = Z.max (last_end I l1) jp.

Definition on_mach (m : nat) (x : sop) : bool := (s_mach x =? m)%nat.

(** [h] is the list of accepted dispatches, oldest first. *)
Record Hist (I : instance) (h : list sop) (d : dstate) : Prop := {
  h_inv : Inv I d;
  h_rows : forall m row, nth_error (sched d) m = Some row -> row = filter (on_mach m) h;
  h_perm : Permutation h (all_sops (sched d));
  h_closed : forall h1 x h2, h = h1 ++ x :: h2 -> forall q, (q < s_pos x)%nat ->
               exists y, In y h1 /\ key y = (s_job x, q);
  h_mono : rows_mono (sched d);
  h_forced : starts_forced I (sched d)
}.

Lemma h_in I h d (H : Hist I h d) : forall x, In x h <-> In x (all_sops (sched d)).
Proof.
  intros x. split; intros Hx.
  - eapply Permutation_in; [apply (h_perm _ _ _ H)|exact Hx].
  - eapply Permutation_in; [apply Permutation_sym; apply (h_perm _ _ _ H)|exact Hx].
Qed.

Lemma snoc_split {A} (l l1 l2 : list A) x z :
  l ++ [x] = l1 ++ z :: l2 ->
  (l2 = [] /\ z = x /\ l1 = l) \/ (exists l2', l2 = l2' ++ [x] /\ l = l1 ++ z :: l2').
Proof.
  induction l2 as [|a l2' _] using rev_ind; intros H.
  - left. apply app_inj_tail in H. destruct H as [-> ->]. auto.
  - right. exists l2'. change (l1 ++ z :: l2' ++ [a]) with (l1 ++ (z :: l2') ++ [a]) in H.
    rewrite app_assoc in H. apply app_inj_tail in H. destruct H as [-> ->]. auto.
Qed.

Lemma Hist_init I : Hist I [] (init_d I).
Proof.
  constructor.
  - apply Inv_init.
  - intros m row H. simpl in H. apply nth_error_repeat in H. subst; reflexivity.
  - simpl. unfold all_sops. rewrite concat_repeat_nil. constructor.
  - intros h1 x h2 H. destruct h1; discriminate.
  - intros m l1 x l2 y H. simpl in H. apply nth_error_repeat in H. destruct l1; discriminate.
  - intros m l1 x l2 H. simpl in H. apply nth_error_repeat in H. destruct l1; discriminate.
Qed.

Lemma last_end_of_last I row y : last_opt row = Some y -> last_end I row = s_end I y.
Proof. unfold last_end. intros ->. reflexivity. Qed.

Theorem Hist_apply_sop I h d r x o row :
  valid I -> Hist I h d -> accepted I d r x o row -> Hist I (h ++ [x]) (apply_sop I d x row).
Proof.
  intros Hv Hh Ha. pose proof (h_inv _ _ _ Hh) as Hi.
  pose proof (Inv_apply_sop I d r x o row Hv Hi Ha) as Hi'.
  destruct Ha as [Aop Ajob Apos Anext Aelig Amach Arange Astart Arow Alast].
  assert (Hnext : nthN (jnext d) (s_job x) = s_pos x) by (rewrite Ajob, Apos; exact Anext).
  assert (Hk : (s_mach x < length (sched d))%nat) by (apply nth_error_Some; congruence).
  assert (Hperm : Permutation (all_sops (upd (sched d) (s_mach x) (row ++ [x]))) (x :: all_sops (sched d)))
    by (apply concat_upd_perm; exact Arow).
  assert (Hin : forall y, In y (all_sops (upd (sched d) (s_mach x) (row ++ [x]))) <-> y = x \/ In y (all_sops (sched d))).
  { intros y. split; intros H.
    - apply (Permutation_in _ Hperm) in H. destruct H; auto.
    - apply (Permutation_in _ (Permutation_sym Hperm)). destruct H; [left; auto|right; auto]. }
  assert (Hrow_in : forall y, In y row -> In y (all_sops (sched d))).
  { intros y Hy. apply In_concat_nth_error. eauto. }
  assert (Hjp : forall z jp, job_pred_end I (sched d) z jp ->
                             job_pred_end I (upd (sched d) (s_mach x) (row ++ [x])) z jp).
  { intros z jp [H|(y & Hy & H)]; [left; exact H|right]. exists y. split; [apply Hin; right; exact Hy|exact H]. }
  constructor; cbn [apply_sop sched].
  - exact Hi'.
  - intros m r' Hr'. destruct (Nat.eq_dec (s_mach x) m) as [<-|Hne].
    + rewrite nth_error_upd_eq in Hr' by exact Hk. inversion Hr'; subst r'.
      rewrite filter_app. simpl. unfold on_mach at 2. rewrite Nat.eqb_refl.
      rewrite <- (h_rows _ _ _ Hh _ _ Arow). reflexivity.
    + rewrite nth_error_upd_neq in Hr' by exact Hne.
      rewrite filter_app. simpl. unfold on_mach at 2.
      destruct (Nat.eqb_spec (s_mach x) m) as [E|_]; [congruence|]. rewrite app_nil_r.
      apply (h_rows _ _ _ Hh); exact Hr'.
  - apply Permutation_trans with (x :: all_sops (sched d)); [|apply Permutation_sym; exact Hperm].
    apply Permutation_trans with (x :: h); [apply Permutation_sym; apply Permutation_cons_append|].
    apply perm_skip. apply (h_perm _ _ _ Hh).
  - intros h1 z h2 E q Hq. apply snoc_split in E. destruct E as [(-> & -> & ->)|(h2' & -> & ->)].
    + destruct (i_prefix _ _ Hi (s_job x) q) as (y & Hy & Hky); [rewrite Hnext; exact Hq|].
      exists y. split; [apply (h_in _ _ _ Hh); exact Hy|exact Hky].
    + eapply (h_closed _ _ _ Hh); eauto.
  - intros m l1 z l2 y Hr' Hy Hjob. destruct (Nat.eq_dec (s_mach x) m) as [<-|Hne].
    + rewrite nth_error_upd_eq in Hr' by exact Hk. inversion Hr' as [E]. clear Hr'.
      apply snoc_split in E. destruct E as [(-> & _ & _)|(l2' & -> & ->)]; [destruct Hy|].
      apply in_app_iff in Hy. destruct Hy as [Hy|[<-|[]]].
      * eapply (h_mono _ _ _ Hh); eauto.
      * assert (Hz : In z (all_sops (sched d))) by (apply Hrow_in; apply in_or_app; right; left; reflexivity).
        destruct (i_sop _ _ Hi z Hz) as (_ & Hlt & _). rewrite Hjob, Hnext in Hlt. exact Hlt.
    + rewrite nth_error_upd_neq in Hr' by exact Hne. eapply (h_mono _ _ _ Hh); eauto.
  - intros m l1 z l2 Hr'. destruct (Nat.eq_dec (s_mach x) m) as [<-|Hne].
    + rewrite nth_error_upd_eq in Hr' by exact Hk. inversion Hr' as [E]. clear Hr'.
      apply snoc_split in E. destruct E as [(-> & -> & ->)|(l2' & -> & ->)].
      * destruct (i_rows _ _ Hi _ _ Arow) as (_ & _ & Hle).
        destruct (i_jfree _ _ Hi (s_job x)) as [[Hz Hf]|(y & Hy & Hky & Hpos & Hf)].
        -- exists 0. split; [left; split; [rewrite <- Hnext; exact Hz|reflexivity]|].
           rewrite Astart, Hle, <- Ajob, Hf. reflexivity.
        -- exists (s_end I y). split.
           ++ right. exists y. split; [apply Hin; right; exact Hy|].
              rewrite Hnext in Hky, Hpos. unfold key in Hky. inversion Hky as [[Hkj Hkp]].
              split; [congruence|]. split; [lia|reflexivity].
           ++ rewrite Astart, Hle, <- Ajob, Hf. reflexivity.
      * destruct (h_forced _ _ _ Hh _ _ _ _ Arow) as (jp & Hj & Hs). exists jp. split; [apply Hjp; exact Hj|exact Hs].
    + rewrite nth_error_upd_neq in Hr' by exact Hne.
      destruct (h_forced _ _ _ Hh _ _ _ _ Hr') as (jp & Hj & Hs). exists jp. split; [apply Hjp; exact Hj|exact Hs].
Qed.

(** Every world reached by a request list has a history. *)
Section RunHist.
  Variable O : Type.
  Variable o_update : instance -> list fname -> dstate -> sop -> O -> O.

  Lemma step_req_Hist I w r h :
    valid I -> Hist I h (core w) -> exists h', Hist I h' (core (step_req O o_update I w r)).
  Proof.
    intros Hv Hh. destruct (step_req_cases O o_update I w r) as [[-> _]|(x & o & row & Ha & -> & _)].
    - exists h; exact Hh.
    - exists (h ++ [x]). simpl. eapply Hist_apply_sop; eauto.
  Qed.

  Lemma fold_step_Hist I rs w h :
    valid I -> Hist I h (core w) -> exists h', Hist I h' (core (fold_left (step_req O o_update I) rs w)).
  Proof.
    intros Hv. revert w h. induction rs as [|r t IH]; intros w h Hh; simpl; [eauto|].
    destruct (step_req_Hist I w r h Hv Hh) as [h' Hh']. eapply IH; eauto.
  Qed.

  Theorem run_Hist I fs rs : valid I -> exists h, Hist I h (core (run_reqs O o_update I fs rs)).
  Proof. intros Hv. eapply fold_step_Hist; [exact Hv|]. simpl. apply Hist_init. Qed.
End RunHist.
