(** Queries.v — C05: cache coherence. In a world whose cache is coherent
    (every present entry equals the uncached value for the CURRENT state),
    every cached query returns the uncached value, leaves the dispatcher state,
    filter, observers and subscribers alone and keeps the cache coherent.
    [dispatch] and [reset] leave an empty (hence coherent) cache. *)
From JSL Require Import Base Instance Dstate Filters World Feasible ListFacts DispatchFun Derived.
From Coq Require Import Lia.

Section Queries.
  Variable O : Type.
  Variable I : instance.

  Definition coh {A} (e : option A) (v : A) : Prop := match e with Some x => x = v | None => True end.

  Record cache_ok (fs : list fname) (d : dstate) (c : cache) : Prop := {
    k_now : coh (c_now c) (p_now I fs d);
    k_avail : coh (c_avail c) (p_avail I fs d);
    k_raw : coh (c_raw c) (p_raw I d);
    k_unsched : coh (c_unsched c) (p_unsched I d);
    k_sched : coh (c_sched c) (p_sched I d);
    k_amach : coh (c_amach c) (p_amach I fs d);
    k_ajobs : coh (c_ajobs c) (p_ajobs I fs d);
    k_completed : coh (c_completed c) (p_completed I fs d);
    k_uncompleted : coh (c_uncompleted c) (p_uncompleted I fs d);
    k_ongoing : coh (c_ongoing c) (p_ongoing I fs d)
  }.

  Definition wok (w : world O) : Prop := cache_ok (filt w) (core w) (wcache w).

  Lemma empty_cache_ok fs d : cache_ok fs d empty_cache.
  Proof. constructor; exact Logic.I. Qed.

  (** [w'] differs from [w] at most in the cache. *)
  Definition ext (w w' : world O) : Prop :=
    core w' = core w /\ filt w' = filt w /\ objs w' = objs w /\ subs w' = subs w.
  Lemma ext_refl w : ext w w. Proof. repeat split. Qed.
  Lemma ext_trans a b c : ext a b -> ext b c -> ext a c.
  Proof. intros (?&?&?&?) (?&?&?&?). repeat split; congruence. Qed.

  (** "query [m] answers [v w] (a function of the non-cache part of the world)" *)
  Definition answers {A} (m : M O A) (v : world O -> A) : Prop :=
    forall w, wok w -> exists w', m w = (w', inl (v w)) /\ ext w w' /\ wok w'.

  Lemma wok_ext_cache w w' : ext w w' -> wok w' -> cache_ok (filt w) (core w) (wcache w').
  Proof. intros (Hc & Hf & _) H. unfold wok in H. rewrite Hc, Hf in H. exact H. Qed.

  (** The generic step: a [cached] wrapper answers [v] when its entry is
      coherent with [v], its computation answers [v], and storing [v] keeps the
      cache coherent. *)
  Lemma cached_answers {A} (rd : cache -> option A) (wr : cache -> A -> cache)
        (compute : M O A) (v : world O -> A) :
    (forall w, wok w -> coh (rd (wcache w)) (v w)) ->
    answers compute v ->
    (forall fs d c, cache_ok fs d c ->
        forall w, core w = d -> filt w = fs -> cache_ok fs d (wr c (v w))) ->
    answers (cached rd wr compute) v.
  Proof.
    intros Hrd Hcomp Hwr w Hw. unfold cached, bind, get.
    specialize (Hrd w Hw). destruct (rd (wcache w)) as [x|] eqn:E.
    - simpl in Hrd. subst x. exists w. unfold ret. split; [reflexivity|]. split; [apply ext_refl|exact Hw].
    - destruct (Hcomp w Hw) as (w1 & E1 & Hext & Hw1). rewrite E1.
      unfold set_cache, modify, ret. simpl.
      eexists. split; [reflexivity|]. destruct Hext as (Hc & Hf & Ho & Hs).
      split; [repeat split; simpl; assumption|].
      unfold wok. simpl. apply Hwr; [exact Hw1|symmetry; exact Hc|symmetry; exact Hf].
  Qed.

  Ltac wr_ok := intros fs d c [K1 K2 K3 K4 K5 K6 K7 K8 K9 K10] w Hc Hf; subst fs d;
                constructor; cbn; try assumption; reflexivity.
  Ltac rd_ok f := intros w Hw; apply (f _ _ _ Hw).

  Lemma get_answers : forall w : world O, wok w -> exists w', get w = (w', inl w) /\ ext w w' /\ wok w'.
  Proof. intros w Hw. exists w. split; [reflexivity|split; [apply ext_refl|exact Hw]]. Qed.

  Lemma q_raw_answers : answers (q_raw I) (fun w => p_raw I (core w)).
  Proof.
    apply cached_answers; [rd_ok k_raw| |wr_ok].
    intros w Hw. exists w. split; [reflexivity|split; [apply ext_refl|exact Hw]].
  Qed.

  Lemma q_avail_answers : answers (q_avail I) (fun w => p_avail I (filt w) (core w)).
  Proof.
    apply cached_answers; [rd_ok k_avail| |wr_ok].
    intros w Hw. unfold bind. destruct (q_raw_answers w Hw) as (w1 & E1 & Hx & Hw1). rewrite E1.
    exists w1. destruct Hx as (Hc & Hf & Ho & Hs). unfold get, ret. cbn.
    split; [unfold p_avail, p_raw; rewrite Hc, Hf; reflexivity|]. split; [repeat split; assumption|exact Hw1].
  Qed.

  Lemma q_now_answers : answers (q_now I) (fun w => p_now I (filt w) (core w)).
  Proof.
    apply cached_answers; [rd_ok k_now| |wr_ok].
    intros w Hw. unfold bind. destruct (q_avail_answers w Hw) as (w1 & E1 & Hx & Hw1). rewrite E1.
    exists w1. destruct Hx as (Hc & Hf & Ho & Hs). unfold get, ret. cbn.
    split; [unfold p_now; rewrite Hc; reflexivity|]. split; [repeat split; assumption|exact Hw1].
  Qed.

  Lemma q_unsched_answers : answers (q_unsched I) (fun w => p_unsched I (core w)).
  Proof.
    apply cached_answers; [rd_ok k_unsched| |wr_ok].
    intros w Hw. exists w. split; [reflexivity|split; [apply ext_refl|exact Hw]].
  Qed.

  Lemma q_sched_answers : answers (q_sched I) (fun w => p_sched I (core w)).
  Proof.
    apply cached_answers; [rd_ok k_sched| |wr_ok].
    intros w Hw. exists w. split; [reflexivity|split; [apply ext_refl|exact Hw]].
  Qed.

  Lemma q_amach_answers : answers (q_amach I) (fun w => p_amach I (filt w) (core w)).
  Proof.
    apply cached_answers; [rd_ok k_amach| |wr_ok].
    intros w Hw. unfold bind. destruct (q_avail_answers w Hw) as (w1 & E1 & Hx & Hw1). rewrite E1.
    exists w1. unfold ret. split; [reflexivity|]. split; assumption.
  Qed.

  Lemma q_ajobs_answers : answers (q_ajobs I) (fun w => p_ajobs I (filt w) (core w)).
  Proof.
    apply cached_answers; [rd_ok k_ajobs| |wr_ok].
    intros w Hw. unfold bind. destruct (q_avail_answers w Hw) as (w1 & E1 & Hx & Hw1). rewrite E1.
    exists w1. unfold ret. split; [reflexivity|]. split; assumption.
  Qed.

  Lemma q_ongoing_answers : answers (q_ongoing I) (fun w => p_ongoing I (filt w) (core w)).
  Proof.
    apply cached_answers; [rd_ok k_ongoing| |wr_ok].
    intros w Hw. unfold bind. destruct (q_now_answers w Hw) as (w1 & E1 & Hx & Hw1). rewrite E1.
    exists w1. destruct Hx as (Hc & Hf & Ho & Hs). unfold get, ret. cbn.
    split; [unfold p_ongoing; rewrite Hc; reflexivity|]. split; [repeat split; assumption|exact Hw1].
  Qed.

  Lemma q_completed_answers : answers (q_completed I) (fun w => p_completed I (filt w) (core w)).
  Proof.
    apply cached_answers; [rd_ok k_completed| |wr_ok].
    intros w Hw. unfold bind. destruct (q_sched_answers w Hw) as (w1 & E1 & Hx1 & Hw1). rewrite E1.
    destruct (q_ongoing_answers w1 Hw1) as (w2 & E2 & Hx2 & Hw2). rewrite E2.
    exists w2. unfold ret. destruct Hx1 as (Hc & Hf & Ho & Hs).
    split; [unfold p_completed; rewrite Hc, Hf; reflexivity|].
    split; [eapply ext_trans; [|exact Hx2]; repeat split; assumption|exact Hw2].
  Qed.

  Lemma q_uncompleted_answers : answers (q_uncompleted I) (fun w => p_uncompleted I (filt w) (core w)).
  Proof.
    apply cached_answers; [rd_ok k_uncompleted| |wr_ok].
    intros w Hw. unfold bind. destruct (q_unsched_answers w Hw) as (w1 & E1 & Hx1 & Hw1). rewrite E1.
    destruct (q_ongoing_answers w1 Hw1) as (w2 & E2 & Hx2 & Hw2). rewrite E2.
    exists w2. unfold ret. destruct Hx1 as (Hc & Hf & Ho & Hs).
    split; [unfold p_uncompleted; rewrite Hc, Hf; reflexivity|].
    split; [eapply ext_trans; [|exact Hx2]; repeat split; assumption|exact Hw2].
  Qed.
End Queries.
