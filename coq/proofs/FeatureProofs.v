(** FeatureProofs.v — C11: the feature arrays after ANY request list equal the
    specification of spec/FeatureSpec.v evaluated on the schedule rows. *)
From JSL Require Import Base Instance Dstate Filters World Observers Feasible ListFacts DispatchFun Inv Run
     Derived Tracking Replay OpIds Partition FeatureObservers FeatureBase FeatureSimple FeatureSpec.
From Coq Require Import Lia Permutation.

(** ** The specification's ingredients on a state satisfying [Inv] *)
Section SpecFacts.
  Variable I : instance.
  Variable fs : list fname.
  Variable d : dstate.
  Hypothesis Hi : Inv I d.

  Lemma sp_now_eq : sp_now I fs (sched d) = now_of I fs d.
  Proof. unfold sp_now. rewrite (tracking_derived I d Hi). reflexivity. Qed.

  Lemma sp_avail_eq : p_avail I fs (dstate_of I (sched d)) = available I d fs.
  Proof. rewrite (tracking_derived I d Hi). reflexivity. Qed.

  Lemma n_sched_eq j : n_sched (sched d) j = nthN (jnext d) j.
  Proof. unfold n_sched. apply (tr_job_len I d Hi). Qed.

  Lemma sp_scheduled_eq k : sp_scheduled (sched d) k = is_sched d k.
  Proof.
    unfold sp_scheduled, is_sched. destruct k as [j p]. cbn [fst snd].
    destruct (p <? nthN (jnext d) j)%nat eqn:E.
    - apply Nat.ltb_lt in E. apply mem_key_In. destruct (i_prefix _ _ Hi j p E) as (x & Hx & Hk).
      apply in_map_iff. exists x. split; assumption.
    - apply Nat.ltb_ge in E. destruct (mem_key (j, p) (map key (all_sops (sched d)))) eqn:Em; [|reflexivity].
      apply mem_key_In in Em. apply in_map_iff in Em. destruct Em as (x & Hk & Hx).
      destruct (i_sop _ _ Hi x Hx) as (_ & Hlt & _). unfold key in Hk. inversion Hk; subst. lia.
  Qed.

  Lemma mach_free_eq mm : (mm < num_machines I)%nat -> mach_free I (sched d) mm = nthZ (mfree d) mm.
  Proof.
    intros Hm. unfold mach_free.
    destruct (nth_error (sched d) mm) as [row|] eqn:Er.
    - rewrite (nth_error_nth _ _ _ Er). apply (tr_row I d Hi mm row Er).
    - apply nth_error_None in Er. rewrite (i_len_sc _ _ Hi) in Er. lia.
  Qed.

  Lemma job_free_eq j : job_free I (sched d) j = nthZ (jfree d) j.
  Proof. unfold job_free. apply (tr_job_end I d Hi). Qed.

  (** the scheduled operation of a key *)
  Lemma sp_find_some k x : sp_find (sched d) k = Some x -> In x (all_sops (sched d)) /\ key x = k.
  Proof.
    unfold sp_find. intros H. apply find_some in H. destruct H as [H1 H2]. apply eqb_key_eq in H2. auto.
  Qed.

  Lemma sp_find_in x : In x (all_sops (sched d)) -> sp_find (sched d) (key x) = Some x.
  Proof.
    intros Hx. unfold sp_find.
    destruct (find (fun y => eqb_key (key y) (key x)) (all_sops (sched d))) as [y|] eqn:Ef.
    - apply find_some in Ef. destruct Ef as [Hy Hk]. apply eqb_key_eq in Hk. f_equal.
      pose proof (i_nodup _ _ Hi) as Hnd. clear -Hnd Hx Hy Hk.
      induction (all_sops (sched d)) as [|a t IH]; [contradiction|].
      simpl in Hnd. inversion Hnd as [|? ? Hni Hnd']; subst.
      destruct Hx as [->|Hx], Hy as [->|Hy]; auto.
      + exfalso. apply Hni. apply in_map_iff. exists y. split; [exact Hk|exact Hy].
      + exfalso. apply Hni. apply in_map_iff. exists x. split; [symmetry; exact Hk|exact Hx].
    - exfalso. pose proof (find_none _ _ Ef x Hx) as Hn. cbv beta in Hn.
      rewrite (proj2 (eqb_key_eq _ _) eq_refl) in Hn. discriminate.
  Qed.

  Lemma sp_find_none k : is_sched d k = false -> sp_find (sched d) k = None.
  Proof.
    intros H. destruct (sp_find (sched d) k) as [x|] eqn:Ef; [|reflexivity].
    apply sp_find_some in Ef. destruct Ef as [Hx Hk]. rewrite <- sp_scheduled_eq in H.
    unfold sp_scheduled in H. assert (Hin : In k (map key (all_sops (sched d)))) by (apply in_map_iff; eauto).
    apply mem_key_In in Hin. congruence.
  Qed.
End SpecFacts.

(** ** Ongoing operations of a sorted row *)
Section Ongoing.
  Variable I : instance.
  Hypothesis Hv : valid I.

  Definition nonneg_row (row : list sop) : Prop := forall y, In y row -> s_start y <= s_end I y.

  Lemma row_sorted_app_inv a x : row_sorted I (a ++ [x]) -> row_sorted I a.
  Proof.
    induction a as [|y t IH]; simpl; [auto|]. destruct t as [|z t']; simpl in *; [auto|].
    intros [H1 H2]. split; [exact H1|]. apply IH. exact H2.
  Qed.

  Lemma row_sorted_last_max a x :
    row_sorted I (a ++ [x]) -> nonneg_row (a ++ [x]) -> forall y, In y a -> s_end I y <= s_end I x.
  Proof.
    induction a as [|y0 t IH]; intros Hs Hn y Hy; [contradiction|].
    assert (Hs' : row_sorted I (t ++ [x])) by (simpl in Hs; destruct (t ++ [x]); [exact Logic.I|apply Hs]).
    assert (Hn' : nonneg_row (t ++ [x])) by (intros z Hz; apply Hn; right; exact Hz).
    destruct Hy as [->|Hy]; [|apply (IH Hs' Hn' y Hy)].
    destruct t as [|z t'].
    - simpl in Hs. destruct Hs as [H1 _]. pose proof (Hn x (or_intror (or_introl eq_refl))). lia.
    - simpl in Hs. destruct Hs as [H1 _].
      pose proof (IH Hs' Hn' z (or_introl eq_refl)). pose proof (Hn z (or_intror (or_introl eq_refl))). lia.
  Qed.

  Lemma filter_all_false {A} (f : A -> bool) l : (forall x, In x l -> f x = false) -> filter f l = [].
  Proof.
    induction l as [|a t IH]; intros H; simpl; [reflexivity|]. rewrite (H a (or_introl eq_refl)).
    apply IH. intros x Hx. apply H. right; exact Hx.
  Qed.

  Lemma running_count (P : sop -> bool) t : forall row,
    row_sorted I row -> nonneg_row row ->
    length (filter P (take_while_running I t (rev row))) =
    length (filter (fun x => P x && (t <? s_end I x)) row).
  Proof.
    induction row as [|x a IH] using rev_ind; intros Hs Hn; [reflexivity|].
    rewrite rev_app_distr. simpl. rewrite filter_app, app_length. simpl.
    destruct (s_end I x <=? t) eqn:El.
    - apply Z.leb_le in El. replace (t <? s_end I x) with false by (symmetry; apply Z.ltb_ge; lia).
      rewrite andb_false_r. simpl.
      rewrite filter_all_false; [reflexivity|]. intros y Hy.
      pose proof (row_sorted_last_max a x Hs Hn y Hy).
      replace (t <? s_end I y) with false by (symmetry; apply Z.ltb_ge; lia). apply andb_false_r.
    - apply Z.leb_gt in El. replace (t <? s_end I x) with true by (symmetry; apply Z.ltb_lt; lia).
      rewrite andb_true_r. simpl.
      assert (IH' := IH (row_sorted_app_inv a x Hs) (fun y Hy => Hn y (in_or_app _ _ _ (or_introl Hy)))).
      destruct (P x); simpl; rewrite IH'; lia.
  Qed.

  Lemma flat_map_count {A B} (f : list A -> list B) (P : B -> bool) (Q : A -> bool) (S : list (list A)) :
    (forall row, In row S -> length (filter P (f row)) = length (filter Q row)) ->
    length (filter P (flat_map f S)) = length (filter Q (concat S)).
  Proof.
    induction S as [|row t IH]; intros H; simpl; [reflexivity|].
    rewrite !filter_app, !app_length. rewrite (H row (or_introl eq_refl)).
    rewrite IH by (intros r Hr; apply H; right; exact Hr). reflexivity.
  Qed.

  Lemma ongoing_count d (Hi : Inv I d) (P : sop -> bool) t :
    length (filter P (ongoing_at I t (sched d))) =
    length (filter (fun x => P x && (t <? s_end I x)) (all_sops (sched d))).
  Proof.
    unfold ongoing_at, all_sops. apply flat_map_count. intros row Hr.
    apply In_nth_error in Hr. destruct Hr as [mm Hm].
    destruct (i_rows _ _ Hi mm row Hm) as (Hs & _ & _).
    apply running_count; [exact Hs|].
    intros y Hy. assert (Hall : In y (all_sops (sched d))) by (apply In_concat_nth_error; eauto).
    destruct (i_sop _ _ Hi y Hall) as ((o & Ho & _) & _). rewrite (s_end_of I y o Ho).
    pose proof (Hv _ _ _ Ho). lia.
  Qed.
End Ongoing.

(** ** Statements about the world after a request list *)

(** the object [f_new] creates for a simple observer at the initial state *)
Definition fresh (I : instance) (fs : list fname) (k : fkind) (m : ftm) : fobs :=
  init_simple I fs (init_d I) (zero_obj I k m).
(** object [o] sits at index [i] of the system and is subscribed exactly once
    (any other subscribers, in any order, may be present) *)
Definition placed (s0 : fsys) (i : nat) (o : fobs) : Prop :=
  NoDup (f_subs s0) /\ In i (f_subs s0) /\ nth_error (f_objs s0) i = Some o.
Definition after_run (I : instance) (fs : list fname) (s0 : fsys) (rs : list request) : fwld :=
  run_from fsys f_update I (fw fs (init_d I) s0) rs.
Definition feat (w : fwld) (i : nat) : fobs := fget (sys_of w) i.
Definition rows (w : fwld) : schedule := sched (core w).
Definition cell (v : option (list Z)) (e : nat) : option Z :=
  match v with Some l => nth_error l e | None => None end.

Lemma cell_map_keys I (g : nat * nat -> Z) j p o :
  get_op I j p = Some o -> cell (Some (map g (all_keys I))) (op_id I j p) = Some (g (j, p)).
Proof. intros H. simpl. apply (nth_error_map_keys I g j p o H). Qed.

Lemma cell_map_seq (g : nat -> Z) n e : (e < n)%nat -> cell (Some (map g (seq 0 n))) e = Some (g e).
Proof. intros H. simpl. rewrite nth_error_map, nth_error_seq0 by exact H. reflexivity. Qed.

Lemma core_after_run I fs s0 rs : core (after_run I fs s0 rs) = fold_left (apply_req I) rs (init_d I).
Proof. unfold after_run. rewrite core_run_from. reflexivity. Qed.

Section AfterRun.
  Variable I : instance.
  Variable fs : list fname.
  Hypothesis Hv : valid I.

  (** an observer whose object is a function [cf] of the dispatcher state *)
  Lemma cf_run (cf : dstate -> fobs) :
    (forall d, fo_kind (cf d) <> FComposite) ->
    (forall d r x, Inv I d -> sop_of_request I d r = Some x ->
        obj_step I fs (apply_sop I d x (row_of d x)) x (cf d) = cf (apply_sop I d x (row_of d x))) ->
    forall rs s0 i, placed s0 i (cf (init_d I)) ->
      Inv I (core (after_run I fs s0 rs)) /\ feat (after_run I fs s0 rs) i = cf (core (after_run I fs s0 rs)).
  Proof.
    intros Hk Hstep rs s0 i (Hnd & Hin & Ho).
    destruct (obj_invariant I fs Hv (fun d o => o = cf d)
                (fun d o H => eq_ind_r (fun o => fo_kind o <> FComposite) (Hk d) H)
                (fun d r x o Hi HP E => eq_trans (f_equal (obj_step I fs _ x) HP) (Hstep d r x Hi E))
                rs (init_d I) s0 i (cf (init_d I)) (Inv_init I) Hnd Hin Ho eq_refl)
      as (s' & o' & H1 & H2 & H3 & H4 & H5).
    unfold after_run. rewrite H1. cbn [core fw]. split; [exact H4|].
    unfold feat, sys_of, fget. cbn [objs fw nth]. rewrite (nth_error_nth _ _ _ H3). exact H5.
  Qed.

  (** an observer whose object satisfies an invariant [P] *)
  Lemma inv_run (P : dstate -> fobs -> Prop) :
    (forall d o, P d o -> fo_kind o <> FComposite) ->
    (forall d r x o, Inv I d -> P d o -> sop_of_request I d r = Some x ->
        P (apply_sop I d x (row_of d x)) (obj_step I fs (apply_sop I d x (row_of d x)) x o)) ->
    forall rs s0 i o0, placed s0 i o0 -> P (init_d I) o0 ->
      Inv I (core (after_run I fs s0 rs)) /\ P (core (after_run I fs s0 rs)) (feat (after_run I fs s0 rs) i).
  Proof.
    intros Hk Hstep rs s0 i o0 (Hnd & Hin & Ho) HP.
    destruct (obj_invariant I fs Hv P Hk Hstep rs (init_d I) s0 i o0 (Inv_init I) Hnd Hin Ho HP)
      as (s' & o' & H1 & H2 & H3 & H4 & H5).
    unfold after_run. rewrite H1. cbn [core fw]. split; [exact H4|].
    unfold feat, sys_of, fget. cbn [objs fw nth]. rewrite (nth_error_nth _ _ _ H3). exact H5.
  Qed.

  (** *** IsReady *)
  Lemma mem_nat_flat_map {A} (f : A -> list nat) mm (l : list A) :
    mem_nat mm (flat_map f l) = existsb (fun k => mem_nat mm (f k)) l.
  Proof.
    induction l as [|a t IH]; simpl; [reflexivity|]. rewrite <- IH.
    induction (f a) as [|y u IHu]; simpl; [reflexivity|]. rewrite IHu. apply orb_assoc.
  Qed.
  Lemma mem_nat_map_fst j (l : list (nat * nat)) :
    mem_nat j (map fst l) = existsb (fun k => (fst k =? j)%nat) l.
  Proof. induction l as [|a t IH]; simpl; [reflexivity|]. rewrite IH, (Nat.eqb_sym j (fst a)). reflexivity. Qed.

  Theorem is_ready_after m rs s0 i :
    placed s0 i (fresh I fs FIsReady m) ->
    let w := after_run I fs s0 rs in
    (t_ops m = true -> forall j p o, get_op I j p = Some o ->
        cell (fo_ops (feat w i)) (op_id I j p) = Some (sp_ready_op I fs (rows w) (j, p))) /\
    (t_mach m = true -> forall mm, (mm < num_machines I)%nat ->
        cell (fo_mach (feat w i)) mm = Some (sp_ready_mach I fs (rows w) mm)) /\
    (t_jobs m = true -> forall j, (j < num_jobs I)%nat ->
        cell (fo_jobs (feat w i)) j = Some (sp_ready_job I fs (rows w) j)).
  Proof.
    intros Hp. unfold fresh in Hp. rewrite cf_ready_init in Hp.
    destruct (cf_run (cf_ready I fs m) (fun d => ltac:(discriminate))
                     (fun d r x _ _ => cf_ready_step I fs m d _ x) rs s0 i Hp) as [Hi Hf].
    cbv zeta. rewrite Hf. unfold rows. set (d := core (after_run I fs s0 rs)) in *.
    unfold cf_ready. cbn [fo_ops fo_mach fo_jobs set_feats]. repeat split.
    - intros Ht j p o Ho. rewrite Ht. cbn [when]. unfold ready_ops. rewrite (cell_map_keys I _ j p o Ho).
      unfold sp_ready_op. rewrite (sp_avail_eq I fs d Hi). reflexivity.
    - intros Ht mm Hm. rewrite Ht. cbn [when]. unfold ready_mach. rewrite cell_map_seq by exact Hm.
      unfold sp_ready_mach. rewrite (sp_avail_eq I fs d Hi), mem_nat_flat_map. reflexivity.
    - intros Ht j Hj. rewrite Ht. cbn [when]. unfold ready_jobs. rewrite cell_map_seq by exact Hj.
      unfold sp_ready_job. rewrite (sp_avail_eq I fs d Hi), mem_nat_map_fst. reflexivity.
  Qed.

  (** *** IsScheduled *)
  Lemma ongoing_vec_count (f : sop -> nat) n d (Hi : Inv I d) e :
    (forall y, In y (all_sops (sched d)) -> (f y < n)%nat) -> (e < n)%nat ->
    nth_error (fold_left (fun v y => addat v (f y) 1) (ongoing_of I fs d) (zeros n)) e =
    Some (Z.of_nat (length (filter (fun x => (f x =? e)%nat && (now_of I fs d <? s_end I x)) (all_sops (sched d))))).
  Proof.
    intros Hf He.
    rewrite (nth_error_nth' _ 0) by (rewrite length_fold_addat; unfold zeros; rewrite repeat_length; exact He).
    f_equal. fold (nthZ (fold_left (fun v y => addat v (f y) 1) (ongoing_of I fs d) (zeros n)) e).
    rewrite fold_addat_count.
    - unfold nthZ, zeros. rewrite nth_repeat by exact He. unfold ongoing_of.
      rewrite (ongoing_count I Hv d Hi). reflexivity.
    - intros y Hy. unfold zeros. rewrite repeat_length. apply Hf.
      unfold ongoing_of, ongoing_at in Hy. apply in_flat_map in Hy. destruct Hy as (row & Hr & Hy).
      apply in_concat. exists row. split; [exact Hr|]. apply in_rev. eapply take_while_running_In; eauto.
    - unfold zeros. rewrite repeat_length. exact He.
  Qed.

  Theorem is_scheduled_after m rs s0 i :
    placed s0 i (fresh I fs FIsScheduled m) ->
    let w := after_run I fs s0 rs in
    (t_ops m = true -> forall j p o, get_op I j p = Some o ->
        cell (fo_ops (feat w i)) (op_id I j p) = Some (sp_sched_op (rows w) (j, p))) /\
    (t_mach m = true -> forall mm, (mm < num_machines I)%nat ->
        cell (fo_mach (feat w i)) mm = Some (sp_ongoing_mach I fs (rows w) mm)) /\
    (t_jobs m = true -> forall j, (j < num_jobs I)%nat ->
        cell (fo_jobs (feat w i)) j = Some (sp_ongoing_job I fs (rows w) j)).
  Proof.
    intros Hp. unfold fresh in Hp. rewrite cf_sched_init in Hp.
    destruct (cf_run (cf_sched I fs m) (fun d => ltac:(discriminate))
                     (fun d r x Hi E => cf_sched_step I fs m d r x Hi E) rs s0 i Hp) as [Hi Hf].
    cbv zeta. rewrite Hf. unfold rows. set (d := core (after_run I fs s0 rs)) in *.
    unfold cf_sched. cbn [fo_ops fo_mach fo_jobs set_feats]. repeat split.
    - intros Ht j p o Ho. rewrite Ht. cbn [when]. unfold sched_vec. rewrite (cell_map_keys I _ j p o Ho).
      unfold sp_sched_op. rewrite (sp_scheduled_eq I d Hi). reflexivity.
    - intros Ht mm Hm. rewrite Ht. cbn [when cell]. unfold ongoing_by_mach.
      rewrite (ongoing_vec_count s_mach (num_machines I) d Hi mm); [|  |exact Hm].
      + unfold sp_ongoing_mach, running. rewrite (sp_now_eq I fs d Hi). reflexivity.
      + intros y Hy. destruct (i_sop _ _ Hi y Hy) as ((o & Ho & Hin) & _). eapply machine_lt; eauto.
    - intros Ht j Hj. rewrite Ht. cbn [when cell]. unfold ongoing_by_job.
      rewrite (ongoing_vec_count s_job (num_jobs I) d Hi j); [|  |exact Hj].
      + unfold sp_ongoing_job, running. rewrite (sp_now_eq I fs d Hi). reflexivity.
      + intros y Hy. destruct (i_sop _ _ Hi y Hy) as ((o & Ho & Hin) & _). eapply get_op_job_lt; eauto.
  Qed.

  (** *** PositionInJob *)
  Theorem position_after m rs s0 i :
    t_mach m = false -> t_jobs m = false ->
    placed s0 i (fresh I fs FPosInJob m) ->
    let w := after_run I fs s0 rs in
    t_ops m = true -> forall j p o, get_op I j p = Some o ->
        cell (fo_ops (feat w i)) (op_id I j p) = Some (sp_position (rows w) (j, p)).
  Proof.
    intros H1 H2 Hp. unfold fresh in Hp. rewrite (cf_pos_init I fs m H1 H2) in Hp.
    destruct (cf_run (cf_pos I m) (fun d => ltac:(discriminate))
                     (fun d r x Hi E => cf_pos_step I fs m d r x Hi E) rs s0 i Hp) as [Hi Hf].
    cbv zeta. rewrite Hf. unfold rows. set (d := core (after_run I fs s0 rs)) in *.
    intros Ht j p o Ho. unfold cf_pos. cbn [fo_ops set_feats]. rewrite Ht. cbn [when].
    unfold pos_vec. rewrite (cell_map_keys I _ j p o Ho). unfold sp_position. cbn [fst snd].
    rewrite (n_sched_eq I d Hi). reflexivity.
  Qed.
End AfterRun.

(** ** RemainingOperations, Duration, IsCompleted (job level; machine level as
    "initial value minus what was dispatched on the machine") *)
Lemma filter_map_comm {A B} (f : B -> bool) (g : A -> B) (l : list A) :
  filter f (map g l) = map g (filter (fun a => f (g a)) l).
Proof. induction l as [|a t IH]; simpl; [reflexivity|]. destruct (f (g a)); simpl; rewrite IH; reflexivity. Qed.

Lemma filter_all_true {A} (f : A -> bool) l : (forall x, In x l -> f x = true) -> filter f l = l.
Proof.
  induction l as [|a t IH]; intros H; simpl; [reflexivity|]. rewrite (H a (or_introl eq_refl)).
  f_equal. apply IH. intros x Hx. apply H. right; exact Hx.
Qed.

Lemma filter_seq_ge n : forall a len, (a <= n)%nat -> (n <= a + len)%nat ->
  filter (fun q => negb (q <? n)%nat) (seq a len) = seq n (a + len - n).
Proof.
  intros a len. revert a. induction len as [|len IH]; intros a H1 H2; simpl.
  - replace (a + 0 - n)%nat with 0%nat by lia. reflexivity.
  - destruct (a <? n)%nat eqn:E; simpl.
    + apply Nat.ltb_lt in E. rewrite IH by lia. f_equal. lia.
    + apply Nat.ltb_ge in E. assert (a = n) by lia. subst a.
      replace (n + S len - n)%nat with (S len) by lia. simpl. f_equal.
      rewrite filter_all_true; [reflexivity|]. intros q Hq. apply in_seq in Hq.
      apply negb_true_iff. apply Nat.ltb_ge. lia.
Qed.

Lemma skipn_as_map {A} (dflt : A) (l : list A) : forall n, (n <= length l)%nat ->
  skipn n l = map (fun q => nth q l dflt) (seq n (length l - n)).
Proof.
  induction l as [|a t IH]; intros n Hn.
  - simpl in Hn. assert (n = 0%nat) by lia. subst. reflexivity.
  - destruct n as [|n].
    + cbn [skipn length]. rewrite Nat.sub_0_r. cbn [seq map nth]. f_equal.
      rewrite <- seq_shift, map_map. cbn [nth].
      pose proof (IH 0%nat ltac:(lia)) as H0. cbn [skipn] in H0. rewrite Nat.sub_0_r in H0. exact H0.
    + cbn [skipn length]. simpl in Hn. rewrite (IH n) by lia.
      replace (S (length t) - S n)%nat with (length t - n)%nat by lia.
      rewrite <- seq_shift, map_map. reflexivity.
Qed.

Section JobLevel.
  Variable I : instance.
  Variable fs : list fname.
  Hypothesis Hv : valid I.
  Variable m : ftm.

  (** the operations of job [j] that are not in the rows carry these durations *)
  Lemma unscheduled_job_durations d (Hi : Inv I d) j :
    sumZ (map (kdur I) (filter (fun k => negb (sp_scheduled (sched d) k)) (job_keys j (get_job I j)))) =
    sumZ (map duration (skipn (nthN (jnext d) j) (get_job I j))).
  Proof.
    set (job := get_job I j). set (n := nthN (jnext d) j).
    assert (Hn : (n <= length job)%nat) by (apply (i_bound _ _ Hi)).
    unfold job_keys. rewrite filter_map_comm.
    rewrite (filter_ext _ (fun q => negb (q <? n)%nat))
      by (intros q; rewrite (sp_scheduled_eq I d Hi); reflexivity).
    rewrite filter_seq_ge by lia. simpl. rewrite map_map.
    rewrite (skipn_as_map (mkop [] 0) job n Hn), map_map. f_equal.
    apply map_ext_in. intros q Hq. apply in_seq in Hq.
    unfold kdur, kop, get_op, job, get_job in *. cbn [fst snd].
    destruct (nth_error I j) as [jb|] eqn:Ej.
    - rewrite (nth_error_nth _ _ _ Ej) in *. rewrite (nth_error_nth' jb (mkop [] 0)) by lia. reflexivity.
    - rewrite (nth_overflow I []) in Hq by (apply nth_error_None; exact Ej). simpl in Hq. lia.
  Qed.

  (** *** RemainingOperations *)
  Definition fresh_rem : fobs := rem_init I (unscheduled_ops I (init_d I)) (zero_obj I FRemOps m).
  Definition cf_rem (d : dstate) : fobs :=
    set_feats (blank FRemOps) None (when (t_mach m) (remm_vec I d)) (when (t_jobs m) (remj_vec I d)).

  Lemma cf_rem_init : t_ops m = false -> fresh_rem = cf_rem (init_d I).
  Proof.
    intros H. unfold fresh_rem, cf_rem, rem_init, zero_obj. cbn [fo_ops fo_mach fo_jobs set_feats blank].
    rewrite H, unscheduled_init. cbn [when]. unfold when.
    destruct (t_mach m), (t_jobs m); cbn [option_map];
      rewrite <- ?remj_vec_init, <- ?remm_vec_init; reflexivity.
  Qed.

  Lemma cf_rem_step d r x : Inv I d -> sop_of_request I d r = Some x ->
    obj_step I fs (apply_sop I d x (row_of d x)) x (cf_rem d) = cf_rem (apply_sop I d x (row_of d x)).
  Proof.
    intros Hi E. unfold obj_step, upd_obs, cf_rem. cbn [fo_kind blank set_feats fo_ops fo_mach fo_jobs].
    unfold when. destruct (t_mach m), (t_jobs m); cbn [option_map];
      rewrite ?(remm_vec_step I d Hi r x E), ?(remj_vec_step I d Hi r x E); reflexivity.
  Qed.

  Theorem remaining_after rs s0 i :
    t_ops m = false -> placed s0 i fresh_rem ->
    let w := after_run I fs s0 rs in
    (t_jobs m = true -> forall j, (j < num_jobs I)%nat ->
        cell (fo_jobs (feat w i)) j = Some (sp_rem_job I (rows w) j)) /\
    (t_mach m = true -> fo_mach (feat w i) = Some (remm_vec I (core w))).
  Proof.
    intros H0 Hp. rewrite (cf_rem_init H0) in Hp.
    destruct (cf_run I fs Hv cf_rem (fun d => ltac:(discriminate))
                     (fun d r x Hi E => cf_rem_step d r x Hi E) rs s0 i Hp) as [Hi Hf].
    cbv zeta. rewrite Hf. unfold rows. set (d := core (after_run I fs s0 rs)) in *.
    unfold cf_rem. cbn [fo_mach fo_jobs set_feats]. split.
    - intros Ht j Hj. rewrite Ht. cbn [when]. unfold remj_vec. rewrite cell_map_seq by exact Hj.
      unfold sp_rem_job, joblen. rewrite (n_sched_eq I d Hi). reflexivity.
    - intros Ht. rewrite Ht. reflexivity.
  Qed.

  (** *** Duration *)
  Record dur_inv (d : dstate) (o : fobs) : Prop := {
    du_kind : fo_kind o = FDuration;
    du_mach : fo_mach o = when (t_mach m) (durm_vec I d);
    du_jobs : fo_jobs o = when (t_jobs m) (durj_vec I d);
    du_ops : if t_ops m
             then exists v, fo_ops o = Some v /\ length v = num_ops I /\
                            forall j p op, get_op I j p = Some op -> is_sched d (j, p) = false ->
                                           nth_error v (op_id I j p) = Some (duration op)
             else fo_ops o = None
  }.

  Lemma dur_inv_init : dur_inv (init_d I) (fresh I fs FDuration m).
  Proof.
    unfold fresh, init_simple, zero_obj. cbn [fo_kind blank set_feats fo_ops fo_mach fo_jobs].
    constructor; cbn [fo_kind fo_mach fo_jobs fo_ops set_feats].
    - reflexivity.
    - unfold when. destruct (t_mach m); cbn [option_map]; [rewrite durm_vec_init|]; reflexivity.
    - unfold when. destruct (t_jobs m); cbn [option_map]; [rewrite durj_vec_init|]; reflexivity.
    - unfold when. destruct (t_ops m); cbn [option_map]; [|reflexivity].
      exists (dur_ops I). split; [reflexivity|]. split; [unfold dur_ops; rewrite map_length; apply length_all_keys|].
      intros j p op Ho _. unfold dur_ops. rewrite (nth_error_map_keys I _ j p op Ho). rewrite (kdur_of I j p op Ho). reflexivity.
  Qed.

  Lemma dur_inv_step d r x o : Inv I d -> dur_inv d o -> sop_of_request I d r = Some x ->
    dur_inv (apply_sop I d x (row_of d x)) (obj_step I fs (apply_sop I d x (row_of d x)) x o).
  Proof.
    intros Hi [K Hm Hj Ho] E. unfold obj_step, upd_obs. rewrite K.
    constructor; cbn [fo_kind fo_mach fo_jobs fo_ops set_feats].
    - exact K.
    - rewrite Hm. unfold when. destruct (t_mach m); cbn [option_map]; [rewrite (durm_vec_step I d Hi r x E)|]; reflexivity.
    - rewrite Hj. unfold when. destruct (t_jobs m); cbn [option_map]; [rewrite (durj_vec_step I d Hi r x E)|]; reflexivity.
    - destruct (t_ops m); [|rewrite Ho; reflexivity].
      destruct Ho as (v & Hv1 & Hl & Hc). rewrite Hv1. cbn [option_map].
      eexists. split; [reflexivity|]. split; [rewrite length_upd; exact Hl|].
      intros j p op Hop Hs. rewrite (st_is_sched I d Hi r x E) in Hs. apply orb_false_iff in Hs. destruct Hs as [Hne Hs].
      unfold kid, key. cbn [fst snd]. rewrite nth_error_upd_neq; [apply (Hc j p op Hop Hs)|].
      intro Heq. destruct (st_op I d r x E) as (ox & Hox & _).
      destruct (op_id_inj I _ _ _ _ _ _ Hox Hop Heq) as [H1 H2]. subst.
      unfold eqb_key, key in Hne. cbn [fst snd] in Hne. rewrite !Nat.eqb_refl in Hne. discriminate.
  Qed.

  Theorem duration_after rs s0 i :
    placed s0 i (fresh I fs FDuration m) ->
    let w := after_run I fs s0 rs in
    (t_ops m = true -> forall j p op, get_op I j p = Some op -> sp_scheduled (rows w) (j, p) = false ->
        cell (fo_ops (feat w i)) (op_id I j p) = Some (sp_dur_op I fs (rows w) (j, p))) /\
    (t_jobs m = true -> forall j, (j < num_jobs I)%nat ->
        cell (fo_jobs (feat w i)) j = Some (sp_dur_job I (rows w) j)) /\
    (t_mach m = true -> fo_mach (feat w i) = Some (durm_vec I (core w))).
  Proof.
    intros Hp.
    destruct (inv_run I fs Hv dur_inv (fun d o H => ltac:(rewrite (du_kind d o H); discriminate))
                      dur_inv_step rs s0 i _ Hp dur_inv_init) as [Hi [K Hm Hj Ho]].
    cbv zeta. unfold rows. set (d := core (after_run I fs s0 rs)) in *.
    set (o := feat (after_run I fs s0 rs) i) in *. repeat split.
    - intros Ht j p op Hop Hs. rewrite Ht in Ho. destruct Ho as (v & Hv1 & _ & Hc). rewrite Hv1. cbn [cell].
      rewrite (sp_scheduled_eq I d Hi) in Hs. rewrite (Hc j p op Hop Hs).
      unfold sp_dur_op. rewrite (sp_find_none I d Hi _ Hs). rewrite (kdur_of I j p op Hop). reflexivity.
    - intros Ht j Hjj. rewrite Hj, Ht. cbn [when]. unfold durj_vec. rewrite cell_map_seq by exact Hjj.
      unfold sp_dur_job, job_keys_of. rewrite (unscheduled_job_durations d Hi j). reflexivity.
    - intros Ht. rewrite Hm, Ht. reflexivity.
  Qed.
End JobLevel.

(** ** IsCompleted, job level: the flag is raised exactly when every operation
    of the (non-empty) job is SCHEDULED *)
Section Completed.
  Variable I : instance.
  Variable fs : list fname.
  Hypothesis Hv : valid I.
  Variable m : ftm.

  (** the object [IsCompletedObserver.__init__] leaves at the initial state
      (arrays copied from a remaining-operations observer that is itself in
      its initial state) *)
  Definition fresh_comp : fobs :=
    set_rem (zero_obj I FIsCompleted m)
            (if t_mach m then remm0 I else zeros (num_machines I))
            (if t_jobs m then remj_vec I (init_d I) else zeros (num_jobs I)).

  Record comp_inv (d : dstate) (o : fobs) : Prop := {
    ci_kind : fo_kind o = FIsCompleted;
    ci_jobs : fo_jobs o = when (t_jobs m) (flagj_vec I d);
    ci_remj : t_jobs m = true -> fo_remj o = remj_vec I d
  }.

  Lemma comp_inv_init : comp_inv (init_d I) fresh_comp.
  Proof.
    unfold fresh_comp, zero_obj. constructor; cbn [fo_kind fo_jobs fo_remj set_rem set_feats blank].
    - reflexivity.
    - rewrite flagj_vec_init. reflexivity.
    - intros ->. reflexivity.
  Qed.

  Lemma comp_inv_step d r x o : Inv I d -> comp_inv d o -> sop_of_request I d r = Some x ->
    comp_inv (apply_sop I d x (row_of d x)) (obj_step I fs (apply_sop I d x (row_of d x)) x o).
  Proof.
    intros Hi [K Hj Hr] E. unfold obj_step, upd_obs. rewrite K.
    constructor; cbn [fo_kind fo_jobs fo_remj set_rem set_feats].
    - exact K.
    - rewrite Hj. unfold when. destruct (t_jobs m) eqn:Et; cbn [option_map]; [|reflexivity].
      rewrite (Hr eq_refl). rewrite (flagj_vec_step I d Hi r x E). reflexivity.
    - intros Et. rewrite Hj, Et. cbn [when]. rewrite (Hr Et). apply (remj_vec_step I d Hi r x E).
  Qed.

  Lemma flag_is_all_scheduled d (Hi : Inv I d) j :
    b2z ((0 <? joblen I j)%nat && (nthN (jnext d) j =? joblen I j)%nat) =
    zb (negb (length (get_job I j) =? 0)%nat && forallb (sp_scheduled (sched d)) (job_keys j (get_job I j))).
  Proof.
    unfold b2z, zb, joblen. set (len := length (get_job I j)). set (n := nthN (jnext d) j).
    assert (Hn : (n <= len)%nat) by (apply (i_bound _ _ Hi)).
    assert (Hall : forallb (sp_scheduled (sched d)) (job_keys j (get_job I j)) = (len <=? n)%nat).
    { destruct (len <=? n)%nat eqn:El.
      - apply Nat.leb_le in El. apply forallb_forall. intros [j' q] Hk. unfold job_keys in Hk.
        apply in_map_iff in Hk. destruct Hk as (q' & Eq & Hq). inversion Eq; subst. apply in_seq in Hq.
        rewrite (sp_scheduled_eq I d Hi). unfold is_sched. cbn [fst snd]. apply Nat.ltb_lt. fold n. fold len in Hq. lia.
      - apply Nat.leb_gt in El. destruct (forallb (sp_scheduled (sched d)) (job_keys j (get_job I j))) eqn:Ef; [|reflexivity].
        rewrite forallb_forall in Ef. specialize (Ef (j, n)).
        rewrite (sp_scheduled_eq I d Hi) in Ef. unfold is_sched in Ef. cbn [fst snd] in Ef. fold n in Ef.
        rewrite Nat.ltb_irrefl in Ef. symmetry. apply Ef. unfold job_keys. apply in_map_iff. exists n.
        split; [reflexivity|]. apply in_seq. fold len. lia. }
    rewrite Hall. destruct len as [|l]; [reflexivity|]. simpl (negb _). simpl (0 <? S l)%nat.
    cbn [andb]. destruct (n =? S l)%nat eqn:E1, (S l <=? n)%nat eqn:E2; try reflexivity.
    - apply Nat.eqb_eq in E1. apply Nat.leb_gt in E2. lia.
    - apply Nat.eqb_neq in E1. apply Nat.leb_le in E2. lia.
  Qed.

  Theorem completed_jobs_after rs s0 i :
    placed s0 i fresh_comp ->
    let w := after_run I fs s0 rs in
    t_jobs m = true -> forall j, (j < num_jobs I)%nat -> get_job I j <> [] ->
        cell (fo_jobs (feat w i)) j = Some (sp_allsched_job I (rows w) j).
  Proof.
    intros Hp.
    destruct (inv_run I fs Hv comp_inv (fun d o H => ltac:(rewrite (ci_kind d o H); discriminate))
                      comp_inv_step rs s0 i _ Hp comp_inv_init) as [Hi [K Hj Hr]].
    cbv zeta. unfold rows. set (d := core (after_run I fs s0 rs)) in *.
    intros Ht j Hjj Hne. rewrite Hj, Ht. cbn [when]. unfold flagj_vec. rewrite cell_map_seq by exact Hjj.
    rewrite (flag_is_all_scheduled d Hi j). unfold sp_allsched_job, job_keys_of.
    destruct (get_job I j) as [|a t] eqn:Ej; [contradiction|]. reflexivity.
  Qed.
End Completed.
