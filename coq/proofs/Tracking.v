(** Tracking.v — C02: on every state satisfying [Inv] the dispatcher's
    tracking vectors, operation count and makespan equal the values recomputed
    from scratch from the schedule rows ([dstate_of]); accepted dispatches
    start at the forced time. *)
From JSL Require Import Base Instance Dstate Filters World Feasible ListFacts DispatchFun Inv Derived.
From Coq Require Import Lia Permutation.

Lemma maxZ0_nonneg l : 0 <= maxZ0 l.
Proof. induction l as [|x t IH]; simpl; lia. Qed.
Lemma maxZ0_ge l z : In z l -> z <= maxZ0 l.
Proof. induction l as [|x t IH]; simpl; [tauto|]. intros [->|H]; [lia|]. specialize (IH H). lia. Qed.
Lemma maxZ0_ub l b : 0 <= b -> (forall z, In z l -> z <= b) -> maxZ0 l <= b.
Proof.
  intros Hb. induction l as [|x t IH]; simpl; intros H; [exact Hb|].
  assert (x <= b) by (apply H; auto). assert (maxZ0 t <= b) by (apply IH; intros; apply H; auto). lia.
Qed.
Lemma maxZ0_eq l b : 0 <= b -> (forall z, In z l -> z <= b) -> (In b l \/ b = 0) -> maxZ0 l = b.
Proof.
  intros Hb Hub Hin. pose proof (maxZ0_ub l b Hb Hub). pose proof (maxZ0_nonneg l).
  destruct Hin as [Hin| ->]; [apply maxZ0_ge in Hin|]; lia.
Qed.
Lemma maxZ0_app a b : maxZ0 (a ++ b) = Z.max (maxZ0 a) (maxZ0 b).
Proof. induction a as [|x t IH]; simpl; [pose proof (maxZ0_nonneg b); lia|]. rewrite IH. lia. Qed.
Lemma maxZ0_concat_map {A} (f : A -> Z) (L : list (list A)) :
  maxZ0 (map f (concat L)) = maxZ0 (map (fun row => maxZ0 (map f row)) L).
Proof. induction L as [|r t IH]; simpl; [reflexivity|]. rewrite map_app, maxZ0_app, IH. reflexivity. Qed.

Lemma last_opt_some_nonempty {A} (l : list A) : l <> [] -> exists y, last_opt l = Some y.
Proof.
  intros H. destruct (exists_last H) as (l' & a & ->). exists a. apply last_opt_app.
Qed.

Lemma In_job_sops S j x : In x (job_sops S j) <-> In x (all_sops S) /\ s_job x = j.
Proof. unfold job_sops. rewrite filter_In, Nat.eqb_eq. tauto. Qed.

Lemma NoDup_pos_of_keys (l : list sop) j :
  NoDup (map key l) -> NoDup (map s_pos (filter (fun x => (s_job x =? j)%nat) l)).
Proof.
  induction l as [|x t IH]; simpl; intros H; [constructor|].
  inversion H as [|? ? Hni Hnd]; subst.
  destruct (s_job x =? j)%nat eqn:E; [|apply IH; exact Hnd].
  simpl. constructor; [|apply IH; exact Hnd].
  intro Hin. apply in_map_iff in Hin. destruct Hin as (y & Hp & Hy).
  apply filter_In in Hy. destruct Hy as [Hy Hj]. apply Nat.eqb_eq in E, Hj.
  apply Hni. apply in_map_iff. exists y. split; [|exact Hy]. unfold key. congruence.
Qed.

Section Tracking.
  Variable I : instance.
  Variable d : dstate.
  Hypothesis Hi : Inv I d.

  Lemma tr_row m row : nth_error (sched d) m = Some row -> maxZ0 (map (s_end I) row) = nthZ (mfree d) m.
  Proof.
    intros Hr. destruct (i_rows _ _ Hi m row Hr) as (_ & Hm & Hl).
    apply maxZ0_eq.
    - apply (i_nonneg_mf _ _ Hi).
    - intros z Hz. apply in_map_iff in Hz. destruct Hz as (x & <- & Hx).
      assert (Hall : In x (all_sops (sched d))) by (apply In_concat_nth_error; eauto).
      destruct (i_sop _ _ Hi x Hall) as (_ & _ & _ & _ & H). rewrite (Hm x Hx) in H. exact H.
    - rewrite <- Hl. unfold last_end. destruct (last_opt row) as [y|] eqn:E; [|right; reflexivity].
      left. apply in_map. eapply last_opt_In; eauto.
  Qed.

  Lemma tr_mfree : sp_mfree I (sched d) = mfree d.
  Proof.
    apply nth_ext with (d := 0) (d' := 0).
    - unfold sp_mfree. rewrite map_length, (i_len_sc _ _ Hi), (i_len_mf _ _ Hi). reflexivity.
    - intros m Hm. unfold sp_mfree in *. rewrite map_length in Hm.
      destruct (nth_error (sched d) m) as [row|] eqn:E; [|apply nth_error_None in E; lia].
      rewrite (nth_indep _ 0 (maxZ0 (map (s_end I) []))) by (rewrite map_length; exact Hm).
      rewrite (map_nth (fun row => maxZ0 (map (s_end I) row))).
      rewrite (nth_error_nth _ _ _ E). apply (tr_row m row E).
  Qed.

  Lemma tr_job_len j : length (job_sops (sched d) j) = nthN (jnext d) j.
  Proof.
    rewrite <- (map_length s_pos). rewrite <- (seq_length (nthN (jnext d) j) 0).
    apply Permutation_length. apply NoDup_Permutation.
    - apply NoDup_pos_of_keys. apply (i_nodup _ _ Hi).
    - apply seq_NoDup.
    - intros p. rewrite in_seq. split.
      + intros Hin. apply in_map_iff in Hin. destruct Hin as (x & <- & Hx).
        apply In_job_sops in Hx. destruct Hx as [Hx <-].
        destruct (i_sop _ _ Hi x Hx) as (_ & Hp & _). lia.
      + intros [_ Hp]. destruct (i_prefix _ _ Hi j p) as (x & Hx & Hk); [lia|].
        apply in_map_iff. exists x. unfold key in Hk. injection Hk as Hj Hpp.
        split; [exact Hpp|]. apply In_job_sops. split; assumption.
  Qed.

  Lemma tr_jnext : sp_jnext I (sched d) = jnext d.
  Proof.
    apply nth_ext with (d := 0%nat) (d' := 0%nat).
    - unfold sp_jnext. rewrite map_length, seq_length. symmetry. apply (i_len_jn _ _ Hi).
    - intros j Hj. unfold sp_jnext in *. rewrite map_length, seq_length in Hj.
      rewrite (nth_indep _ 0%nat (length (job_sops (sched d) 0))) by (rewrite map_length, seq_length; exact Hj).
      rewrite (map_nth (fun j => length (job_sops (sched d) j))). rewrite seq_nth by exact Hj. simpl.
      apply tr_job_len.
  Qed.

  Lemma tr_job_end j : maxZ0 (map (s_end I) (job_sops (sched d) j)) = nthZ (jfree d) j.
  Proof.
    apply maxZ0_eq.
    - apply (i_nonneg_jf _ _ Hi).
    - intros z Hz. apply in_map_iff in Hz. destruct Hz as (x & <- & Hx).
      apply In_job_sops in Hx. destruct Hx as [Hx <-].
      destruct (i_sop _ _ Hi x Hx) as (_ & _ & _ & H & _). exact H.
    - destruct (i_jfree _ _ Hi j) as [[_ H0]|(x & Hx & Hk & _ & He)]; [right; exact H0|].
      left. rewrite He. apply in_map. apply In_job_sops. split; [exact Hx|].
      unfold key in Hk. injection Hk as Hj _. exact Hj.
  Qed.

  Lemma tr_jfree : sp_jfree I (sched d) = jfree d.
  Proof.
    apply nth_ext with (d := 0) (d' := 0).
    - unfold sp_jfree. rewrite map_length, seq_length. symmetry. apply (i_len_jf _ _ Hi).
    - intros j Hj. unfold sp_jfree in *. rewrite map_length, seq_length in Hj.
      rewrite (nth_indep _ 0 (maxZ0 (map (s_end I) (job_sops (sched d) 0)))) by (rewrite map_length, seq_length; exact Hj).
      rewrite (map_nth (fun j => maxZ0 (map (s_end I) (job_sops (sched d) j)))). rewrite seq_nth by exact Hj. simpl.
      apply tr_job_end.
  Qed.

  (** The dispatcher state IS the from-scratch recomputation. *)
  Theorem tracking_derived : dstate_of I (sched d) = d.
  Proof.
    unfold dstate_of. rewrite tr_mfree, tr_jnext, tr_jfree. destruct d; reflexivity.
  Qed.

  Theorem num_scheduled_derived : num_scheduled (sched d) = length (all_sops (sched d)) /\
                                  num_scheduled (sched d) = sumN (jnext d).
  Proof. rewrite num_scheduled_length. split; [reflexivity|apply (i_count _ _ Hi)]. Qed.

  Lemma makespan_code_fold (S : schedule) acc :
    0 <= acc ->
    fold_left (fun a row => match last_opt row with Some y => Z.max a (s_end I y) | None => a end) S acc
    = Z.max acc (maxZ0 (map (last_end I) S)).
  Proof.
    revert acc. induction S as [|row t IH]; intros acc Ha; simpl; [lia|].
    unfold last_end at 1. destruct (last_opt row) as [y|].
    - rewrite IH by lia. pose proof (maxZ0_nonneg (map (last_end I) t)). lia.
    - rewrite IH by lia. pose proof (maxZ0_nonneg (map (last_end I) t)). lia.
  Qed.

  (** [Schedule.makespan()] (max over rows of the LAST element's end) is the
      largest end time of any scheduled operation. *)
  Theorem makespan_derived : makespan_code I (sched d) = sp_makespan I (sched d).
  Proof.
    unfold makespan_code, sp_makespan, all_sops. rewrite makespan_code_fold by lia.
    rewrite maxZ0_concat_map. pose proof (maxZ0_nonneg (map (last_end I) (sched d))).
    rewrite Z.max_r by lia. f_equal.
    apply nth_ext with (d := last_end I []) (d' := maxZ0 (map (s_end I) [])).
    - rewrite !map_length. reflexivity.
    - intros m Hm. rewrite map_length in Hm.
      rewrite (map_nth (last_end I)), (map_nth (fun row => maxZ0 (map (s_end I) row))).
      destruct (nth_error (sched d) m) as [row|] eqn:E; [|apply nth_error_None in E; lia].
      rewrite (nth_error_nth _ _ _ E). rewrite (tr_row m row E).
      destruct (i_rows _ _ Hi m row E) as (_ & _ & Hl). exact Hl.
  Qed.

  Theorem makespan_spec_agree : sp_makespan I (sched d) = makespan I (sched d).
  Proof. reflexivity. Qed.

  (** Start times are forced (stated on the schedule rows only). *)
  Lemma pred_end_jfree j : pred_end I (sched d) j (nthN (jnext d) j) = nthZ (jfree d) j.
  Proof.
    unfold pred_end. destruct (i_jfree _ _ Hi j) as [[H0 Hf]|(x & Hx & Hk & Hpos & He)].
    - rewrite H0, Hf. reflexivity.
    - destruct (nthN (jnext d) j) as [|p'] eqn:En; [lia|]. simpl in Hk.
      destruct (find (fun x0 => eqb_key (key x0) (j, p')) (all_sops (sched d))) as [y|] eqn:Ef.
      + apply find_some in Ef. destruct Ef as [Hy Hky]. apply eqb_key_eq in Hky.
        assert (y = x).
        { pose proof (i_nodup _ _ Hi) as Hnd. clear -Hnd Hx Hy Hk Hky.
          induction (all_sops (sched d)) as [|a t IH]; [contradiction|].
          simpl in Hnd. inversion Hnd as [|? ? Hni Hnd']; subst.
          destruct Hx as [->|Hx], Hy as [->|Hy]; auto.
          - exfalso. apply Hni. apply in_map_iff. exists y. split; [congruence|exact Hy].
          - exfalso. apply Hni. apply in_map_iff. exists x. split; [congruence|exact Hx]. }
        subst y. symmetry; exact He.
      + exfalso. pose proof (find_none _ _ Ef x Hx) as Hn. cbv beta in Hn.
        rewrite (proj2 (eqb_key_eq _ _) Hk) in Hn. discriminate.
  Qed.

  Theorem start_forced r x o row :
    accepted I d r x o row ->
    s_start x = forced_start I (sched d) (s_job x) (s_pos x) (s_mach x).
  Proof.
    intros [Aop Ajob Apos Anext Ael Am Ain Ast Arow Alast].
    unfold forced_start, row_last_end. rewrite Ast, Ajob, Apos, <- Anext.
    rewrite pred_end_jfree. rewrite (nth_error_nth _ _ _ Arow).
    destruct (i_rows _ _ Hi _ _ Arow) as (_ & _ & Hl). rewrite Hl. lia.
  Qed.
End Tracking.
