(** FeatureBase.v — C11 infrastructure: list facts about vectors indexed by
    operation id / machine / job, the evolution of ONE observer object inside
    an arbitrary system of subscribers, and the generic "observer invariant
    over any request list" induction. *)
From JSL Require Import Base Instance Dstate Filters World Observers Feasible ListFacts DispatchFun Inv Run
     Derived Tracking Replay OpIds Partition FeatureObservers.
From Coq Require Import Lia Permutation.

(** ** Vectors written as [map g keys] *)

Lemma upd_map_nodup {A B} (eqb : A -> A -> bool) (f : A -> B) :
  (forall a b, eqb a b = true <-> a = b) ->
  forall (l : list A) u k0 v, NoDup l -> nth_error l u = Some k0 ->
  upd (map f l) u v = map (fun k => if eqb k k0 then v else f k) l.
Proof.
  intros Heq. induction l as [|a t IH]; intros u k0 v Hnd Hu; [destruct u; discriminate|].
  inversion Hnd as [|? ? Hni Hnd']; subst. destruct u as [|u]; simpl in *.
  - inversion Hu; subst. rewrite (proj2 (Heq k0 k0) eq_refl). f_equal.
    apply map_ext_in. intros k Hk. destruct (eqb k k0) eqn:E; [|reflexivity].
    apply Heq in E. subst. contradiction.
  - rewrite (IH u k0 v Hnd' Hu). f_equal. destruct (eqb a k0) eqn:E; [|reflexivity].
    apply Heq in E. subst. exfalso. apply Hni. eapply nth_error_In; eauto.
Qed.

Lemma nat_eqb_iff a b : (a =? b)%nat = true <-> a = b.
Proof. apply Nat.eqb_eq. Qed.

Lemma nth_error_seq0 n j : (j < n)%nat -> nth_error (seq 0 n) j = Some j.
Proof. intros H. rewrite (nth_error_nth' _ 0%nat) by (rewrite seq_length; exact H). rewrite seq_nth by exact H. reflexivity. Qed.

Lemma upd_map_seq (g : nat -> Z) n j v : (j < n)%nat ->
  upd (map g (seq 0 n)) j v = map (fun i => if (i =? j)%nat then v else g i) (seq 0 n).
Proof. intros H. apply (upd_map_nodup Nat.eqb g nat_eqb_iff); [apply seq_NoDup|apply nth_error_seq0; exact H]. Qed.

Lemma upd_out_of_range {A} (l : list A) i x : (length l <= i)%nat -> upd l i x = l.
Proof. revert i; induction l as [|a t IH]; intros [|i] H; simpl in *; try reflexivity; try lia. rewrite IH by lia. reflexivity. Qed.

Lemma nthZ_map_seq (g : nat -> Z) n j : (j < n)%nat -> nthZ (map g (seq 0 n)) j = g j.
Proof.
  intros H. unfold nthZ. rewrite (nth_indep _ 0 (g 0%nat)) by (rewrite map_length, seq_length; exact H).
  rewrite map_nth, seq_nth by exact H. reflexivity.
Qed.

Lemma addat_map_seq (g : nat -> Z) n j a : (j < n)%nat ->
  addat (map g (seq 0 n)) j a = map (fun i => if (i =? j)%nat then g i + a else g i) (seq 0 n).
Proof.
  intros H. unfold addat. rewrite nthZ_map_seq by exact H. rewrite upd_map_seq by exact H.
  apply map_ext. intros i. destruct (i =? j)%nat eqn:E; [apply Nat.eqb_eq in E; subst|]; reflexivity.
Qed.

Lemma addat_out_of_range v j a : (length v <= j)%nat -> addat v j a = v.
Proof. intros H. unfold addat. apply upd_out_of_range; exact H. Qed.

Lemma repeat_map_seq {A} (x : A) n : forall a, repeat x n = map (fun _ => x) (seq a n).
Proof. induction n as [|n IH]; intros a; simpl; [reflexivity|]. rewrite <- IH. reflexivity. Qed.
Lemma zeros_map_seq n : zeros n = map (fun _ => 0) (seq 0 n).
Proof. apply repeat_map_seq. Qed.

(** vectors over the operations *)
Section Keys.
  Variable I : instance.

  Lemma nth_error_all_keys j p o : get_op I j p = Some o -> nth_error (all_keys I) (op_id I j p) = Some (j, p).
  Proof. intros H. apply all_keys_nth. split; [eauto|reflexivity]. Qed.

  Lemma nth_error_map_keys {B} (g : nat * nat -> B) j p o :
    get_op I j p = Some o -> nth_error (map g (all_keys I)) (op_id I j p) = Some (g (j, p)).
  Proof. intros H. rewrite nth_error_map, (nth_error_all_keys j p o H). reflexivity. Qed.

  Lemma upd_map_keys (g : nat * nat -> Z) j p o v :
    get_op I j p = Some o ->
    upd (map g (all_keys I)) (op_id I j p) v = map (fun k => if eqb_key k (j, p) then v else g k) (all_keys I).
  Proof.
    intros H. apply (upd_map_nodup eqb_key g eqb_key_eq); [apply all_keys_from_nodup|].
    apply (nth_error_all_keys j p o H).
  Qed.

End Keys.

(** ** One object inside a system *)

Lemma fo_kind_set_feats o a b c : fo_kind (set_feats o a b c) = fo_kind o. Proof. reflexivity. Qed.
Lemma fo_kind_set_est o e : fo_kind (set_est o e) = fo_kind o. Proof. reflexivity. Qed.
Lemma fo_kind_set_rem o a b : fo_kind (set_rem o a b) = fo_kind o. Proof. reflexivity. Qed.

Lemma fo_kind_init_simple I fs d o : fo_kind (init_simple I fs d o) = fo_kind o.
Proof. unfold init_simple. destruct (fo_kind o) eqn:E; try exact E; reflexivity. Qed.

Lemma fo_kind_upd_obs I fs d x s o : fo_kind (upd_obs I fs d x s o) = fo_kind o.
Proof.
  unfold upd_obs. destruct (fo_kind o) eqn:E; try reflexivity; try exact E.
  rewrite fo_kind_init_simple. exact E.
Qed.

(** only the composite reads the other objects *)
Lemma upd_obs_indep I fs d x s s' o : fo_kind o <> FComposite -> upd_obs I fs d x s o = upd_obs I fs d x s' o.
Proof. intros H. unfold upd_obs. destruct (fo_kind o); try reflexivity. contradiction. Qed.

Definition obj_step (I : instance) (fs : list fname) (d : dstate) (x : sop) (o : fobs) : fobs :=
  upd_obs I fs d x empty_sys o.

Lemma f_subs_update_one I fs d x s i : f_subs (update_one I fs d x s i) = f_subs s.
Proof. unfold update_one. destruct (nth_error (f_objs s) i); reflexivity. Qed.

Lemma f_subs_fold_update I fs d x l : forall s, f_subs (fold_left (update_one I fs d x) l s) = f_subs s.
Proof. induction l as [|a t IH]; intros s; simpl; [reflexivity|]. rewrite IH. apply f_subs_update_one. Qed.

Lemma f_subs_update I fs d x s : f_subs (f_update I fs d x s) = f_subs s.
Proof. apply f_subs_fold_update. Qed.

Lemma nth_error_update_one_neq I fs d x s i j : i <> j ->
  nth_error (f_objs (update_one I fs d x s i)) j = nth_error (f_objs s) j.
Proof.
  intros H. unfold update_one. destruct (nth_error (f_objs s) i); [|reflexivity].
  simpl. apply nth_error_upd_neq. exact H.
Qed.

Lemma nth_error_update_one_eq I fs d x s i o : nth_error (f_objs s) i = Some o ->
  nth_error (f_objs (update_one I fs d x s i)) i = Some (upd_obs I fs d x s o).
Proof.
  intros H. unfold update_one. rewrite H. simpl. apply nth_error_upd_eq. apply nth_error_Some. congruence.
Qed.

Lemma fold_update_obj I fs d x i :
  forall l s o, fo_kind o <> FComposite -> NoDup l -> nth_error (f_objs s) i = Some o ->
  nth_error (f_objs (fold_left (update_one I fs d x) l s)) i =
  Some (if mem_nat i l then obj_step I fs d x o else o).
Proof.
  induction l as [|a t IH]; intros s o Hk Hnd Ho; simpl; [exact Ho|].
  inversion Hnd as [|? ? Hni Hnd']; subst.
  destruct (i =? a)%nat eqn:E.
  - apply Nat.eqb_eq in E. subst a. simpl.
    assert (Ht : mem_nat i t = false).
    { destruct (mem_nat i t) eqn:Em; [|reflexivity]. apply mem_nat_In in Em. contradiction. }
    rewrite (IH (update_one I fs d x s i) (upd_obs I fs d x s o)).
    + rewrite Ht. unfold obj_step. rewrite (upd_obs_indep I fs d x s empty_sys o Hk). reflexivity.
    + rewrite fo_kind_upd_obs. exact Hk.
    + exact Hnd'.
    + apply nth_error_update_one_eq. exact Ho.
  - simpl. apply Nat.eqb_neq in E. apply IH; [exact Hk|exact Hnd'|].
    rewrite nth_error_update_one_neq by (intro; subst; apply E; reflexivity). exact Ho.
Qed.

(** The object at [i] (not a composite), subscribed exactly once, is
    transformed by its own [update] only. *)
Lemma f_update_obj I fs d x s i o :
  NoDup (f_subs s) -> In i (f_subs s) -> nth_error (f_objs s) i = Some o -> fo_kind o <> FComposite ->
  nth_error (f_objs (f_update I fs d x s)) i = Some (obj_step I fs d x o).
Proof.
  intros Hnd Hin Ho Hk. unfold f_update. rewrite (fold_update_obj I fs d x i _ s o Hk Hnd Ho).
  rewrite (proj2 (mem_nat_In i (f_subs s)) Hin). reflexivity.
Qed.

(** ** The world with the system as its single subscriber object *)
Section RunSys.
  Variable I : instance.
  Variable fs : list fname.
  Hypothesis Hv : valid I.

  Lemma fw_step d s r :
    step_req fsys f_update I (fw fs d s) r =
    match sop_of_request I d r with
    | Some x => let d' := apply_sop I d x (row_of d x) in fw fs d' (f_update I fs d' x s)
    | None => fw fs d s
    end.
  Proof.
    rewrite step_req_sop. cbn [core fw]. destruct (sop_of_request I d r) as [x|]; reflexivity.
  Qed.

  (** Generic induction: an invariant [P] of the object at index [i]
      (relative to the dispatcher state) that every accepted dispatch
      preserves holds after every request list. *)
  Theorem obj_invariant (P : dstate -> fobs -> Prop) :
    (forall d o, P d o -> fo_kind o <> FComposite) ->
    (forall d r x o, Inv I d -> P d o -> sop_of_request I d r = Some x ->
        P (apply_sop I d x (row_of d x)) (obj_step I fs (apply_sop I d x (row_of d x)) x o)) ->
    forall rs d s i o,
      Inv I d -> NoDup (f_subs s) -> In i (f_subs s) -> nth_error (f_objs s) i = Some o -> P d o ->
      exists s' o',
        run_from fsys f_update I (fw fs d s) rs = fw fs (fold_left (apply_req I) rs d) s' /\
        f_subs s' = f_subs s /\ nth_error (f_objs s') i = Some o' /\
        Inv I (fold_left (apply_req I) rs d) /\ P (fold_left (apply_req I) rs d) o'.
  Proof.
    intros Hkind Hstep. induction rs as [|r t IH]; intros d s i o Hi Hnd Hin Ho HP.
    - exists s, o. simpl. split; [reflexivity|]. split; [reflexivity|]. split; [exact Ho|]. split; assumption.
    - unfold run_from in *. simpl. rewrite fw_step.
      destruct (sop_of_request I d r) as [x|] eqn:E.
      + assert (Hreq : apply_req I d r = apply_sop I d x (row_of d x)) by (unfold apply_req; rewrite E; reflexivity).
        rewrite Hreq. cbv zeta. destruct (sop_of_request_accepted I d r x E) as (o1 & Ha).
        set (d' := apply_sop I d x (row_of d x)).
        assert (Hi' : Inv I d') by (eapply Inv_apply_sop; eauto).
        destruct (IH d' (f_update I fs d' x s) i (obj_step I fs d' x o) Hi') as (s' & o' & H1 & H2 & H3 & H4 & H5).
        * rewrite f_subs_update. exact Hnd.
        * rewrite f_subs_update. exact Hin.
        * apply f_update_obj; auto. eapply Hkind; eauto.
        * apply (Hstep d r x o Hi HP E).
        * exists s', o'. rewrite f_subs_update in H2. split; [exact H1|]. split; [exact H2|]. split; [exact H3|]. split; assumption.
      + assert (Hreq : apply_req I d r = d) by (unfold apply_req; rewrite E; reflexivity).
        rewrite Hreq. apply (IH d s i o); assumption.
  Qed.
End RunSys.
