(** FeatureCompletedMach.v — C11: IsCompletedObserver, machine level (flexible
    instances included): the counter of machine [mm] is the number of
    unscheduled operations that list [mm] among their machines, and the flag
    of a machine that has operations is raised exactly when that counter is 0,
    i.e. when all its operations are SCHEDULED. *)
From JSL Require Import Base Instance Dstate Filters World Observers Feasible ListFacts DispatchFun Inv Run
     Derived Tracking Replay OpIds Partition
     FeatureObservers FeatureBase FeatureSimple FeatureSpec FeatureProofs FeatureMachines.
From Coq Require Import Lia Permutation.

Lemma fold_addat_nodup (c : Z) ms : forall v e, NoDup ms -> (forall a, In a ms -> (a < length v)%nat) ->
  nthZ (fold_left (fun v a => addat v a c) ms v) e = nthZ v e + (if mem_nat e ms then c else 0).
Proof.
  induction ms as [|a t IH]; intros v e Hnd Hlt; simpl; [lia|].
  inversion Hnd as [|? ? Hni Hnd']; subst.
  rewrite IH; [|exact Hnd'|intros b Hb; rewrite length_addat; apply Hlt; right; exact Hb].
  rewrite nthZ_addat by (apply Hlt; left; reflexivity).
  destruct (e =? a)%nat eqn:E; simpl.
  - apply Nat.eqb_eq in E. subst e.
    destruct (mem_nat a t) eqn:Em; [apply mem_nat_In in Em; contradiction|]. lia.
  - lia.
Qed.

Lemma fold_upd_seq (h : nat -> Z) n ms : forall g, (forall a, In a ms -> (a < n)%nat) ->
  fold_left (fun v a => upd v a (h a)) ms (map g (seq 0 n)) =
  map (fun i => if mem_nat i ms then h i else g i) (seq 0 n).
Proof.
  induction ms as [|a t IH]; intros g Hlt; simpl; [reflexivity|].
  rewrite upd_map_seq by (apply Hlt; left; reflexivity).
  rewrite IH by (intros b Hb; apply Hlt; right; exact Hb).
  apply map_ext. intros i. destruct (i =? a)%nat eqn:E; simpl.
  - apply Nat.eqb_eq in E. subst. destruct (mem_nat a t); reflexivity.
  - reflexivity.
Qed.

Lemma count_zero_forallb {A} (f g : A -> bool) l :
  (length (filter (fun k => f k && negb (g k)) l) =? 0)%nat = forallb (fun k => implb (f k) (g k)) l.
Proof.
  induction l as [|a t IH]; simpl; [reflexivity|].
  destruct (f a), (g a); simpl; try exact IH. reflexivity.
Qed.

Lemma forallb_ext_in_local {A} (f g : A -> bool) l : (forall a, In a l -> f a = g a) -> forallb f l = forallb g l.
Proof.
  induction l as [|a t IH]; intros H; simpl; [reflexivity|]. rewrite (H a (or_introl eq_refl)).
  rewrite IH by (intros b Hb; apply H; right; exact Hb). reflexivity.
Qed.

Section CompletedMach.
  Variable I : instance.
  Variable fs : list fname.
  Hypothesis Hv : valid I.
  Variable m : ftm.

  Let M := num_machines I.
  Definition cnt_all (mm : nat) : nat := length (filter (onm I mm) (all_keys I)).
  Definition cnt_unsched (d : dstate) (mm : nat) : nat := length (filter (unsched_on I d mm) (all_keys I)).
  Definition remm_cf (d : dstate) : list Z := map (fun mm => Z.of_nat (cnt_unsched d mm)) (seq 0 M).
  Definition flagm_cf (d : dstate) : list Z :=
    map (fun mm => b2z ((0 <? cnt_all mm)%nat && (cnt_unsched d mm =? 0)%nat)) (seq 0 M).

  Record cmach_inv (d : dstate) (o : fobs) : Prop := {
    cm_kind : fo_kind o = FIsCompleted;
    cm_mach : fo_mach o = when (t_mach m) (flagm_cf d);
    cm_remm : t_mach m = true -> fo_remm o = remm_cf d
  }.

  Lemma cnt_unsched_init mm : cnt_unsched (init_d I) mm = cnt_all mm.
  Proof.
    unfold cnt_unsched, cnt_all. f_equal. apply filter_ext. intros k. unfold unsched_on.
    rewrite is_sched_init. apply andb_true_r.
  Qed.

  Lemma cmach_inv_init : cmach_inv (init_d I) (fresh_comp I m).
  Proof.
    unfold fresh_comp, zero_obj. constructor; cbn [fo_kind fo_mach fo_remm set_rem set_feats blank].
    - reflexivity.
    - unfold when. destruct (t_mach m); [|reflexivity]. f_equal. rewrite zeros_map_seq. apply map_ext.
      intros mm. rewrite cnt_unsched_init. destruct (cnt_all mm); reflexivity.
    - intros ->. apply vec_eq_map_seq; [apply length_remm0|].
      intros mm Hm. rewrite (remm0_count I mm Hm), cnt_unsched_init. reflexivity.
  Qed.

  Lemma cnt_unsched_step d r x mm : Inv I d -> sop_of_request I d r = Some x ->
    Z.of_nat (cnt_unsched (apply_sop I d x (row_of d x)) mm) =
    Z.of_nat (cnt_unsched d mm) + (if mem_nat mm (dedup_nat (kmachines I (key x))) then -1 else 0).
  Proof.
    intros Hi E. unfold cnt_unsched. rewrite dedup_mem. rewrite !length_as_sum.
    destruct (mem_nat mm (kmachines I (key x))) eqn:Em.
    - rewrite (filter_flip_sum (fun _ => 1) (unsched_on I d mm)
                 (unsched_on I (apply_sop I d x (row_of d x)) mm) (key x) (all_keys I)); [lia| | | | |].
      + apply all_keys_from_nodup.
      + apply (st_key_in I d r x E).
      + unfold unsched_on, onm. rewrite Em, (st_unsched_before I d r x E). reflexivity.
      + unfold unsched_on. rewrite (st_is_sched I d Hi r x E).
        rewrite (proj2 (eqb_key_eq (key x) (key x)) eq_refl). simpl. apply andb_false_r.
      + intros k Hne. unfold unsched_on. rewrite (st_is_sched I d Hi r x E).
        destruct (eqb_key k (key x)) eqn:Ek; [apply eqb_key_eq in Ek; contradiction|reflexivity].
    - rewrite Z.add_0_r. f_equal. f_equal. apply filter_ext. intros k.
      unfold unsched_on. rewrite (st_is_sched I d Hi r x E).
      destruct (eqb_key k (key x)) eqn:Ek; [|reflexivity].
      apply eqb_key_eq in Ek. subst k. unfold onm. rewrite Em. reflexivity.
  Qed.

  Lemma cmach_inv_step d r x o : Inv I d -> cmach_inv d o -> sop_of_request I d r = Some x ->
    cmach_inv (apply_sop I d x (row_of d x)) (obj_step I fs (apply_sop I d x (row_of d x)) x o).
  Proof.
    intros Hi [K Hm Hr] E. unfold obj_step, upd_obs. rewrite K.
    set (d' := apply_sop I d x (row_of d x)). set (ms := dedup_nat (kmachines I (key x))).
    assert (Hms : forall a, In a ms -> (a < M)%nat).
    { intros a Ha. apply mem_nat_In in Ha. unfold ms in Ha. rewrite dedup_mem in Ha. apply mem_nat_In in Ha.
      apply (kmachines_lt I (key x) a (st_key_in I d r x E) Ha). }
    assert (Hrm : t_mach m = true ->
                  fold_left (fun v mm => addat v mm (-1)) ms (fo_remm o) = remm_cf d').
    { intros Ht. rewrite (Hr Ht). apply vec_eq_map_seq.
      - rewrite length_fold_addat. unfold remm_cf. rewrite map_length, seq_length. reflexivity.
      - intros mm Hmm. rewrite fold_addat_nodup.
        + unfold remm_cf. rewrite nthZ_map_seq by exact Hmm. unfold d'.
          rewrite (cnt_unsched_step d r x mm Hi E). reflexivity.
        + apply dedup_nodup.
        + intros a Ha. unfold remm_cf. rewrite map_length, seq_length. apply Hms. exact Ha. }
    constructor; cbn [fo_kind fo_mach fo_remm set_rem set_feats].
    - exact K.
    - rewrite Hm. unfold when. destruct (t_mach m) eqn:Et; cbn [option_map]; [|reflexivity].
      rewrite (Hrm eq_refl). f_equal. unfold flagm_cf at 1. rewrite fold_upd_seq by exact Hms.
      unfold flagm_cf. apply map_ext_in. intros mm Hmm. apply in_seq in Hmm.
      pose proof (cnt_unsched_step d r x mm Hi E) as Hstep. fold ms d' in Hstep.
      destruct (mem_nat mm ms) eqn:Em.
      + unfold remm_cf. rewrite nthZ_map_seq by lia. f_equal.
        assert (Hpos : (0 < cnt_all mm)%nat).
        { unfold cnt_all. unfold ms in Em. rewrite dedup_mem in Em.
          assert (Hin : In (key x) (filter (onm I mm) (all_keys I)))
            by (apply filter_In; split; [apply (st_key_in I d r x E)|exact Em]).
          destruct (filter (onm I mm) (all_keys I)); [contradiction|simpl; lia]. }
        replace (0 <? cnt_all mm)%nat with true by (symmetry; apply Nat.ltb_lt; exact Hpos). cbn [andb].
        destruct (cnt_unsched d' mm =? 0)%nat eqn:E0.
        * apply Nat.eqb_eq in E0. rewrite E0. reflexivity.
        * apply Nat.eqb_neq in E0. apply Z.eqb_neq. lia.
      + replace (cnt_unsched d' mm) with (cnt_unsched d mm) by lia. reflexivity.
    - intros Et. rewrite Hm, Et. cbn [when]. apply (Hrm Et).
  Qed.

  Theorem completed_mach_after rs s0 i :
    placed s0 i (fresh_comp I m) ->
    let w := after_run I fs s0 rs in
    t_mach m = true -> forall mm, (mm < num_machines I)%nat ->
      existsb (on_machine I mm) (all_keys I) = true ->
        cell (fo_mach (feat w i)) mm = Some (sp_allsched_mach I (rows w) mm).
  Proof.
    intros Hp.
    destruct (inv_run I fs Hv cmach_inv (fun d o H => ltac:(rewrite (cm_kind d o H); discriminate))
                      cmach_inv_step rs s0 i _ Hp cmach_inv_init) as [Hi [K Hm Hr]].
    cbv zeta. unfold rows. set (d := core (after_run I fs s0 rs)) in *.
    intros Ht mm Hmm Hex. rewrite Hm, Ht. cbn [when]. unfold flagm_cf. rewrite cell_map_seq by exact Hmm.
    f_equal. unfold sp_allsched_mach.
    assert (Hpos : (0 < cnt_all mm)%nat).
    { unfold cnt_all. apply existsb_exists in Hex. destruct Hex as (k & Hk & Hon).
      assert (Hin : In k (filter (onm I mm) (all_keys I))) by (apply filter_In; split; assumption).
      destruct (filter (onm I mm) (all_keys I)); [contradiction|simpl; lia]. }
    replace (0 <? cnt_all mm)%nat with true by (symmetry; apply Nat.ltb_lt; exact Hpos). cbn [andb].
    unfold cnt_unsched, unsched_on. rewrite (count_zero_forallb (onm I mm) (is_sched d) (all_keys I)).
    unfold b2z, zb.
    rewrite (forallb_ext_in_local (fun k => implb (onm I mm k) (is_sched d k))
               (fun k => implb (on_machine I mm k) (sp_scheduled (sched d) k)) (all_keys I)); [reflexivity|].
    intros k _. rewrite (sp_scheduled_eq I d Hi). reflexivity.
  Qed.
End CompletedMach.

Theorem completed_partial_after (I : instance) (fs : list fname) :
  valid I -> forall m rs s0 i,
    placed s0 i (fresh_comp I m) ->
    let w := after_run I fs s0 rs in
    (t_jobs m = true -> forall j, (j < num_jobs I)%nat -> get_job I j <> [] ->
        cell (fo_jobs (feat w i)) j = Some (sp_allsched_job I (rows w) j)) /\
    (t_mach m = true -> forall mm, (mm < num_machines I)%nat -> existsb (on_machine I mm) (all_keys I) = true ->
        cell (fo_mach (feat w i)) mm = Some (sp_allsched_mach I (rows w) mm)).
Proof.
  intros Hv m rs s0 i Hp. split.
  - exact (completed_jobs_after I fs Hv m rs s0 i Hp).
  - exact (completed_mach_after I fs Hv m rs s0 i Hp).
Qed.
