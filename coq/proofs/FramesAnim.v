(** FramesAnim.v — the padding of FramesProofs.v composed with the replay /
    read-back theorem of GanttProofs.v. *)
From JSL Require Import Base Instance Dstate Filters World Observers Feasible DispatchFun Inv Run
     Gantt GanttSpec GanttProofs Frames FramesProofs.
From Coq Require Import Permutation Lia.

Lemma frames_expected_length I h : length (frames_expected I h) = length h.
Proof. unfold frames_expected. rewrite map_length, seq_length. reflexivity. Qed.

Lemma frames_expected_nth I h k :
  (1 <= k <= length h)%nat ->
  nth_error (frames_expected I h) (k - 1) =
  Some (mkframe (sched_of_history I (firstn k h)) (makespan I (sched_of_history I h))).
Proof.
  intros Hk. unfold frames_expected. rewrite nth_error_map.
  assert (E : nth_error (seq 1 (length h)) (k - 1) = Some k).
  { rewrite (nth_error_nth' _ 0%nat) by (rewrite seq_length; lia).
    rewrite seq_nth by lia. f_equal. lia. }
  rewrite E. reflexivity.
Qed.

Lemma encoded_frames_of_recorded :
  forall (render : frame -> image)
         (I : instance) (fs : list fname) (rs : list request) (listing : list name),
    valid I -> recorded I fs rs <> [] ->
    Permutation listing (dir_names (fst (create_gantt_chart_frames I (recorded I fs rs)))) ->
    let h := recorded I fs rs in
    load_images (fst (create_gantt_chart_frames I h)) listing = Some (map Some (frames_expected I h)) /\
    let out := pad_to_common_shape (map render (frames_expected I h)) in
    length out = length h /\
    (forall i j, In i out -> In j out -> same_shape i j) /\
    forall k, (1 <= k <= length h)%nat ->
      let pic := render (mkframe (sched_of_history I (firstn k h)) (makespan I (sched_of_history I h))) in
      exists j, nth_error out (k - 1) = Some j /\
        forall r c, (r < i_h pic)%nat -> (c < i_w pic)%nat -> px j r c = px pic r c.
Proof.
  intros render I fs rs listing Hv Hne Hperm h.
  split; [exact (proj2 (frames_of_recorded I fs rs listing Hv Hne Hperm))|].
  intros out. split; [|split].
  - unfold out. rewrite pad_length, map_length. apply frames_expected_length.
  - intros i j. apply pad_one_shape.
  - intros k Hk pic.
    assert (E : nth_error (map render (frames_expected I h)) (k - 1) = Some pic).
    { rewrite nth_error_map, (frames_expected_nth I h k Hk). reflexivity. }
    destruct (pad_pixels _ _ _ E) as [j [Hj [Hpx _]]].
    exists j. split; [exact Hj|exact Hpx].
Qed.
