(** ResetFeatures.v — C12 for the feature observers (model/FeatureObservers.v):
    whatever observers were constructed on the new dispatcher, in whatever
    order (dependencies they create and create-or-get sharing included), and
    whatever was dispatched since, [Dispatcher.reset] leaves the dispatcher and
    the WHOLE subscriber system exactly as the same constructor calls leave
    them on a new dispatcher. *)
From JSL Require Import Base Instance Dstate Filters World Observers ListFacts DispatchFun Inv Run Replay OpIds
     FeatureObservers FeatureBase FeatureComposite ResetFresh ResetFeatObj.
From Coq Require Import Lia.

(** ** Lists *)
Lemma map_upd {A B} (f : A -> B) (l : list A) : forall i x, map f (upd l i x) = upd (map f l) i (f x).
Proof. induction l as [|a t IH]; intros [|i] x; simpl; try reflexivity. rewrite IH. reflexivity. Qed.

Lemma upd_same {A} (l : list A) : forall i x, nth_error l i = Some x -> upd l i x = l.
Proof.
  induction l as [|a t IH]; intros [|i] x H; simpl in *; try discriminate.
  - inversion H. reflexivity.
  - rewrite IH by exact H. reflexivity.
Qed.

Lemma upd_upd {A} (l : list A) : forall i x y, upd (upd l i x) i y = upd l i y.
Proof. induction l as [|a t IH]; intros [|i] x y; simpl; try reflexivity. rewrite IH. reflexivity. Qed.

Lemma upd_mid {A} (l : list A) y x rest : upd (l ++ y :: rest) (length l) x = l ++ x :: rest.
Proof. induction l as [|a t IH]; simpl; [reflexivity|]. rewrite IH. reflexivity. Qed.

Lemma nth_eq_of_nth_error {A} (l l' : list A) j d : nth_error l j = nth_error l' j -> nth j l d = nth j l' d.
Proof.
  intros H. destruct (nth_error l j) as [x|] eqn:E.
  - rewrite (nth_error_nth _ _ d E). symmetry in H. rewrite (nth_error_nth _ _ d H). reflexivity.
  - symmetry in H. apply nth_error_None in E, H. rewrite !nth_overflow by assumption. reflexivity.
Qed.

Lemma list_eq_nth_error {A} (l l' : list A) :
  length l = length l' -> (forall j, (j < length l)%nat -> nth_error l j = nth_error l' j) -> l = l'.
Proof.
  revert l'. induction l as [|a t IH]; intros [|b t'] Hl H; simpl in Hl; try discriminate; [reflexivity|].
  pose proof (H 0%nat ltac:(simpl; lia)) as H0. simpl in H0. inversion H0. f_equal.
  apply IH; [lia|]. intros j Hj. apply (H (S j)). simpl. lia.
Qed.

Lemma map_fixed {A} (f : A -> A) (l : list A) : (forall x, In x l -> f x = x) -> map f l = l.
Proof. intros H. rewrite <- (map_id l) at 2. apply map_ext_in. exact H. Qed.

(** ** Systems: put / get *)
Lemma fget_nth_error s i o : nth_error (f_objs s) i = Some o -> fget s i = o.
Proof. intros H. unfold fget. apply nth_error_nth. exact H. Qed.

Lemma fget_fput_eq s i o : (i < length (f_objs s))%nat -> fget (fput s i o) i = o.
Proof. intros H. unfold fget, fput. cbn [f_objs]. apply nth_upd_eq. exact H. Qed.

Lemma fput_fput s i a b : fput (fput s i a) i b = fput s i b.
Proof. unfold fput. cbn [f_objs f_subs]. rewrite upd_upd. reflexivity. Qed.

(** ** Skeletons: what [update] and [reset] never change *)
Definition skel : Type := fkind * bool * bool * bool * list nat.
Definition sk_kind (k : skel) : fkind := fst (fst (fst (fst k))).
Definition sk_m (k : skel) : bool := snd (fst (fst k)).
Definition sk_j (k : skel) : bool := snd (fst k).
Definition sk_comps (k : skel) : list nat := snd k.
Definition SK (s : fsys) : list skel := map sk (f_objs s).

Definition q_unsched (k : skel) : bool := fkind_eqb (sk_kind k) FUnsched.
Definition q_same (bm bj : bool) (k : skel) : bool :=
  fkind_eqb (sk_kind k) FRemOps && implb bm (sk_m k) && implb bj (sk_j k).

Lemma SK_fput s i o o' : nth_error (f_objs s) i = Some o -> sk o' = sk o -> SK (fput s i o') = SK s.
Proof.
  intros Ho Hs. unfold SK, fput. cbn [f_objs]. rewrite map_upd, Hs. apply upd_same.
  rewrite nth_error_map, Ho. reflexivity.
Qed.

Lemma sk_zeroed I o : sk (zeroed I o) = sk o.
Proof. destruct o as [k a b c e rm rj dq cs cm cn]. destruct a, b, c; reflexivity. Qed.

(** some subscribed object has a skeleton satisfying [q] *)
Definition hask (ks : list skel) (ss : list nat) (q : skel -> bool) : Prop :=
  exists j k, In j ss /\ nth_error ks j = Some k /\ q k = true.

Lemma hask_mono ks ss q ks' ss' : hask ks ss q -> hask (ks ++ ks') (ss ++ ss') q.
Proof.
  intros (j & k & Hin & Hn & Hq). exists j, k. split; [apply in_or_app; left; exact Hin|]. split; [|exact Hq].
  rewrite nth_error_app1; [exact Hn|]. apply nth_error_Some. congruence.
Qed.

Lemma find_sub_f_iff s (p : fobs -> bool) :
  (exists i, find_sub_f s p = Some i) <->
  exists j o, In j (f_subs s) /\ nth_error (f_objs s) j = Some o /\ p o = true.
Proof.
  unfold find_sub_f. split.
  - intros [i H]. destruct (filter (fun io => p (snd io)) (subscribed s)) as [|io t] eqn:E; [discriminate|].
    assert (Hin : In io (filter (fun io => p (snd io)) (subscribed s))) by (rewrite E; left; reflexivity).
    apply filter_In in Hin. destruct Hin as [Hin Hp]. unfold subscribed in Hin. apply in_flat_map in Hin.
    destruct Hin as (j & Hj & Hio). destruct (nth_error (f_objs s) j) as [o|] eqn:En; [|contradiction].
    destruct Hio as [<-|[]]. exists j, o. repeat split; assumption.
  - intros (j & o & Hj & Hn & Hp).
    assert (Hin : In (j, o) (filter (fun io => p (snd io)) (subscribed s))).
    { apply filter_In. split; [|exact Hp]. unfold subscribed. apply in_flat_map. exists j. split; [exact Hj|].
      rewrite Hn. left. reflexivity. }
    destruct (filter (fun io => p (snd io)) (subscribed s)) as [|io t]; [contradiction|]. exists (fst io). reflexivity.
Qed.

Lemma hask_find s q :
  hask (SK s) (f_subs s) q <-> exists i, find_sub_f s (fun o => q (sk o)) = Some i.
Proof.
  rewrite find_sub_f_iff. unfold hask, SK. split.
  - intros (j & k & Hj & Hn & Hq). rewrite nth_error_map in Hn.
    destruct (nth_error (f_objs s) j) as [o|] eqn:E; [|discriminate]. inversion Hn; subst.
    exists j, o. repeat split; assumption.
  - intros (j & o & Hj & Hn & Hq). exists j, (sk o). rewrite nth_error_map, Hn. repeat split; assumption.
Qed.

(** ** Well-formed systems: subscription order = creation order, every
    RemainingOperations observer has its UnscheduledOperations observer, every
    IsCompleted observer a RemainingOperations observer with its feature
    types, a composite's components were created before it *)
Definition closedk (ks : list skel) (ss : list nat) : Prop :=
  forall i k, nth_error ks i = Some k ->
    (sk_kind k = FRemOps -> hask ks ss q_unsched) /\
    (sk_kind k = FIsCompleted -> hask ks ss (q_same (sk_m k) (sk_j k))).
Definition scopedk (ks : list skel) : Prop :=
  forall i k c, nth_error ks i = Some k -> In c (sk_comps k) -> (c < i)%nat.
Definition Wf (s : fsys) : Prop :=
  f_subs s = seq 0 (length (f_objs s)) /\ closedk (SK s) (f_subs s) /\ scopedk (SK s).

Lemma Wf_transfer s s' : f_subs s = f_subs s' -> SK s = SK s' -> Wf s -> Wf s'.
Proof.
  intros Hs Hk (H1 & H2 & H3). unfold Wf. rewrite <- Hs, <- Hk.
  assert (Hl : length (f_objs s') = length (f_objs s)).
  { unfold SK in Hk. apply (f_equal (@length skel)) in Hk. rewrite !map_length in Hk. lia. }
  rewrite Hl. split; [exact H1|]. split; [exact H2|exact H3].
Qed.

Section Sys.
  Variable I : instance.
  Variable fs : list fname.
  Let d0 := init_d I.

  Lemma has_same_q m o : has_same m o = q_same (t_mach m) (t_jobs m) (sk o).
  Proof. reflexivity. Qed.

  Lemma fo_mask_completed o : fo_kind o = FIsCompleted ->
    fo_mask (zeroed I o) = mkftm (isSome (fo_ops o)) (isSome (fo_mach o)) (isSome (fo_jobs o)).
  Proof. destruct o as [k a b c e rm rj dq cs cm cn]. simpl. intros ->. destruct a, b, c; reflexivity. Qed.

  (** *** [reset()] of the object at [i] in a well-formed system touches that
      object only *)
  Lemma reset_one_wf d s i o : Wf s -> nth_error (f_objs s) i = Some o ->
    reset_one I fs d s i = fput s i (robj I fs d s o).
  Proof.
    intros (Hs & Hc & _) Ho.
    assert (Hi : (i < length (f_objs s))%nat) by (apply nth_error_Some; congruence).
    assert (Hk : nth_error (SK s) i = Some (sk o)) by (unfold SK; rewrite nth_error_map, Ho; reflexivity).
    destruct (Hc i (sk o) Hk) as [HcR HcC].
    unfold reset_one. rewrite Ho. unfold robj. destruct (fo_kind o) eqn:Ek; try reflexivity.
    - (* RemainingOperations *)
      unfold rem_initialize, get_unsched.
      assert (Hh : hask (SK (fput s i (zeroed I o))) (f_subs (fput s i (zeroed I o))) q_unsched).
      { rewrite (SK_fput s i o _ Ho (sk_zeroed I o)). apply HcR. exact Ek. }
      apply hask_find in Hh. destruct Hh as [j Hj].
      change (fun o0 : fobs => fkind_eqb (fo_kind o0) FUnsched) with (fun o0 : fobs => q_unsched (sk o0)).
      rewrite Hj. rewrite fget_fput_eq by exact Hi. apply fput_fput.
    - (* IsCompleted *)
      unfold comp_initialize. rewrite (fget_nth_error s i o Ho). cbv zeta.
      rewrite (fo_mask_completed o Ek). unfold get_remops.
      assert (Hh : hask (SK (fput s i (zeroed I o))) (f_subs (fput s i (zeroed I o)))
                        (q_same (isSome (fo_mach o)) (isSome (fo_jobs o)))).
      { rewrite (SK_fput s i o _ Ho (sk_zeroed I o)). apply HcC. exact Ek. }
      apply hask_find in Hh. destruct Hh as [j Hj].
      change (has_same (mkftm (isSome (fo_ops o)) (isSome (fo_mach o)) (isSome (fo_jobs o))))
        with (fun o0 : fobs => q_same (isSome (fo_mach o)) (isSome (fo_jobs o)) (sk o0)).
      rewrite Hj. rewrite fget_fput_eq by exact Hi. apply fput_fput.
  Qed.

  (** *** The relation between the system now ([s]) and the system the
      constructors left on the new dispatcher ([s0]): same subscribers, and
      resetting any object of [s] gives the corresponding object of [s0] *)
  Definition Rel (s s0 : fsys) : Prop :=
    f_subs s = f_subs s0 /\ map (robj I fs d0 s0) (f_objs s) = f_objs s0.

  Lemma Rel_SK s s0 : Rel s s0 -> SK s = SK s0.
  Proof.
    intros [_ H]. unfold SK. rewrite <- H, map_map. apply map_ext. intros o. symmetry. apply sk_robj.
  Qed.

  Lemma Rel_update_one d x s s0 i :
    (s_pos x < length (get_job I (s_job x)))%nat -> Rel s s0 -> Rel (update_one I fs d x s i) s0.
  Proof.
    intros Hp [H1 H2]. unfold update_one. destruct (nth_error (f_objs s) i) as [o|] eqn:Ho; [|split; assumption].
    split; [exact H1|]. unfold fput. cbn [f_objs]. rewrite map_upd. unfold d0.
    rewrite (robj_upd I fs d x s0 s o Hp). fold d0. rewrite upd_same; [exact H2|].
    rewrite nth_error_map, Ho. reflexivity.
  Qed.

  Lemma Rel_update d x s s0 :
    (s_pos x < length (get_job I (s_job x)))%nat -> Rel s s0 -> Rel (f_update I fs d x s) s0.
  Proof.
    intros Hp. unfold f_update. generalize (f_subs s) at 1. intros l. revert s.
    induction l as [|i t IH]; intros s H; simpl; [exact H|]. apply IH. apply Rel_update_one; assumption.
  Qed.

  (** *** The reset loop *)
  Section Loop.
    Variable s0 : fsys.
    Hypothesis Hwf : Wf s0.
    Let n := length (f_objs s0).

    (** after [k] subscribers were reset: the first [k] objects are those
        of [s0], the others still reset to those of [s0] *)
    Definition upto (k : nat) (s : fsys) : Prop :=
      f_subs s = f_subs s0 /\ SK s = SK s0 /\
      (forall j, (j < k)%nat -> nth_error (f_objs s) j = nth_error (f_objs s0) j) /\
      (forall j o, (k <= j)%nat -> nth_error (f_objs s) j = Some o ->
                   nth_error (f_objs s0) j = Some (robj I fs d0 s0 o)).

    Lemma upto_length k s : upto k s -> length (f_objs s) = n.
    Proof.
      intros (_ & Hk & _). unfold SK in Hk. apply (f_equal (@length skel)) in Hk. rewrite !map_length in Hk. exact Hk.
    Qed.

    Lemma Rel_upto s : Rel s s0 -> upto 0 s.
    Proof.
      intros H. split; [exact (proj1 H)|]. split; [apply Rel_SK; exact H|]. split; [intros j Hj; lia|].
      intros j o _ Ho. destruct H as [_ H]. rewrite <- H, nth_error_map, Ho. reflexivity.
    Qed.

    Lemma upto_step k s : upto k s -> (k < n)%nat -> upto (S k) (reset_one I fs d0 s k).
    Proof.
      intros Hu Hk. pose proof (upto_length k s Hu) as Hl. destruct Hu as (Hs & Hsk & Hlo & Hhi).
      assert (Hw : Wf s) by (apply (Wf_transfer s0 s); [symmetry; exact Hs|symmetry; exact Hsk|exact Hwf]).
      destruct (nth_error (f_objs s) k) as [o|] eqn:Ho; [|apply nth_error_None in Ho; lia].
      rewrite (reset_one_wf d0 s k o Hw Ho).
      assert (Hsc : forall c, In c (fo_comps o) -> (c < k)%nat).
      { intros c Hc. destruct Hw as (_ & _ & Hscoped). apply (Hscoped k (sk o) c); [|exact Hc].
        unfold SK. rewrite nth_error_map, Ho. reflexivity. }
      assert (Hr : robj I fs d0 s o = robj I fs d0 s0 o).
      { apply robj_ext. intros c Hc. unfold fget. apply nth_eq_of_nth_error. apply Hlo. apply Hsc. exact Hc. }
      rewrite Hr. pose proof (Hhi k o (le_n k) Ho) as H0.
      split; [exact Hs|]. split; [rewrite (SK_fput s k o _ Ho (sk_robj I fs d0 s0 o)); exact Hsk|].
      unfold fput. cbn [f_objs]. split.
      - intros j Hj. destruct (Nat.eq_dec k j) as [<-|Hne].
        + rewrite nth_error_upd_eq by lia. symmetry. exact H0.
        + rewrite nth_error_upd_neq by exact Hne. apply Hlo. lia.
      - intros j o' Hj Ho'. rewrite nth_error_upd_neq in Ho' by lia. apply Hhi; [lia|exact Ho'].
    Qed.

    Lemma upto_all s : upto n s -> s = s0.
    Proof.
      intros Hu. pose proof (upto_length n s Hu) as Hl. destruct Hu as (Hs & _ & Hlo & _).
      destruct s as [os ss], s0 as [os0 ss0]. cbn [f_objs f_subs] in *. f_equal; [|exact Hs].
      apply list_eq_nth_error; [exact Hl|]. intros j Hj. apply Hlo. lia.
    Qed.

    Lemma reset_loop_upto : forall fuel k s, upto k s -> (k <= n)%nat -> (n - k < fuel)%nat ->
      reset_loop I fs d0 fuel k s = s0.
    Proof.
      induction fuel as [|f IH]; intros k s Hu Hk Hf; [lia|]. cbn [reset_loop].
      destruct Hwf as (Hsubs & _). fold n in Hsubs.
      rewrite (proj1 Hu), Hsubs. destruct (Nat.eq_dec k n) as [->|Hne].
      - assert (E : nth_error (seq 0 n) n = None) by (apply nth_error_None; rewrite seq_length; lia).
        rewrite E. apply upto_all. exact Hu.
      - rewrite nth_error_seq0 by lia. apply IH; [apply upto_step; [exact Hu|lia]|lia|lia].
    Qed.

    Theorem f_reset_fresh s : Rel s s0 -> f_reset I fs d0 s = s0.
    Proof.
      intros H. unfold f_reset. apply reset_loop_upto; [apply Rel_upto; exact H|lia|].
      rewrite (proj1 H). destruct Hwf as (Hsubs & _). rewrite Hsubs, seq_length. fold n. lia.
    Qed.
  End Loop.

  (** *** Systems built by constructors on the new dispatcher *)
  Definition Fix (s : fsys) : Prop := map (robj I fs d0 s) (f_objs s) = f_objs s.
  Definition Good (s : fsys) : Prop := Wf s /\ Fix s.

  Lemma Good_Rel s : Good s -> Rel s s.
  Proof. intros [_ H]. split; [reflexivity|exact H]. Qed.

  Lemma Good_empty : Good empty_sys.
  Proof.
    split; [|reflexivity]. split; [reflexivity|]. split.
    - intros i k H. destruct i; discriminate.
    - intros i k c H. destruct i; discriminate.
  Qed.

  (** appending new objects, each a fixed point of [reset], each with its
      dependencies subscribed in the result, components among the old objects *)
  Lemma good_extend s s' news :
    Good s ->
    f_objs s' = f_objs s ++ news ->
    f_subs s' = f_subs s ++ seq (length (f_objs s)) (length news) ->
    (forall o, In o news -> robj I fs d0 s' o = o) ->
    (forall o c, In o news -> In c (fo_comps o) -> (c < length (f_objs s))%nat) ->
    (forall o, In o news ->
       (fo_kind o = FRemOps -> hask (SK s') (f_subs s') q_unsched) /\
       (fo_kind o = FIsCompleted -> hask (SK s') (f_subs s') (q_same (isSome (fo_mach o)) (isSome (fo_jobs o))))) ->
    Good s'.
  Proof.
    intros [(Hsub & Hcl & Hsc) Hfix] Ho Hs Hnew Hcomps Hdeps.
    set (n := length (f_objs s)) in *.
    assert (HSK : SK s' = SK s ++ map sk news) by (unfold SK; rewrite Ho, map_app; reflexivity).
    assert (Hlen : length (SK s) = n) by (unfold SK; rewrite map_length; reflexivity).
    assert (Hnews : forall i k, (n <= i)%nat -> nth_error (SK s') i = Some k -> exists o, In o news /\ k = sk o).
    { intros i k Hi Hk. rewrite HSK, nth_error_app2 in Hk by lia. apply nth_error_In in Hk.
      apply in_map_iff in Hk. destruct Hk as (o & E & Hin). exists o. split; [exact Hin|symmetry; exact E]. }
    assert (Hscoped : scopedk (SK s')).
    { intros i k c Hk Hc. destruct (lt_dec i n) as [Hlt|Hge].
      - rewrite HSK, nth_error_app1 in Hk by lia. apply (Hsc i k c Hk Hc).
      - destruct (Hnews i k ltac:(lia) Hk) as (o & Hin & ->). pose proof (Hcomps o c Hin Hc). fold n in H. lia. }
    split; [split; [|split]|].
    - rewrite Hs, Hsub, Ho, app_length. fold n. rewrite seq_app. reflexivity.
    - intros i k Hk. destruct (lt_dec i n) as [Hlt|Hge].
      + rewrite HSK, nth_error_app1 in Hk by lia. destruct (Hcl i k Hk) as [H1 H2].
        rewrite HSK, Hs. split; intros E; apply hask_mono; auto.
      + destruct (Hnews i k ltac:(lia) Hk) as (o & Hin & ->). exact (Hdeps o Hin).
    - exact Hscoped.
    - unfold Fix. rewrite Ho, map_app. f_equal.
      + transitivity (map (robj I fs d0 s) (f_objs s)); [|exact Hfix]. apply map_ext_in. intros o Hin. apply robj_ext. intros c Hc.
        apply In_nth_error in Hin. destruct Hin as [i Hi].
        assert (Hci : (c < i)%nat).
        { apply (Hsc i (sk o) c); [|exact Hc]. unfold SK. rewrite nth_error_map, Hi. reflexivity. }
        assert (Hin' : (i < n)%nat) by (apply nth_error_Some; congruence).
        unfold fget. rewrite Ho. apply app_nth1. fold n. lia.
      + apply map_fixed. exact Hnew.
  Qed.

  Lemma fget_mid l y r ss : fget (mkfs (l ++ y :: r) ss) (length l) = y.
  Proof. unfold fget. cbn [f_objs]. apply nth_middle. Qed.
  Lemma fput_mid l y r ss x : fput (mkfs (l ++ y :: r) ss) (length l) x = mkfs (l ++ x :: r) ss.
  Proof. unfold fput. cbn [f_objs f_subs]. rewrite upd_mid. reflexivity. Qed.

  Lemma good_append s o :
    Good s ->
    robj I fs d0 (fst (fappend s o)) o = o ->
    (forall c, In c (fo_comps o) -> (c < length (f_objs s))%nat) ->
    fo_kind o <> FRemOps -> fo_kind o <> FIsCompleted ->
    Good (fst (fappend s o)).
  Proof.
    intros HG Hfix Hc Hk1 Hk2. apply (good_extend s _ [o] HG); try reflexivity.
    - intros o' [<-|[]]. exact Hfix.
    - intros o' c [<-|[]]. apply Hc.
    - intros o' [<-|[]]. split; intros E; contradiction.
  Qed.

  (** **** the objects the constructors leave on the new dispatcher *)
  Definition U0 : fobs := set_dq (blank FUnsched) (all_deques I).
  Definition R0 (m : ftm) : fobs := rem_init I (unscheduled_ops I d0) (zero_obj I FRemOps m).
  Definition C0 (m : ftm) : fobs :=
    robj I fs d0 empty_sys (set_rem (zero_obj I FIsCompleted m) (zeros (num_machines I)) (zeros (num_jobs I))).

  Lemma unsched_obj_init : unsched_obj I d0 = U0.
  Proof. unfold unsched_obj, U0, d0. rewrite all_sops_init. reflexivity. Qed.

  Lemma simple_is_robj k m s' :
    k = FIsReady \/ k = FDuration \/ k = FIsScheduled \/ k = FPosInJob ->
    init_simple I fs d0 (zero_obj I k m) = robj I fs d0 s' (zero_obj I k m).
  Proof. destruct m as [[] [] []]; intros [->|[->|[->| ->]]]; reflexivity. Qed.

  Lemma est_is_robj m s' :
    init_simple I fs d0 (set_est (zero_obj I FEst m) (est0 I)) = robj I fs d0 s' (set_est (zero_obj I FEst m) (est0 I)).
  Proof. destruct m as [[] [] []]; reflexivity. Qed.

  Lemma R0_fixed m s' : robj I fs d0 s' (R0 m) = R0 m.
  Proof. destruct m as [[] [] []]; reflexivity. Qed.
  Lemma U0_fixed s' : robj I fs d0 s' U0 = U0.
  Proof. reflexivity. Qed.
  Lemma C0_fixed m s' : robj I fs d0 s' (C0 m) = C0 m.
  Proof. unfold C0. rewrite (robj_ext I fs d0 s' empty_sys); [apply robj_idem|]. destruct m as [[] [] []]; intros c []. Qed.

  Lemma sk_R0 m : sk (R0 m) = (FRemOps, t_ops m, t_mach m, t_jobs m, []).
  Proof. destruct m as [[] [] []]; reflexivity. Qed.
  Lemma sk_C0 m : sk (C0 m) = (FIsCompleted, t_ops m, t_mach m, t_jobs m, []).
  Proof. destruct m as [[] [] []]; reflexivity. Qed.

  Lemma get_unsched_cases s :
    (exists j, get_unsched I d0 s = (s, j) /\ hask (SK s) (f_subs s) q_unsched) \/
    get_unsched I d0 s = fappend s U0.
  Proof.
    unfold get_unsched.
    change (fun o : fobs => fkind_eqb (fo_kind o) FUnsched) with (fun o : fobs => q_unsched (sk o)).
    destruct (find_sub_f s (fun o : fobs => q_unsched (sk o))) as [j|] eqn:E.
    - left. exists j. split; [reflexivity|]. apply hask_find. exists j. exact E.
    - right. rewrite unsched_obj_init. reflexivity.
  Qed.

  Lemma new_remops_shape m s :
    let s' := fst (new_remops I d0 m s) in
    exists news, (news = [R0 m] \/ news = [R0 m; U0]) /\
      f_objs s' = f_objs s ++ news /\
      f_subs s' = f_subs s ++ seq (length (f_objs s)) (length news) /\
      hask (SK s') (f_subs s') q_unsched.
  Proof.
    destruct s as [os ss]. unfold new_remops, fappend. cbn [f_objs f_subs fst]. unfold rem_initialize.
    set (z := zero_obj I FRemOps m). set (s1 := mkfs (os ++ [z]) (ss ++ [length os])).
    destruct (get_unsched_cases s1) as [(j & E & Hh)|E]; rewrite E; cbv zeta.
    - exists [R0 m]. unfold s1. rewrite fget_mid, fput_mid. cbn [f_objs f_subs fst length seq].
      split; [left; reflexivity|]. split; [reflexivity|]. split; [reflexivity|].
      destruct Hh as (j' & k & Hin & Hn & Hq). exists j', k. split; [exact Hin|]. split; [|exact Hq].
      unfold s1, SK in Hn. cbn [f_objs] in Hn. unfold SK. cbn [f_objs].
      rewrite map_app in *. cbn [map] in *. fold z. unfold R0.
      replace (sk (rem_init I (unscheduled_ops I d0) z)) with (sk z); [exact Hn|].
      unfold z. destruct m as [[] [] []]; reflexivity.
    - exists [R0 m; U0]. unfold fappend, s1. cbn [f_objs f_subs fst].
      rewrite <- (app_assoc os [z] [U0]). cbn [app]. rewrite fget_mid, fput_mid.
      cbn [f_objs f_subs fst length seq].
      split; [right; reflexivity|]. split; [reflexivity|].
      split; [rewrite app_length, <- app_assoc; cbn [length app]; rewrite Nat.add_1_r; reflexivity|].
      exists (S (length os)), (sk U0). split; [|split; [|reflexivity]].
      + apply in_or_app. right. rewrite app_length. cbn [length]. rewrite Nat.add_1_r. left. reflexivity.
      + unfold SK. cbn [f_objs]. rewrite map_app, nth_error_app2 by (rewrite map_length; lia).
        rewrite map_length. replace (S (length os) - length os)%nat with 1%nat by lia. reflexivity.
  Qed.

  Lemma get_remops_cases bm bj m s : t_mach m = bm -> t_jobs m = bj ->
    (exists j, get_remops I d0 m s = (s, j) /\ hask (SK s) (f_subs s) (q_same bm bj)) \/
    get_remops I d0 m s = new_remops I d0 (mkftm false bm bj) s.
  Proof.
    intros <- <-. unfold get_remops.
    change (has_same m) with (fun o : fobs => q_same (t_mach m) (t_jobs m) (sk o)).
    destruct (find_sub_f s (fun o : fobs => q_same (t_mach m) (t_jobs m) (sk o))) as [j|] eqn:E.
    - left. exists j. split; [reflexivity|]. apply hask_find. exists j. exact E.
    - right. reflexivity.
  Qed.

  (** [IsCompletedObserver(dispatcher, feature_types = m)] on the new dispatcher *)
  Lemma new_completed_shape m s :
    let s' := comp_initialize I d0
                (fst (fappend s (set_rem (zero_obj I FIsCompleted m) (zeros (num_machines I)) (zeros (num_jobs I)))))
                (length (f_objs s)) in
    exists rest, (rest = [] \/ rest = [R0 (mkftm false (t_mach m) (t_jobs m))]
                  \/ rest = [R0 (mkftm false (t_mach m) (t_jobs m)); U0]) /\
      f_objs s' = f_objs s ++ C0 m :: rest /\
      f_subs s' = f_subs s ++ seq (length (f_objs s)) (S (length rest)) /\
      hask (SK s') (f_subs s') (q_same (t_mach m) (t_jobs m)) /\
      (rest <> [] -> hask (SK s') (f_subs s') q_unsched).
  Proof.
    destruct s as [os ss]. unfold fappend. cbn [f_objs f_subs fst]. unfold comp_initialize.
    set (c0 := set_rem (zero_obj I FIsCompleted m) (zeros (num_machines I)) (zeros (num_jobs I))).
    rewrite fget_mid, fput_mid. cbv zeta.
    set (z := zeroed I c0). set (s1 := mkfs (os ++ [z]) (ss ++ [length os])).
    assert (Hz : nth_error (f_objs s1) (length os) = Some z).
    { unfold s1. cbn [f_objs]. rewrite nth_error_app2 by lia. rewrite Nat.sub_diag. reflexivity. }
    assert (HC : forall s2, fget s2 (length os) = z ->
               set_rem (fget s2 (length os))
                 (match fo_mach (fget s2 (length os)) with
                  | Some _ => count_mach I (unscheduled_ops I d0) (zeros (num_machines I))
                  | None => fo_remm (fget s2 (length os)) end)
                 (match fo_jobs (fget s2 (length os)) with
                  | Some _ => count_jobs (unscheduled_ops I d0) (zeros (num_jobs I))
                  | None => fo_remj (fget s2 (length os)) end) = C0 m).
    { intros s2 ->. unfold z, c0. destruct m as [[] [] []]; reflexivity. }
    assert (Hsk : sk (C0 m) = sk z) by (unfold z, c0; destruct m as [[] [] []]; reflexivity).
    assert (Hmask : t_mach (fo_mask z) = t_mach m /\ t_jobs (fo_mask z) = t_jobs m)
      by (unfold z, c0; destruct m as [[] [] []]; split; reflexivity).
    destruct (get_remops_cases (t_mach m) (t_jobs m) (fo_mask z) s1 (proj1 Hmask) (proj2 Hmask))
      as [(j & E & Hh)|E]; rewrite E.
    - exists []. rewrite (HC s1) by (unfold s1; apply fget_mid). unfold s1 at 1 2. rewrite fput_mid.
      cbn [f_objs f_subs length seq]. split; [left; reflexivity|]. split; [reflexivity|]. split; [reflexivity|].
      split; [|intros H; contradiction].
      rewrite (SK_fput s1 (length os) z (C0 m) Hz Hsk). exact Hh.
    - destruct (new_remops_shape (mkftm false (t_mach m) (t_jobs m)) s1) as (news & Hnews & Ho & Hs & Hh).
      set (s2 := fst (new_remops I d0 (mkftm false (t_mach m) (t_jobs m)) s1)) in *.
      destruct (new_remops I d0 (mkftm false (t_mach m) (t_jobs m)) s1) as [s2' i2] eqn:E2.
      cbn [fst] in s2. subst s2.
      assert (Hg : fget s2' (length os) = z).
      { unfold fget. rewrite Ho. unfold s1. cbn [f_objs]. rewrite <- app_assoc. cbn [app]. apply nth_middle. }
      rewrite (HC s2' Hg).
      assert (Hn2 : nth_error (f_objs s2') (length os) = Some z).
      { rewrite Ho. rewrite nth_error_app1; [exact Hz|]. unfold s1. cbn [f_objs]. rewrite app_length. simpl. lia. }
      exists news. split; [destruct Hnews as [->| ->]; [right; left|right; right]; reflexivity|].
      split; [|split; [|split]].
      + unfold fput. cbn [f_objs]. rewrite Ho. unfold s1. cbn [f_objs]. rewrite <- app_assoc. cbn [app].
        apply upd_mid.
      + cbn [fput f_subs]. rewrite Hs. unfold s1. cbn [f_objs f_subs]. rewrite app_length, <- app_assoc.
        cbn [length app seq]. rewrite Nat.add_1_r. reflexivity.
      + rewrite (SK_fput s2' (length os) z (C0 m) Hn2 Hsk). cbn [fput f_subs].
        destruct Hnews as [->| ->].
        * exists (S (length os)), (sk (R0 (mkftm false (t_mach m) (t_jobs m)))).
          split; [|split].
          -- rewrite Hs. unfold s1. cbn [f_objs f_subs length seq]. apply in_or_app. right.
             rewrite app_length. cbn [length]. rewrite Nat.add_1_r. left. reflexivity.
          -- unfold SK. rewrite Ho. unfold s1. cbn [f_objs]. rewrite map_app, nth_error_app2 by (rewrite map_length, app_length; simpl; lia).
             rewrite map_length, app_length. cbn [length]. replace (S (length os) - (length os + 1))%nat with 0%nat by lia.
             reflexivity.
          -- rewrite sk_R0. unfold q_same, sk_kind, sk_m, sk_j. cbn [fst snd t_mach t_jobs].
             destruct (t_mach m), (t_jobs m); reflexivity.
        * exists (S (length os)), (sk (R0 (mkftm false (t_mach m) (t_jobs m)))).
          split; [|split].
          -- rewrite Hs. unfold s1. cbn [f_objs f_subs length seq]. apply in_or_app. right.
             rewrite app_length. cbn [length]. rewrite Nat.add_1_r. left. reflexivity.
          -- unfold SK. rewrite Ho. unfold s1. cbn [f_objs]. rewrite map_app, nth_error_app2 by (rewrite map_length, app_length; simpl; lia).
             rewrite map_length, app_length. cbn [length]. replace (S (length os) - (length os + 1))%nat with 0%nat by lia.
             reflexivity.
          -- rewrite sk_R0. unfold q_same, sk_kind, sk_m, sk_j. cbn [fst snd t_mach t_jobs].
             destruct (t_mach m), (t_jobs m); reflexivity.
      + intros _. rewrite (SK_fput s2' (length os) z (C0 m) Hn2 Hsk). exact Hh.
  Qed.

  Lemma subscribed_lt s i o : In (i, o) (subscribed s) -> (i < length (f_objs s))%nat.
  Proof.
    unfold subscribed. intros H. apply in_flat_map in H. destruct H as (j & _ & H).
    destruct (nth_error (f_objs s) j) as [o'|] eqn:E; [|contradiction]. destruct H as [H|[]]. inversion H; subst.
    apply nth_error_Some. congruence.
  Qed.

  (** *** Every constructor call keeps the system good *)
  Theorem f_new_good k m cs s :
    Good s ->
    (forall l c, cs = Some l -> In c l -> (c < length (f_objs s))%nat) ->
    Good (fst (f_new I fs d0 k m cs s)).
  Proof.
    intros HG Hcs. unfold f_new. destruct (negb (ftm_sub m (supported k))); [exact HG|].
    destruct k.
    - (* IsReady *)
      cbn [fappend fst]. rewrite (simple_is_robj FIsReady m empty_sys) by tauto.
      apply good_append; try exact HG.
      + rewrite (robj_ext I fs d0 _ empty_sys); [apply robj_idem|]. destruct m as [[] [] []]; intros c [].
      + destruct m as [[] [] []]; intros c [].
      + destruct m as [[] [] []]; discriminate.
      + destruct m as [[] [] []]; discriminate.
    - (* EarliestStartTime *)
      cbn [fappend fst]. rewrite (est_is_robj m empty_sys).
      apply good_append; try exact HG.
      + rewrite (robj_ext I fs d0 _ empty_sys); [apply robj_idem|]. destruct m as [[] [] []]; intros c [].
      + destruct m as [[] [] []]; intros c [].
      + destruct m as [[] [] []]; discriminate.
      + destruct m as [[] [] []]; discriminate.
    - (* Duration *)
      cbn [fappend fst]. rewrite (simple_is_robj FDuration m empty_sys) by tauto.
      apply good_append; try exact HG.
      + rewrite (robj_ext I fs d0 _ empty_sys); [apply robj_idem|]. destruct m as [[] [] []]; intros c [].
      + destruct m as [[] [] []]; intros c [].
      + destruct m as [[] [] []]; discriminate.
      + destruct m as [[] [] []]; discriminate.
    - (* IsScheduled *)
      cbn [fappend fst]. rewrite (simple_is_robj FIsScheduled m empty_sys) by tauto.
      apply good_append; try exact HG.
      + rewrite (robj_ext I fs d0 _ empty_sys); [apply robj_idem|]. destruct m as [[] [] []]; intros c [].
      + destruct m as [[] [] []]; intros c [].
      + destruct m as [[] [] []]; discriminate.
      + destruct m as [[] [] []]; discriminate.
    - (* PositionInJob *)
      cbn [fappend fst]. rewrite (simple_is_robj FPosInJob m empty_sys) by tauto.
      apply good_append; try exact HG.
      + rewrite (robj_ext I fs d0 _ empty_sys); [apply robj_idem|]. destruct m as [[] [] []]; intros c [].
      + destruct m as [[] [] []]; intros c [].
      + destruct m as [[] [] []]; discriminate.
      + destruct m as [[] [] []]; discriminate.
    - (* RemainingOperations *)
      destruct (new_remops_shape m s) as (news & Hnews & Ho & Hs & Hh).
      destruct (new_remops I d0 m s) as [s1 i] eqn:E. cbn [fst] in *.
      apply (good_extend s s1 news HG Ho Hs).
      + intros o Hin. destruct Hnews as [->| ->]; destruct Hin as [<-|Hin]; try apply R0_fixed;
          try (destruct Hin as [<-|[]]; apply U0_fixed); destruct Hin.
      + intros o c Hin Hc. exfalso.
        assert (Hnil : fo_comps o = []).
        { destruct Hnews as [->| ->]; destruct Hin as [<-|Hin];
            try (destruct m as [[] [] []]; reflexivity); try (destruct Hin as [<-|[]]; reflexivity); destruct Hin. }
        rewrite Hnil in Hc. destruct Hc.
      + intros o Hin. split; [intros _; exact Hh|]. intros E2. exfalso.
        destruct Hnews as [->| ->]; destruct Hin as [<-|Hin];
          try (destruct m as [[] [] []]; discriminate); try (destruct Hin as [<-|[]]; discriminate); destruct Hin.
    - (* IsCompleted *)
      destruct (new_completed_shape m s) as (rest & Hrest & Ho & Hs & Hh1 & Hh2).
      cbn [fappend fst snd]. unfold fappend in *. cbn [fst] in *.
      apply (good_extend s _ (C0 m :: rest) HG Ho Hs).
      + intros o [<-|Hin]; [apply C0_fixed|].
        destruct Hrest as [->|[->| ->]]; [destruct Hin|destruct Hin as [<-|[]]; apply R0_fixed|].
        destruct Hin as [<-|[<-|[]]]; [apply R0_fixed|apply U0_fixed].
      + intros o c Hin Hc. exfalso.
        assert (Hnil : fo_comps o = []).
        { destruct Hin as [<-|Hin]; [destruct m as [[] [] []]; reflexivity|].
          destruct Hrest as [->|[->| ->]]; [destruct Hin|destruct Hin as [<-|[]]; destruct m as [? [] []]; reflexivity|].
          destruct Hin as [<-|[<-|[]]]; [destruct m as [? [] []]; reflexivity|reflexivity]. }
        rewrite Hnil in Hc. destruct Hc.
      + intros o Hin. destruct Hin as [<-|Hin].
        * split; [destruct m as [[] [] []]; discriminate|]. intros _.
          replace (isSome (fo_mach (C0 m))) with (t_mach m) by (destruct m as [[] [] []]; reflexivity).
          replace (isSome (fo_jobs (C0 m))) with (t_jobs m) by (destruct m as [[] [] []]; reflexivity).
          exact Hh1.
        * assert (Hne : rest <> []) by (intro; subst; destruct Hin).
          split; [intros _; apply Hh2; exact Hne|]. intros E2. exfalso.
          destruct Hrest as [->|[->| ->]]; [destruct Hin|destruct Hin as [<-|[]]; destruct m as [? [] []]; discriminate|].
          destruct Hin as [<-|[<-|[]]]; [destruct m as [? [] []]; discriminate|discriminate].
    - (* Composite *)
      set (comps := match cs with
                    | Some l => l
                    | None => map fst (filter (fun io => is_feature_kind (fo_kind (snd io))) (subscribed s))
                    end).
      assert (Hlt : forall c, In c comps -> (c < length (f_objs s))%nat).
      { intros c Hc. unfold comps in Hc. destruct cs as [l|]; [apply (Hcs l c eq_refl Hc)|].
        apply in_map_iff in Hc. destruct Hc as ([i o] & <- & Hin). apply filter_In in Hin. destruct Hin as [Hin _].
        apply (subscribed_lt s i o Hin). }
      destruct (negb (forallb (fun c => ftm_sub (fo_mask (fget s c)) m) comps)); [exact HG|].
      destruct s as [os ss]. unfold fappend. cbn [f_objs f_subs fst]. rewrite fget_mid, fput_mid.
      set (s1 := mkfs (os ++ [blank FComposite]) (ss ++ [length os])).
      set (K := set_comp (blank FComposite) comps (comp_mats s1 comps) (comp_names s1 comps)).
      change (mkfs (os ++ [K]) (ss ++ [length os])) with (fst (fappend (mkfs os ss) K)).
      apply good_append; try exact HG; try discriminate.
      + unfold fappend. cbn [fst f_objs f_subs]. unfold K.
        change (robj I fs d0 (mkfs (os ++ [set_comp (blank FComposite) comps (comp_mats s1 comps) (comp_names s1 comps)])
                                   (ss ++ [length os]))
                     (set_comp (blank FComposite) comps (comp_mats s1 comps) (comp_names s1 comps)))
          with (set_comp (blank FComposite) comps
                  (comp_mats (mkfs (os ++ [set_comp (blank FComposite) comps (comp_mats s1 comps) (comp_names s1 comps)])
                                   (ss ++ [length os])) comps) (comp_names s1 comps)).
        f_equal. apply comp_mats_ext. intros c Hc. pose proof (Hlt c Hc) as Hl. cbn [f_objs] in Hl.
        unfold fget, s1. cbn [f_objs]. rewrite !app_nth1 by exact Hl. reflexivity.
      + intros c Hc. apply Hlt. exact Hc.
    - (* UnscheduledOperations *)
      destruct (existsb (fun io => fkind_eqb (fo_kind (snd io)) FUnsched) (subscribed s)); [exact HG|].
      rewrite unsched_obj_init. cbn [fappend fst].
      apply good_append; try exact HG; try discriminate; [reflexivity|intros c []].
  Qed.

  (** *** Creation scripts: any sequence of constructor calls *)
  Record cstep := mkcs { cs_kind : fkind; cs_mask : ftm; cs_comps : option (list nat) }.
  Definition create1 (d : dstate) (s : fsys) (c : cstep) : fsys :=
    fst (f_new I fs d (cs_kind c) (cs_mask c) (cs_comps c) s).
  Definition create (d : dstate) (sc : list cstep) (s : fsys) : fsys := fold_left (create1 d) sc s.

  (** a composite is handed observer OBJECTS: its explicit components exist
      when it is constructed *)
  Fixpoint scoped (d : dstate) (sc : list cstep) (s : fsys) : Prop :=
    match sc with
    | [] => True
    | c :: t => (forall l x, cs_comps c = Some l -> In x l -> (x < length (f_objs s))%nat) /\
                scoped d t (create1 d s c)
    end.

  Lemma create_good sc : forall s, Good s -> scoped d0 sc s -> Good (create d0 sc s).
  Proof.
    induction sc as [|c t IH]; intros s HG Hsc; [exact HG|]. destruct Hsc as [H1 H2].
    cbn [create fold_left]. apply IH; [|exact H2]. apply f_new_good; assumption.
  Qed.

  (** *** The dispatcher world *)
  Lemma reset_fw d s : fst (reset f_reset I (fw fs d s)) = fw fs d0 (f_reset I fs d0 s).
  Proof. destruct d as [mf jn jf sc]. reflexivity. Qed.

  Lemma run_Rel s0 : forall rs d s, Rel s s0 ->
    exists s', run_from fsys f_update I (fw fs d s) rs = fw fs (fold_left (apply_req I) rs d) s' /\ Rel s' s0.
  Proof.
    induction rs as [|r t IH]; intros d s HR; [exists s; split; [reflexivity|exact HR]|].
    unfold run_from in *. cbn [fold_left]. rewrite fw_step.
    destruct (sop_of_request I d r) as [x|] eqn:E.
    - assert (Hreq : apply_req I d r = apply_sop I d x (row_of d x)) by (unfold apply_req; rewrite E; reflexivity).
      rewrite Hreq. cbv zeta. apply IH. apply Rel_update; [|exact HR].
      destruct (sop_of_request_accepted I d r x E) as (o & Ha).
      apply (get_op_pos_lt I (s_job x) (s_pos x) o).
      rewrite (a_job _ _ _ _ _ _ Ha), (a_pos _ _ _ _ _ _ Ha). exact (a_op _ _ _ _ _ _ Ha).
    - assert (Hreq : apply_req I d r = d) by (unfold apply_req; rewrite E; reflexivity).
      rewrite Hreq. apply IH. exact HR.
  Qed.

  (** the world right after the constructor calls on a new dispatcher *)
  Definition fresh_world (sc : list cstep) : fwld := fw fs d0 (create d0 sc empty_sys).

  Theorem reset_is_fresh sc rs : scoped d0 sc empty_sys ->
    fst (reset f_reset I (run_from fsys f_update I (fresh_world sc) rs)) = fresh_world sc.
  Proof.
    intros Hsc. pose proof (create_good sc empty_sys Good_empty Hsc) as HG.
    destruct (run_Rel _ rs d0 _ (Good_Rel _ HG)) as (s' & E & HR).
    unfold fresh_world. rewrite E, reset_fw. f_equal. apply f_reset_fresh; [exact (proj1 HG)|exact HR].
  Qed.

  (** any number of episodes, each ended by a reset *)
  Definition episode (w : fwld) (rs : list request) : fwld := fst (reset f_reset I (run_from fsys f_update I w rs)).

  Theorem episodes_are_fresh sc eps : scoped d0 sc empty_sys ->
    fold_left episode eps (fresh_world sc) = fresh_world sc.
  Proof.
    intros Hsc. induction eps as [|rs t IH]; [reflexivity|]. cbn [fold_left]. unfold episode at 2.
    rewrite (reset_is_fresh sc rs Hsc). exact IH.
  Qed.

  Theorem after_reset_like_fresh sc eps rs : scoped d0 sc empty_sys ->
    run_from fsys f_update I (fold_left episode eps (fresh_world sc)) rs =
    run_from fsys f_update I (fresh_world sc) rs.
  Proof. intros Hsc. rewrite (episodes_are_fresh sc eps Hsc). reflexivity. Qed.
End Sys.
