(** UnschedObs.v — C05: the unscheduled-operations observer, subscribed from
    the initial state (or since a reset), holds per job exactly the operations
    from the job's next position on; its iterable is [unscheduled_operations()]. *)
From JSL Require Import Base Instance Dstate Filters World Observers Feasible ListFacts DispatchFun Inv Run Replay.
From Coq Require Import Lia.

Definition job_rest (j : nat) (job : list op) (p : nat) : list (nat * nat) :=
  map (fun q => (j, q)) (seq p (length job - p)).

Fixpoint exp_dq_from (I : instance) (j : nat) (nx : list nat) : list (list (nat * nat)) :=
  match I, nx with
  | job :: I', p :: nx' => job_rest j job p :: exp_dq_from I' (S j) nx'
  | _, _ => []
  end.
Definition exp_dq (I : instance) (d : dstate) : list (list (nat * nat)) := exp_dq_from I 0 (jnext d).

Lemma concat_exp_dq I : forall j nx, concat (exp_dq_from I j nx) = unscheduled_from I j nx.
Proof.
  induction I as [|job t IH]; intros j nx; [destruct nx; reflexivity|].
  destruct nx as [|p nx']; [reflexivity|]. simpl. rewrite IH. reflexivity.
Qed.

Lemma job_rest_0 j job : job_rest j job 0 = job_keys j job.
Proof. unfold job_rest, job_keys. rewrite Nat.sub_0_r. reflexivity. Qed.

Lemma all_deques_from I : forall j,
  map (fun jj => job_keys (fst jj) (snd jj)) (combine (seq j (length I)) I) = exp_dq_from I j (repeat 0%nat (length I)).
Proof.
  induction I as [|job t IH]; intros j; [reflexivity|].
  cbn [length repeat seq combine map exp_dq_from fst snd]. rewrite job_rest_0, IH. reflexivity.
Qed.

Lemma all_deques_is_exp I : all_deques I = exp_dq I (init_d I).
Proof. unfold all_deques, exp_dq, init_d, num_jobs. cbn [jnext]. apply all_deques_from. Qed.

Lemma pop_exp_dq I : forall j0 nx j,
  (j < length nx)%nat -> (j < length I)%nat -> (nth j nx 0%nat < length (nth j I []))%nat ->
  pop_job (exp_dq_from I j0 nx) j = exp_dq_from I j0 (upd nx j (S (nth j nx 0%nat))).
Proof.
  induction I as [|job t IH]; intros j0 nx j Hn Hi Hlt; [simpl in Hi; lia|].
  destruct nx as [|p nx']; [simpl in Hn; lia|].
  destruct j as [|j].
  - cbn [nth upd exp_dq_from]. unfold pop_job. cbn [nth_error]. unfold job_rest.
    cbn [nth] in Hlt. replace (length job - p)%nat with (S (length job - S p)) by lia.
    cbn [seq map upd]. reflexivity.
  - cbn [nth upd exp_dq_from]. unfold pop_job in *. cbn [nth_error].
    specialize (IH (S j0) nx' j ltac:(simpl in Hn; lia) ltac:(simpl in Hi; lia) Hlt).
    destruct (nth_error (exp_dq_from t (S j0) nx') j) as [[|a r]|] eqn:E; cbn [upd]; rewrite <- IH; reflexivity.
Qed.

Section UnschedObs.
  Variable I : instance.

  Definition unsched_world (fs : list fname) (d : dstate) (dq : list (list (nat * nat))) : wld :=
    mkw d empty_cache fs [OUnsched dq] [0%nat].

  Lemma unsched_step fs d dq r :
    step_req obs o_update I (unsched_world fs d dq) r =
    match sop_of_request I d r with
    | Some x => unsched_world fs (apply_sop I d x (row_of d x)) (pop_job dq (s_job x))
    | None => unsched_world fs d dq
    end.
  Proof. rewrite step_req_sop. cbn [core unsched_world]. destruct (sop_of_request I d r); reflexivity. Qed.

  Theorem unsched_observer_tracks fs rs : forall d,
    Inv I d -> valid I ->
    run_from obs o_update I (unsched_world fs d (exp_dq I d)) rs =
    unsched_world fs (fold_left (apply_req I) rs d) (exp_dq I (fold_left (apply_req I) rs d)).
  Proof.
    induction rs as [|r t IH]; intros d Hi Hv; [reflexivity|].
    unfold run_from in *. cbn [fold_left]. rewrite unsched_step.
    destruct (sop_of_request I d r) as [x|] eqn:E.
    - assert (H1 : apply_req I d r = apply_sop I d x (row_of d x)) by (unfold apply_req; rewrite E; reflexivity).
      rewrite H1. destruct (sop_of_request_accepted I d r x E) as (o & Ha).
      assert (Hdq : pop_job (exp_dq I d) (s_job x) = exp_dq I (apply_sop I d x (row_of d x))).
      { unfold exp_dq, apply_sop. cbn [jnext]. unfold nthN.
        pose proof (a_op _ _ _ _ _ _ Ha) as Hop. rewrite <- (a_job _ _ _ _ _ _ Ha) in Hop.
        destruct (get_op_bounds _ _ _ _ Hop) as [Hj Hp].
        apply pop_exp_dq.
        - rewrite (i_len_jn _ _ Hi). exact Hj.
        - exact Hj.
        - pose proof (a_next _ _ _ _ _ _ Ha) as Hn. rewrite <- (a_job _ _ _ _ _ _ Ha) in Hn.
          unfold nthN in Hn. rewrite Hn. unfold get_job in Hp. exact Hp. }
      rewrite Hdq. apply IH; [eapply Inv_apply_sop; eauto|exact Hv].
    - assert (H1 : apply_req I d r = d) by (unfold apply_req; rewrite E; reflexivity).
      rewrite H1. apply IH; assumption.
  Qed.

  (** its iterable is the unscheduled-operations query of the same state *)
  Theorem unsched_observer_is_query d : concat (exp_dq I d) = unscheduled_ops I d.
  Proof. apply concat_exp_dq. Qed.
End UnschedObs.
