(** SessionInv.v — every world reachable by ANY event script (dispatch
    requests valid or not, queries in any order and multiplicity, resets,
    observer construction / subscription / unsubscription) satisfies the
    dispatcher invariant and has a coherent cache; hence every query issued
    anywhere in any script returns the from-scratch value (C05). *)
From JSL Require Import Base Instance Dstate Filters World Observers Session Feasible ListFacts
     DispatchFun Inv Run Derived QuerySpec Tracking Queries.
From Coq Require Import Lia.

Section SessionInv.
  Variable I : instance.
  Hypothesis Hv : valid I.

  Definition WInv (w : wld) : Prop := Inv I (core w) /\ wok obs I w.

  Lemma WInv_ext_nocache w w' :
    WInv w -> core w' = core w -> filt w' = filt w -> wcache w' = wcache w -> WInv w'.
  Proof. intros [Hi Hk] Hc Hf Hca. unfold WInv, wok. rewrite Hc, Hf, Hca. split; assumption. Qed.

  Lemma WInv_init fs : WInv (init_w obs I fs).
  Proof. split; [apply Inv_init|apply empty_cache_ok]. Qed.

  Lemma dispatch_WInv r w : WInv w -> WInv (fst (dispatch o_update I r w)).
  Proof.
    intros [Hi Hk].
    destruct (dispatch_cases obs o_update I r w) as [[e He]|(x & o & row & Ha & He)]; rewrite He; simpl.
    - split; assumption.
    - split; [eapply Inv_apply_sop; eauto|apply empty_cache_ok].
  Qed.

  Lemma reset_eq w :
    reset o_reset I w =
    (mkw (init_d I) empty_cache (filt w) (notify_all (o_reset I (filt w) (init_d I)) (subs w) (objs w)) (subs w),
     inl tt).
  Proof. destruct w as [[mf jn jf sc] c f os ss]. reflexivity. Qed.

  Lemma reset_WInv w : WInv (fst (reset o_reset I w)).
  Proof. rewrite reset_eq. simpl. split; [apply Inv_init|apply empty_cache_ok]. Qed.

  Lemma new_observer_world k sub w :
    let w' := fst (new_observer_gen I k sub w) in
    core w' = core w /\ filt w' = filt w /\ wcache w' = wcache w.
  Proof.
    destruct w as [d c f os ss]. unfold new_observer_gen, bind, get. cbn.
    match goal with |- context [if ?b then _ else _] => destruct b end; cbn; auto.
    destruct sub; cbn; auto.
  Qed.

  Lemma create_or_get_world k al w :
    let w' := fst (create_or_get I k al w) in
    core w' = core w /\ filt w' = filt w /\ wcache w' = wcache w.
  Proof.
    unfold create_or_get, bind, get. cbn.
    destruct (find_sub (objs w) k al (subs w)); [cbn; auto|apply (new_observer_world k true)].
  Qed.

  Lemma unsubscribe_world i (w : wld) :
    let w' := fst (unsubscribe i w) in
    core w' = core w /\ filt w' = filt w /\ wcache w' = wcache w.
  Proof.
    destruct w as [d c f os ss]. unfold unsubscribe, bind, get, of_opt. cbn.
    destruct (remove_first i ss); cbn; auto.
  Qed.

  Ltac use_answers H w Hk :=
    destruct (H w Hk) as (w1 & E1 & (Hc1 & Hf1 & Ho1 & Hs1) & Hk1); rewrite E1; cbn.

  Theorem run_query_spec q arg w :
    0 <= q <= 16 -> WInv w ->
    exists w', run_query I q arg w = (w', inl (pure_query I (filt w) (core w) q arg)) /\
               ext obs w w' /\ WInv w'.
  Proof.
    intros Hq [Hi Hk].
    assert (Hfin : forall w1, ext obs w w1 -> wok obs I w1 -> ext obs w w1 /\ WInv w1).
    { intros w1 Hx Hk1. split; [exact Hx|]. destruct Hx as (Hc & _). split; [rewrite Hc; exact Hi|exact Hk1]. }
    assert (Hcases : q = 0 \/ q = 1 \/ q = 2 \/ q = 3 \/ q = 4 \/ q = 5 \/ q = 6 \/ q = 7 \/ q = 8 \/
                     q = 9 \/ q = 10 \/ q = 11 \/ q = 12 \/ q = 13 \/ q = 14 \/ q = 15 \/ q = 16) by lia.
    unfold run_query, pure_query.
    repeat (destruct Hcases as [->|Hcases]); try subst q.
    - use_answers (q_now_answers obs I) w Hk. eexists; split; [reflexivity|apply Hfin; [repeat split|]; assumption].
    - use_answers (q_avail_answers obs I) w Hk. eexists; split; [reflexivity|apply Hfin; [repeat split|]; assumption].
    - use_answers (q_raw_answers obs I) w Hk. eexists; split; [reflexivity|apply Hfin; [repeat split|]; assumption].
    - use_answers (q_unsched_answers obs I) w Hk. eexists; split; [reflexivity|apply Hfin; [repeat split|]; assumption].
    - use_answers (q_sched_answers obs I) w Hk. eexists; split; [reflexivity|apply Hfin; [repeat split|]; assumption].
    - use_answers (q_amach_answers obs I) w Hk. eexists; split; [reflexivity|apply Hfin; [repeat split|]; assumption].
    - use_answers (q_ajobs_answers obs I) w Hk. eexists; split; [reflexivity|apply Hfin; [repeat split|]; assumption].
    - use_answers (q_completed_answers obs I) w Hk. eexists; split; [reflexivity|apply Hfin; [repeat split|]; assumption].
    - use_answers (q_uncompleted_answers obs I) w Hk. eexists; split; [reflexivity|apply Hfin; [repeat split|]; assumption].
    - use_answers (q_ongoing_answers obs I) w Hk. eexists; split; [reflexivity|apply Hfin; [repeat split|]; assumption].
    - unfold q_earliest, bind, get, of_opt, ret, raise. cbn.
      destruct (kop I (dec_key arg)) as [o|]; cbn;
        [match goal with |- context [earliest_start_time ?a ?b ?c] => destruct (earliest_start_time a b c) end; cbn|];
        (eexists; split; [reflexivity|apply Hfin; [apply ext_refl|exact Hk]]).
    - unfold q_remaining, bind, ret. use_answers (q_now_answers obs I) w Hk.
      eexists; split; [reflexivity|apply Hfin; [repeat split|]; assumption].
    - unfold q_is_scheduled, bind, get, ret. cbn.
      eexists; split; [reflexivity|apply Hfin; [apply ext_refl|exact Hk]].
    - unfold q_is_ongoing, bind, ret. use_answers (q_now_answers obs I) w Hk.
      eexists; split; [reflexivity|apply Hfin; [repeat split|]; assumption].
    - unfold q_next_operation, bind, get, ret, raise. cbn.
      match goal with |- context [if ?b then _ else _] => destruct b end; cbn;
        (eexists; split; [reflexivity|apply Hfin; [apply ext_refl|exact Hk]]).
    - unfold q_min_start, bind, get, ret. cbn.
      eexists; split; [reflexivity|apply Hfin; [apply ext_refl|exact Hk]].
    - unfold q_filter, bind, get, ret. cbn.
      eexists; split; [reflexivity|apply Hfin; [apply ext_refl|exact Hk]].
  Qed.

  Lemma run_query_WInv q arg w : WInv w -> WInv (fst (run_query I q arg w)).
  Proof.
    intros Hw. destruct (Z_le_dec 0 q) as [H0|H0]; [destruct (Z_le_dec q 16) as [H1|H1]|].
    - destruct (run_query_spec q arg w (conj H0 H1) Hw) as (w' & E & _ & Hw'). rewrite E. exact Hw'.
    - unfold run_query. destruct q as [|p|p]; try lia.
      do 5 (try match goal with p0 : BinNums.positive |- _ => destruct p0; try lia end); exact Hw.
    - unfold run_query. destruct q as [|p|p]; try lia. exact Hw.
  Qed.

  Lemma subscribe_world i (w : wld) :
    let w' := fst (subscribe i w) in
    core w' = core w /\ filt w' = filt w /\ wcache w' = wcache w.
  Proof. destruct w; cbn; auto. Qed.

  Theorem run_event_WInv ev w : WInv w -> WInv (fst (run_event I ev w)).
  Proof.
    intros Hw. unfold run_event.
    assert (Hnc : forall w', core w' = core w /\ filt w' = filt w /\ wcache w' = wcache w -> WInv w').
    { intros w' (Hc & Hf & Hca). eapply WInv_ext_nocache; eauto. }
    destruct (asZ (vnth ev 0)) as [|p|p]; [| |exact Hw].
    - cbn. apply dispatch_WInv; exact Hw.
    - pose proof (run_query_WInv (asZ (vnth ev 1)) (vnth ev 2) w Hw) as Hq.
      assert (He : WInv (fst (env_step o_update I (asN (vnth ev 1)) (asZ (vnth ev 2)) w))).
      { destruct (env_step_cases obs o_update I (asN (vnth ev 1)) (asZ (vnth ev 2)) w) as [[e He]|[m' He]];
          rewrite He; [exact Hw|apply dispatch_WInv; exact Hw]. }
      do 4 (try match goal with p0 : BinNums.positive |- _ => destruct p0 end);
      try (match goal with |- context [if ?b then _ else _] => destruct b end);
      first [ exact Hw
            | cbn; exact He
            | cbn; apply Hnc; first [apply subscribe_world|apply new_observer_world
                                    |apply create_or_get_world|apply unsubscribe_world]
            | cbn; apply reset_WInv
            | destruct (run_query I (asZ (vnth ev 1)) (vnth ev 2) w) as [w' [v|e]]; exact Hq ].
  Qed.

  (** world reached by an event script *)
  Fixpoint run_world (evs : list val) (w : wld) : wld :=
    match evs with [] => w | ev :: t => run_world t (fst (run_event I ev w)) end.

  Theorem reachable_WInv fs evs : WInv (run_world evs (init_w obs I fs)).
  Proof.
    generalize (WInv_init fs). generalize (init_w obs I fs).
    induction evs as [|ev t IH]; intros w Hw; simpl; [exact Hw|]. apply IH. apply run_event_WInv; exact Hw.
  Qed.

  (** C05: in ANY reachable world, whatever was asked before, a query
      returns the value recomputed from scratch from the schedule rows. *)
  Theorem query_anywhere fs evs q arg :
    0 <= q <= 16 ->
    let w := run_world evs (init_w obs I fs) in
    snd (run_query I q arg w) = inl (pure_query I (filt w) (dstate_of I (sched (core w))) q arg).
  Proof.
    intros Hq w. pose proof (reachable_WInv fs evs) as Hw. fold w in Hw.
    destruct (run_query_spec q arg w Hq Hw) as (w' & E & _ & _). rewrite E. simpl.
    rewrite (tracking_derived I (core w) (proj1 Hw)). reflexivity.
  Qed.
End SessionInv.
