(** Replay.v — C02: the schedule is a pure function of the accepted
    (operation, machine) sequence. The history observer records exactly the
    accepted dispatches, and re-dispatching that record on a fresh or reset
    dispatcher reproduces the dispatcher state (schedule included) exactly. *)
From JSL Require Import Base Instance Dstate Filters World Observers Feasible ListFacts DispatchFun Inv Run.
From Coq Require Import Lia.

(** The scheduled operation a request produces in state [d], if accepted:
    the check cascade of [dispatch] as a function of the dispatcher fields. *)
Definition sop_of_request (I : instance) (d : dstate) (r : request) : option sop :=
  match get_op I (r_job r) (r_pos r) with
  | None => None
  | Some o =>
    if (nthN (jnext d) (r_job r) =? r_pos r)%nat then
      match resolve_pure o (r_mach r) with
      | inr _ => None
      | inl m =>
        match py_index (length (mfree d)) m with
        | None => None
        | Some mi =>
          if existsb (fun k => Z.of_nat k =? m) (machines o) then
            match nth_error (sched d) (Z.to_nat m) with
            | None => None
            | Some row =>
              let st := Z.max (nthZ (mfree d) mi) (nthZ (jfree d) (r_job r)) in
              let x := mksop (r_job r) (r_pos r) st (Z.to_nat m) in
              match last_opt row with
              | Some y => if s_end I y <=? st then Some x else None
              | None => Some x
              end
            end
          else None
        end
      end
    else None
  end.

Definition row_of (d : dstate) (x : sop) : list sop := nth (s_mach x) (sched d) [].
Definition apply_req (I : instance) (d : dstate) (r : request) : dstate :=
  match sop_of_request I d r with Some x => apply_sop I d x (row_of d x) | None => d end.
Definition req_of (x : sop) : request := mkreq (s_job x) (s_pos x) (Some (Z.of_nat (s_mach x))).

Section Replay.
  Variable O : Type.
  Variable o_update : instance -> list fname -> dstate -> sop -> O -> O.
  Variable I : instance.

  Lemma step_req_sop (w : world O) r :
    step_req O o_update I w r =
    match sop_of_request I (core w) r with
    | Some x => after O o_update I w x (row_of (core w) x)
    | None => w
    end.
  Proof.
    unfold step_req. rewrite dispatch_is_pure. unfold dispatch_pure, sop_of_request.
    destruct (get_op I (r_job r) (r_pos r)) as [o|]; [|reflexivity].
    destruct (nthN (jnext (core w)) (r_job r) =? r_pos r)%nat; [|reflexivity].
    destruct (resolve_pure o (r_mach r)) as [m|e]; [|reflexivity].
    destruct (py_index (length (mfree (core w))) m) as [mi|]; [|reflexivity].
    destruct (existsb (fun k : nat => Z.of_nat k =? m) (machines o)); [|reflexivity].
    destruct (nth_error (sched (core w)) (Z.to_nat m)) as [row|] eqn:Hrow; [|reflexivity].
    cbv zeta. unfold row_of. 
    destruct (last_opt row) as [y|].
    - destruct (s_end I y <=? _); [|reflexivity]. cbn [fst s_mach]. rewrite (nth_error_nth _ _ _ Hrow). reflexivity.
    - cbn [fst s_mach]. rewrite (nth_error_nth _ _ _ Hrow). reflexivity.
  Qed.

  Lemma core_step_req (w : world O) r : core (step_req O o_update I w r) = apply_req I (core w) r.
  Proof. rewrite step_req_sop. unfold apply_req. destruct (sop_of_request I (core w) r); reflexivity. Qed.

  Definition run_from (w : world O) (rs : list request) : world O := fold_left (step_req O o_update I) rs w.

  Lemma core_run_from rs : forall w, core (run_from w rs) = fold_left (apply_req I) rs (core w).
  Proof. induction rs as [|r t IH]; intros w; simpl; [reflexivity|]. unfold run_from in *. simpl. rewrite IH, core_step_req. reflexivity. Qed.

  (** the accepted dispatches of a request list, in order *)
  Fixpoint accepted_sops (d : dstate) (rs : list request) : list sop :=
    match rs with
    | [] => []
    | r :: t => match sop_of_request I d r with
                | Some x => x :: accepted_sops (apply_sop I d x (row_of d x)) t
                | None => accepted_sops d t
                end
    end.

  Lemma sop_of_request_fields d r x :
    sop_of_request I d r = Some x -> s_job x = r_job r /\ s_pos x = r_pos r.
  Proof.
    unfold sop_of_request.
    destruct (get_op I (r_job r) (r_pos r)) as [o|]; [|discriminate].
    destruct (nthN (jnext d) (r_job r) =? r_pos r)%nat; [|discriminate].
    destruct (resolve_pure o (r_mach r)) as [m|e]; [|discriminate].
    destruct (py_index (length (mfree d)) m) as [mi|]; [|discriminate].
    destruct (existsb (fun k : nat => Z.of_nat k =? m) (machines o)); [|discriminate].
    destruct (nth_error (sched d) (Z.to_nat m)) as [row|]; [|discriminate]. cbv zeta.
    destruct (last_opt row) as [y|]; [destruct (s_end I y <=? _); [|discriminate]|];
      intros H; inversion H; subst; split; reflexivity.
  Qed.

  (** an accepted request establishes the facts of [accepted] *)
  Lemma sop_of_request_accepted d r x :
    sop_of_request I d r = Some x -> exists o, accepted I d r x o (row_of d x).
  Proof.
    unfold sop_of_request.
    destruct (get_op I (r_job r) (r_pos r)) as [o|] eqn:Ho; [|discriminate].
    destruct (nthN (jnext d) (r_job r) =? r_pos r)%nat eqn:Hnext; [|discriminate].
    apply Nat.eqb_eq in Hnext.
    destruct (resolve_pure o (r_mach r)) as [m|e] eqn:Hres; [|discriminate].
    assert (Hmm : match r_mach r with Some m' => m' = m | None => exists k, machines o = [k] /\ m = Z.of_nat k end).
    { unfold resolve_pure in Hres. destruct (r_mach r) as [m'|].
      - inversion Hres; reflexivity.
      - destruct (machines o) as [|k [|k2 t]]; inversion Hres. exists k; split; reflexivity. }
    destruct (py_index (length (mfree d)) m) as [mi|] eqn:Hpi; [|discriminate].
    destruct (existsb (fun k : nat => Z.of_nat k =? m) (machines o)) eqn:Hel; [|discriminate].
    apply existsb_elig in Hel. destruct Hel as [Hin Hmeq].
    assert (Hm0 : 0 <= m) by lia.
    destruct (py_index_nonneg _ _ _ Hm0 Hpi) as [Hmi Hlt]. subst mi.
    destruct (nth_error (sched d) (Z.to_nat m)) as [row|] eqn:Hrow; [|discriminate].
    cbv zeta.
    set (st := Z.max (nthZ (mfree d) (Z.to_nat m)) (nthZ (jfree d) (r_job r))).
    assert (Hacc : forall (Hl : match last_opt row with Some y => s_end I y <= st | None => True end),
               accepted I d r (mksop (r_job r) (r_pos r) st (Z.to_nat m)) o row).
    { intros Hl. constructor; try reflexivity; auto.
      cbn [s_mach]. destruct (r_mach r) as [m'|].
      + subst m'. exact Hmeq.
      + destruct Hmm as (k & Hk & Hmk). rewrite Hk. subst m. rewrite Nat2Z.id. reflexivity. }
    assert (Hro : forall y, y = mksop (r_job r) (r_pos r) st (Z.to_nat m) -> row_of d y = row).
    { intros y ->. unfold row_of. cbn [s_mach]. apply nth_error_nth. exact Hrow. }
    destruct (last_opt row) as [y|] eqn:Hlast.
    - destruct (s_end I y <=? st) eqn:Hle; [|discriminate]. apply Z.leb_le in Hle.
      intros H; inversion H; subst x. exists o. rewrite (Hro _ eq_refl). apply Hacc. exact Hle.
    - intros H; inversion H; subst x. exists o. rewrite (Hro _ eq_refl). apply Hacc. exact Logic.I.
  Qed.

  (** Re-issuing the request reconstructed from the recorded operation (its
      operation and the machine it ran on) is accepted with the same result. *)
  Lemma sop_of_request_replay d r x :
    sop_of_request I d r = Some x -> sop_of_request I d (req_of x) = Some x.
  Proof.
    intros H. pose proof (sop_of_request_fields d r x H) as [Hj Hp].
    unfold sop_of_request in *. unfold req_of. cbn [r_job r_pos r_mach]. rewrite Hj, Hp.
    destruct (get_op I (r_job r) (r_pos r)) as [o|]; [|discriminate].
    destruct (nthN (jnext d) (r_job r) =? r_pos r)%nat; [|discriminate].
    destruct (resolve_pure o (r_mach r)) as [m|e] eqn:Hres; [|discriminate].
    destruct (py_index (length (mfree d)) m) as [mi|] eqn:Hpi; [|discriminate].
    destruct (existsb (fun k : nat => Z.of_nat k =? m) (machines o)) eqn:Hel; [|discriminate].
    pose proof (existsb_elig _ _ Hel) as [Hin Hm].
    assert (Hmach : s_mach x = Z.to_nat m).
    { destruct (nth_error (sched d) (Z.to_nat m)) as [row|]; [|discriminate]. cbv zeta in H.
      destruct (last_opt row) as [y|]; [destruct (s_end I y <=? _); [|discriminate]|];
        inversion H; reflexivity. }
    unfold resolve_pure at 1. rewrite Hmach, <- Hm, Hpi, Hel. exact H.
  Qed.

  Theorem replay_core rs : forall d,
    fold_left (apply_req I) (map req_of (accepted_sops d rs)) d = fold_left (apply_req I) rs d.
  Proof.
    induction rs as [|r t IH]; intros d; simpl; [reflexivity|].
    destruct (sop_of_request I d r) as [x|] eqn:E.
    - assert (H1 : apply_req I d r = apply_sop I d x (row_of d x)) by (unfold apply_req; rewrite E; reflexivity).
      assert (H2 : apply_req I d (req_of x) = apply_sop I d x (row_of d x))
        by (unfold apply_req; rewrite (sop_of_request_replay d r x E); reflexivity).
      rewrite H1. simpl. rewrite H2. apply IH.
    - assert (H1 : apply_req I d r = d) by (unfold apply_req; rewrite E; reflexivity).
      rewrite H1. apply IH.
  Qed.
End Replay.

(** The history observer, subscribed from the start, records exactly the
    accepted dispatches. *)
Section History.
  Variable I : instance.

  Definition hist_world (fs : list fname) (d : dstate) (h : list sop) : wld :=
    mkw d empty_cache fs [OHist h] [0%nat].

  Lemma hist_step fs d h r :
    step_req obs o_update I (hist_world fs d h) r =
    match sop_of_request I d r with
    | Some x => hist_world fs (apply_sop I d x (row_of d x)) (h ++ [x])
    | None => hist_world fs d h
    end.
  Proof. rewrite step_req_sop. cbn [core hist_world]. destruct (sop_of_request I d r); reflexivity. Qed.

  Theorem history_records_accepted fs rs : forall d h,
    run_from obs o_update I (hist_world fs d h) rs =
    hist_world fs (fold_left (apply_req I) rs d) (h ++ accepted_sops I d rs).
  Proof.
    induction rs as [|r t IH]; intros d h; simpl.
    - rewrite app_nil_r. reflexivity.
    - unfold run_from in *. simpl. rewrite hist_step.
      destruct (sop_of_request I d r) as [x|] eqn:E.
      + assert (H1 : apply_req I d r = apply_sop I d x (row_of d x)) by (unfold apply_req; rewrite E; reflexivity).
        rewrite H1, IH. rewrite <- app_assoc. reflexivity.
      + assert (H1 : apply_req I d r = d) by (unfold apply_req; rewrite E; reflexivity).
        rewrite H1. apply IH.
  Qed.
End History.
