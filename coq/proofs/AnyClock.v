(** AnyClock.v — ongoing / completed at an ARBITRARY clock value.

    [Dispatcher.dispatch] never consults the ready-operations filter; the filter
    only enters the queries through [current_time()] (the minimum start time
    over the operations the filter lets through). Under a user-defined filter -
    any callable is accepted, the model's filter names enumerate the built-in
    ones only - the clock is therefore SOME integer [t] the model cannot
    compute; everything [ongoing_operations()], [completed_operations()] and
    [uncompleted_operations()] do with it is covered by the lemmas below, which
    hold for every [t]. *)
From JSL Require Import Base Instance Dstate Filters World Feasible ListFacts DispatchFun Inv Run Derived Tracking
     Partition Clock.
From Coq Require Import Lia.

Definition completed_at (I : instance) (t : Z) (d : dstate) : list (nat * nat) :=
  filter (fun k => negb (mem_key k (map key (ongoing_at I t (sched d))))) (p_sched I d).
Definition uncompleted_at (I : instance) (t : Z) (d : dstate) : list (nat * nat) :=
  p_unsched I d ++ map key (ongoing_at I t (sched d)).

Section AnyClock.
  Variable I : instance.
  Hypothesis Hv : valid I.
  Variable d : dstate.
  Hypothesis Hi : Inv I d.
  Variable t : Z.

  Lemma same_key_same_sop y z :
    In y (all_sops (sched d)) -> In z (all_sops (sched d)) -> key z = key y -> z = y.
  Proof.
    pose proof (i_nodup _ _ Hi) as Hnd. intros Hy Hz Hkk.
    induction (all_sops (sched d)) as [|a l IH]; [contradiction|].
    simpl in Hnd. inversion Hnd as [|? ? Hni Hnd']; subst.
    destruct Hz as [->|Hz], Hy as [->|Hy]; auto.
    - exfalso. apply Hni. apply in_map_iff. exists y. split; [congruence|exact Hy].
    - exfalso. apply Hni. apply in_map_iff. exists z. split; [congruence|exact Hz].
  Qed.

  Lemma completed_at_char k :
    In k (completed_at I t d) <-> exists y, In y (all_sops (sched d)) /\ key y = k /\ s_end I y <= t.
  Proof.
    unfold completed_at. rewrite filter_In, (scheduled_is_schedule I d Hi), negb_true_iff. split.
    - intros [Hin Hno]. apply in_map_iff in Hin. destruct Hin as (y & Hk & Hy). exists y. repeat split; auto.
      destruct (Z_le_dec (s_end I y) t) as [H|H]; [exact H|exfalso].
      assert (Hon : In y (ongoing_at I t (sched d))) by (apply (ongoing_char I Hv d Hi); split; [exact Hy|lia]).
      assert (Hmem : mem_key k (map key (ongoing_at I t (sched d))) = true)
        by (apply mem_key_In; apply in_map_iff; exists y; split; assumption).
      congruence.
    - intros (y & Hy & Hk & Hle). split; [apply in_map_iff; exists y; split; assumption|].
      destruct (mem_key k (map key (ongoing_at I t (sched d)))) eqn:E; [exfalso|reflexivity].
      apply mem_key_In in E. apply in_map_iff in E. destruct E as (z & Hkz & Hz).
      apply (ongoing_char I Hv d Hi) in Hz. destruct Hz as [Hz Hlt].
      assert (z = y) by (apply same_key_same_sop; [exact Hy|exact Hz|congruence]).
      subst z. lia.
  Qed.

  Lemma completed_ongoing_partition_at k :
    In k (p_sched I d) <-> (In k (completed_at I t d) \/ In k (map key (ongoing_at I t (sched d)))).
  Proof.
    unfold completed_at. rewrite filter_In. split.
    - intros H. destruct (mem_key k (map key (ongoing_at I t (sched d)))) eqn:E.
      + right. apply mem_key_In. exact E.
      + left. split; [exact H|reflexivity].
    - intros [[H _]|H]; [exact H|].
      apply (scheduled_is_schedule I d Hi). apply in_map_iff in H. destruct H as (x & Hk & Hx).
      apply in_map_iff. exists x. split; [exact Hk|].
      apply (ongoing_char I Hv d Hi) in Hx. exact (proj1 Hx).
  Qed.

  Lemma completed_ongoing_disjoint_at k :
    In k (completed_at I t d) -> ~ In k (map key (ongoing_at I t (sched d))).
  Proof.
    unfold completed_at. rewrite filter_In. intros [_ H] Hin. apply mem_key_In in Hin.
    rewrite Hin in H. discriminate.
  Qed.
End AnyClock.

(** The built-in clock is one such [t]. *)
Lemma completed_at_now I fs d : completed_at I (p_now I fs d) d = p_completed I fs d.
Proof. reflexivity. Qed.
