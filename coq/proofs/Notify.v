(** Notify.v — C10: who is notified, how often, seeing which state. *)
From JSL Require Import Base Instance Dstate Filters World Observers Feasible ListFacts DispatchFun Run Replay.
From Coq Require Import Lia.

Section Notify.
  Variable O : Type.

  Lemma notify_one_length (f : O -> O) os i : length (notify_one f os i) = length os.
  Proof. unfold notify_one. destruct (nth_error os i); [apply length_upd|reflexivity]. Qed.

  Lemma notify_one_other (f : O -> O) os i j : i <> j -> nth_error (notify_one f os i) j = nth_error os j.
  Proof. intros H. unfold notify_one. destruct (nth_error os i); [apply nth_error_upd_neq; exact H|reflexivity]. Qed.

  Lemma notify_one_same (f : O -> O) os i : nth_error (notify_one f os i) i = option_map f (nth_error os i).
  Proof.
    unfold notify_one. destruct (nth_error os i) as [o|] eqn:E; simpl.
    - apply nth_error_upd_eq. apply nth_error_Some. congruence.
    - exact E.
  Qed.

  (** The notification loop calls [f] on the state of every subscriber exactly
      once, and on nobody else. *)
  Theorem notify_all_spec (f : O -> O) ss : forall os i,
    NoDup ss ->
    nth_error (notify_all f ss os) i =
    if mem_nat i ss then option_map f (nth_error os i) else nth_error os i.
  Proof.
    induction ss as [|s t IH]; intros os i Hnd; simpl; [reflexivity|].
    inversion Hnd as [|? ? Hni Hnd']; subst. unfold notify_all in *. simpl.
    rewrite IH by exact Hnd'.
    destruct (i =? s)%nat eqn:E; simpl.
    - apply Nat.eqb_eq in E. subst s.
      destruct (mem_nat i t) eqn:Em; [apply mem_nat_In in Em; contradiction|].
      apply notify_one_same.
    - apply Nat.eqb_neq in E. rewrite notify_one_other by congruence. reflexivity.
  Qed.

  (** More generally (duplicates allowed): [f] is applied as many times as the
      object occurs in the subscriber list. *)
  Fixpoint iter_n (n : nat) (f : O -> O) (x : O) : O := match n with 0%nat => x | S k => iter_n k f (f x) end.
  Theorem notify_all_count (f : O -> O) ss : forall os i,
    nth_error (notify_all f ss os) i = option_map (iter_n (count_occ Nat.eq_dec ss i) f) (nth_error os i).
  Proof.
    induction ss as [|s t IH]; intros os i; simpl.
    - destruct (nth_error os i); reflexivity.
    - unfold notify_all in *. simpl. rewrite IH. destruct (Nat.eq_dec s i) as [->|Hne].
      + rewrite notify_one_same. destruct (nth_error os i); reflexivity.
      + rewrite notify_one_other by exact Hne. reflexivity.
  Qed.
End Notify.

Lemma NoDup_app_intro_single {A} (l : list A) x : NoDup l -> ~ In x l -> NoDup (l ++ [x]).
Proof.
  induction l as [|y t IH]; simpl; intros Hnd Hni; [constructor; [tauto|constructor]|].
  inversion Hnd as [|? ? H1 H2]; subst. constructor.
  - rewrite in_app_iff. simpl. intros [H|[H|[]]]; [contradiction|subst; tauto].
  - apply IH; tauto.
Qed.

Section C10.
  Variable I : instance.

  (** An accepted dispatch: every subscriber is handed the operation that was
      just appended, together with the dispatcher state AFTER the dispatch
      took effect (rows and tracking vectors updated, cache already emptied). *)
  Theorem accepted_notifies_post_state (w : wld) r x :
    sop_of_request I (core w) r = Some x ->
    let w' := step_req obs o_update I w r in
    objs w' = notify_all (o_update I (filt w) (core w') x) (subs w) (objs w) /\
    wcache w' = empty_cache /\ subs w' = subs w /\
    sched (core w') = upd (sched (core w)) (s_mach x) (row_of (core w) x ++ [x]).
  Proof. intros E w'. unfold w'. rewrite step_req_sop, E. cbn. repeat split. Qed.

  Theorem rejected_notifies_nobody (w : wld) r :
    sop_of_request I (core w) r = None -> step_req obs o_update I w r = w.
  Proof. intros E. rewrite step_req_sop, E. reflexivity. Qed.

  Theorem reset_notifies_post_state (w : wld) :
    let w' := fst (reset o_reset I w) in
    core w' = init_d I /\ wcache w' = empty_cache /\ subs w' = subs w /\
    objs w' = notify_all (o_reset I (filt w) (init_d I)) (subs w) (objs w).
  Proof. destruct w as [[mf jn jf sc] c f os ss]. cbn. repeat split. Qed.

  (** singleton guard *)
  Theorem singleton_not_subscribed_twice (w : wld) k :
    is_singleton k = true -> existsb (is_instance k) (subscribed_kinds w) = true ->
    new_observer I k w = (w, inr EValidation).
  Proof.
    intros Hs He. unfold new_observer, new_observer_gen, bind, get. cbn. rewrite Hs, He. reflexivity.
  Qed.

  (** create-or-get returns the first subscribed observer of the class that
      satisfies the condition, and changes nothing. *)
  Theorem create_or_get_returns_match (w : wld) k al i :
    find_sub (objs w) k al (subs w) = Some i -> create_or_get I k al w = (w, inl i).
  Proof. intros H. unfold create_or_get, bind, get. cbn. rewrite H. reflexivity. Qed.

  Lemma find_sub_sound os k al ss i :
    find_sub os k al ss = Some i ->
    In i ss /\ cond_ok al i = true /\ exists o, nth_error os i = Some o /\ is_instance k (kind_of o) = true.
  Proof.
    induction ss as [|s t IH]; simpl; [discriminate|].
    destruct (nth_error os s) as [o|] eqn:E.
    - destruct (is_instance k (kind_of o) && cond_ok al s) eqn:Ek.
      + intros H; inversion H; subst. apply andb_true_iff in Ek. destruct Ek. repeat split; eauto.
      + intros H. destruct (IH H) as (? & ? & ?). auto.
    - intros H. destruct (IH H) as (? & ? & ?). auto.
  Qed.

  Lemma find_sub_complete os k al ss :
    find_sub os k al ss = None ->
    forall i o, In i ss -> nth_error os i = Some o -> is_instance k (kind_of o) && cond_ok al i = false.
  Proof.
    induction ss as [|s t IH]; simpl; intros H i o Hin Ho; [contradiction|].
    destruct (nth_error os s) as [o'|] eqn:E.
    - destruct (is_instance k (kind_of o') && cond_ok al s) eqn:Ek; [discriminate|].
      destruct Hin as [->|Hin]; [rewrite E in Ho; inversion Ho; subst; exact Ek|eauto].
    - destruct Hin as [->|Hin]; [congruence|eauto].
  Qed.

  (** Subscriber lists built by constructors never contain an object twice. *)
  Definition SubsOK (w : wld) : Prop := NoDup (subs w) /\ forall i, In i (subs w) -> (i < length (objs w))%nat.

  Lemma SubsOK_init fs : SubsOK (init_w obs I fs).
  Proof. split; [constructor|intros i []]. Qed.

  Lemma new_observer_SubsOK k w : SubsOK w -> SubsOK (fst (new_observer I k w)).
  Proof.
    intros [Hnd Hr]. destruct w as [d c f os ss]. unfold new_observer, new_observer_gen, bind, get. cbn in *.
    match goal with |- context [if ?b then _ else _] => destruct b end; cbn; [split; assumption|].
    split.
    - apply NoDup_app_intro_single; [exact Hnd|]. intro Hin. apply Hr in Hin. lia.
    - intros i Hin. apply in_app_iff in Hin.
      assert (Hl : length (os ++ [o_construct I d k]) = S (length os)) by (rewrite app_length; simpl; lia).
      cbn [objs]. rewrite Hl.
      destruct Hin as [Hin|[<-|[]]]; [apply Hr in Hin|]; lia.
  Qed.
End C10.
