(** RulesProofs.v — C04, the rules as functions: Python's [min]/[max] return
    an optimum of the list, the per-job accumulators are the per-job sums,
    hence every deterministic rule returns a best available operation under
    its documented criterion; the (repaired) tie-breaker returns a
    lexicographically best one and never raises on a non-empty candidate list. *)
From JSL Require Import Base Instance Dstate Filters World Feasible Derived ListFacts
     RuleObservers Rules RulesSpec.
From Coq Require Import Lia.

(** ** [min] / [max] with a key *)

Lemma py_min_from_spec {A} (f : A -> Z) l : forall best,
  (py_min_from f best l = best \/ In (py_min_from f best l) l) /\
  f (py_min_from f best l) <= f best /\
  (forall x, In x l -> f (py_min_from f best l) <= f x).
Proof.
  induction l as [|x t IH]; intros best; simpl.
  - split; [left; reflexivity|]. split; [lia|intros x []].
  - destruct (IH (if f x <? f best then x else best)) as (H1 & H2 & H3).
    destruct (f x <? f best) eqn:E; [apply Z.ltb_lt in E|apply Z.ltb_ge in E].
    + split; [destruct H1 as [H1|H1]; [right; left; symmetry; exact H1|right; right; exact H1]|].
      split; [lia|]. intros y [<-|Hy]; [exact H2|apply H3; exact Hy].
    + split; [destruct H1 as [H1|H1]; [left; exact H1|right; right; exact H1]|].
      split; [exact H2|]. intros y [<-|Hy]; [lia|apply H3; exact Hy].
Qed.

Lemma py_min_spec {A} (f : A -> Z) l k :
  py_min f l = Some k -> In k l /\ forall x, In x l -> f k <= f x.
Proof.
  destruct l as [|a t]; simpl; [discriminate|]. intros H; inversion H; subst k.
  destruct (py_min_from_spec f t a) as (H1 & H2 & H3). split.
  - destruct H1 as [H1|H1]; [left; symmetry; exact H1|right; exact H1].
  - intros x [<-|Hx]; [exact H2|apply H3; exact Hx].
Qed.

Lemma py_min_some {A} (f : A -> Z) l : l <> [] -> exists k, py_min f l = Some k.
Proof. destruct l; [congruence|]. intros _. eexists; reflexivity. Qed.

Lemma py_max_from_spec {A} (f : A -> Z) l : forall best,
  (py_max_from f best l = best \/ In (py_max_from f best l) l) /\
  f best <= f (py_max_from f best l) /\
  (forall x, In x l -> f x <= f (py_max_from f best l)).
Proof.
  induction l as [|x t IH]; intros best; simpl.
  - split; [left; reflexivity|]. split; [lia|intros x []].
  - destruct (IH (if f best <? f x then x else best)) as (H1 & H2 & H3).
    destruct (f best <? f x) eqn:E; [apply Z.ltb_lt in E|apply Z.ltb_ge in E].
    + split; [destruct H1 as [H1|H1]; [right; left; symmetry; exact H1|right; right; exact H1]|].
      split; [lia|]. intros y [<-|Hy]; [exact H2|apply H3; exact Hy].
    + split; [destruct H1 as [H1|H1]; [left; exact H1|right; right; exact H1]|].
      split; [exact H2|]. intros y [<-|Hy]; [lia|apply H3; exact Hy].
Qed.

Lemma py_max_spec {A} (f : A -> Z) l k :
  py_max f l = Some k -> In k l /\ forall x, In x l -> f x <= f k.
Proof.
  destruct l as [|a t]; simpl; [discriminate|]. intros H; inversion H; subst k.
  destruct (py_max_from_spec f t a) as (H1 & H2 & H3). split.
  - destruct H1 as [H1|H1]; [left; symmetry; exact H1|right; exact H1].
  - intros x [<-|Hx]; [exact H2|apply H3; exact Hx].
Qed.

Lemma py_max_some {A} (f : A -> Z) l : l <> [] -> exists k, py_max f l = Some k.
Proof. destruct l; [congruence|]. intros _. eexists; reflexivity. Qed.

(** "first optimum": everything before the result is strictly worse *)
Lemma py_min_from_first {A} (f : A -> Z) l : forall best,
  py_min_from f best l = best \/
  exists l1 l2, l = l1 ++ py_min_from f best l :: l2 /\
                f (py_min_from f best l) < f best /\
                forall x, In x l1 -> f (py_min_from f best l) < f x.
Proof.
  induction l as [|x t IH]; intros best; simpl; [left; reflexivity|].
  destruct (f x <? f best) eqn:E; [apply Z.ltb_lt in E|apply Z.ltb_ge in E].
  - destruct (IH x) as [H|(l1 & l2 & H1 & H2 & H3)].
    + right. exists [], t. rewrite H. simpl. split; [reflexivity|]. split; [exact E|intros y []].
    + right. exists (x :: l1), l2. split; [simpl; f_equal; exact H1|]. split; [lia|].
      intros y [<-|Hy]; [exact H2|apply H3; exact Hy].
  - destruct (IH best) as [H|(l1 & l2 & H1 & H2 & H3)]; [left; exact H|].
    right. exists (x :: l1), l2. split; [simpl; f_equal; exact H1|]. split; [exact H2|].
    intros y [<-|Hy]; [lia|apply H3; exact Hy].
Qed.

Lemma py_min_first {A} (f : A -> Z) l k :
  py_min f l = Some k -> exists l1 l2, l = l1 ++ k :: l2 /\ forall x, In x l1 -> f k < f x.
Proof.
  destruct l as [|a t]; simpl; [discriminate|]. intros H; inversion H; subst k.
  destruct (py_min_from_first f t a) as [E|(l1 & l2 & H1 & H2 & H3)].
  - rewrite E. exists [], t. split; [reflexivity|intros x []].
  - exists (a :: l1), l2. split; [simpl; f_equal; exact H1|].
    intros x [<-|Hx]; [exact H2|apply H3; exact Hx].
Qed.

Lemma py_max_from_first {A} (f : A -> Z) l : forall best,
  py_max_from f best l = best \/
  exists l1 l2, l = l1 ++ py_max_from f best l :: l2 /\
                f best < f (py_max_from f best l) /\
                forall x, In x l1 -> f x < f (py_max_from f best l).
Proof.
  induction l as [|x t IH]; intros best; simpl; [left; reflexivity|].
  destruct (f best <? f x) eqn:E; [apply Z.ltb_lt in E|apply Z.ltb_ge in E].
  - destruct (IH x) as [H|(l1 & l2 & H1 & H2 & H3)].
    + right. exists [], t. rewrite H. simpl. split; [reflexivity|]. split; [exact E|intros y []].
    + right. exists (x :: l1), l2. split; [simpl; f_equal; exact H1|]. split; [lia|].
      intros y [<-|Hy]; [exact H2|apply H3; exact Hy].
  - destruct (IH best) as [H|(l1 & l2 & H1 & H2 & H3)]; [left; exact H|].
    right. exists (x :: l1), l2. split; [simpl; f_equal; exact H1|]. split; [exact H2|].
    intros y [<-|Hy]; [lia|apply H3; exact Hy].
Qed.

Lemma py_max_first {A} (f : A -> Z) l k :
  py_max f l = Some k -> exists l1 l2, l = l1 ++ k :: l2 /\ forall x, In x l1 -> f x < f k.
Proof.
  destruct l as [|a t]; simpl; [discriminate|]. intros H; inversion H; subst k.
  destruct (py_max_from_first f t a) as [E|(l1 & l2 & H1 & H2 & H3)].
  - rewrite E. exists [], t. split; [reflexivity|intros x []].
  - exists (a :: l1), l2. split; [simpl; f_equal; exact H1|].
    intros x [<-|Hx]; [exact H2|apply H3; exact Hx].
Qed.

Lemma choice_In {A} (draw : nat) (l : list A) k : choice draw l = Some k -> In k l.
Proof. unfold choice. destruct l; [discriminate|]. apply nth_error_In. Qed.

Lemma choice_some {A} (draw : nat) (l : list A) : l <> [] -> exists k, choice draw l = Some k.
Proof.
  intros H. unfold choice. destruct l as [|a t]; [congruence|].
  destruct (nth_error (a :: t) (draw mod length (a :: t))) as [k|] eqn:E; [eauto|].
  apply nth_error_None in E.
  assert (Hb : (draw mod length (a :: t) < length (a :: t))%nat) by (apply Nat.mod_upper_bound; discriminate).
  lia.
Qed.

(** ** The per-job accumulators *)

Lemma acc_fold_length wt l : forall acc, length (fold_left (acc_step wt) l acc) = length acc.
Proof.
  induction l as [|k t IH]; intros acc; simpl; [reflexivity|].
  rewrite IH. unfold acc_step. apply length_upd.
Qed.

Lemma acc_fold_nth wt l j : forall acc, (j < length acc)%nat ->
  nthZ (fold_left (acc_step wt) l acc) j = nthZ acc j + sumZ (map wt (filter (of_job j) l)).
Proof.
  induction l as [|k t IH]; intros acc Hj; simpl; [lia|].
  rewrite IH by (unfold acc_step; rewrite length_upd; exact Hj).
  change (of_job j k) with (fst k =? j)%nat. unfold acc_step, nthZ.
  destruct (fst k =? j)%nat eqn:E.
  - apply Nat.eqb_eq in E. subst j. rewrite nth_upd_eq by exact Hj. unfold sumZ. cbn [map fold_right]. lia.
  - apply Nat.eqb_neq in E. rewrite nth_upd_neq by exact E. lia.
Qed.

Lemma nthZ_repeat0 n j : nthZ (repeat 0 n) j = 0.
Proof. unfold nthZ. apply nth_repeat_default. Qed.

Theorem acc_by_job_nth wt n l j : (j < n)%nat ->
  nthZ (acc_by_job wt n l) j = sumZ (map wt (filter (of_job j) l)).
Proof.
  intros Hj. unfold acc_by_job. rewrite acc_fold_nth by (rewrite repeat_length; exact Hj).
  rewrite nthZ_repeat0. lia.
Qed.

Lemma acc_by_job_length wt n l : length (acc_by_job wt n l) = n.
Proof. unfold acc_by_job. rewrite acc_fold_length. apply repeat_length. Qed.

Lemma sumZ_ones {A} (l : list A) : sumZ (map (fun _ => 1) l) = Z.of_nat (length l).
Proof. induction l as [|x t IH]; [reflexivity|]. unfold sumZ in *. cbn [map fold_right length]. rewrite IH. lia. Qed.

(** ** The four deterministic rules *)
Section RulesBest.
  Variable I : instance.
  Variable fs : list fname.
  Variable d : dstate.
  (** job ids of available operations are job ids of the instance (they are
      ready operations: C07 [available_sublist_ready]) *)
  Hypothesis Hjobs : forall k, In k (available I d fs) -> (fst k < num_jobs I)%nat.

  Theorem spt_of_best k : spt_of I (available I d fs) = Some k -> spt_best I fs d k.
  Proof. intros H. apply py_min_spec in H. exact H. Qed.

  Theorem fcfs_of_best k : fcfs_of (available I d fs) = Some k -> fcfs_best I fs d k.
  Proof. intros H. apply py_min_spec in H. exact H. Qed.

  Lemma mwkr_score k : In k (available I d fs) ->
    score_at (acc_by_job (kdur I) (num_jobs I) (unscheduled_ops I d)) k = mwkr_key I d k.
  Proof. intros Hk. unfold score_at, mwkr_key, remaining_work. apply acc_by_job_nth. apply Hjobs; exact Hk. Qed.

  Theorem mwkr_of_best k :
    mwkr_of I (unscheduled_ops I d) (available I d fs) = Some k -> mwkr_best I fs d k.
  Proof.
    intros H. apply py_max_spec in H. destruct H as [Hin Hmax]. split; [exact Hin|].
    intros k' Hk'. rewrite <- (mwkr_score k' Hk'), <- (mwkr_score k Hin). apply Hmax; exact Hk'.
  Qed.

  Lemma mopnr_score k : In k (available I d fs) ->
    score_at (acc_by_job (fun _ => 1) (num_jobs I) (p_uncompleted I fs d)) k = mopnr_key I fs d k.
  Proof.
    intros Hk. unfold score_at, mopnr_key, remaining_ops.
    rewrite acc_by_job_nth by (apply Hjobs; exact Hk). apply sumZ_ones.
  Qed.

  Theorem mopnr_of_best k :
    mopnr_of I (p_uncompleted I fs d) (available I d fs) = Some k -> mopnr_best I fs d k.
  Proof.
    intros H. apply py_max_spec in H. destruct H as [Hin Hmax]. split; [exact Hin|].
    intros k' Hk'. rewrite <- (mopnr_score k' Hk'), <- (mopnr_score k Hin). apply Hmax; exact Hk'.
  Qed.

  (** [score_based_rule]: a maximiser of the per-job score among the available *)
  Theorem score_based_of_best sc k :
    score_based_of sc (available I d fs) = Some k -> max_by (score_at sc) (available I d fs) k.
  Proof. intros H. apply py_max_spec in H. exact H. Qed.
End RulesBest.

(** ** The tie-breaker *)

Lemma lex_le_refl a : lex_le a a.
Proof. induction a as [|x a IH]; simpl; [exact Logic.I|]. right. split; [reflexivity|exact IH]. Qed.

Lemma best_score_spec sc cands best :
  best_score sc cands = Some best ->
  (exists k, In k cands /\ score_at sc k = best) /\ forall k, In k cands -> score_at sc k <= best.
Proof.
  unfold best_score. intros H. apply py_max_spec in H. destruct H as [Hin Hmax]. split.
  - apply in_map_iff in Hin. destruct Hin as (k & Hk & Hin). exists k. split; assumption.
  - intros k Hk. apply Hmax. apply in_map. exact Hk.
Qed.

Lemma best_score_some sc cands : cands <> [] -> exists best, best_score sc cands = Some best.
Proof.
  intros H. unfold best_score. apply py_max_some. destruct cands; [congruence|discriminate].
Qed.

Lemma keep_best_In sc best cands k : In k (keep_best sc best cands) <-> In k cands /\ score_at sc k = best.
Proof. unfold keep_best. rewrite filter_In, Z.eqb_eq. tauto. Qed.

Theorem tb_of_lex_best vs : forall cands, cands <> [] ->
  exists k, tb_of vs cands = inl k /\ lex_best vs cands k.
Proof.
  induction vs as [|sc rest IH]; intros cands Hne.
  - destruct cands as [|x t]; [congruence|]. exists x. simpl. split; [reflexivity|].
    split; [left; reflexivity|]. intros k' _. exact Logic.I.
  - simpl. destruct (best_score_some sc cands Hne) as [best Hb]. rewrite Hb.
    destruct (best_score_spec sc cands best Hb) as ((k0 & Hk0 & Hs0) & Hmax).
    assert (Hk0' : In k0 (keep_best sc best cands)) by (apply keep_best_In; auto).
    assert (Hgen : forall k, In k (keep_best sc best cands) ->
                     lex_best rest (keep_best sc best cands) k -> lex_best (sc :: rest) cands k).
    { intros k Hk [_ Hlex]. apply keep_best_In in Hk. destruct Hk as [Hkc Hks]. split; [exact Hkc|].
      intros k' Hk'. simpl. fold (score_at sc k') (score_at sc k).
      pose proof (Hmax k' Hk') as Hle. rewrite Hks.
      destruct (Z.eq_dec (score_at sc k') best) as [E|Hneq]; [|left; lia].
      right. split; [exact E|]. apply Hlex. apply keep_best_In. auto. }
    destruct (keep_best sc best cands) as [|x [|y t]] eqn:E.
    + contradiction.
    + exists x. split; [reflexivity|]. apply Hgen; [left; reflexivity|].
      split; [left; reflexivity|]. intros k' [<-|[]]. apply lex_le_refl.
    + destruct (IH (x :: y :: t)) as (k & Hk & Hlex); [discriminate|].
      exists k. split; [exact Hk|]. apply Hgen; [apply Hlex|exact Hlex].
Qed.

(** the defect of the unrepaired loop: with [max(scores)] over all jobs the
    candidate list can become empty, then [candidates[0]] raises *)
Lemma tb_unrepaired_can_raise :
  exists vs cands, cands <> [] /\ tb_unrepaired vs cands = inr EIndex.
Proof. exists [[0; -3]], [(1, 0)%nat]. split; [discriminate|reflexivity]. Qed.
