(** GraphFacts.v — generic facts about the graph model: the edge map under
    [set_edge] (last write wins, keys stay unique), [add_edges], the pair
    enumerations, [add_node] / [add_nodes] and the index rows they extend. *)
From JSL Require Import Base Instance Dstate Graph ListFacts OpIds.
From Coq Require Import Lia.

(** ** Edge map *)

Definition ekey (e : edge) : nat * nat := (e_src e, e_dst e).
Definition keyb (e : edge) (u v : nat) : bool := ((e_src e =? u) && (e_dst e =? v))%nat.

Lemma keyb_true e u v : keyb e u v = true <-> ekey e = (u, v).
Proof.
  unfold keyb, ekey. rewrite andb_true_iff, !Nat.eqb_eq. split.
  - intros [-> ->]. reflexivity.
  - intros H. inversion H. auto.
Qed.

Lemma lookup_set_same es u v t : lookup_edge (set_edge es u v t) u v = Some t.
Proof.
  induction es as [|e r IH]; simpl.
  - unfold e_src, e_dst. simpl. rewrite !Nat.eqb_refl. reflexivity.
  - fold (keyb e u v). destruct (keyb e u v) eqn:E; simpl.
    + unfold e_src, e_dst. simpl. rewrite !Nat.eqb_refl. reflexivity.
    + fold (keyb e u v). rewrite E. exact IH.
Qed.

Lemma lookup_set_other es u v t u' v' :
  (u, v) <> (u', v') -> lookup_edge (set_edge es u v t) u' v' = lookup_edge es u' v'.
Proof.
  intros Hne. induction es as [|e r IH]; simpl.
  - fold (keyb (u, v, t) u' v'). destruct (keyb (u, v, t) u' v') eqn:E; [|reflexivity].
    apply keyb_true in E. unfold ekey, e_src, e_dst in E. simpl in E. congruence.
  - fold (keyb e u v). destruct (keyb e u v) eqn:E; simpl.
    + fold (keyb (u, v, t) u' v') (keyb e u' v').
      destruct (keyb (u, v, t) u' v') eqn:E1.
      * apply keyb_true in E1. unfold ekey, e_src, e_dst in E1. simpl in E1. congruence.
      * destruct (keyb e u' v') eqn:E2; [|reflexivity].
        apply keyb_true in E. apply keyb_true in E2. congruence.
    + fold (keyb e u' v'). destruct (keyb e u' v'); [reflexivity|exact IH].
Qed.

Lemma set_edge_keys es u v t k :
  In k (map ekey (set_edge es u v t)) <-> k = (u, v) \/ In k (map ekey es).
Proof.
  induction es as [|e r IH]; simpl.
  - unfold ekey at 1, e_src, e_dst. simpl. split; intros [H|H]; auto.
  - fold (keyb e u v). destruct (keyb e u v) eqn:E; simpl.
    + apply keyb_true in E. unfold ekey at 1, e_src, e_dst. simpl. rewrite E.
      split; intros H; intuition.
    + rewrite IH. split; intros H; intuition.
Qed.

Definition keys_nodup (es : list edge) : Prop := NoDup (map ekey es).

Lemma set_edge_nodup es u v t : keys_nodup es -> keys_nodup (set_edge es u v t).
Proof.
  unfold keys_nodup. induction es as [|e r IH]; simpl; intros H.
  - constructor; [intros []|constructor].
  - fold (keyb e u v). destruct (keyb e u v) eqn:E; simpl.
    + apply keyb_true in E. unfold ekey at 1, e_src, e_dst. simpl. rewrite <- E. exact H.
    + inversion H as [|? ? Hni Hnd]; subst. constructor; [|apply IH; exact Hnd].
      intros Hin. apply set_edge_keys in Hin. destruct Hin as [Hk|Hin]; [|contradiction].
      assert (keyb e u v = true) by (apply keyb_true; exact Hk). congruence.
Qed.

Lemma In_lookup es u v t : keys_nodup es -> (In (u, v, t) es <-> lookup_edge es u v = Some t).
Proof.
  unfold keys_nodup. induction es as [|e r IH]; simpl; intros H.
  - split; [tauto|discriminate].
  - inversion H as [|? ? Hni Hnd]; subst. fold (keyb e u v). destruct (keyb e u v) eqn:E.
    + apply keyb_true in E. split.
      * intros [->|Hin]; [reflexivity|].
        exfalso. apply Hni. rewrite E. change (u, v) with (ekey (u, v, t)). apply in_map. exact Hin.
      * intros Ht. left. destruct e as [[a b] s]. unfold ekey, e_src, e_dst in E. simpl in *.
        inversion E; inversion Ht; subst. reflexivity.
    + rewrite <- IH by exact Hnd. split; [|auto]. intros [->|Hin]; [|exact Hin].
      unfold keyb, e_src, e_dst in E. simpl in E. rewrite !Nat.eqb_refl in E. discriminate.
Qed.

(** The last [add_edge] call on the pair [(u, v)] in a list of calls. *)
Fixpoint last_write (l : list edge) (u v : nat) : option etype :=
  match l with
  | [] => None
  | e :: r => match last_write r u v with
              | Some t => Some t
              | None => if keyb e u v then Some (e_type e) else None
              end
  end.

Lemma lookup_fold l u v : forall es,
  lookup_edge (fold_left set_edge' l es) u v =
  match last_write l u v with Some t => Some t | None => lookup_edge es u v end.
Proof.
  induction l as [|e r IH]; intros es; simpl; [reflexivity|].
  rewrite IH. destruct (last_write r u v) as [t|]; [reflexivity|].
  unfold set_edge'. destruct (keyb e u v) eqn:E.
  - apply keyb_true in E. unfold ekey in E. inversion E. apply lookup_set_same.
  - apply lookup_set_other. intros Hc. assert (keyb e u v = true) by (apply keyb_true; exact Hc). congruence.
Qed.

Lemma fold_nodup l : forall es, keys_nodup es -> keys_nodup (fold_left set_edge' l es).
Proof.
  induction l as [|e r IH]; intros es H; simpl; [exact H|]. apply IH. apply set_edge_nodup. exact H.
Qed.

(** After a sequence of [add_edge] calls on an empty DiGraph, the edge
    [(u, v)] is there with type [t] iff the last call on [(u, v)] wrote [t]. *)
Theorem edges_of_writes l u v t :
  In (u, v, t) (fold_left set_edge' l []) <-> last_write l u v = Some t.
Proof.
  rewrite In_lookup by (apply fold_nodup; constructor).
  rewrite lookup_fold. simpl. destruct (last_write l u v); tauto.
Qed.

Lemma last_write_app l1 l2 u v :
  last_write (l1 ++ l2) u v =
  match last_write l2 u v with Some t => Some t | None => last_write l1 u v end.
Proof.
  induction l1 as [|e r IH]; simpl.
  - destruct (last_write l2 u v); reflexivity.
  - rewrite IH. destruct (last_write l2 u v); reflexivity.
Qed.

Lemma last_write_In l u v t : last_write l u v = Some t -> In (u, v, t) l.
Proof.
  induction l as [|e r IH]; simpl; [discriminate|].
  destruct (last_write r u v) as [t'|].
  - intros H. inversion H; subst. right. apply IH. reflexivity.
  - destruct (keyb e u v) eqn:E; [|discriminate]. intros H. inversion H; subst.
    apply keyb_true in E. left. destruct e as [[a b] s]. unfold ekey, e_src, e_dst, e_type in *.
    simpl in *. inversion E. reflexivity.
Qed.

Lemma In_last_write l u v t : In (u, v, t) l -> exists t', last_write l u v = Some t'.
Proof.
  induction l as [|e r IH]; simpl; [tauto|]. intros [->|H].
  - destruct (last_write r u v) as [t'|]; [eauto|].
    unfold keyb, e_src, e_dst. simpl. rewrite !Nat.eqb_refl. simpl. eauto.
  - destruct (IH H) as [t' ->]. eauto.
Qed.

(** A block of calls that all write the same type [t0] on the pairs [P]. *)
Lemma last_write_char l t0 (P : nat -> nat -> Prop) :
  (forall u v t, In (u, v, t) l <-> t = t0 /\ P u v) ->
  forall u v, (forall t, last_write l u v = Some t <-> t = t0 /\ P u v) /\
              (last_write l u v = None <-> ~ P u v).
Proof.
  intros H u v. split.
  - intros t. split.
    + intros Hl. apply H. apply last_write_In. exact Hl.
    + intros [-> Hp]. assert (Hin : In (u, v, t0) l) by (apply H; auto).
      destruct (In_last_write _ _ _ _ Hin) as [t' Ht']. rewrite Ht'.
      apply last_write_In in Ht'. apply H in Ht'. destruct Ht' as [-> _]. reflexivity.
  - split.
    + intros Hn Hp. assert (Hin : In (u, v, t0) l) by (apply H; auto).
      destruct (In_last_write _ _ _ _ Hin) as [t' Ht']. congruence.
    + intros Hn. destruct (last_write l u v) as [t|] eqn:E; [|reflexivity].
      apply last_write_In in E. apply H in E. tauto.
Qed.

(** ** add_edges *)

Lemma has_node_with_edges g es u : has_node (with_edges g es) u = has_node g u.
Proof. reflexivity. Qed.

Lemma add_edges_ok l : forall g,
  (forall e, In e l -> has_node g (e_src e) = true /\ has_node g (e_dst e) = true) ->
  add_edges g l = Some (with_edges g (fold_left set_edge' l (g_edges g))).
Proof.
  induction l as [|e r IH]; intros g H; simpl.
  - destruct g; reflexivity.
  - unfold add_edge. destruct (H e (or_introl eq_refl)) as [-> ->]. simpl.
    rewrite IH.
    + reflexivity.
    + intros e' He'. rewrite !has_node_with_edges. apply H. right. exact He'.
Qed.

(** ** Pairs *)

Lemma combinations_In {A} (l : list A) a b : In (a, b) (combinations l) -> In a l /\ In b l.
Proof.
  induction l as [|x t IH]; simpl; [tauto|]. intros H. apply in_app_iff in H. destruct H as [H|H].
  - apply in_map_iff in H. destruct H as (y & E & Hy). inversion E; subst. auto.
  - destruct (IH H). auto.
Qed.

Lemma combinations_neq {A} (l : list A) a b : NoDup l -> In (a, b) (combinations l) -> a <> b.
Proof.
  induction l as [|x t IH]; simpl; [tauto|]. intros Hnd H. inversion Hnd as [|? ? Hni Hnd']; subst.
  apply in_app_iff in H. destruct H as [H|H].
  - apply in_map_iff in H. destruct H as (y & E & Hy). inversion E; subst. intros ->. contradiction.
  - apply IH; assumption.
Qed.

Lemma combinations_total {A} (l : list A) a b :
  In a l -> In b l -> a <> b -> In (a, b) (combinations l) \/ In (b, a) (combinations l).
Proof.
  induction l as [|x t IH]; simpl; [tauto|]. intros [->|Ha] [->|Hb] Hne.
  - congruence.
  - left. apply in_app_iff. left. apply in_map. exact Hb.
  - right. apply in_app_iff. left. apply in_map. exact Ha.
  - destruct (IH Ha Hb Hne) as [H|H]; [left|right]; apply in_app_iff; right; exact H.
Qed.

(** [add_edge(a, b); add_edge(b, a)] for every pair of a duplicate-free list:
    all ordered pairs of distinct elements. *)
Lemma both_combinations (l : list nat) t0 u v t :
  NoDup l ->
  (In (u, v, t) (flat_map (both t0) (combinations l)) <-> t = t0 /\ In u l /\ In v l /\ u <> v).
Proof.
  intros Hnd. rewrite in_flat_map. split.
  - intros ([a b] & Hc & He). pose proof (combinations_In _ _ _ Hc) as [Ha Hb].
    pose proof (combinations_neq _ _ _ Hnd Hc) as Hne. unfold both in He. simpl in He.
    destruct He as [E|[E|[]]]; inversion E; subst; auto.
  - intros (-> & Hu & Hv & Hne). destruct (combinations_total _ _ _ Hu Hv Hne) as [H|H].
    + exists (u, v). split; [exact H|]. left. reflexivity.
    + exists (v, u). split; [exact H|]. right. left. reflexivity.
Qed.

Lemma consecutive_nth {A} (l : list A) a b :
  In (a, b) (consecutive l) <-> exists i, nth_error l i = Some a /\ nth_error l (S i) = Some b.
Proof.
  induction l as [|x t IH]; [simpl; split; [tauto|intros ([|i] & H & _); discriminate]|].
  destruct t as [|y t'].
  - simpl. split; [tauto|]. intros ([|i] & H1 & H2); simpl in *; [discriminate|destruct i; discriminate].
  - change (consecutive (x :: y :: t')) with ((x, y) :: consecutive (y :: t')). simpl In. rewrite IH. split.
    + intros [E|(i & H1 & H2)].
      * inversion E; subst. exists 0%nat. auto.
      * exists (S i). auto.
    + intros ([|i] & H1 & H2).
      * left. simpl in H1, H2. inversion H1; inversion H2; reflexivity.
      * right. exists i. auto.
Qed.

Lemma consecutive_split {A} (l : list A) a b :
  In (a, b) (consecutive l) <-> exists l1 l2, l = l1 ++ a :: b :: l2.
Proof.
  rewrite consecutive_nth. split.
  - intros (i & H1 & H2). apply nth_error_split in H1. destruct H1 as (l1 & l2 & -> & Hlen).
    exists l1. destruct l2 as [|b' l2].
    + exfalso. rewrite nth_error_app2 in H2 by lia. replace (S i - length l1)%nat with 1%nat in H2 by lia.
      discriminate.
    + rewrite nth_error_app2 in H2 by lia. replace (S i - length l1)%nat with 1%nat in H2 by lia.
      simpl in H2. inversion H2; subst. eauto.
  - intros (l1 & l2 & ->). exists (length l1). split.
    + rewrite nth_error_app2 by lia. rewrite Nat.sub_diag. reflexivity.
    + rewrite nth_error_app2 by lia. replace (S (length l1) - length l1)%nat with 1%nat by lia. reflexivity.
Qed.

(** ** Rows *)

Lemma nth_app_at_eq {A} (rows : list (list A)) i x :
  (i < length rows)%nat -> nth i (app_at rows i x) [] = nth i rows [] ++ [x].
Proof. intros H. unfold app_at. apply nth_upd_eq. exact H. Qed.
Lemma nth_app_at_neq {A} (rows : list (list A)) i k x :
  i <> k -> nth k (app_at rows i x) [] = nth k rows [].
Proof. intros H. unfold app_at. apply nth_upd_neq. exact H. Qed.
Lemma length_app_at {A} (rows : list (list A)) i x : length (app_at rows i x) = length rows.
Proof. unfold app_at. apply length_upd. Qed.

Lemma nth_app_at_ge {A} (rows : list (list A)) i k x :
  (length rows <= k)%nat -> nth k (app_at rows i x) [] = [].
Proof. intros H. apply nth_overflow. rewrite length_app_at. exact H. Qed.

Lemma fold_app_at_length (ms : list nat) id : forall rows : list (list nat),
  length (fold_left (fun rows m => app_at rows m id) ms rows) = length rows.
Proof. induction ms as [|m t IH]; intros rows; simpl; [reflexivity|]. rewrite IH. apply length_app_at. Qed.

Lemma fold_app_at_nth (ms : list nat) id k : forall rows : list (list nat),
  (k < length rows)%nat ->
  nth k (fold_left (fun rows m => app_at rows m id) ms rows) [] =
  nth k rows [] ++ map (fun _ => id) (filter (Nat.eqb k) ms).
Proof.
  induction ms as [|m t IH]; intros rows Hk; simpl; [rewrite app_nil_r; reflexivity|].
  rewrite IH by (rewrite length_app_at; exact Hk).
  destruct (k =? m)%nat eqn:E.
  - apply Nat.eqb_eq in E. subst m. rewrite nth_app_at_eq by exact Hk. simpl. rewrite <- app_assoc. reflexivity.
  - apply Nat.eqb_neq in E. rewrite nth_app_at_neq by congruence. reflexivity.
Qed.

(** Ids contributed to the row of job [j] / machine [m] by a list of
    operation keys numbered from [n]. *)
Fixpoint sel (j n : nat) (l : list (nat * nat)) : list nat :=
  match l with
  | [] => []
  | k :: t => (if (fst k =? j)%nat then [n] else []) ++ sel j (S n) t
  end.
Fixpoint selm (I : instance) (m n : nat) (l : list (nat * nat)) : list nat :=
  match l with
  | [] => []
  | k :: t => map (fun _ => n) (filter (Nat.eqb m) (kmachines I k)) ++ selm I m (S n) t
  end.

Lemma sel_app j l1 : forall n l2, sel j n (l1 ++ l2) = sel j n l1 ++ sel j (n + length l1) l2.
Proof.
  induction l1 as [|k t IH]; intros n l2; simpl.
  - rewrite Nat.add_0_r. reflexivity.
  - rewrite IH, <- app_assoc. replace (S n + length t)%nat with (n + S (length t))%nat by lia. reflexivity.
Qed.

Lemma sel_map_same j (l : list nat) : forall n, sel j n (map (fun p => (j, p)) l) = seq n (length l).
Proof.
  induction l as [|p t IH]; intros n; simpl; [reflexivity|]. rewrite Nat.eqb_refl, IH. reflexivity.
Qed.
Lemma sel_map_other j j' (l : list nat) : j' <> j -> forall n, sel j n (map (fun p => (j', p)) l) = [].
Proof.
  intros Hne. induction l as [|p t IH]; intros n; simpl; [reflexivity|].
  destruct (j' =? j)%nat eqn:E; [apply Nat.eqb_eq in E; congruence|]. apply IH.
Qed.

Lemma get_job_cons_0 (job : list op) r : get_job (job :: r) 0 = job.
Proof. reflexivity. Qed.
Lemma get_job_cons_S (job : list op) r k : get_job (job :: r) (S k) = get_job r k.
Proof. reflexivity. Qed.

Lemma map_add_seq len : forall n s, map (fun p => (n + p)%nat) (seq s len) = seq (n + s) len.
Proof.
  induction len as [|len IH]; intros n s; simpl; [reflexivity|]. rewrite IH. f_equal. f_equal. lia.
Qed.

Lemma sel_all_keys_from I : forall j0 n j,
  sel j n (all_keys_from j0 I) =
  if (j0 <=? j)%nat
  then map (fun p => (n + op_id I (j - j0) p)%nat) (seq 0 (length (get_job I (j - j0))))
  else [].
Proof.
  induction I as [|job r IH]; intros j0 n j.
  - simpl. unfold get_job. destruct (j - j0)%nat; simpl; destruct (j0 <=? j)%nat; reflexivity.
  - cbn [all_keys_from]. rewrite sel_app. unfold job_keys at 1 2. rewrite map_length, seq_length.
    rewrite IH. destruct (Nat.lt_trichotomy j j0) as [Hlt|[->|Hgt]].
    + rewrite sel_map_other by lia.
      destruct (j0 <=? j)%nat eqn:E1; [apply Nat.leb_le in E1; lia|].
      destruct (S j0 <=? j)%nat eqn:E2; [apply Nat.leb_le in E2; lia|]. reflexivity.
    + rewrite sel_map_same, seq_length. rewrite Nat.leb_refl.
      destruct (S j0 <=? j0)%nat eqn:E2; [apply Nat.leb_le in E2; lia|].
      rewrite app_nil_r, Nat.sub_diag, get_job_cons_0.
      replace n with (n + 0)%nat at 1 by lia. rewrite <- (map_add_seq (length job) n 0).
      apply map_ext. intros p. rewrite op_id_cons_0. reflexivity.
    + rewrite sel_map_other by lia.
      destruct (j0 <=? j)%nat eqn:E1; [|apply Nat.leb_gt in E1; lia].
      destruct (S j0 <=? j)%nat eqn:E2; [|apply Nat.leb_gt in E2; lia].
      simpl. replace (j - j0)%nat with (S (j - S j0)) by lia. rewrite get_job_cons_S.
      apply map_ext. intros p. rewrite op_id_cons_S. lia.
Qed.
