(** EnvSpacesProofs.v — lemmas for property C18 (model: model/EnvSpaces.v). *)
From JSL Require Import Base Instance Dstate Filters World Graph Generator EnvSpaces
     Feasible ListFacts OpIds DispatchFun Inv Run Atomic.
From Coq Require Import Lia Permutation.

(** ** Legal decisions are in the action space *)

(** "A job with operations left together with an eligible machine id of its
    next operation, or -1 for a single-machine operation". *)
Definition legal (I : instance) (d : dstate) (j : nat) (m : Z) : Prop :=
  exists o, get_op I j (nthN (jnext d) j) = Some o /\
    ((exists k, In k (machines o) /\ m = Z.of_nat k) \/ (m = -1 /\ exists k, machines o = [k])).

Lemma action_contains_pair I j m :
  (j < num_jobs I)%nat -> -1 <= m < Z.of_nat (num_machines I) ->
  action_contains (action_nvec I) [Z.of_nat j; m] = true.
Proof.
  intros Hj Hm. unfold action_contains, action_nvec, action_start, md_contains, in_range.
  rewrite !andb_true_iff, !Z.leb_le, !Z.ltb_lt. lia.
Qed.

Theorem legal_in_action_space I d j m :
  legal I d j m -> action_contains (action_nvec I) [Z.of_nat j; m] = true.
Proof.
  intros (o & Ho & Hm). destruct (get_op_bounds _ _ _ _ Ho) as [Hj _].
  apply action_contains_pair; [exact Hj|].
  destruct Hm as [(k & Hk & ->)|(-> & k & Hk)].
  - pose proof (machine_lt _ _ _ _ _ Ho Hk). lia.
  - assert (In k (machines o)) by (rewrite Hk; left; reflexivity).
    pose proof (machine_lt _ _ _ _ _ Ho H). lia.
Qed.

Lemma decisions_of_contained I k :
  Forall (fun a => action_contains (action_nvec I) a = true) (decisions_of I k).
Proof.
  unfold decisions_of, kop. destruct (get_op I (fst k) (snd k)) as [o|] eqn:Ho; [|constructor].
  destruct (get_op_bounds _ _ _ _ Ho) as [Hj _].
  apply Forall_app. split.
  - apply Forall_forall. intros a Ha. apply in_map_iff in Ha. destruct Ha as (m & <- & Hm).
    apply action_contains_pair; [exact Hj|]. pose proof (machine_lt _ _ _ _ _ Ho Hm). lia.
  - destruct (machines o) as [|m [|m2 t]] eqn:E; constructor; [|constructor].
    apply action_contains_pair; [exact Hj|].
    assert (In m (machines o)) by (rewrite E; left; reflexivity).
    pose proof (machine_lt _ _ _ _ _ Ho H). lia.
Qed.

Theorem legal_decisions_contained I d :
  Forall (fun a => action_contains (action_nvec I) a = true) (legal_decisions I d).
Proof.
  unfold legal_decisions. induction (raw_ready I d) as [|k t IH]; simpl; [constructor|].
  apply Forall_app. split; [apply decisions_of_contained|exact IH].
Qed.

(** the list enumerates exactly the legal decisions of the jobs it ranges over *)
Lemma decisions_of_legal I d j :
  forall a, In a (decisions_of I (j, nthN (jnext d) j)) <-> exists m, a = [Z.of_nat j; m] /\ legal I d j m.
Proof.
  intros a. unfold decisions_of, legal, kop. simpl.
  destruct (get_op I j (nthN (jnext d) j)) as [o|]; [|split; [intros []|intros (m & _ & o & Ho & _); discriminate]].
  rewrite in_app_iff, in_map_iff. split.
  - intros [(k & <- & Hk)|H].
    + exists (Z.of_nat k). split; [reflexivity|]. exists o. split; [reflexivity|]. left. eauto.
    + destruct (machines o) as [|k [|k2 t]] eqn:E; simpl in H; try contradiction.
      destruct H as [<-|[]]. exists (-1). split; [reflexivity|]. exists o. split; [reflexivity|].
      right. split; [reflexivity|]. exists k. exact E.
  - intros (m & -> & o' & Ho & Hm). inversion Ho; subst o'. destruct Hm as [(k & Hk & ->)|(-> & k & Hk)].
    + left. exists k. auto.
    + right. rewrite Hk. left. reflexivity.
Qed.

(** ** add_padding *)

Lemma pad1_none {A} (fill : A) n l : pad1 fill n l = None <-> (n < length l)%nat.
Proof. unfold pad1. destruct (Nat.ltb_spec n (length l)); split; intros; try discriminate; auto; lia. Qed.

Lemma pad1_some {A} (fill : A) n l r :
  pad1 fill n l = Some r ->
  r = l ++ repeat fill (n - length l) /\ length r = n /\ (length l <= n)%nat.
Proof.
  unfold pad1. destruct (Nat.ltb_spec n (length l)); [discriminate|]. intros H. inversion H; subst.
  split; [reflexivity|]. rewrite app_length, repeat_length. lia.
Qed.

Definition rect {A} (m : list (list A)) : Prop := Forall (fun row => length row = width m) m.

Lemma pad2_none {A} (fill : A) r c m :
  pad2 fill r c m = None <-> (r < length m \/ c < width m)%nat.
Proof.
  unfold pad2. destruct (Nat.ltb_spec r (length m)); destruct (Nat.ltb_spec c (width m)); simpl;
    split; intros H'; try discriminate; auto; lia.
Qed.

Definition pad2_result {A} (fill : A) (r c : nat) (m : list (list A)) : list (list A) :=
  map (fun row => row ++ repeat fill (c - length row)) m ++ repeat (repeat fill c) (r - length m).

Lemma pad2_some {A} (fill : A) r c m x :
  pad2 fill r c m = Some x -> x = pad2_result fill r c m /\ (length m <= r)%nat /\ (width m <= c)%nat.
Proof.
  unfold pad2. destruct (Nat.ltb_spec r (length m)); destruct (Nat.ltb_spec c (width m)); simpl;
    try discriminate. intros H'. inversion H'. auto.
Qed.

Lemma pad2_shape {A} (fill : A) r c m :
  rect m -> (length m <= r)%nat -> (width m <= c)%nat ->
  length (pad2_result fill r c m) = r /\ Forall (fun row => length row = c) (pad2_result fill r c m).
Proof.
  intros Hr Hl Hw. unfold pad2_result. split.
  - rewrite app_length, map_length, repeat_length. lia.
  - apply Forall_app. split.
    + apply Forall_forall. intros row Hin. apply in_map_iff in Hin. destruct Hin as (row0 & <- & Hin0).
      unfold rect in Hr. rewrite Forall_forall in Hr. specialize (Hr row0 Hin0).
      rewrite app_length, repeat_length. lia.
    + apply Forall_forall. intros row Hin. apply repeat_spec in Hin. subst. apply repeat_length.
Qed.

(** cell [(i, j)] of the result: the input inside its block, the fill value elsewhere *)
Lemma pad2_cell {A} (fill : A) r c m i j d :
  rect m -> (i < r)%nat -> (j < c)%nat -> (length m <= r)%nat -> (width m <= c)%nat ->
  nth j (nth i (pad2_result fill r c m) []) d =
  if ((i <? length m) && (j <? width m))%nat then nth j (nth i m []) d else fill.
Proof.
  intros Hr Hi Hj Hl Hw. unfold pad2_result.
  destruct (Nat.ltb_spec i (length m)) as [Him|Him]; simpl.
  - rewrite app_nth1 by (rewrite map_length; exact Him).
    assert (Hrow : nth i (map (fun row => row ++ repeat fill (c - length row)) m) [] =
                   nth i m [] ++ repeat fill (c - length (nth i m []))).
    { rewrite (nth_indep _ [] ((fun row => row ++ repeat fill (c - length row)) [])) by (rewrite map_length; exact Him).
      apply map_nth. }
    rewrite Hrow.
    assert (Hlen : length (nth i m []) = width m).
    { unfold rect in Hr. rewrite Forall_forall in Hr. apply Hr. apply nth_In. exact Him. }
    destruct (Nat.ltb_spec j (width m)) as [Hjm|Hjm].
    + rewrite app_nth1 by lia. reflexivity.
    + rewrite app_nth2 by lia. apply nth_repeat. lia.
  - rewrite app_nth2 by (rewrite map_length; exact Him). rewrite map_length.
    rewrite (nth_repeat (repeat fill c)) by lia. apply nth_repeat. exact Hj.
Qed.

Lemma box_contains_spec {A} r c (x : list (list A)) :
  box_contains r c x = true <-> length x = r /\ Forall (fun row => length row = c) x.
Proof.
  unfold box_contains. rewrite andb_true_iff, Nat.eqb_eq, forallb_forall, Forall_forall.
  split; intros [H1 H2]; split; auto; intros y Hy; specialize (H2 y Hy); apply Nat.eqb_eq; exact H2.
Qed.

Lemma box_rect {A} r c (x : list (list A)) : box_contains r c x = true -> rect x /\ length x = r /\ (x <> [] -> width x = c).
Proof.
  intros H. apply box_contains_spec in H. destruct H as [Hl Hf]. split; [|split; [exact Hl|]].
  - unfold rect. destruct x as [|row t]; [constructor|]. simpl.
    inversion Hf as [|? ? Hrow Ht]; subst. apply Forall_forall. intros y Hy.
    rewrite Forall_forall in Hf. rewrite (Hf y Hy). symmetry. exact Hrow.
  - intros Hne. destruct x as [|row t]; [congruence|]. simpl. inversion Hf; auto.
Qed.

Lemma width_le_of_box {A} r c (x : list (list A)) : box_contains r c x = true -> (width x <= c)%nat.
Proof.
  intros H. destruct x as [|row t]; simpl; [lia|]. apply box_contains_spec in H. destruct H as [_ Hf].
  inversion Hf; subst. lia.
Qed.

(** ** Graphs: well-formedness kept by every builder and by [remove_node] *)

Definition edges_in (n : nat) (es : list edge) : Prop :=
  Forall (fun e => (e_src e < n)%nat /\ (e_dst e < n)%nat) es.

Record graph_ok (g : graph) : Prop := {
  ok_removed : length (g_removed g) = g_next g;
  ok_nodes : length (g_nodes g) = g_next g;
  ok_edges : edges_in (g_next g) (g_edges g)
}.

Lemma graph_ok_init I : graph_ok (init_graph I).
Proof. constructor; simpl; auto. constructor. Qed.

Lemma edges_in_mono n n' es : (n <= n')%nat -> edges_in n es -> edges_in n' es.
Proof. intros Hle H. eapply Forall_impl; [|exact H]. simpl. intros e [A B]. lia. Qed.

Lemma graph_ok_add_node g nd : graph_ok g -> graph_ok (add_node g nd).
Proof.
  intros [H1 H2 H3]. constructor; simpl.
  - rewrite app_length, H1. simpl. lia.
  - rewrite app_length, H2. simpl. lia.
  - eapply edges_in_mono; [|exact H3]. lia.
Qed.

Lemma graph_ok_add_nodes nds : forall g, graph_ok g -> graph_ok (add_nodes g nds).
Proof.
  unfold add_nodes. induction nds as [|nd t IH]; intros g H; simpl; [exact H|].
  apply IH. apply graph_ok_add_node. exact H.
Qed.

Lemma add_node_inst g nd : g_inst (add_node g nd) = g_inst g.
Proof. reflexivity. Qed.
Lemma add_nodes_inst nds : forall g, g_inst (add_nodes g nds) = g_inst g.
Proof. unfold add_nodes. induction nds as [|nd t IH]; intros g; simpl; [reflexivity|]. rewrite IH. reflexivity. Qed.

Lemma set_edge_in n es u v t :
  (u < n)%nat -> (v < n)%nat -> edges_in n es -> edges_in n (set_edge es u v t).
Proof.
  intros Hu Hv. induction es as [|e r IH]; intros H; simpl.
  - constructor; [|constructor]. unfold e_src, e_dst. simpl. auto.
  - inversion H as [|? ? He Hr]; subst.
    destruct ((e_src e =? u) && (e_dst e =? v))%nat.
    + constructor; [|exact Hr]. unfold e_src, e_dst. simpl. auto.
    + constructor; [exact He|]. apply IH. exact Hr.
Qed.

Lemma has_node_lt g u : has_node g u = true -> (u < g_next g)%nat.
Proof. unfold has_node. intros H. apply andb_true_iff in H. destruct H as [H _]. apply Nat.ltb_lt. exact H. Qed.

Lemma graph_ok_add_edge g u v t g' :
  graph_ok g -> add_edge g u v t = Some g' -> graph_ok g' /\ g_inst g' = g_inst g.
Proof.
  intros [H1 H2 H3]. unfold add_edge. destruct (has_node g u && has_node g v) eqn:E; [|discriminate].
  intros H. inversion H; subst. apply andb_true_iff in E. destruct E as [Eu Ev].
  split; [|reflexivity]. constructor; simpl; auto.
  apply set_edge_in; auto using has_node_lt.
Qed.

Lemma graph_ok_add_edges l : forall g g',
  graph_ok g -> add_edges g l = Some g' -> graph_ok g' /\ g_inst g' = g_inst g.
Proof.
  induction l as [|e r IH]; intros g g' Hg H; simpl in H.
  - inversion H; subst. auto.
  - destruct (add_edge g (e_src e) (e_dst e) (e_type e)) as [g1|] eqn:E; [|discriminate].
    destruct (graph_ok_add_edge _ _ _ _ _ Hg E) as [Hg1 Hi1].
    destruct (IH _ _ Hg1 H) as [Hg' Hi']. split; [exact Hg'|congruence].
Qed.

Lemma graph_ok_new I : graph_ok (new_graph I) /\ g_inst (new_graph I) = I.
Proof.
  unfold new_graph, add_operation_nodes. split.
  - apply graph_ok_add_nodes. apply graph_ok_init.
  - rewrite add_nodes_inst. reflexivity.
Qed.

Ltac step_edges H Hok Hinst :=
  match type of H with
  | obind ?x _ = Some _ =>
      let g1 := fresh "g" in let E := fresh "E" in
      destruct x as [g1|] eqn:E; [simpl in H|discriminate]
  end.

Theorem build_by_code_ok b I g : build_by_code b I = Some g -> graph_ok g /\ g_inst g = I.
Proof.
  destruct (graph_ok_new I) as [H0 I0].
  assert (HM : graph_ok (add_machine_nodes (new_graph I)) /\ g_inst (add_machine_nodes (new_graph I)) = I).
  { unfold add_machine_nodes. split; [apply graph_ok_add_nodes; exact H0|rewrite add_nodes_inst; exact I0]. }
  destruct HM as [HM IM].
  unfold build_by_code. destruct b as [|[|[|[|b]]]]; [| | | |discriminate].
  - (* disjunctive *)
    unfold build_disjunctive_graph, add_disjunctive_edges, add_conjunctive_edges. intros H.
    destruct (add_edges (new_graph I) (disjunctive_edge_list (new_graph I))) as [g1|] eqn:E1; [simpl in H|discriminate].
    destruct (graph_ok_add_edges _ _ _ H0 E1) as [H1 I1].
    destruct (add_edges g1 (conjunctive_edge_list g1)) as [g2|] eqn:E2; [simpl in H|discriminate].
    destruct (graph_ok_add_edges _ _ _ H1 E2) as [H2 I2].
    assert (H3 : graph_ok (add_source_sink_nodes g2)).
    { unfold add_source_sink_nodes. apply graph_ok_add_node. apply graph_ok_add_node. exact H2. }
    unfold add_source_sink_edges in H.
    destruct (type_row (add_source_sink_nodes g2) NSource) as [|[s ?] ?]; [discriminate|].
    destruct (type_row (add_source_sink_nodes g2) NSink) as [|[t ?] ?]; [discriminate|].
    destruct (source_sink_edge_list s t (g_by_job (add_source_sink_nodes g2))) as [l|]; [|discriminate].
    destruct (graph_ok_add_edges _ _ _ H3 H) as [H4 I4]. split; [exact H4|].
    rewrite I4. unfold add_source_sink_nodes. rewrite !add_node_inst. congruence.
  - (* agent task *)
    unfold build_agent_task_graph, add_operation_machine_edges, add_machine_machine_edges,
      add_same_job_operations_edges. intros H.
    destruct (add_edges (add_machine_nodes (new_graph I)) _) as [g1|] eqn:E1; [simpl in H|discriminate].
    destruct (graph_ok_add_edges _ _ _ HM E1) as [H1 I1].
    destruct (add_edges g1 (machine_machine_edge_list g1)) as [g2|] eqn:E2; [simpl in H|discriminate].
    destruct (graph_ok_add_edges _ _ _ H1 E2) as [H2 I2].
    destruct (graph_ok_add_edges _ _ _ H2 H) as [H3 I3]. split; [exact H3|congruence].
  - (* with jobs *)
    unfold build_agent_task_graph_with_jobs, add_operation_machine_edges, add_machine_machine_edges,
      add_operation_job_edges, add_job_job_edges. intros H.
    destruct (add_edges (add_machine_nodes (new_graph I)) _) as [g1|] eqn:E1; [simpl in H|discriminate].
    destruct (graph_ok_add_edges _ _ _ HM E1) as [H1 I1].
    destruct (add_edges g1 (machine_machine_edge_list g1)) as [g2|] eqn:E2; [simpl in H|discriminate].
    destruct (graph_ok_add_edges _ _ _ H1 E2) as [H2 I2].
    assert (HJ : graph_ok (add_job_nodes g2) /\ g_inst (add_job_nodes g2) = I).
    { unfold add_job_nodes. split; [apply graph_ok_add_nodes; exact H2|rewrite add_nodes_inst; congruence]. }
    destruct HJ as [HJ IJ].
    destruct (add_edges (add_job_nodes g2) _) as [g3|] eqn:E3; [simpl in H|discriminate].
    destruct (graph_ok_add_edges _ _ _ HJ E3) as [H3 I3].
    destruct (graph_ok_add_edges _ _ _ H3 H) as [H4 I4]. split; [exact H4|congruence].
  - (* complete *)
    unfold build_complete_agent_task_graph, add_operation_machine_edges, add_operation_job_edges,
      add_machine_global_edges, add_job_global_edges. intros H.
    destruct (add_edges (add_machine_nodes (new_graph I)) _) as [g1|] eqn:E1; [simpl in H|discriminate].
    destruct (graph_ok_add_edges _ _ _ HM E1) as [H1 I1].
    assert (HJ : graph_ok (add_job_nodes g1) /\ g_inst (add_job_nodes g1) = I).
    { unfold add_job_nodes. split; [apply graph_ok_add_nodes; exact H1|rewrite add_nodes_inst; congruence]. }
    destruct HJ as [HJ IJ].
    destruct (add_edges (add_job_nodes g1) _) as [g2|] eqn:E2; [simpl in H|discriminate].
    destruct (graph_ok_add_edges _ _ _ HJ E2) as [H2 I2].
    assert (HG : graph_ok (add_global_node g2) /\ g_inst (add_global_node g2) = I).
    { unfold add_global_node. split; [apply graph_ok_add_node; exact H2|rewrite add_node_inst; congruence]. }
    destruct HG as [HG IG].
    destruct (global_edge_list (add_global_node g2) NMachine) as [l1|]; [|discriminate].
    destruct (add_edges (add_global_node g2) l1) as [g3|] eqn:E3; [simpl in H|discriminate].
    destruct (graph_ok_add_edges _ _ _ HG E3) as [H3 I3].
    destruct (global_edge_list g3 NJob) as [l2|]; [|discriminate].
    destruct (graph_ok_add_edges _ _ _ H3 H) as [H4 I4]. split; [exact H4|congruence].
Qed.
