(** EnvSpacesProofs.v — lemmas for property C18 (model: model/EnvSpaces.v). *)
From JSL Require Import Base Instance Dstate Filters World Graph Generator EnvSpaces EnvSpacesSpec
     Feasible ListFacts OpIds DispatchFun Inv Run Atomic.
From Coq Require Import Lia Permutation.

(** ** Legal decisions are in the action space *)

Lemma action_contains_pair I j m :
  (j < num_jobs I)%nat -> -1 <= m < Z.of_nat (num_machines I) ->
  action_contains (action_nvec I) [Z.of_nat j; m] = true.
Proof.
  intros Hj Hm. unfold action_contains, action_nvec, action_start, md_contains, in_range.
  rewrite !andb_true_iff, !Z.leb_le, !Z.ltb_lt. lia.
Qed.

Theorem legal_in_action_space I d j m :
  legal I d j m -> action_contains (action_nvec I) [Z.of_nat j; m] = true.
Proof.
  intros (o & Ho & Hm). destruct (get_op_bounds _ _ _ _ Ho) as [Hj _].
  apply action_contains_pair; [exact Hj|].
  destruct Hm as [(k & Hk & ->)|(-> & k & Hk)].
  - pose proof (machine_lt _ _ _ _ _ Ho Hk). lia.
  - assert (In k (machines o)) by (rewrite Hk; left; reflexivity).
    pose proof (machine_lt _ _ _ _ _ Ho H). lia.
Qed.

Lemma decisions_of_contained I k :
  Forall (fun a => action_contains (action_nvec I) a = true) (decisions_of I k).
Proof.
  unfold decisions_of, kop. destruct (get_op I (fst k) (snd k)) as [o|] eqn:Ho; [|constructor].
  destruct (get_op_bounds _ _ _ _ Ho) as [Hj _].
  apply Forall_app. split.
  - apply Forall_forall. intros a Ha. apply in_map_iff in Ha. destruct Ha as (m & <- & Hm).
    apply action_contains_pair; [exact Hj|]. pose proof (machine_lt _ _ _ _ _ Ho Hm). lia.
  - destruct (machines o) as [|m [|m2 t]] eqn:E; constructor; [|constructor].
    apply action_contains_pair; [exact Hj|].
    assert (In m (machines o)) by (rewrite E; left; reflexivity).
    pose proof (machine_lt _ _ _ _ _ Ho H). lia.
Qed.

Theorem legal_decisions_contained I d :
  Forall (fun a => action_contains (action_nvec I) a = true) (legal_decisions I d).
Proof.
  unfold legal_decisions. induction (raw_ready I d) as [|k t IH]; simpl; [constructor|].
  apply Forall_app. split; [apply decisions_of_contained|exact IH].
Qed.

(** the list enumerates exactly the legal decisions of the jobs it ranges over *)
Lemma decisions_of_legal I d j :
  forall a, In a (decisions_of I (j, nthN (jnext d) j)) <-> exists m, a = [Z.of_nat j; m] /\ legal I d j m.
Proof.
  intros a. unfold decisions_of, legal, kop. simpl.
  destruct (get_op I j (nthN (jnext d) j)) as [o|]; [|split; [intros []|intros (m & _ & o & Ho & _); discriminate]].
  rewrite in_app_iff, in_map_iff. split.
  - intros [(k & <- & Hk)|H].
    + exists (Z.of_nat k). split; [reflexivity|]. exists o. split; [reflexivity|]. left. eauto.
    + destruct (machines o) as [|k [|k2 t]] eqn:E; simpl in H; try contradiction.
      destruct H as [<-|[]]. exists (-1). split; [reflexivity|]. exists o. split; [reflexivity|].
      right. split; [reflexivity|]. exists k. exact E.
  - intros (m & -> & o' & Ho & Hm). inversion Ho; subst o'. destruct Hm as [(k & Hk & ->)|(-> & k & Hk)].
    + left. exists k. auto.
    + right. rewrite Hk. left. reflexivity.
Qed.

(** ** add_padding *)

Lemma pad1_none {A} (fill : A) n l : pad1 fill n l = None <-> (n < length l)%nat.
Proof. unfold pad1. destruct (Nat.ltb_spec n (length l)); split; intros H0; try discriminate; auto; lia. Qed.

Lemma pad1_some {A} (fill : A) n l r :
  pad1 fill n l = Some r ->
  r = l ++ repeat fill (n - length l) /\ length r = n /\ (length l <= n)%nat.
Proof.
  unfold pad1. destruct (Nat.ltb_spec n (length l)) as [Hlt|Hge]; [discriminate|]. intros Hs. inversion Hs; subst.
  split; [reflexivity|]. rewrite app_length, repeat_length. lia.
Qed.

Lemma pad2_none {A} (fill : A) r c m :
  pad2 fill r c m = None <-> (r < length m \/ c < width m)%nat.
Proof.
  unfold pad2. destruct (Nat.ltb_spec r (length m)) as [Ha|Ha]; destruct (Nat.ltb_spec c (width m)) as [Hb|Hb]; simpl;
    split; intros H'; try discriminate; auto; lia.
Qed.

Definition pad2_result {A} (fill : A) (r c : nat) (m : list (list A)) : list (list A) :=
  map (fun row => row ++ repeat fill (c - length row)) m ++ repeat (repeat fill c) (r - length m).

Lemma pad2_some {A} (fill : A) r c m x :
  pad2 fill r c m = Some x -> x = pad2_result fill r c m /\ (length m <= r)%nat /\ (width m <= c)%nat.
Proof.
  unfold pad2. destruct (Nat.ltb_spec r (length m)) as [Ha|Ha]; destruct (Nat.ltb_spec c (width m)) as [Hb|Hb]; simpl;
    try discriminate. intros H'. inversion H'. auto.
Qed.

Lemma pad2_shape {A} (fill : A) r c m :
  rect m -> (length m <= r)%nat -> (width m <= c)%nat ->
  length (pad2_result fill r c m) = r /\ Forall (fun row => length row = c) (pad2_result fill r c m).
Proof.
  intros Hr Hl Hw. unfold pad2_result. split.
  - rewrite app_length, map_length, repeat_length. lia.
  - apply Forall_app. split.
    + apply Forall_forall. intros row Hin. apply in_map_iff in Hin. destruct Hin as (row0 & <- & Hin0).
      unfold rect in Hr. rewrite Forall_forall in Hr. specialize (Hr row0 Hin0).
      rewrite app_length, repeat_length. lia.
    + apply Forall_forall. intros row Hin. apply repeat_spec in Hin. subst. apply repeat_length.
Qed.

(** cell [(i, j)] of the result: the input inside its block, the fill value elsewhere *)
Lemma pad2_cell {A} (fill : A) r c m i j d :
  rect m -> (i < r)%nat -> (j < c)%nat -> (length m <= r)%nat -> (width m <= c)%nat ->
  nth j (nth i (pad2_result fill r c m) []) d =
  if ((i <? length m) && (j <? width m))%nat then nth j (nth i m []) d else fill.
Proof.
  intros Hr Hi Hj Hl Hw. unfold pad2_result.
  destruct (Nat.ltb_spec i (length m)) as [Him|Him]; simpl.
  - rewrite app_nth1 by (rewrite map_length; exact Him).
    set (f := fun row : list A => row ++ repeat fill (c - length row)).
    assert (Hrow : nth i (map f m) [] = f (nth i m [])).
    { rewrite (nth_indep _ [] (f [])) by (rewrite map_length; exact Him). apply map_nth. }
    rewrite Hrow. unfold f.
    assert (Hlen : length (nth i m []) = width m).
    { unfold rect in Hr. rewrite Forall_forall in Hr. apply Hr. apply nth_In. exact Him. }
    destruct (Nat.ltb_spec j (width m)) as [Hjm|Hjm].
    + rewrite app_nth1 by lia. reflexivity.
    + rewrite app_nth2 by lia. apply nth_repeat. lia.
  - rewrite app_nth2 by (rewrite map_length; exact Him). rewrite map_length.
    rewrite (nth_repeat (repeat fill c)) by lia. apply nth_repeat. exact Hj.
Qed.

Lemma box_rect {A} r c (x : list (list A)) : box_contains r c x = true -> rect x /\ length x = r /\ (x <> [] -> width x = c).
Proof.
  intros H. apply box_contains_spec in H. destruct H as [Hl Hf]. split; [|split; [exact Hl|]].
  - unfold rect. destruct x as [|row t]; [constructor|]. simpl.
    assert (Hrow : length row = c) by (inversion Hf; assumption).
    apply Forall_forall. intros y Hy.
    rewrite Forall_forall in Hf. rewrite (Hf y Hy). symmetry. exact Hrow.
  - intros Hne. destruct x as [|row t]; [congruence|]. simpl. inversion Hf; auto.
Qed.

Lemma width_le_of_box {A} r c (x : list (list A)) : box_contains r c x = true -> (width x <= c)%nat.
Proof.
  intros H. destruct x as [|row t]; simpl; [lia|]. apply box_contains_spec in H. destruct H as [_ Hf].
  inversion Hf; subst. lia.
Qed.

(** ** Graphs: well-formedness kept by every builder and by [remove_node] *)

Lemma graph_ok_init I : graph_ok (init_graph I).
Proof. constructor; simpl; auto. constructor. Qed.

Lemma edges_in_mono n n' es : (n <= n')%nat -> edges_in n es -> edges_in n' es.
Proof. intros Hle H. eapply Forall_impl; [|exact H]. simpl. intros e [A B]. lia. Qed.

Lemma graph_ok_add_node g nd : graph_ok g -> graph_ok (add_node g nd).
Proof.
  intros [H1 H2 H3]. constructor; simpl.
  - rewrite app_length, H1. simpl. lia.
  - rewrite app_length, H2. simpl. lia.
  - eapply edges_in_mono; [|exact H3]. lia.
Qed.

Lemma graph_ok_add_nodes nds : forall g, graph_ok g -> graph_ok (add_nodes g nds).
Proof.
  unfold add_nodes. induction nds as [|nd t IH]; intros g H; simpl; [exact H|].
  apply IH. apply graph_ok_add_node. exact H.
Qed.

Lemma add_node_inst g nd : g_inst (add_node g nd) = g_inst g.
Proof. reflexivity. Qed.
Lemma add_nodes_inst nds : forall g, g_inst (add_nodes g nds) = g_inst g.
Proof. unfold add_nodes. induction nds as [|nd t IH]; intros g; simpl; [reflexivity|]. rewrite IH. reflexivity. Qed.

Lemma set_edge_in n es u v t :
  (u < n)%nat -> (v < n)%nat -> edges_in n es -> edges_in n (set_edge es u v t).
Proof.
  intros Hu Hv. induction es as [|e r IH]; intros H; simpl.
  - constructor; [|constructor]. unfold e_src, e_dst. simpl. auto.
  - inversion H as [|? ? He Hr]; subst.
    destruct ((e_src e =? u) && (e_dst e =? v))%nat.
    + constructor; [|exact Hr]. unfold e_src, e_dst. simpl. auto.
    + constructor; [exact He|]. apply IH. exact Hr.
Qed.

Lemma has_node_lt g u : has_node g u = true -> (u < g_next g)%nat.
Proof. unfold has_node. intros H. apply andb_true_iff in H. destruct H as [H _]. apply Nat.ltb_lt. exact H. Qed.

Lemma graph_ok_add_edge g u v t g' :
  graph_ok g -> add_edge g u v t = Some g' -> graph_ok g' /\ g_inst g' = g_inst g.
Proof.
  intros [H1 H2 H3]. unfold add_edge. destruct (has_node g u && has_node g v) eqn:E; [|discriminate].
  intros H. inversion H; subst. apply andb_true_iff in E. destruct E as [Eu Ev].
  split; [|reflexivity]. constructor; simpl; auto.
  apply set_edge_in; auto using has_node_lt.
Qed.

Lemma graph_ok_add_edges l : forall g g',
  graph_ok g -> add_edges g l = Some g' -> graph_ok g' /\ g_inst g' = g_inst g.
Proof.
  induction l as [|e r IH]; intros g g' Hg H; simpl in H.
  - inversion H; subst. auto.
  - destruct (add_edge g (e_src e) (e_dst e) (e_type e)) as [g1|] eqn:E; [|discriminate].
    destruct (graph_ok_add_edge _ _ _ _ _ Hg E) as [Hg1 Hi1].
    destruct (IH _ _ Hg1 H) as [Hg' Hi']. split; [exact Hg'|congruence].
Qed.

Lemma graph_ok_new I : graph_ok (new_graph I) /\ g_inst (new_graph I) = I.
Proof.
  unfold new_graph, add_operation_nodes. split.
  - apply graph_ok_add_nodes. apply graph_ok_init.
  - rewrite add_nodes_inst. reflexivity.
Qed.

Ltac step_edges H Hok Hinst :=
  match type of H with
  | obind ?x _ = Some _ =>
      let g1 := fresh "g" in let E := fresh "E" in
      destruct x as [g1|] eqn:E; [simpl in H|discriminate]
  end.

Theorem build_by_code_ok b I g : build_by_code b I = Some g -> graph_ok g /\ g_inst g = I.
Proof.
  destruct (graph_ok_new I) as [H0 I0].
  assert (HM : graph_ok (add_machine_nodes (new_graph I)) /\ g_inst (add_machine_nodes (new_graph I)) = I).
  { unfold add_machine_nodes. split; [apply graph_ok_add_nodes; exact H0|rewrite add_nodes_inst; exact I0]. }
  destruct HM as [HM IM].
  unfold build_by_code. destruct b as [|[|[|[|b]]]]; [| | | |discriminate].
  - (* disjunctive *)
    unfold build_disjunctive_graph, add_disjunctive_edges, add_conjunctive_edges. intros H.
    destruct (add_edges (new_graph I) (disjunctive_edge_list (new_graph I))) as [g1|] eqn:E1; [simpl in H|discriminate].
    destruct (graph_ok_add_edges _ _ _ H0 E1) as [H1 I1].
    destruct (add_edges g1 (conjunctive_edge_list g1)) as [g2|] eqn:E2; [simpl in H|discriminate].
    destruct (graph_ok_add_edges _ _ _ H1 E2) as [H2 I2].
    assert (H3 : graph_ok (add_source_sink_nodes g2)).
    { unfold add_source_sink_nodes. apply graph_ok_add_node. apply graph_ok_add_node. exact H2. }
    unfold add_source_sink_edges in H.
    destruct (type_row (add_source_sink_nodes g2) NSource) as [|[s ?] ?]; [discriminate|].
    destruct (type_row (add_source_sink_nodes g2) NSink) as [|[t ?] ?]; [discriminate|].
    destruct (source_sink_edge_list s t (g_by_job (add_source_sink_nodes g2))) as [lss|]; [|discriminate].
    destruct (graph_ok_add_edges _ _ _ H3 H) as [H4 I4]. split; [exact H4|].
    rewrite I4. unfold add_source_sink_nodes. rewrite !add_node_inst. congruence.
  - (* agent task *)
    unfold build_agent_task_graph, add_operation_machine_edges, add_machine_machine_edges,
      add_same_job_operations_edges. intros H.
    destruct (add_edges (add_machine_nodes (new_graph I)) _) as [g1|] eqn:E1; [simpl in H|discriminate].
    destruct (graph_ok_add_edges _ _ _ HM E1) as [H1 I1].
    destruct (add_edges g1 (machine_machine_edge_list g1)) as [g2|] eqn:E2; [simpl in H|discriminate].
    destruct (graph_ok_add_edges _ _ _ H1 E2) as [H2 I2].
    destruct (graph_ok_add_edges _ _ _ H2 H) as [H3 I3]. split; [exact H3|congruence].
  - (* with jobs *)
    unfold build_agent_task_graph_with_jobs, add_operation_machine_edges, add_machine_machine_edges,
      add_operation_job_edges, add_job_job_edges. intros H.
    destruct (add_edges (add_machine_nodes (new_graph I)) _) as [g1|] eqn:E1; [simpl in H|discriminate].
    destruct (graph_ok_add_edges _ _ _ HM E1) as [H1 I1].
    destruct (add_edges g1 (machine_machine_edge_list g1)) as [g2|] eqn:E2; [simpl in H|discriminate].
    destruct (graph_ok_add_edges _ _ _ H1 E2) as [H2 I2].
    assert (HJ : graph_ok (add_job_nodes g2) /\ g_inst (add_job_nodes g2) = I).
    { unfold add_job_nodes. split; [apply graph_ok_add_nodes; exact H2|rewrite add_nodes_inst; congruence]. }
    destruct HJ as [HJ IJ].
    destruct (add_edges (add_job_nodes g2) _) as [g3|] eqn:E3; [simpl in H|discriminate].
    destruct (graph_ok_add_edges _ _ _ HJ E3) as [H3 I3].
    destruct (graph_ok_add_edges _ _ _ H3 H) as [H4 I4]. split; [exact H4|congruence].
  - (* complete *)
    unfold build_complete_agent_task_graph, add_operation_machine_edges, add_operation_job_edges,
      add_machine_global_edges, add_job_global_edges. intros H.
    destruct (add_edges (add_machine_nodes (new_graph I)) _) as [g1|] eqn:E1; [simpl in H|discriminate].
    destruct (graph_ok_add_edges _ _ _ HM E1) as [H1 I1].
    assert (HJ : graph_ok (add_job_nodes g1) /\ g_inst (add_job_nodes g1) = I).
    { unfold add_job_nodes. split; [apply graph_ok_add_nodes; exact H1|rewrite add_nodes_inst; congruence]. }
    destruct HJ as [HJ IJ].
    destruct (add_edges (add_job_nodes g1) _) as [g2|] eqn:E2; [simpl in H|discriminate].
    destruct (graph_ok_add_edges _ _ _ HJ E2) as [H2 I2].
    assert (HG : graph_ok (add_global_node g2) /\ g_inst (add_global_node g2) = I).
    { unfold add_global_node. split; [apply graph_ok_add_node; exact H2|rewrite add_node_inst; congruence]. }
    destruct HG as [HG IG].
    destruct (global_edge_list (add_global_node g2) NMachine) as [l1|]; [|discriminate].
    destruct (add_edges (add_global_node g2) l1) as [g3|] eqn:E3; [simpl in H|discriminate].
    destruct (graph_ok_add_edges _ _ _ HG E3) as [H3 I3].
    destruct (global_edge_list g3 NJob) as [l2|]; [|discriminate].
    destruct (graph_ok_add_edges _ _ _ H3 H) as [H4 I4]. split; [exact H4|congruence].
Qed.

(** ** remove_node only removes *)

Lemma filter_length_le' {A} (f : A -> bool) l : (length (filter f l) <= length l)%nat.
Proof. induction l as [|x t IH]; simpl; [lia|]. destruct (f x); simpl; lia. Qed.

Lemma fold_upd_length (iso : list nat) : forall r : list bool,
  length (fold_left (fun r n => upd r n true) iso r) = length r.
Proof. induction iso as [|n t IH]; intros r; simpl; [reflexivity|]. rewrite IH. apply length_upd. Qed.

Lemma remove_node_facts g u g' :
  graph_ok g -> remove_node g u = Some g' ->
  graph_ok g' /\ g_next g' = g_next g /\ g_nodes g' = g_nodes g /\ g_inst g' = g_inst g /\
  (length (g_edges g') <= length (g_edges g))%nat /\
  (forall e, In e (g_edges g') -> In e (g_edges g)).
Proof.
  intros [H1 H2 H3]. unfold remove_node. destruct (has_node g u); [|discriminate].
  intros H. inversion H; subst; clear H. simpl.
  split; [|split; [reflexivity|split; [reflexivity|split; [reflexivity|split]]]].
  - constructor; simpl; auto.
    + rewrite fold_upd_length, length_upd. exact H1.
    + unfold edges_in in *. rewrite Forall_forall in *. intros e He. apply filter_In in He. apply H3. tauto.
  - apply filter_length_le'.
  - intros e He. apply filter_In in He. tauto.
Qed.

Lemma try_remove_facts g u :
  graph_ok g ->
  graph_ok (try_remove g u) /\ g_next (try_remove g u) = g_next g /\ g_nodes (try_remove g u) = g_nodes g /\
  g_inst (try_remove g u) = g_inst g /\
  (length (g_edges (try_remove g u)) <= length (g_edges g))%nat.
Proof.
  intros Hg. unfold try_remove. destruct (remove_node g u) as [g'|] eqn:E.
  - destruct (remove_node_facts _ _ _ Hg E) as (A & B & C & D & F & _). auto.
  - split; [exact Hg|]. split; [reflexivity|]. split; [reflexivity|]. split; [reflexivity|lia].
Qed.

Theorem run_removes_facts l : forall g,
  graph_ok g ->
  graph_ok (run_removes g l) /\ g_next (run_removes g l) = g_next g /\
  g_nodes (run_removes g l) = g_nodes g /\ g_inst (run_removes g l) = g_inst g /\
  (length (g_edges (run_removes g l)) <= length (g_edges g))%nat.
Proof.
  unfold run_removes. induction l as [|u t IH]; intros g Hg; simpl.
  - split; [exact Hg|]. split; [reflexivity|]. split; [reflexivity|]. split; [reflexivity|lia].
  - destruct (try_remove_facts g u Hg) as (A & B & C & D & F).
    destruct (IH _ A) as (A' & B' & C' & D' & F').
    split; [exact A'|]. split; [congruence|]. split; [congruence|]. split; [congruence|lia].
Qed.

(** ** The networkx edge order is a permutation of the edge map *)

Lemma filter_split_perm {A} (p q r : A -> bool) l :
  (forall x, r x = p x || q x) -> (forall x, p x && q x = false) ->
  Permutation (filter r l) (filter p l ++ filter q l).
Proof.
  intros Hr Hd. induction l as [|x t IH]; simpl; [constructor|].
  rewrite Hr. specialize (Hd x). destruct (p x) eqn:Ep; destruct (q x) eqn:Eq; simpl in *; try discriminate.
  - apply perm_skip. exact IH.
  - apply Permutation_cons_app. exact IH.
  - exact IH.
Qed.

Lemma filter_none {A} (f : A -> bool) l : (forall x, f x = false) -> filter f l = [].
Proof. intros H. induction l as [|x t IH]; simpl; [reflexivity|]. rewrite H. exact IH. Qed.

Lemma filter_all_true {A} (f : A -> bool) l : Forall (fun x => f x = true) l -> filter f l = l.
Proof. induction 1 as [|x t Hx Ht IH]; simpl; [reflexivity|]. rewrite Hx, IH. reflexivity. Qed.

Lemma bucket_perm {A} (f : A -> nat) l n :
  Permutation (flat_map (fun u => filter (fun e => (f e =? u)%nat) l) (seq 0 n))
              (filter (fun e => (f e <? n)%nat) l).
Proof.
  induction n as [|n IH].
  - simpl. rewrite filter_none; [constructor|]. intros x. apply Nat.ltb_ge. lia.
  - rewrite seq_S, flat_map_app. simpl. rewrite app_nil_r.
    eapply Permutation_trans; [apply Permutation_app_tail; exact IH|].
    apply Permutation_sym. apply filter_split_perm.
    + intros x. destruct (Nat.ltb_spec (f x) (S n)); destruct (Nat.ltb_spec (f x) n);
        destruct (Nat.eqb_spec (f x) n); simpl; try reflexivity; lia.
    + intros x. destruct (Nat.ltb_spec (f x) n); destruct (Nat.eqb_spec (f x) n); simpl; try reflexivity; lia.
Qed.

Theorem edge_view_perm g : graph_ok g -> Permutation (edge_view g) (g_edges g).
Proof.
  intros [_ _ H]. unfold edge_view.
  eapply Permutation_trans; [apply (bucket_perm e_src)|].
  rewrite filter_all_true; [apply Permutation_refl|].
  unfold edges_in in H. eapply Forall_impl; [|exact H]. simpl. intros e [A _]. apply Nat.ltb_lt. exact A.
Qed.

Lemma edge_view_length g : graph_ok g -> length (edge_view g) = length (g_edges g).
Proof. intros H. apply Permutation_length. apply edge_view_perm. exact H. Qed.

Lemma edge_view_in g : graph_ok g -> edges_in (g_next g) (edge_view g).
Proof.
  intros H. unfold edges_in. apply Forall_forall. intros e He.
  apply (Permutation_in _ (edge_view_perm g H)) in He.
  destruct H as [_ _ H]. unfold edges_in in H. rewrite Forall_forall in H. apply H. exact He.
Qed.

Definition edge0 : edge := (0%nat, 0%nat, ENone).

(** sources never decrease along the view: it is sorted by source node *)
Lemma edge_view_sorted g :
  forall i j, (i <= j)%nat -> (j < length (edge_view g))%nat ->
    (e_src (nth i (edge_view g) edge0) <= e_src (nth j (edge_view g) edge0))%nat.
Proof.
  unfold edge_view. generalize (g_edges g) as es. intros es.
  assert (Hgen : forall n s i j, (i <= j)%nat ->
            (j < length (flat_map (fun u => filter (fun e => (e_src e =? u)%nat) es) (seq s n)))%nat ->
            (s <= e_src (nth i (flat_map (fun u => filter (fun e => (e_src e =? u)%nat) es) (seq s n)) edge0) /\
             e_src (nth i (flat_map (fun u => filter (fun e => (e_src e =? u)%nat) es) (seq s n)) edge0) <=
             e_src (nth j (flat_map (fun u => filter (fun e => (e_src e =? u)%nat) es) (seq s n)) edge0))%nat).
  { induction n as [|n IH]; intros s i j Hij Hj; simpl in *; [lia|].
    set (b := filter (fun e => (e_src e =? s)%nat) es) in *.
    assert (Hb : forall k, (k < length b)%nat -> e_src (nth k b edge0) = s).
    { intros k Hk. assert (Hin : In (nth k b edge0) b) by (apply nth_In; exact Hk).
      unfold b in Hin. apply filter_In in Hin. apply Nat.eqb_eq. tauto. }
    rewrite app_length in Hj.
    destruct (Nat.lt_ge_cases j (length b)) as [Hjb|Hjb].
    - rewrite !app_nth1 by lia. rewrite !Hb by lia. lia.
    - destruct (Nat.lt_ge_cases i (length b)) as [Hib|Hib].
      + rewrite (app_nth1 _ _ _ Hib), Hb by exact Hib. rewrite app_nth2 by exact Hjb.
        destruct (IH (S s) (j - length b)%nat (j - length b)%nat) as [A _]; [lia|lia|]. lia.
      + rewrite !app_nth2 by lia.
        destruct (IH (S s) (i - length b)%nat (j - length b)%nat) as [A B]; [lia|lia|]. lia. }
  intros i j Hij Hj. apply (Hgen (g_next g) 0%nat i j Hij Hj).
Qed.

(** ** The observation of the single environment *)

Definition edge_rows (g : graph) (k : nat) : list (list Z) :=
  [map (fun e => Z.of_nat (e_src e)) (edge_view g) ++ repeat (-1) k;
   map (fun e => Z.of_nat (e_dst e)) (edge_view g) ++ repeat (-1) k].

Lemma pad2_two_rows (a b : list Z) E :
  (length a <= E)%nat ->
  pad2 (-1) 2 E [a; b] = Some [a ++ repeat (-1) (E - length a); b ++ repeat (-1) (E - length b)].
Proof.
  intros Hle. unfold pad2. cbn [length width]. 
  replace (2 <? 2)%nat with false by reflexivity.
  destruct (Nat.ltb_spec E (length a)) as [Hlt|Hge]; [lia|]. reflexivity.
Qed.

Lemma get_edge_index_padded sp g :
  (length (edge_view g) <= sp_edges sp)%nat ->
  get_edge_index true sp g = Some (edge_rows g (sp_edges sp - length (edge_view g))).
Proof.
  intros Hle. unfold get_edge_index, edge_index_raw, edge_rows.
  destruct (edge_view g) as [|e t] eqn:E.
  - unfold pad2. simpl. rewrite Nat.sub_0_r. reflexivity.
  - remember (e :: t) as es eqn:Ees. rewrite pad2_two_rows by (rewrite map_length; exact Hle).
    rewrite !map_length. reflexivity.
Qed.

Lemma get_edge_index_raises sp g :
  (sp_edges sp < length (edge_view g))%nat -> get_edge_index true sp g = None.
Proof.
  intros Hlt. unfold get_edge_index, edge_index_raw.
  destruct (edge_view g) as [|e t] eqn:E; [simpl in Hlt; lia|].
  apply pad2_none. right. cbn [width]. rewrite map_length. exact Hlt.
Qed.

Lemma edge_entry_ok_nat N x : (x < N)%nat -> edge_entry_ok N (Z.of_nat x) = true.
Proof. intros H. unfold edge_entry_ok, in_range. rewrite andb_true_iff, Z.leb_le, Z.ltb_lt. lia. Qed.
Lemma edge_entry_ok_pad N : edge_entry_ok N (-1) = true.
Proof. unfold edge_entry_ok, in_range. rewrite andb_true_iff, Z.leb_le, Z.ltb_lt. lia. Qed.

Lemma edge_rows_contained g N E k :
  graph_ok g -> (g_next g <= N)%nat -> (length (edge_view g) + k = E)%nat ->
  edge_space_contains N E (edge_rows g k) = true.
Proof.
  intros Hg HN HE. pose proof (edge_view_in g Hg) as Hin. unfold edges_in in Hin. rewrite Forall_forall in Hin.
  unfold edge_space_contains, edge_rows. cbn [length forallb]. rewrite Nat.eqb_refl. simpl andb.
  rewrite !app_length, !map_length, !repeat_length, !HE, !Nat.eqb_refl. simpl andb.
  rewrite !forallb_app. rewrite !andb_true_iff. repeat split.
  - apply forallb_forall. intros x Hx. apply in_map_iff in Hx. destruct Hx as (e & <- & He).
    apply edge_entry_ok_nat. destruct (Hin e He). lia.
  - apply forallb_forall. intros x Hx. apply repeat_spec in Hx. subst. apply edge_entry_ok_pad.
  - apply forallb_forall. intros x Hx. apply in_map_iff in Hx. destruct Hx as (e & <- & He).
    apply edge_entry_ok_nat. destruct (Hin e He). lia.
  - apply forallb_forall. intros x Hx. apply repeat_spec in Hx. subst. apply edge_entry_ok_pad.
Qed.

Theorem single_obs_in_space {A : Type} (g0 : graph) (shapes : list (ftype * (nat * nat)))
        (l : list nat) (feats : list (ftype * list (list A))) :
  graph_ok g0 -> feats_contains shapes feats = true ->
  let sp := observation_space g0 shapes in
  let g := run_removes g0 l in
  (length (edge_view g) <= sp_edges sp)%nat /\
  length (g_removed g) = sp_nodes sp /\ g_nodes g = g_nodes g0 /\
  get_observation true sp g feats =
    Some (mkobs (g_removed g) (edge_rows g (sp_edges sp - length (edge_view g))) feats) /\
  obs_contains sp (mkobs (g_removed g) (edge_rows g (sp_edges sp - length (edge_view g))) feats) = true.
Proof.
  intros Hg Hf sp g. destruct (run_removes_facts l g0 Hg) as (Hg' & Hn & Hnodes & _ & Hle).
  fold g in Hg', Hn, Hnodes, Hle.
  assert (Hlen : (length (edge_view g) <= sp_edges sp)%nat).
  { rewrite (edge_view_length g Hg'). exact Hle. }
  assert (Hmask : length (g_removed g) = sp_nodes sp).
  { simpl. rewrite (ok_removed _ Hg'), Hn. symmetry. apply (ok_nodes _ Hg). }
  split; [exact Hlen|]. split; [exact Hmask|]. split; [exact Hnodes|]. split.
  - unfold get_observation. rewrite (get_edge_index_padded sp g Hlen). reflexivity.
  - unfold obs_contains. cbn [ob_removed ob_edge ob_feats]. rewrite !andb_true_iff. repeat split.
    + unfold mask_contains. apply Nat.eqb_eq. exact Hmask.
    + apply edge_rows_contained; [exact Hg'| |lia].
      rewrite Hn. simpl. rewrite (ok_nodes _ Hg). lia.
    + exact Hf.
Qed.

(** without padding the edge index is the bare edge list: in the space exactly
    while no edge has been removed *)
Lemma get_observation_unpadded {A : Type} sp g (feats : list (ftype * list (list A))) :
  get_observation false sp g feats = Some (mkobs (g_removed g) (edge_index_raw g) feats).
Proof. reflexivity. Qed.

(** ** done <-> complete *)
Section Done.
  Variable O : Type.
  Variable o_update : instance -> list fname -> dstate -> sop -> O -> O.

  Lemma step_a_Inv I w a : valid I -> Inv I (core w) -> Inv I (core (step_a O o_update I w a)).
  Proof.
    intros Hv Hi. unfold step_a. destruct a as [r|j m]; simpl.
    - apply (step_req_Inv O o_update I w r Hv Hi).
    - destruct (env_step_cases O o_update I j m w) as [[e He]|[m' He]]; rewrite He.
      + exact Hi.
      + apply (step_req_Inv O o_update I w _ Hv Hi).
  Qed.

  Lemma run_a_Inv I l : forall w, valid I -> Inv I (core w) -> Inv I (core (run_a O o_update I w l)).
  Proof.
    unfold run_a. induction l as [|a t IH]; intros w Hv Hi; simpl; [exact Hi|].
    apply IH; [exact Hv|]. apply step_a_Inv; assumption.
  Qed.

  Theorem done_iff_complete I fs l :
    valid I ->
    let w := run_a O o_update I (init_w O I fs) l in
    step_done I (core w) = true <-> complete I (sched (core w)).
  Proof.
    intros Hv w. unfold step_done. apply is_complete_spec. apply run_a_Inv; [exact Hv|]. simpl. apply Inv_init.
  Qed.
End Done.

(** ** The multi-instance environment keeps its configuration *)

Record keeps_config (cfg : config) (b : nat) (p : params) (m : menv) : Prop := {
  kc_p : m_p m = p;
  kc_builder : m_builder m = b;
  kc_feats : m_feats m = c_feats cfg;
  kc_reward : m_reward m = c_reward cfg;
  kc_updater : m_updater m = c_updater cfg;
  kc_render_mode : m_render_mode m = c_render_mode cfg;
  kc_render_cfg : m_render_cfg m = c_render_cfg cfg;
  kc_inner : i_cfg (m_inner m) = cfg
}.

(** the inner environment was built by [SingleJobShopGraphEnv.__init__] from a
    graph of the configured builder and only [remove_node] / [reset] happened since *)
Record inner_wf (b : nat) (e : inner) : Prop := {
  iw_built : build_by_code b (g_inst (i_graph0 e)) = Some (i_graph0 e);
  iw_space : i_space e = observation_space (i_graph0 e)
                           (composite_shapes (g_inst (i_graph0 e)) (c_feats (i_cfg e)));
  iw_anvec : i_anvec e = action_nvec (g_inst (i_graph0 e));
  iw_graph : exists l, i_graph e = run_removes (i_graph0 e) l
}.

Lemma build_inner_facts b cfg I e :
  build_inner b cfg I = Some e ->
  i_cfg e = cfg /\ g_inst (i_graph0 e) = I /\ inner_wf b e /\ i_graph e = i_graph0 e.
Proof.
  unfold build_inner. destruct (build_by_code b I) as [g|] eqn:E; [|discriminate].
  intros H. inversion H; subst; clear H. destruct (build_by_code_ok _ _ _ E) as [_ Hi].
  simpl. split; [reflexivity|]. split; [exact Hi|]. split; [|reflexivity].
  constructor; simpl; try reflexivity.
  - rewrite Hi. exact E.
  - exists []. reflexivity.
Qed.

Theorem multi_init_config p b cfg g m g' :
  multi_init p b cfg g = Ok (Some m) g' ->
  keeps_config cfg b p m /\ inner_wf b (m_inner m) /\
  m_space m = i_space (m_inner m) /\ m_anvec m = i_anvec (m_inner m) /\
  exists x, generate p (Some (jhi p)) (Some (mhi p)) g = Ok x g' /\ g_inst (i_graph0 (m_inner m)) = snd x.
Proof.
  unfold multi_init, bind, ret.
  destruct (generate p (Some (jhi p)) (Some (mhi p)) g) as [x g1|e g1|] eqn:Eg; try discriminate.
  destruct (build_inner b cfg (snd x)) as [e|] eqn:Eb; [|discriminate].
  intros H. inversion H; subst; clear H.
  destruct (build_inner_facts _ _ _ _ Eb) as (Hc & Hi & Hw & _).
  split; [constructor; simpl; auto|]. split; [exact Hw|]. split; [reflexivity|]. split; [reflexivity|].
  exists x. auto.
Qed.

Lemma config_eta cfg :
  mkcfg (c_feats cfg) (c_reward cfg) (c_updater cfg) (c_filter cfg) (c_render_mode cfg)
        (c_render_cfg cfg) (c_padding cfg) = cfg.
Proof. destruct cfg; reflexivity. Qed.

Lemma reset_config_repaired cfg b p m : keeps_config cfg b p m -> reset_config true m = cfg.
Proof.
  intros [K1 K2 K3 K4 K5 K6 K7 K8]. unfold reset_config. rewrite K3, K4, K5, K6, K7, K8. apply config_eta.
Qed.

Theorem multi_reset_config cfg b p m g m' g' :
  keeps_config cfg b p m ->
  multi_reset true m g = Ok (Some m') g' ->
  keeps_config cfg b p m' /\ inner_wf b (m_inner m') /\
  m_space m' = m_space m /\ m_anvec m' = m_anvec m /\
  i_graph (m_inner m') = i_graph0 (m_inner m') /\
  exists x, generate p None None g = Ok x g' /\ g_inst (i_graph0 (m_inner m')) = snd x.
Proof.
  intros K. pose proof (reset_config_repaired _ _ _ _ K) as Hrc. destruct K as [K1 K2 K3 K4 K5 K6 K7 K8].
  unfold multi_reset, bind, ret. rewrite K1, K2, Hrc.
  destruct (generate p None None g) as [x g1|e g1|] eqn:Eg; try discriminate.
  destruct (build_inner b cfg (snd x)) as [e|] eqn:Eb; [|discriminate].
  intros H. inversion H; subst; clear H.
  destruct (build_inner_facts _ _ _ _ Eb) as (Hc & Hi & Hw & Hg).
  split; [constructor; simpl; auto|]. split; [exact Hw|]. split; [reflexivity|]. split; [reflexivity|].
  split; [exact Hg|]. exists x. auto.
Qed.

(** every state of the multi environment: constructed, then any sequence of
    resets (on whatever the generator's RNG returns), steps ([remove_node]
    calls on the inner graph) and resets of the inner environment *)
Inductive reachable (cfg : config) (b : nat) (p : params) : menv -> Prop :=
| reach_init g m g' : multi_init p b cfg g = Ok (Some m) g' -> reachable cfg b p m
| reach_reset m g m' g' : reachable cfg b p m -> multi_reset true m g = Ok (Some m') g' -> reachable cfg b p m'
| reach_step m l : reachable cfg b p m -> reachable cfg b p (set_inner m (inner_removes (m_inner m) l)).

Lemma inner_wf_removes b e l : inner_wf b e -> inner_wf b (inner_removes e l).
Proof.
  intros [W1 W2 W3 [l0 W4]]. constructor; simpl; auto.
  exists (l0 ++ l). rewrite W4. unfold run_removes. rewrite fold_left_app. reflexivity.
Qed.

Theorem reachable_keeps_config cfg b p m :
  reachable cfg b p m -> keeps_config cfg b p m /\ inner_wf b (m_inner m).
Proof.
  induction 1 as [g m g' Hi|m g m' g' Hr IH Hs|m l Hr IH].
  - destruct (multi_init_config _ _ _ _ _ _ Hi) as (A & B & _). auto.
  - destruct IH as [K _]. destruct (multi_reset_config _ _ _ _ _ _ _ K Hs) as (A & B & _). auto.
  - destruct IH as [[K1 K2 K3 K4 K5 K6 K7 K8] W]. split.
    + constructor; simpl; auto.
    + simpl. apply inner_wf_removes. exact W.
Qed.

(** ** Padding to the declared sizes *)

Fixpoint nodup_keysb (sh : list (ftype * (nat * nat))) : bool :=
  match sh with
  | [] => true
  | (t, _) :: r => negb (existsb (fun x => ftype_eqb t (fst x)) r) && nodup_keysb r
  end.

Lemma lookup_shape_in sh : nodup_keysb sh = true ->
  forall t s, In (t, s) sh -> lookup_shape t sh = Some s.
Proof.
  induction sh as [|[t0 s0] r IH]; intros Hn t s Hin; [contradiction|].
  simpl in Hn. apply andb_true_iff in Hn. destruct Hn as [Hn1 Hn2]. simpl.
  destruct Hin as [Heq|Hin].
  - inversion Heq; subst. replace (ftype_eqb t t) with true by (symmetry; apply ftype_eqb_eq; reflexivity). reflexivity.
  - destruct (ftype_eqb t t0) eqn:E.
    + apply ftype_eqb_eq in E. subst t0. exfalso.
      apply negb_true_iff in Hn1. assert (existsb (fun x => ftype_eqb t (fst x)) r = true); [|congruence].
      apply existsb_exists. exists (t, s). split; [exact Hin|]. simpl. apply ftype_eqb_eq. reflexivity.
    + apply IH; assumption.
Qed.

(** the padded matrices, entry by entry of the dictionary *)
Fixpoint padded_feats {A} (fill : A) (osh : list (ftype * (nat * nat)))
         (fs : list (ftype * list (list A))) : list (ftype * list (list A)) :=
  match osh, fs with
  | (_, (r, c)) :: osh', (t, m) :: fs' => (t, pad2_result fill r c m) :: padded_feats fill osh' fs'
  | _, _ => []
  end.

Lemma pad_feats_ok {A} (fill : A) (full : list (ftype * (nat * nat))) :
  forall ish osh fs,
    feats_fit ish osh = true -> feats_contains ish fs = true ->
    (forall t s, In (t, s) osh -> lookup_shape t full = Some s) ->
    pad_feats fill full fs = Some (padded_feats fill osh fs) /\
    feats_contains osh (padded_feats fill osh fs) = true.
Proof.
  induction ish as [|[t [r c]] ish IH]; intros osh fs Hfit Hc Hl.
  - destruct osh; [|discriminate]. destruct fs; [|discriminate]. simpl. auto.
  - destruct osh as [|[t' [r' c']] osh]; [discriminate|]. destruct fs as [|[t2 m] fs]; [discriminate|].
    simpl in Hfit, Hc. repeat rewrite andb_true_iff in Hfit. repeat rewrite andb_true_iff in Hc.
    destruct Hfit as [[[Ht Hr] Hcc] Hfit]. destruct Hc as [[Ht2 Hb] Hc].
    apply ftype_eqb_eq in Ht. apply ftype_eqb_eq in Ht2. subst t' t2.
    apply Nat.leb_le in Hr. apply Nat.eqb_eq in Hcc. subst c'.
    destruct (IH osh fs Hfit Hc (fun t0 s0 H0 => Hl t0 s0 (or_intror H0))) as [IH1 IH2].
    destruct (box_rect _ _ _ Hb) as (Hrect & Hlen & _). pose proof (width_le_of_box _ _ _ Hb) as Hw.
    simpl. rewrite (Hl t (r', c) (or_introl eq_refl)).
    assert (Hp : pad2 fill r' c m = Some (pad2_result fill r' c m)).
    { unfold pad2. destruct (Nat.ltb_spec r' (length m)) as [Ha|Ha]; [lia|].
      destruct (Nat.ltb_spec c (width m)) as [Hb'|Hb']; [lia|]. reflexivity. }
    rewrite Hp, IH1. split; [reflexivity|].
    rewrite IH2, andb_true_r. apply andb_true_iff. split; [apply ftype_eqb_eq; reflexivity|].
    apply box_contains_spec. apply pad2_shape; [exact Hrect|lia|exact Hw].
Qed.

Theorem multi_obs_in_space_partial {A : Type} (neg1 : A) (b : nat) (m : menv)
        (feats : list (ftype * list (list A))) :
  let e := m_inner m in
  let g := i_graph e in
  inner_wf b e ->
  c_padding (i_cfg e) = true ->
  space_fits (i_space e) (m_space m) = true ->          (* the explicit hypothesis *)
  nodup_keysb (sp_feats (m_space m)) = true ->
  feats_contains (sp_feats (i_space e)) feats = true ->
  let o := mkobs (g_removed g ++ repeat true (sp_nodes (m_space m) - length (g_removed g)))
                 (edge_rows g (sp_edges (m_space m) - length (edge_view g)))
                 (padded_feats neg1 (sp_feats (m_space m)) feats) in
  multi_observe neg1 m feats = Some o /\ obs_contains (m_space m) o = true /\
  (length (g_removed g) <= sp_nodes (m_space m))%nat /\
  (length (edge_view g) <= sp_edges (m_space m))%nat.
Proof.
  intros e g [W1 W2 W3 [l W4]] Hpad Hfit Hnd Hfc.
  destruct (build_by_code_ok _ _ _ W1) as [Hg0 _].
  unfold space_fits in Hfit. rewrite !andb_true_iff in Hfit. destruct Hfit as [[HN HE] HF].
  apply Nat.leb_le in HN. apply Nat.leb_le in HE.
  rewrite W2 in Hfc. cbn [sp_feats observation_space] in Hfc.
  pose proof (single_obs_in_space (i_graph0 e) (composite_shapes (g_inst (i_graph0 e)) (c_feats (i_cfg e)))
                                  l feats Hg0 Hfc) as Hs. cbn zeta in Hs.
  rewrite <- W2 in Hs. rewrite <- W4 in Hs. fold g in Hs.
  destruct Hs as (Hlen & Hmask & Hnodes & Hobs & Hin).
  destruct (run_removes_facts l (i_graph0 e) Hg0) as (Hg' & Hn & _). rewrite <- W4 in Hg', Hn. fold g in Hg', Hn.
  set (sp := m_space m) in *. set (si := i_space e) in *.
  assert (HlenN : (length (g_removed g) <= sp_nodes sp)%nat) by lia.
  assert (HlenE : (length (edge_view g) <= sp_edges sp)%nat) by lia.
  assert (HF' : feats_fit (composite_shapes (g_inst (i_graph0 e)) (c_feats (i_cfg e))) (sp_feats sp) = true).
  { rewrite W2 in HF. cbn [sp_feats observation_space] in HF. exact HF. }
  destruct (pad_feats_ok neg1 (sp_feats sp) _ (sp_feats sp) feats HF' Hfc (lookup_shape_in _ Hnd)) as [P1 P2].
  intros o. split; [|split; [|split; [exact HlenN|exact HlenE]]].
  - unfold multi_observe, inner_observe. fold e. rewrite Hpad. fold g si. rewrite Hobs.
    unfold multi_pad. cbn [ob_removed ob_edge ob_feats]. fold sp.
    unfold pad1. destruct (Nat.ltb_spec (sp_nodes sp) (length (g_removed g))) as [Hlt|_]; [lia|].
    unfold edge_rows at 1. rewrite pad2_two_rows by (rewrite app_length, map_length, repeat_length; lia).
    rewrite P1. unfold o, edge_rows. f_equal. f_equal.
    rewrite !app_length, !map_length, !repeat_length, <- !app_assoc, <- !repeat_app.
    replace (sp_edges si - length (edge_view g) + (sp_edges sp - (length (edge_view g) + (sp_edges si - length (edge_view g)))))%nat
      with (sp_edges sp - length (edge_view g))%nat by lia. reflexivity.
  - unfold obs_contains, o. cbn [ob_removed ob_edge ob_feats]. rewrite !andb_true_iff. split; [split|].
    + unfold mask_contains. apply Nat.eqb_eq. rewrite app_length, repeat_length. lia.
    + apply edge_rows_contained; [exact Hg'| |lia].
      rewrite <- (ok_removed _ Hg'). exact HlenN.
    + exact P2.
Qed.

(** when an inner size exceeds the declared one the padding raises *)
Theorem multi_observe_raises_on_edges {A : Type} (neg1 : A) (b : nat) (m : menv)
        (feats : list (ftype * list (list A))) :
  inner_wf b (m_inner m) -> c_padding (i_cfg (m_inner m)) = true ->
  (sp_edges (m_space m) < sp_edges (i_space (m_inner m)))%nat ->
  multi_observe neg1 m feats = None.
Proof.
  intros [W1 W2 W3 [l W4]] Hpad Hlt. destruct (build_by_code_ok _ _ _ W1) as [Hg0 _].
  destruct (run_removes_facts l (i_graph0 (m_inner m)) Hg0) as (Hg' & _ & _ & _ & Hle).
  rewrite <- W4 in Hg', Hle.
  unfold multi_observe, inner_observe, get_observation. rewrite Hpad.
  rewrite get_edge_index_padded.
  2:{ rewrite (edge_view_length _ Hg'). rewrite W2. simpl. exact Hle. }
  unfold multi_pad. cbn [ob_removed ob_edge ob_feats].
  destruct (pad1 true (sp_nodes (m_space m)) (g_removed (i_graph (m_inner m)))); [|reflexivity].
  assert (Hn : pad2 (-1) 2 (sp_edges (m_space m))
                    (edge_rows (i_graph (m_inner m))
                       (sp_edges (i_space (m_inner m)) - length (edge_view (i_graph (m_inner m))))) = None).
  { apply pad2_none. right. unfold edge_rows. cbn [width].
    rewrite app_length, map_length, repeat_length.
    assert (length (edge_view (i_graph (m_inner m))) <= sp_edges (i_space (m_inner m)))%nat.
    { rewrite (edge_view_length _ Hg'). rewrite W2. simpl. exact Hle. }
    lia. }
  rewrite Hn. reflexivity.
Qed.

(** ** The composite's keys are pairwise distinct (a Python dict) *)

Lemma add_key_keys t acc :
  map fst (add_key t acc) =
  if existsb (ftype_eqb t) (map fst acc) then map fst acc else map fst acc ++ [t].
Proof.
  induction acc as [|[t' n] r IH]; simpl; [reflexivity|].
  destruct (ftype_eqb t t') eqn:E; simpl; [reflexivity|]. rewrite IH.
  destruct (existsb (ftype_eqb t) (map fst r)); reflexivity.
Qed.

Lemma NoDup_snoc {A} (l : list A) x : NoDup l -> ~ In x l -> NoDup (l ++ [x]).
Proof.
  induction l as [|y t IH]; intros Hn Hx; simpl.
  - constructor; [intros []|constructor].
  - inversion Hn as [|? ? Hy Ht]; subst. constructor.
    + intros Hin. apply in_app_or in Hin. destruct Hin as [Hin|[Hin|[]]]; [contradiction|].
      subst. apply Hx. left. reflexivity.
    + apply IH; [exact Ht|]. intros Hin. apply Hx. right. exact Hin.
Qed.

Lemma add_key_nodup t acc : NoDup (map fst acc) -> NoDup (map fst (add_key t acc)).
Proof.
  intros H. rewrite add_key_keys. destruct (existsb (ftype_eqb t) (map fst acc)) eqn:E; [exact H|].
  apply NoDup_snoc; [exact H|].
  intros Hin. assert (existsb (ftype_eqb t) (map fst acc) = true); [|congruence].
  apply existsb_exists. exists t. split; [exact Hin|apply ftype_eqb_eq; reflexivity].
Qed.

Lemma composite_cols_nodup cfgs : NoDup (map fst (composite_cols cfgs)).
Proof.
  unfold composite_cols. generalize (concat (map fo_types cfgs)) as ts.
  assert (Hgen : forall ts acc, NoDup (map fst acc) ->
            NoDup (map fst (fold_left (fun a t => add_key t a) ts acc))).
  { induction ts as [|t r IH]; intros acc H; simpl; [exact H|]. apply IH. apply add_key_nodup. exact H. }
  intros ts. apply Hgen. constructor.
Qed.

Lemma nodup_keysb_of_NoDup sh : NoDup (map fst sh) -> nodup_keysb sh = true.
Proof.
  induction sh as [|[t s] r IH]; intros H; simpl; [reflexivity|].
  inversion H as [|? ? Hni Hnd]; subst. rewrite (IH Hnd), andb_true_r. apply negb_true_iff.
  destruct (existsb (fun x => ftype_eqb t (fst x)) r) eqn:E; [|reflexivity].
  apply existsb_exists in E. destruct E as ([t' s'] & Hin & Ht). simpl in Ht. apply ftype_eqb_eq in Ht. subst t'.
  exfalso. apply Hni. change t with (fst (t, s')). apply in_map. exact Hin.
Qed.

Lemma composite_shapes_nodup I cfgs : nodup_keysb (composite_shapes I cfgs) = true.
Proof.
  apply nodup_keysb_of_NoDup. unfold composite_shapes. rewrite map_map. simpl.
  apply composite_cols_nodup.
Qed.

(** every reachable multi environment: the declared spaces are those of the
    constructor's max-size sample and never change *)
Theorem reachable_space cfg b p m :
  reachable cfg b p m ->
  exists g m0 g', multi_init p b cfg g = Ok (Some m0) g' /\
    m_space m = i_space (m_inner m0) /\ m_anvec m = i_anvec (m_inner m0) /\
    nodup_keysb (sp_feats (m_space m)) = true.
Proof.
  induction 1 as [g m g' Hi|m g m' g' Hr IH Hs|m l Hr IH].
  - destruct (multi_init_config _ _ _ _ _ _ Hi) as (A & B & C & D & _).
    exists g, m, g'. split; [exact Hi|]. split; [exact C|]. split; [exact D|].
    rewrite C, (iw_space _ _ B). simpl. apply composite_shapes_nodup.
  - destruct IH as (g0 & m0 & g0' & Hi & C & D & E).
    destruct (reachable_keeps_config _ _ _ _ Hr) as [K _].
    destruct (multi_reset_config _ _ _ _ _ _ _ K Hs) as (_ & _ & S1 & S2 & _).
    exists g0, m0, g0'. rewrite S1, S2. auto.
  - destruct IH as (g0 & m0 & g0' & Hi & C & D & E). exists g0, m0, g0'. simpl. auto.
Qed.
