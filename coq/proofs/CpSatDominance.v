(** CpSatDominance.v — semi-active dominance: every feasible complete schedule
    is dominated by a dispatcher-built one (no operation starts later, same
    machines), for every instance with durations >= 0, flexible or not, zero
    durations included. Consequence: the brute force over dispatch histories
    [opt_bf] is OPT(I).

    The dominated history dispatches the operations of [S] in the order of
    the key (start in S, end in S, position in job) — the same (start, end)
    order that makes the CP-SAT rebuild total. *)
From JSL Require Import Base Instance Dstate Filters World Feasible ListFacts DispatchFun Inv Run
  CpSat CpSatSpec CpSatLemmas CpSatProofs.
From Coq Require Import Lia Permutation.

(** ** Acceptance of the dispatch of a job's next operation *)

Lemma machine_lt_num I j p o m : get_op I j p = Some o -> In m (machines o) -> (m < num_machines I)%nat.
Proof.
  intros Hg Hm. unfold num_machines.
  assert (Hin : In o (concat I)).
  { unfold get_op in Hg. destruct (nth_error I j) as [job|] eqn:Ej; [|discriminate].
    apply in_concat. exists job. split; eapply nth_error_In; eauto. }
  assert (H1 : (max_mach_op o <= fold_right Nat.max 0 (map max_mach_op (concat I)))%nat)
    by (apply le_fold_max; apply in_map; exact Hin).
  assert (H2 : (S m <= max_mach_op o)%nat) by (unfold max_mach_op; apply le_fold_max; apply in_map; exact Hm).
  lia.
Qed.

Lemma py_index_nat len j : (j < len)%nat -> py_index len (Z.of_nat j) = Some j.
Proof.
  intros H. unfold py_index.
  assert (E : (0 <=? Z.of_nat j) && (Z.of_nat j <? Z.of_nat len) = true).
  { apply andb_true_iff. split; [apply Z.leb_le; lia|apply Z.ltb_lt; lia]. }
  rewrite E, Nat2Z.id. reflexivity.
Qed.

Definition next_sop (d : dstate) (j m : nat) : sop :=
  mksop j (nthN (jnext d) j) (Z.max (nthZ (mfree d) m) (nthZ (jfree d) j)) m.

Lemma bf_dispatch_accepted I (w : world unit) j m o :
  Inv I (core w) -> get_op I j (nthN (jnext (core w)) j) = Some o -> In m (machines o) ->
  exists row,
    accepted I (core w) (mkreq j (nthN (jnext (core w)) j) (Some (Z.of_nat m))) (next_sop (core w) j m) o row /\
    core (bf_step I w ((j, nthN (jnext (core w)) j), m)) = apply_sop I (core w) (next_sop (core w) j m) row.
Proof.
  intros Hi Hgo Hel.
  assert (Hm : (m < num_machines I)%nat) by (eapply machine_lt_num; eauto).
  assert (Hmf : (m < length (mfree (core w)))%nat) by (rewrite (i_len_mf _ _ Hi); exact Hm).
  destruct (nth_error (sched (core w)) m) as [row|] eqn:Hrow;
    [|apply nth_error_None in Hrow; rewrite (i_len_sc _ _ Hi) in Hrow; lia].
  destruct (i_rows _ _ Hi m row Hrow) as (_ & _ & Hle).
  exists row.
  assert (Hlast : match last_opt row with
                  | Some y => s_end I y <= s_start (next_sop (core w) j m) | None => True end).
  { unfold last_end in Hle. destruct (last_opt row) as [y|] eqn:El; [|exact Logic.I]. simpl. lia. }
  split.
  - constructor; cbn [r_job r_pos r_mach next_sop s_job s_pos s_mach s_start]; auto.
  - unfold bf_step. cbn [fst snd]. rewrite dispatch_is_pure. unfold dispatch_pure. cbn [r_job r_pos r_mach].
    rewrite Hgo, Nat.eqb_refl. unfold resolve_pure. rewrite (py_index_nat _ _ Hmf).
    assert (Hex : existsb (fun k : nat => Z.of_nat k =? Z.of_nat m) (machines o) = true).
    { apply existsb_exists. exists m. split; [exact Hel|apply Z.eqb_eq; reflexivity]. }
    rewrite Hex, Nat2Z.id, Hrow. cbv zeta. fold (next_sop (core w) j m).
    destruct (last_opt row) as [y|] eqn:El; [|reflexivity].
    assert (Hleb : s_end I y <=? Z.max (nthZ (mfree (core w)) m) (nthZ (jfree (core w)) j) = true)
      by (apply Z.leb_le; exact Hlast).
    rewrite Hleb. reflexivity.
Qed.

(** ** [raw_ready] *)

Lemma raw_ready_from_In (I' : instance) j0 nx j p :
  length nx = length I' ->
  (In (j, p) (raw_ready_from I' j0 nx) <->
   (j0 <= j)%nat /\ (j - j0 < length I')%nat /\ nth (j - j0) nx 0%nat = p /\
   (p < length (nth (j - j0) I' []))%nat).
Proof.
  revert j0 nx. induction I' as [|job t IH]; intros j0 nx Hl.
  - destruct nx; [|discriminate]. simpl. split; [intros []|]. intros (_ & H & _). simpl in H. lia.
  - destruct nx as [|q nx']; [discriminate|]. simpl in Hl. injection Hl as Hl. cbn [raw_ready_from].
    assert (Hrest : In (j, p) (raw_ready_from t (S j0) nx') <->
                    (j0 < j)%nat /\ (j - j0 < length (job :: t))%nat /\ nth (j - j0) (q :: nx') 0%nat = p /\
                    (p < length (nth (j - j0) (job :: t) []))%nat).
    { rewrite (IH (S j0) nx' Hl). split.
      - intros (H1 & H2 & H3 & H4). replace (j - j0)%nat with (S (j - S j0)) by lia. simpl. repeat split; auto; lia.
      - intros (H1 & H2 & H3 & H4). replace (j - j0)%nat with (S (j - S j0)) in H2, H3, H4 by lia.
        simpl in H2, H3, H4. repeat split; auto; lia. }
    destruct (q <? length job)%nat eqn:Eq.
    + apply Nat.ltb_lt in Eq. cbn [In]. rewrite Hrest. split.
      * intros [H|H].
        -- inversion H; subst. rewrite Nat.sub_diag. simpl. repeat split; auto; lia.
        -- destruct H as (H1 & H2 & H3 & H4). repeat split; auto; lia.
      * intros (H1 & H2 & H3 & H4). destruct (Nat.eq_dec j j0) as [->|Hne].
        -- left. rewrite Nat.sub_diag in H3. simpl in H3. subst. reflexivity.
        -- right. repeat split; auto; lia.
    + apply Nat.ltb_ge in Eq. rewrite Hrest. split.
      * intros (H1 & H2 & H3 & H4). repeat split; auto; lia.
      * intros (H1 & H2 & H3 & H4). destruct (Nat.eq_dec j j0) as [->|Hne].
        -- rewrite Nat.sub_diag in H3, H4. simpl in H3, H4. lia.
        -- repeat split; auto; lia.
Qed.

Lemma raw_ready_In I d j p :
  Inv I d -> (In (j, p) (raw_ready I d) <-> nthN (jnext d) j = p /\ exists o, get_op I j p = Some o).
Proof.
  intros Hi. unfold raw_ready. rewrite (raw_ready_from_In I 0 (jnext d) j p (i_len_jn _ _ Hi)).
  rewrite Nat.sub_0_r. fold (get_job I j). unfold nthN. split.
  - intros (_ & Hj & Hn & Hp). split; [exact Hn|].
    rewrite get_op_get_job. destruct (nth_error (get_job I j) p) as [o|] eqn:E; [eauto|].
    apply nth_error_None in E. lia.
  - intros (Hn & o & Ho). pose proof (get_op_bounds _ _ _ _ Ho) as [Hj Hp]. repeat split; auto; lia.
Qed.

(** ** The order in which the operations of [S] are dispatched *)

Definition sel_leb (I : instance) (y z : sop) : bool :=
  (s_start y <? s_start z) ||
  ((s_start y =? s_start z) &&
   ((s_end I y <? s_end I z) || ((s_end I y =? s_end I z) && (s_pos y <=? s_pos z)%nat))).

Definition sel_le (I : instance) (y z : sop) : Prop :=
  s_start y < s_start z \/
  (s_start y = s_start z /\ (s_end I y < s_end I z \/ (s_end I y = s_end I z /\ (s_pos y <= s_pos z)%nat))).

Lemma sel_leb_spec I y z : sel_leb I y z = true <-> sel_le I y z.
Proof.
  unfold sel_leb, sel_le. rewrite !orb_true_iff, !andb_true_iff, !orb_true_iff, !andb_true_iff,
    !Z.ltb_lt, !Z.eqb_eq, Nat.leb_le. tauto.
Qed.

Lemma sel_le_total I y z : sel_le I y z \/ sel_le I z y.
Proof. unfold sel_le. lia. Qed.

Lemma sel_le_trans I x y z : sel_le I x y -> sel_le I y z -> sel_le I x z.
Proof. unfold sel_le. lia. Qed.

Lemma min_exists I (l : list sop) : l <> [] -> exists y, In y l /\ forall z, In z l -> sel_le I y z.
Proof.
  induction l as [|a t IH]; intros Hne; [congruence|].
  destruct t as [|b t'].
  - exists a. split; [left; reflexivity|]. intros z [<-|[]]. unfold sel_le. lia.
  - destruct IH as (y & Hy & Hmin); [discriminate|].
    destruct (sel_le_total I a y) as [H|H].
    + exists a. split; [left; reflexivity|]. intros z [<-|Hz]; [unfold sel_le; lia|].
      eapply sel_le_trans; [exact H|apply Hmin; exact Hz].
    + exists y. split; [right; exact Hy|]. intros z [<-|Hz]; [exact H|apply Hmin; exact Hz].
Qed.

(** ** The domination invariant *)

Definition is_sched (d : dstate) (k : nat * nat) : Prop := (snd k < nthN (jnext d) (fst k))%nat.
Definition is_schedb (d : dstate) (k : nat * nat) : bool := (snd k <? nthN (jnext d) (fst k))%nat.

Record Dom (I : instance) (S : schedule) (d : dstate) : Prop := {
  dom_start : forall x, In x (all_sops (sched d)) ->
      exists y, In y (all_sops S) /\ key y = key x /\ s_mach y = s_mach x /\ s_start x <= s_start y;
  dom_order : forall y z, In y (all_sops S) -> In z (all_sops S) ->
      is_sched d (key z) -> ~ is_sched d (key y) -> sel_le I z y
}.

Lemma Dom_init I S : Dom I S (init_d I).
Proof.
  constructor.
  - unfold init_d, all_sops. cbn [sched]. rewrite concat_repeat_nil. intros x [].
  - intros y z _ _ H. unfold is_sched, init_d, nthN in H. cbn [jnext] in H.
    rewrite nth_repeat_default in H. lia.
Qed.

Lemma dur_same_key I x y : key x = key y -> dur I x = dur I y.
Proof. intros H. rewrite !dur_is_kdur, H. reflexivity. Qed.

Lemma sumN_pointwise_le (a b : list nat) :
  length a = length b -> (forall i, nth i a 0 <= nth i b 0)%nat -> (sumN a <= sumN b)%nat.
Proof.
  revert b. induction a as [|u a IH]; intros [|v b] Hl Hle; simpl in *; try discriminate; [lia|].
  specialize (IH b ltac:(lia) (fun k => Hle (S k))). specialize (Hle 0%nat). simpl in Hle. lia.
Qed.

Section Dominance.
  Variable I : instance.
  Variable S : schedule.
  Hypothesis Hv : valid I.
  Hypothesis Hf : feasible I S.
  Hypothesis Hc : complete I S.

  Let start_le_end x : In x (all_sops S) -> s_start x <= s_end I x := s_end_ge_start I S x Hv Hf.

  (** One step: some unscheduled operation of [S] can be dispatched on its
      [S]-machine without starting later than in [S], and the invariants survive. *)
  Lemma dominance_step (w : world unit) y0 :
    Inv I (core w) -> Dom I S (core w) ->
    In y0 (all_sops S) -> ~ is_sched (core w) (key y0) ->
    exists k m, In k (raw_ready I (core w)) /\ In m (kmachines I k) /\
      Inv I (core (bf_step I w (k, m))) /\ Dom I S (core (bf_step I w (k, m))) /\
      sumN (jnext (core (bf_step I w (k, m)))) = Datatypes.S (sumN (jnext (core w))).
  Proof.
    intros Hi Hd Hy0 Hun0. set (d := core w) in *.
    (* the unscheduled operations of S, and a minimal one *)
    set (U := filter (fun y => negb (is_schedb d (key y))) (all_sops S)).
    assert (HU : forall y, In y U <-> In y (all_sops S) /\ ~ is_sched d (key y)).
    { intros y. unfold U. rewrite filter_In, negb_true_iff. unfold is_schedb, is_sched.
      rewrite Nat.ltb_ge. split; intros [H1 H2]; split; auto; lia. }
    destruct (min_exists I U) as (y & HyU & Hmin).
    { intros E. assert (In y0 U) by (apply HU; auto). rewrite E in H. destruct H. }
    apply HU in HyU. destruct HyU as [Hy Hun].
    set (j := s_job y). set (p := s_pos y). set (m := s_mach y).
    destruct (f_exists _ _ Hf y Hy) as (o & Ho & Hel). fold j p in Ho. fold m in Hel.
    (* (a) y is its job's next operation *)
    assert (Hnext : nthN (jnext d) j = p).
    { unfold is_sched in Hun. cbn [key fst snd] in Hun. fold j p in Hun.
      destruct (Nat.eq_dec (nthN (jnext d) j) p) as [E|Hne]; [exact E|]. exfalso.
      assert (Hlt : (nthN (jnext d) j < p)%nat) by lia.
      destruct (f_prefix _ _ Hf y (p - 1)%nat Hy) as (y' & Hy' & Hk'); [fold p; lia|].
      fold j in Hk'. unfold key in Hk'. injection Hk' as Hj' Hp'.
      assert (Hun' : ~ is_sched d (key y')) by (unfold is_sched; cbn [key fst snd]; rewrite Hj', Hp'; lia).
      assert (HyU' : In y' U) by (apply HU; auto).
      pose proof (Hmin y' HyU') as Hle.
      assert (Hjob : s_end I y' <= s_start y) by (apply (f_job _ _ Hf y' y Hy' Hy); [exact Hj'|fold p; lia]).
      pose proof (start_le_end y Hy). pose proof (start_le_end y' Hy').
      unfold sel_le in Hle. fold p in Hle. lia. }
    assert (Hgo : get_op I j (nthN (jnext d) j) = Some o) by (rewrite Hnext; exact Ho).
    destruct (bf_dispatch_accepted I w j m o Hi Hgo Hel) as (row & Hacc & Hcore).
    fold d in Hacc, Hcore. rewrite Hnext in Hacc, Hcore.
    set (x := next_sop d j m) in *.
    assert (Hxk : key x = key y) by (unfold x, next_sop, key; cbn [s_job s_pos]; rewrite Hnext; reflexivity).
    (* (c) x does not start later than y *)
    assert (Hjf : nthZ (jfree d) j <= s_start y).
    { destruct (i_jfree _ _ Hi j) as [[_ E]|(x' & Hx' & Hkx' & Hpos & E)].
      - rewrite E. apply (f_nonneg _ _ Hf y Hy).
      - rewrite E. destruct (dom_start _ _ _ Hd x' Hx') as (y' & Hy' & Hky' & _ & Hst').
        assert (Hend : s_end I x' <= s_end I y') by (unfold s_end; rewrite (dur_same_key I y' x' Hky'); lia).
        rewrite Hkx' in Hky'. unfold key in Hky'. injection Hky' as Hj' Hp'.
        assert (Hjob : s_end I y' <= s_start y) by (apply (f_job _ _ Hf y' y Hy' Hy); [exact Hj'|fold p; lia]).
        lia. }
    assert (Hmf : nthZ (mfree d) m <= s_start y).
    { destruct Hacc as [_ _ _ _ _ _ _ _ Arow _]. cbn [s_mach x next_sop] in Arow.
      destruct (i_rows _ _ Hi m row Arow) as (_ & Hmach & Hlast). rewrite <- Hlast. unfold last_end.
      destruct (last_opt row) as [z|] eqn:El; [|apply (f_nonneg _ _ Hf y Hy)].
      pose proof (last_opt_In _ _ El) as Hzrow.
      assert (Hz : In z (all_sops (sched d))) by (unfold all_sops; apply in_concat; exists row; split; [eapply nth_error_In; eauto|exact Hzrow]).
      destruct (dom_start _ _ _ Hd z Hz) as (z' & Hz' & Hkz' & Hmz' & Hstz').
      assert (Hend : s_end I z <= s_end I z') by (unfold s_end; rewrite (dur_same_key I z' z Hkz'); lia).
      assert (Hzs : is_sched d (key z')).
      { rewrite Hkz'. unfold is_sched. cbn [key fst snd]. apply (i_sop _ _ Hi z Hz). }
      pose proof (dom_order _ _ _ Hd y z' Hy Hz' Hzs Hun) as Hsel.
      assert (Hsame : s_mach z' = s_mach y) by (rewrite Hmz', (Hmach z Hzrow); reflexivity).
      destruct (same_row I S z' y Hf Hz' Hy Hsame) as (r & Hr & Hzr & Hyr).
      destruct (row_sorted_pairwise I r z' y (f_machine _ _ Hf r Hr)) as [E|[H|H]]; auto.
      - intros u Hu. apply start_le_end. unfold all_sops. apply in_concat. eauto.
      - exfalso. subst z'. contradiction.
      - lia.
      - pose proof (start_le_end y Hy). pose proof (start_le_end z' Hz'). unfold sel_le in Hsel. lia. }
    assert (Hst : s_start x <= s_start y) by (unfold x, next_sop; cbn [s_start]; lia).
    exists (j, p), m.
    assert (Hinv' : Inv I (apply_sop I d x row)) by (eapply Inv_apply_sop; eauto).
    split; [|split; [|split; [|split]]].
    - apply raw_ready_In; [exact Hi|]. split; [exact Hnext|eauto].
    - unfold kmachines, kop. cbn [fst snd]. rewrite Ho. exact Hel.
    - rewrite Hcore. exact Hinv'.
    - rewrite Hcore.
      assert (Hperm : Permutation (all_sops (sched (apply_sop I d x row))) (x :: all_sops (sched d))).
      { unfold apply_sop. cbn [sched]. apply concat_upd_perm. apply (a_row _ _ _ _ _ _ Hacc). }
      assert (Hjl : (j < length (jnext d))%nat).
      { rewrite (i_len_jn _ _ Hi). eapply get_op_bounds; eauto. }
      assert (Hsched' : forall k, is_sched (apply_sop I d x row) k <-> is_sched d k \/ k = (j, p)).
      { intros [kj kp]. unfold is_sched, apply_sop, nthN. cbn [jnext fst snd s_job x next_sop].
        destruct (Nat.eq_dec j kj) as [<-|Hne].
        - rewrite nth_upd_eq by exact Hjl. fold (nthN (jnext d) j). rewrite Hnext. split.
          + intros H. destruct (Nat.eq_dec kp p) as [->|Hnp]; [right; reflexivity|left; lia].
          + intros [H|H]; [lia|]. inversion H; subst. lia.
        - rewrite nth_upd_neq by exact Hne. split; [auto|]. intros [H|H]; [exact H|]. inversion H; congruence. }
      constructor.
      + intros x' Hx'. apply (Permutation_in _ Hperm) in Hx'. destruct Hx' as [<-|Hx'].
        * exists y. split; [exact Hy|]. split; [symmetry; exact Hxk|]. split; [reflexivity|exact Hst].
        * apply (dom_start _ _ _ Hd); exact Hx'.
      + intros y1 z1 Hy1 Hz1 Hzs Hyun. apply Hsched' in Hzs.
        assert (Hyun' : ~ is_sched d (key y1)) by (intros H; apply Hyun; apply Hsched'; left; exact H).
        destruct Hzs as [Hzs|Hzk].
        * apply (dom_order _ _ _ Hd); assumption.
        * assert (z1 = y).
          { apply (NoDup_key_unique key (all_sops S)); [apply (f_once _ _ Hf)|assumption..|].
            rewrite Hzk. reflexivity. }
          subst z1. apply Hmin. apply HU. auto.
    - rewrite Hcore. unfold apply_sop. cbn [jnext s_job x next_sop]. unfold nthN.
      apply sumN_upd_S. rewrite (i_len_jn _ _ Hi). eapply get_op_bounds; eauto.
  Qed.

  Lemma min_opt_le l c' : In (Some c') l -> exists c, min_opt l = Some c /\ c <= c'.
  Proof.
    induction l as [|[x|] t IH]; intros H; [destruct H| |].
    - simpl. destruct H as [H|H].
      + inversion H; subst. destruct (min_opt t) as [y|]; eexists; split; try reflexivity; lia.
      + destruct (IH H) as (c & -> & Hle). eexists; split; [reflexivity|]. lia.
    - simpl. destruct H as [H|H]; [discriminate|]. apply IH; exact H.
  Qed.

  Lemma Dom_makespan d : Inv I d -> Dom I S d -> makespan I (sched d) <= makespan I S.
  Proof.
    intros Hi Hd. unfold makespan at 1. change (fold_right Z.max 0) with maxZ0.
    apply maxZ0_le; [|apply makespan_nonneg].
    intros e He. apply in_map_iff in He. destruct He as (x & <- & Hx).
    destruct (dom_start _ _ _ Hd x Hx) as (y & Hy & Hk & _ & Hst).
    pose proof (s_end_le_makespan I S y Hy). unfold s_end in *. rewrite (dur_same_key I y x Hk) in H. lia.
  Qed.

  (** The brute force finds something at least as good as [S]. *)
  Theorem bf_dominates fuel (w : world unit) :
    Inv I (core w) -> Dom I S (core w) ->
    (num_ops I - sumN (jnext (core w)) < fuel)%nat ->
    exists c, bf fuel I w = Some c /\ c <= makespan I S.
  Proof.
    revert w. induction fuel as [|f IH]; intros w Hi Hd Hfuel; [lia|].
    cbn [bf]. destruct (raw_ready I (core w)) as [|k0 t0] eqn:Er.
    - (* no ready operation: everything is scheduled *)
      assert (Hcomp : complete I (sched (core w))).
      { apply (Inv_complete_iff _ _ Hi). apply (Inv_all_scheduled_iff _ _ Hi). intros j.
        pose proof (i_bound _ _ Hi j) as Hb.
        destruct (Nat.eq_dec (nthN (jnext (core w)) j) (length (get_job I j))) as [E|Hne]; [exact E|exfalso].
        assert (Hlt : (nthN (jnext (core w)) j < length (get_job I j))%nat) by lia.
        destruct (nth_error (get_job I j) (nthN (jnext (core w)) j)) as [o|] eqn:Eo;
          [|apply nth_error_None in Eo; lia].
        rewrite <- get_op_get_job in Eo.
        assert (Hin : In (j, nthN (jnext (core w)) j) (raw_ready I (core w)))
          by (apply raw_ready_In; [exact Hi|]; split; [reflexivity|eauto]).
        rewrite Er in Hin. destruct Hin. }
      apply (is_complete_spec _ _ Hi) in Hcomp. rewrite Hcomp.
      eexists. split; [reflexivity|]. apply Dom_makespan; assumption.
    - (* some operation is unscheduled: follow S *)
      assert (Hk0 : In k0 (raw_ready I (core w))) by (rewrite Er; left; reflexivity).
      destruct k0 as [j0 p0]. apply (raw_ready_In _ _ _ _ Hi) in Hk0. destruct Hk0 as (Hn0 & o0 & Ho0).
      destruct (Hc _ _ _ Ho0) as (y0 & Hy0 & Hky0).
      assert (Hun0 : ~ is_sched (core w) (key y0)) by (rewrite Hky0; unfold is_sched; cbn [fst snd]; lia).
      destruct (dominance_step w y0 Hi Hd Hy0 Hun0) as (k & m & Hk & Hm & Hi' & Hd' & Hsum).
      assert (Hlt : (sumN (jnext (core w)) < num_ops I)%nat).
      { rewrite num_ops_sumN.
        assert (Hle : (sumN (jnext (core w)) <= sumN (map (@length op) I))%nat).
        { apply sumN_pointwise_le; [rewrite map_length; apply (i_len_jn _ _ Hi)|].
          intros i. rewrite nth_map_length. apply (i_bound _ _ Hi). }
        destruct (Nat.eq_dec (sumN (jnext (core w))) (sumN (map (@length op) I))) as [E|Hne]; [|lia].
        exfalso. rewrite <- num_ops_sumN in E.
        pose proof (proj1 (Inv_all_scheduled_iff _ _ Hi) E j0) as E0. pose proof (get_op_bounds _ _ _ _ Ho0) as [_ Hp0]. lia. }
      destruct (IH (bf_step I w (k, m)) Hi' Hd') as (c' & Hc' & Hle'); [rewrite Hsum; lia|].
      rewrite <- Er.
      destruct (min_opt_le (map (fun c => bf f I (bf_step I w c))
                  (flat_map (fun k1 => map (fun m1 => (k1, m1)) (kmachines I k1)) (raw_ready I (core w)))) c')
        as (c & Hmin & Hle).
      { rewrite <- Hc'. apply (in_map (fun c => bf f I (bf_step I w c))).
        apply in_flat_map. exists k. split; [exact Hk|]. apply in_map; exact Hm. }
      exists c. split; [exact Hmin|lia].
  Qed.
End Dominance.

(** [opt_bf] is OPT(I): it is attained by a feasible complete schedule and no
    feasible complete schedule is shorter. *)
Theorem opt_bf_dominates I (S : schedule) :
  valid I -> feasible I S -> complete I S -> exists c, opt_bf I = Some c /\ c <= makespan I S.
Proof.
  intros Hv Hf Hc. unfold opt_bf. apply (bf_dominates I S Hv Hf Hc).
  - simpl. apply Inv_init.
  - simpl. apply Dom_init.
  - simpl. unfold num_jobs. rewrite sumN_repeat0. lia.
Qed.

Theorem opt_bf_correct I c : valid I -> (opt_bf I = Some c <-> is_opt I c).
Proof.
  intros Hv. split.
  - intros H. split; [apply opt_bf_sound; assumption|].
    intros S Hf Hc. destruct (opt_bf_dominates I S Hv Hf Hc) as (c' & Hc' & Hle). congruence.
  - intros [(S & Hf & Hc & Hmk) Hmin].
    destruct (opt_bf_dominates I S Hv Hf Hc) as (c' & Hc' & Hle). rewrite Hc'. f_equal.
    destruct (opt_bf_sound I c' Hv Hc') as (S' & Hf' & Hcc' & Hmk'). specialize (Hmin S' Hf' Hcc'). lia.
Qed.

(** Semi-active dominance, stated on schedules (shared with C08): every
    feasible complete schedule is dominated by a feasible complete schedule
    that the dispatcher can build. *)
Theorem semi_active_dominates I (S : schedule) :
  valid I -> feasible I S -> complete I S ->
  exists c, opt_bf I = Some c /\ c <= makespan I S /\
            exists S', feasible I S' /\ complete I S' /\ makespan I S' = c.
Proof.
  intros Hv Hf Hc. destruct (opt_bf_dominates I S Hv Hf Hc) as (c & Hc' & Hle).
  exists c. split; [exact Hc'|split; [exact Hle|]]. apply opt_bf_sound; assumption.
Qed.
