(** RecipeFacts.v — the recipes of public building blocks (model/CmdC16.v) that correspond to the four
    built-in builders produce exactly the builders' graphs, for every instance. *)
From JSL Require Import Base Instance Dstate Graph Feasible GraphSpec CmdC16.
From Coq Require Import Lia.

Definition st (k : Z) : val := VL [VI k].

Definition recipe_of (b : nat) : list val :=
  match b with
  | 0%nat => [st 1; st 2; st 3; st 4; st 5]
  | 1%nat => [st 1; st 6; st 7; st 8; st 9]
  | 2%nat => [st 1; st 6; st 7; st 8; st 10; st 11; st 12]
  | _ => [st 1; st 6; st 7; st 10; st 11; st 13; st 14; st 15]
  end.

Lemma recipe_apply_none l : fold_left recipe_apply l None = None.
Proof. induction l as [|x t IH]; [reflexivity|exact IH]. Qed.

Lemma recipe_disjunctive I : build_recipe I (recipe_of 0) = build_disjunctive_graph I.
Proof.
  unfold build_recipe, recipe_of, build_disjunctive_graph, obind, new_graph. cbn [fold_left].
  change (recipe_apply (Some (init_graph I)) (st 1)) with (Some (add_operation_nodes (init_graph I))).
  change (recipe_apply (Some (add_operation_nodes (init_graph I))) (st 2))
    with (add_disjunctive_edges (add_operation_nodes (init_graph I))).
  destruct (add_disjunctive_edges (add_operation_nodes (init_graph I))) as [g1|]; [|reflexivity].
  change (recipe_apply (Some g1) (st 3)) with (add_conjunctive_edges g1).
  destruct (add_conjunctive_edges g1) as [g2|]; [|reflexivity].
  reflexivity.
Qed.

Lemma recipe_agent_task I : build_recipe I (recipe_of 1) = build_agent_task_graph I.
Proof.
  unfold build_recipe, recipe_of, build_agent_task_graph, obind, new_graph. cbn [fold_left].
  change (recipe_apply (Some (init_graph I)) (st 1)) with (Some (add_operation_nodes (init_graph I))).
  change (recipe_apply (Some (add_operation_nodes (init_graph I))) (st 6))
    with (Some (add_machine_nodes (add_operation_nodes (init_graph I)))).
  change (recipe_apply (Some (add_machine_nodes (add_operation_nodes (init_graph I)))) (st 7))
    with (add_operation_machine_edges (add_machine_nodes (add_operation_nodes (init_graph I)))).
  destruct (add_operation_machine_edges (add_machine_nodes (add_operation_nodes (init_graph I)))) as [g1|];
    [|reflexivity].
  change (recipe_apply (Some g1) (st 8)) with (add_machine_machine_edges g1).
  destruct (add_machine_machine_edges g1) as [g2|]; [|reflexivity].
  reflexivity.
Qed.

Lemma recipe_agent_task_with_jobs I : build_recipe I (recipe_of 2) = build_agent_task_graph_with_jobs I.
Proof.
  unfold build_recipe, recipe_of, build_agent_task_graph_with_jobs, obind, new_graph. cbn [fold_left].
  change (recipe_apply (Some (init_graph I)) (st 1)) with (Some (add_operation_nodes (init_graph I))).
  change (recipe_apply (Some (add_operation_nodes (init_graph I))) (st 6))
    with (Some (add_machine_nodes (add_operation_nodes (init_graph I)))).
  change (recipe_apply (Some (add_machine_nodes (add_operation_nodes (init_graph I)))) (st 7))
    with (add_operation_machine_edges (add_machine_nodes (add_operation_nodes (init_graph I)))).
  destruct (add_operation_machine_edges (add_machine_nodes (add_operation_nodes (init_graph I)))) as [g1|];
    [|reflexivity].
  change (recipe_apply (Some g1) (st 8)) with (add_machine_machine_edges g1).
  destruct (add_machine_machine_edges g1) as [g2|]; [|reflexivity].
  change (recipe_apply (Some g2) (st 10)) with (Some (add_job_nodes g2)).
  change (recipe_apply (Some (add_job_nodes g2)) (st 11)) with (add_operation_job_edges (add_job_nodes g2)).
  destruct (add_operation_job_edges (add_job_nodes g2)) as [g3|]; [|reflexivity].
  reflexivity.
Qed.

Lemma recipe_complete_agent_task I : build_recipe I (recipe_of 3) = build_complete_agent_task_graph I.
Proof.
  unfold build_recipe, recipe_of, build_complete_agent_task_graph, obind, new_graph. cbn [fold_left].
  change (recipe_apply (Some (init_graph I)) (st 1)) with (Some (add_operation_nodes (init_graph I))).
  change (recipe_apply (Some (add_operation_nodes (init_graph I))) (st 6))
    with (Some (add_machine_nodes (add_operation_nodes (init_graph I)))).
  change (recipe_apply (Some (add_machine_nodes (add_operation_nodes (init_graph I)))) (st 7))
    with (add_operation_machine_edges (add_machine_nodes (add_operation_nodes (init_graph I)))).
  destruct (add_operation_machine_edges (add_machine_nodes (add_operation_nodes (init_graph I)))) as [g1|];
    [|reflexivity].
  change (recipe_apply (Some g1) (st 10)) with (Some (add_job_nodes g1)).
  change (recipe_apply (Some (add_job_nodes g1)) (st 11)) with (add_operation_job_edges (add_job_nodes g1)).
  destruct (add_operation_job_edges (add_job_nodes g1)) as [g2|]; [|reflexivity].
  change (recipe_apply (Some g2) (st 13)) with (Some (add_global_node g2)).
  change (recipe_apply (Some (add_global_node g2)) (st 14)) with (add_machine_global_edges (add_global_node g2)).
  destruct (add_machine_global_edges (add_global_node g2)) as [g3|]; [|reflexivity].
  reflexivity.
Qed.

Theorem recipe_builders b I : (b < 4)%nat -> build_recipe I (recipe_of b) = build_by_code b I.
Proof.
  intros Hb. destruct b as [|[|[|[|b]]]]; [apply recipe_disjunctive|apply recipe_agent_task
    |apply recipe_agent_task_with_jobs|apply recipe_complete_agent_task|exfalso; lia].
Qed.

(** Route 2 of the harness: the operation nodes added one by one with [add_node] (instead of
    [add_operation_nodes]), then the same building blocks. *)
Lemma asN_vnat n : asN (vnat n) = n.
Proof. unfold asN, vnat. cbn. apply Nat2Z.id. Qed.

Definition add_op_step (k : nat * nat) : val := VL [VI 0; enc_node (0%nat, OpNode (fst k) (snd k))].

Lemma recipe_apply_add_op g k :
  recipe_apply (Some g) (add_op_step k) = Some (add_node g (OpNode (fst k) (snd k))).
Proof.
  unfold recipe_apply, add_op_step. cbn [vnth asN asZ]. cbn.
  unfold dec_node. cbn. rewrite !asN_vnat. reflexivity.
Qed.

Lemma recipe_add_ops ks g :
  fold_left recipe_apply (map add_op_step ks) (Some g) =
  Some (add_nodes g (map (fun k => OpNode (fst k) (snd k)) ks)).
Proof.
  revert g. induction ks as [|k t IH]; intros g; [reflexivity|].
  cbn [map fold_left]. rewrite recipe_apply_add_op. rewrite IH. reflexivity.
Qed.

Definition recipe_manual (b : nat) (I : instance) : list val :=
  map add_op_step (all_keys I) ++ tl (recipe_of b).

Theorem recipe_manual_builders b I : (b < 4)%nat -> build_recipe I (recipe_manual b I) = build_by_code b I.
Proof.
  intros Hb. rewrite <- (recipe_builders b I Hb). unfold build_recipe, recipe_manual.
  rewrite fold_left_app, recipe_add_ops.
  assert (Hhd : recipe_of b = st 1 :: tl (recipe_of b)) by (destruct b as [|[|[|[|b]]]]; reflexivity).
  rewrite Hhd at 2. cbn [fold_left]. reflexivity.
Qed.
