(** FilterFacts.v — C07: each filter, as written (loops, reversed scan with
    break, early return), equals [List.filter] of its documented criterion;
    outputs are sub-lists; non-empty inputs give non-empty outputs; each
    filter keeps an operation attaining the earliest start time (C06). *)
From JSL Require Import Base Instance Dstate Filters World Feasible ListFacts DispatchFun Inv Derived Tracking Partition
     FilterSpec.
From Coq Require Import Lia.

(** ** minima of lists *)
Lemma minZ_opt_spec l t : minZ_opt l = Some t -> In t l /\ forall z, In z l -> t <= z.
Proof.
  revert t. induction l as [|x r IH]; simpl; intros t H; [discriminate|].
  destruct (minZ_opt r) as [y|] eqn:E.
  - inversion H; subst. destruct (IH y eq_refl) as [Hin Hle]. split.
    + destruct (Z.min_spec x y) as [[_ ->]|[_ ->]]; auto.
    + intros z [->|Hz]; [lia|]. specialize (Hle z Hz). lia.
  - inversion H; subst. destruct r; [|simpl in E; destruct (minZ_opt r); discriminate].
    split; [left; reflexivity|]. intros z [->|[]]; lia.
Qed.
Lemma minZ_opt_none l : minZ_opt l = None -> l = [].
Proof. destruct l as [|x r]; simpl; [reflexivity|]. destruct (minZ_opt r); discriminate. Qed.
Lemma minZ_opt_some l : l <> [] -> exists t, minZ_opt l = Some t.
Proof. intros H. destruct (minZ_opt l) eqn:E; [eauto|apply minZ_opt_none in E; contradiction]. Qed.

Lemma below_min_forall s l :
  (match minZ_opt l with None => true | Some e => s <? e end) = forallb (fun e => s <? e) l.
Proof.
  induction l as [|x r IH]; simpl; [reflexivity|].
  destruct (minZ_opt r) as [y|] eqn:E.
  - rewrite <- IH. destruct (s <? x) eqn:E1, (s <? y) eqn:E2, (s <? Z.min x y) eqn:E3; simpl; try reflexivity;
      rewrite ?Z.ltb_lt, ?Z.ltb_ge in *; lia.
  - apply minZ_opt_none in E. subst r. simpl. rewrite andb_true_r. reflexivity.
Qed.

Lemma negb_forallb {A} (P : A -> bool) l : negb (forallb P l) = existsb (fun x => negb (P x)) l.
Proof. induction l as [|x r IH]; simpl; [reflexivity|]. rewrite negb_andb, IH. reflexivity. Qed.

Lemma nonempty_in {A} (l : list A) : l <> [] -> exists x, In x l.
Proof. destruct l as [|x r]; [congruence|]. intros _. exists x. left; reflexivity. Qed.

Lemma min_start_time_nonempty I d (L : list (nat * nat)) :
  L <> [] ->
  min_start_time I d L = match minZ_opt (cand_starts I d L) with Some t => t | None => makespan_code I (sched d) end.
Proof. destruct L; [congruence|reflexivity]. Qed.

Section Facts.
  Variable I : instance.
  Hypothesis Hv : valid I.
  Variable d : dstate.
  Hypothesis Hi : Inv I d.
  Variable L : list (nat * nat).
  (** the operations of [L] exist and have at least one machine (true of every
      list of ready operations of a valid instance) *)
  Hypothesis HL : forall k, In k L -> exists o, kop I k = Some o /\ machines o <> [].

  Lemma kmachines_nonempty k : In k L -> kmachines I k <> [].
  Proof. intros H. destruct (HL k H) as (o & Ho & Hm). unfold kmachines. rewrite Ho. exact Hm. Qed.

  Lemma In_cand_starts z :
    In z (cand_starts I d L) <-> exists k m, In k L /\ In m (kmachines I k) /\ z = start_time d (fst k) m.
  Proof.
    unfold cand_starts. rewrite in_flat_map. split.
    - intros (k & Hk & Hz). apply in_map_iff in Hz. destruct Hz as (m & <- & Hm). eauto.
    - intros (k & m & Hk & Hm & ->). exists k. split; [exact Hk|]. apply in_map. exact Hm.
  Qed.

  Lemma cand_nonempty : L <> [] -> cand_starts I d L <> [].
  Proof.
    intros Hne Hc. destruct (nonempty_in _ Hne) as (k & Hk).
    pose proof (kmachines_nonempty k Hk) as Hm. destruct (kmachines I k) as [|m ms] eqn:Em; [congruence|].
    assert (H : In (start_time d (fst k) m) (cand_starts I d L)).
    { apply In_cand_starts. exists k, m. rewrite Em. repeat split; auto. left; reflexivity. }
    rewrite Hc in H. contradiction.
  Qed.

  (** the earliest start time is attained, and is a lower bound *)
  Lemma t0_attained : L <> [] ->
    exists k m, In k L /\ In m (kmachines I k) /\ start_time d (fst k) m = t0 I d L.
  Proof.
    intros Hne. unfold t0. rewrite (min_start_time_nonempty I d L Hne).
    destruct (minZ_opt_some _ (cand_nonempty Hne)) as (t & Ht). rewrite Ht.
    destruct (minZ_opt_spec _ _ Ht) as [Hin _]. apply In_cand_starts in Hin.
    destruct Hin as (k & m & Hk & Hm & ->). eauto.
  Qed.

  Lemma t0_lower k m : In k L -> In m (kmachines I k) -> t0 I d L <= start_time d (fst k) m.
  Proof.
    intros Hk Hm. assert (Hne : L <> []) by (intro H0; rewrite H0 in Hk; contradiction).
    unfold t0. rewrite (min_start_time_nonempty I d L Hne).
    destruct (minZ_opt_some _ (cand_nonempty Hne)) as (t & Ht). rewrite Ht.
    destruct (minZ_opt_spec _ _ Ht) as [_ Hle]. apply Hle. apply In_cand_starts. exists k, m. auto.
  Qed.

  (** ** non-idle machines *)
  Lemma take_while_nonempty t row :
    take_while_running I t (rev row) <> [] <-> exists y, last_opt row = Some y /\ t < s_end I y.
  Proof.
    unfold last_opt. destruct (rev row) as [|y r]; simpl.
    - split; [congruence|]. intros (y & H & _). discriminate.
    - destruct (s_end I y <=? t) eqn:E.
      + split; [congruence|]. intros (y' & H & Hlt). inversion H; subst. apply Z.leb_le in E. lia.
      + split; [|discriminate]. intros _. exists y. split; [reflexivity|]. apply Z.leb_gt in E. lia.
  Qed.

  Lemma busy_iff t m :
    mem_nat m (non_idle_machines I d t) = negb (forallb (fun x => s_end I x <=? t) (nth m (sched d) [])).
  Proof.
    destruct (mem_nat m (non_idle_machines I d t)) eqn:E.
    - symmetry. apply negb_true_iff. apply mem_nat_In in E.
      unfold non_idle_machines, ongoing_at in E. apply in_map_iff in E. destruct E as (x & Hm & Hx).
      apply in_flat_map in Hx. destruct Hx as (row & Hrow & Hx).
      apply In_nth_error in Hrow. destruct Hrow as (m' & Hm').
      destruct (i_rows _ _ Hi m' row Hm') as (_ & Hmach & _).
      assert (Hxr : In x row) by (apply in_rev; eapply take_while_running_In; eauto).
      assert (m' = m) by (rewrite <- (Hmach x Hxr); exact Hm). subst m'.
      rewrite (nth_error_nth _ _ _ Hm').
      destruct (forallb (fun x0 => s_end I x0 <=? t) row) eqn:F; [|reflexivity].
      exfalso. rewrite forallb_forall in F.
      assert (Hne : take_while_running I t (rev row) <> []) by (intro H0; rewrite H0 in Hx; contradiction).
      apply take_while_nonempty in Hne. destruct Hne as (y & Hy & Hlt).
      apply last_opt_In in Hy. apply F in Hy. apply Z.leb_le in Hy. lia.
    - symmetry. apply negb_false_iff. apply forallb_forall. intros x Hx. apply Z.leb_le.
      destruct (nth_error (sched d) m) as [row|] eqn:Hrow.
      + rewrite (nth_error_nth _ _ _ Hrow) in Hx.
        destruct (Z_le_dec (s_end I x) t) as [Hle|Hgt]; [exact Hle|exfalso].
        destruct (i_rows _ _ Hi m row Hrow) as (_ & Hmach & Hl).
        assert (Hall : In x (all_sops (sched d))) by (apply In_concat_nth_error; eauto).
        destruct (i_sop _ _ Hi x Hall) as (_ & _ & _ & _ & Hmf). rewrite (Hmach x Hx), <- Hl in Hmf.
        assert (Hne : take_while_running I t (rev row) <> []).
        { apply take_while_nonempty. unfold last_end in Hmf. destruct (last_opt row) as [y|] eqn:Ey.
          - exists y. split; [reflexivity|lia].
          - exfalso. unfold last_opt in Ey. destruct (rev row) eqn:Er; [|discriminate].
            apply (f_equal (@rev sop)) in Er. rewrite rev_involutive in Er. simpl in Er. subst row. contradiction. }
        assert (Hm : In m (non_idle_machines I d t)).
        { unfold non_idle_machines, ongoing_at. destruct (take_while_running I t (rev row)) as [|y r] eqn:Et; [congruence|].
          apply in_map_iff. exists y. split.
          - apply Hmach. apply in_rev. eapply take_while_running_In. rewrite Et. left; reflexivity.
          - apply in_flat_map. exists row. split; [eapply nth_error_In; eauto|rewrite Et; left; reflexivity]. }
        apply mem_nat_In in Hm. congruence.
      + rewrite (nth_overflow _ _ (proj1 (nth_error_None _ _) Hrow)) in Hx. contradiction.
  Qed.

  Theorem non_idle_is_filter : filter_non_idle I d L = filter (crit_non_idle I d L) L.
  Proof.
    unfold filter_non_idle. apply filter_ext. intros k. unfold crit_non_idle, machine_idle_at, t0.
    rewrite negb_forallb. induction (kmachines I k) as [|m ms IH]; simpl; [reflexivity|].
    rewrite IH, busy_iff, negb_involutive. reflexivity.
  Qed.

  (** ** non-immediate operations *)
  Lemma earliest_is_candidate k o :
    In k L -> kop I k = Some o ->
    (match earliest_start_time d (fst k) o with Some s => s =? t0 I d L | None => false end)
    = existsb (fun m => start_time d (fst k) m =? t0 I d L) (machines o).
  Proof.
    intros Hk Ho. assert (Hkm : kmachines I k = machines o) by (unfold kmachines; rewrite Ho; reflexivity).
    assert (Hlow : forall m, In m (machines o) -> t0 I d L <= start_time d (fst k) m)
      by (intros m Hm; apply t0_lower; [exact Hk|rewrite Hkm; exact Hm]).
    unfold earliest_start_time. set (t := t0 I d L) in *. set (jf := nthZ (jfree d) (fst k)).
    unfold start_time in *. fold jf in Hlow |- *.
    clear Hkm Ho. induction (machines o) as [|m ms IH]; simpl; [reflexivity|].
    assert (Hlow' : forall m0, In m0 ms -> t <= Z.max (nthZ (mfree d) m0) jf) by (intros; apply Hlow; right; assumption).
    specialize (IH Hlow'). specialize (Hlow m (or_introl eq_refl)).
    destruct (minZ_opt (map (fun m0 => nthZ (mfree d) m0) ms)) as [y|] eqn:E.
    - rewrite <- IH. destruct (Z.max (nthZ (mfree d) m) jf =? t) eqn:E1; simpl.
      + apply Z.eqb_eq in E1. apply Z.eqb_eq.
        destruct (Z.max y jf =? t) eqn:E2; [apply Z.eqb_eq in E2; lia|].
        apply Z.eqb_neq in E2.
        assert (t <= Z.max y jf).
        { destruct (minZ_opt_spec _ _ E) as [Hin _]. apply in_map_iff in Hin. destruct Hin as (m0 & <- & Hm0).
          apply Hlow'. exact Hm0. }
        lia.
      + apply Z.eqb_neq in E1.
        assert (t <= Z.max y jf).
        { destruct (minZ_opt_spec _ _ E) as [Hin _]. apply in_map_iff in Hin. destruct Hin as (m0 & <- & Hm0).
          apply Hlow'. exact Hm0. }
        destruct (Z.max y jf =? t) eqn:E2; [apply Z.eqb_eq in E2; apply Z.eqb_eq; lia|].
        apply Z.eqb_neq in E2. apply Z.eqb_neq. lia.
    - apply minZ_opt_none in E. destruct ms; [|discriminate]. simpl. rewrite orb_false_r. reflexivity.
  Qed.

  Theorem non_immediate_ops_is_filter : filter_non_immediate_ops I d L = filter (crit_immediate_op I d L) L.
  Proof.
    unfold filter_non_immediate_ops. apply filter_ext_in. intros k Hk. unfold crit_immediate_op.
    destruct (HL k Hk) as (o & Ho & _). rewrite Ho. fold (t0 I d L).
    rewrite (earliest_is_candidate k o Hk Ho). unfold kmachines. rewrite Ho. reflexivity.
  Qed.

  (** ** non-immediate machines *)
  Theorem non_immediate_machines_is_filter :
    filter_non_immediate_machines I d L = filter (crit_immediate_machine I d L) L.
  Proof. reflexivity. Qed.

  (** ** dominated operations *)
  Lemma not_dominated_is_crit k m :
    not_dominated_on I d L k m = forallb (fun e => start_time d (fst k) m <? e) (completions_on I d L m).
  Proof. unfold not_dominated_on, min_end_on. apply below_min_forall. Qed.

  Lemma dominated_loop_char rest :
    dominated_loop I d L rest =
    match find (fun k => kdur I k =? 0) rest with
    | Some z => inr z
    | None => inl (filter (crit_not_dominated I d L) rest)
    end.
  Proof.
    induction rest as [|k r IH]; simpl; [reflexivity|].
    destruct (kdur I k =? 0); [reflexivity|]. rewrite IH.
    destruct (find (fun k0 => kdur I k0 =? 0) r); [reflexivity|].
    assert (E : existsb (not_dominated_on I d L k) (kmachines I k) =
                existsb (fun m => forallb (fun e => start_time d (fst k) m <? e) (completions_on I d L m)) (kmachines I k)).
    { induction (kmachines I k) as [|m ms IHm]; simpl; [reflexivity|]. rewrite IHm, not_dominated_is_crit. reflexivity. }
    rewrite E. fold (crit_not_dominated I d L k). destruct (crit_not_dominated I d L k); reflexivity.
  Qed.

  Theorem dominated_is_filter : filter_dominated I d L = spec_filter I d FDominated L.
  Proof.
    unfold filter_dominated, spec_filter, first_zero. rewrite dominated_loop_char.
    destruct (find (fun k => kdur I k =? 0) L); reflexivity.
  Qed.

  (** ** every filter = its specification *)
  Theorem filter_is_spec f : apply_filter I d f L = spec_filter I d f L.
  Proof.
    destruct f; simpl.
    - apply dominated_is_filter.
    - unfold spec_filter. rewrite non_immediate_machines_is_filter. destruct (first_zero I L); reflexivity.
    - unfold spec_filter. rewrite non_idle_is_filter. destruct (first_zero I L); reflexivity.
    - unfold spec_filter. rewrite non_immediate_ops_is_filter. destruct (first_zero I L); reflexivity.
  Qed.

  (** ** an operation attaining the earliest start passes every criterion *)
  Lemma min_op_idle k m :
    In k L -> In m (kmachines I k) -> start_time d (fst k) m = t0 I d L -> crit_non_idle I d L k = true.
  Proof.
    intros Hk Hm Ht. unfold crit_non_idle. apply existsb_exists. exists m. split; [exact Hm|].
    unfold machine_idle_at. apply forallb_forall. intros x Hx. apply Z.leb_le.
    destruct (nth_error (sched d) m) as [row|] eqn:Hrow.
    - rewrite (nth_error_nth _ _ _ Hrow) in Hx.
      destruct (i_rows _ _ Hi m row Hrow) as (_ & Hmach & _).
      assert (Hall : In x (all_sops (sched d))) by (apply In_concat_nth_error; eauto).
      destruct (i_sop _ _ Hi x Hall) as (_ & _ & _ & _ & Hmf). rewrite (Hmach x Hx) in Hmf.
      rewrite <- Ht. unfold start_time. lia.
    - rewrite (nth_overflow _ _ (proj1 (nth_error_None _ _) Hrow)) in Hx. contradiction.
  Qed.

  Lemma min_op_immediate k m :
    In k L -> In m (kmachines I k) -> start_time d (fst k) m = t0 I d L ->
    crit_immediate_op I d L k = true /\ crit_immediate_machine I d L k = true.
  Proof.
    intros Hk Hm Ht. split.
    - unfold crit_immediate_op. apply existsb_exists. exists m. split; [exact Hm|apply Z.eqb_eq; exact Ht].
    - unfold crit_immediate_machine. apply existsb_exists. exists m. split; [exact Hm|].
      apply existsb_exists. exists k. split; [exact Hk|].
      apply andb_true_iff. split; [apply mem_nat_In; exact Hm|apply Z.eqb_eq; exact Ht].
  Qed.

  Lemma In_completions e m :
    In e (completions_on I d L m) <->
    exists k', In k' L /\ In m (kmachines I k') /\ e = start_time d (fst k') m + kdur I k'.
  Proof.
    unfold completions_on. rewrite in_flat_map. split.
    - intros (k' & Hk' & He). destruct (mem_nat m (kmachines I k')) eqn:E; [|contradiction].
      destruct He as [<-|[]]. apply mem_nat_In in E. eauto.
    - intros (k' & Hk' & Hm & ->). exists k'. split; [exact Hk'|].
      rewrite (proj2 (mem_nat_In _ _) Hm). left; reflexivity.
  Qed.

  Lemma min_op_not_dominated k m :
    (forall k', In k' L -> 0 < kdur I k') ->
    In k L -> In m (kmachines I k) -> start_time d (fst k) m = t0 I d L -> crit_not_dominated I d L k = true.
  Proof.
    intros Hpos Hk Hm Ht. unfold crit_not_dominated. apply existsb_exists. exists m. split; [exact Hm|].
    apply forallb_forall. intros e He. apply Z.ltb_lt. apply In_completions in He.
    destruct He as (k' & Hk' & Hm' & ->). pose proof (t0_lower k' m Hk' Hm'). specialize (Hpos k' Hk'). lia.
  Qed.

  (** ** never empty *)
  Theorem filter_nonempty f : L <> [] -> apply_filter I d f L <> [].
  Proof.
    intros Hne. rewrite filter_is_spec. destruct (t0_attained Hne) as (k & m & Hk & Hm & Ht).
    assert (Hgen : forall c, c k = true -> filter c L <> []).
    { intros c Hc H0. assert (Hin : In k (filter c L)) by (apply filter_In; split; assumption).
      rewrite H0 in Hin. contradiction. }
    destruct f; unfold spec_filter; simpl.
    - destruct (first_zero I L) as [z|] eqn:Ez; [discriminate|].
      (* no zero duration: every duration of L is positive; take the pair with the least completion *)
      assert (Hpos : forall k', In k' L -> 0 < kdur I k').
      { intros k' Hk'. unfold first_zero in Ez. pose proof (find_none _ _ Ez k' Hk') as Hz. cbv beta in Hz.
        apply Z.eqb_neq in Hz. destruct (HL k' Hk') as (o & Ho & _). unfold kdur in *. rewrite Ho in *.
        unfold kop in Ho. pose proof (Hv _ _ _ Ho). lia. }
      apply Hgen. apply (min_op_not_dominated k m Hpos Hk Hm Ht).
    - destruct (first_zero I L); apply Hgen; apply (min_op_immediate k m Hk Hm Ht).
    - destruct (first_zero I L); apply Hgen; apply (min_op_idle k m Hk Hm Ht).
    - destruct (first_zero I L); apply Hgen; apply (min_op_immediate k m Hk Hm Ht).
  Qed.

  (** with positive durations, every filter keeps an operation that attains
      the earliest start time of its input (C06) *)
  Theorem filter_keeps_min f :
    (forall k', In k' L -> 0 < kdur I k') -> L <> [] ->
    exists k m, In k (apply_filter I d f L) /\ In m (kmachines I k) /\ start_time d (fst k) m = t0 I d L.
  Proof.
    intros Hpos Hne. rewrite filter_is_spec. destruct (t0_attained Hne) as (k & m & Hk & Hm & Ht).
    exists k, m. split; [|split; assumption].
    assert (Ez : first_zero I L = None).
    { unfold first_zero. destruct (find (fun k0 => kdur I k0 =? 0) L) as [z|] eqn:E; [|reflexivity].
      apply find_some in E. destruct E as [Hz Hd]. apply Z.eqb_eq in Hd. specialize (Hpos z Hz). lia. }
    unfold spec_filter. rewrite Ez. destruct f; apply filter_In; (split; [exact Hk|]); simpl.
    - apply (min_op_not_dominated k m Hpos Hk Hm Ht).
    - apply (min_op_immediate k m Hk Hm Ht).
    - apply (min_op_idle k m Hk Hm Ht).
    - apply (min_op_immediate k m Hk Hm Ht).
  Qed.
End Facts.
