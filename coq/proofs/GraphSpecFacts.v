(** GraphSpecFacts.v — the boolean twins of GraphSpec.v decide the
    specification predicates ([…b_spec]), and the three list checks of the
    oracle say "observed edge set = prescribed edge set". *)
From JSL Require Import Base Instance Dstate Graph Feasible GraphSpec ListFacts OpIds GraphFacts.
From Coq Require Import Lia.

Lemma key_of_id_spec I u j p :
  key_of_id I u = Some (j, p) <-> (exists o, get_op I j p = Some o) /\ u = op_id I j p.
Proof. apply all_keys_nth. Qed.

Lemma key_of_id_is_op I u j p o : is_op I u j p o -> key_of_id I u = Some (j, p).
Proof. intros [Ho ->]. apply key_of_id_spec. eauto. Qed.

Lemma key_of_id_some I u k : key_of_id I u = Some k -> exists o, is_op I u (fst k) (snd k) o.
Proof.
  destruct k as [j p]. intros H. apply key_of_id_spec in H. destruct H as ((o & Ho) & ->).
  exists o. split; auto.
Qed.

Lemma is_op_fun I u j p o j' p' o' : is_op I u j p o -> is_op I u j' p' o' -> j = j' /\ p = p' /\ o = o'.
Proof.
  intros [Ho ->] [Ho' E]. destruct (op_id_inj _ _ _ _ _ _ _ Ho Ho' E) as [-> ->].
  split; [reflexivity|split; [reflexivity|congruence]].
Qed.

Lemma has_op_spec I j p : has_op I j p = false <-> get_op I j p = None.
Proof. unfold has_op. destruct (get_op I j p); split; congruence. Qed.

Lemma job_chainb_spec I u v : job_chainb I u v = true <-> job_chain I u v.
Proof.
  unfold job_chainb, job_chain. split.
  - destruct (key_of_id I u) as [k|] eqn:Eu; [|discriminate].
    destruct (key_of_id I v) as [k'|] eqn:Ev; [|discriminate].
    intros H. apply andb_true_iff in H. destruct H as [H1 H2].
    apply Nat.eqb_eq in H1. apply Nat.eqb_eq in H2.
    destruct (key_of_id_some _ _ _ Eu) as [o Ho]. destruct (key_of_id_some _ _ _ Ev) as [o' Ho'].
    rewrite <- H1, H2 in Ho'. eauto 6.
  - intros (j & p & o & o' & H1 & H2).
    rewrite (key_of_id_is_op _ _ _ _ _ H1), (key_of_id_is_op _ _ _ _ _ H2). simpl.
    rewrite !Nat.eqb_refl. reflexivity.
Qed.

Lemma src_edgeb_spec I u v : src_edgeb I u v = true <-> src_edge I u v.
Proof.
  unfold src_edgeb, src_edge. rewrite andb_true_iff, Nat.eqb_eq. split.
  - intros [-> H]. split; [reflexivity|]. destruct (key_of_id I v) as [k|] eqn:Ev; [|discriminate].
    apply Nat.eqb_eq in H. destruct (key_of_id_some _ _ _ Ev) as [o Ho]. rewrite H in Ho. eauto.
  - intros [-> (j & o & H)]. split; [reflexivity|]. rewrite (key_of_id_is_op _ _ _ _ _ H). reflexivity.
Qed.

Lemma snk_edgeb_spec I u v : snk_edgeb I u v = true <-> snk_edge I u v.
Proof.
  unfold snk_edgeb, snk_edge. rewrite andb_true_iff, Nat.eqb_eq. split.
  - intros [-> H]. split; [reflexivity|]. destruct (key_of_id I u) as [k|] eqn:Eu; [|discriminate].
    apply negb_true_iff, has_op_spec in H. destruct (key_of_id_some _ _ _ Eu) as [o Ho]. eauto.
  - intros [-> (j & p & o & H & Hn)]. split; [reflexivity|]. rewrite (key_of_id_is_op _ _ _ _ _ H).
    simpl. apply negb_true_iff, has_op_spec. exact Hn.
Qed.

Lemma conj_edgeb_spec I u v : conj_edgeb I u v = true <-> conj_edge I u v.
Proof.
  unfold conj_edgeb, conj_edge. rewrite !orb_true_iff, job_chainb_spec, src_edgeb_spec, snk_edgeb_spec. tauto.
Qed.

Lemma share_machineb_spec I u v : share_machineb I u v = true <-> share_machine I u v.
Proof.
  unfold share_machineb, share_machine. rewrite andb_true_iff, negb_true_iff, Nat.eqb_neq. split.
  - intros [Hne H]. split; [exact Hne|].
    destruct (key_of_id I u) as [[j p]|] eqn:Eu; [|discriminate].
    destruct (key_of_id I v) as [[j' p']|] eqn:Ev; [|discriminate].
    apply existsb_exists in H. destruct H as (m & Hm & Hm'). apply mem_nat_In in Hm'.
    destruct (key_of_id_some _ _ _ Eu) as [o Ho]. destruct (key_of_id_some _ _ _ Ev) as [o' Ho'].
    simpl in Ho, Ho'. rewrite (kmachines_of _ _ _ _ (proj1 Ho)) in Hm.
    rewrite (kmachines_of _ _ _ _ (proj1 Ho')) in Hm'. exists j, p, o, j', p', o', m. auto.
  - intros [Hne (j & p & o & j' & p' & o' & m & H1 & H2 & Hm & Hm')]. split; [exact Hne|].
    rewrite (key_of_id_is_op _ _ _ _ _ H1), (key_of_id_is_op _ _ _ _ _ H2).
    apply existsb_exists. exists m. rewrite (kmachines_of _ _ _ _ (proj1 H1)), (kmachines_of _ _ _ _ (proj1 H2)).
    split; [exact Hm|apply mem_nat_In; exact Hm'].
Qed.

Theorem spec_disjunctiveb_spec I u v t : spec_disjunctiveb I u v t = true <-> spec_disjunctive I u v t.
Proof.
  unfold spec_disjunctiveb, spec_disjunctive. destruct t.
  - rewrite conj_edgeb_spec. split; [auto|]. intros [[_ H]|[H _]]; [exact H|discriminate].
  - rewrite andb_true_iff, negb_true_iff, share_machineb_spec. split.
    + intros [H1 H2]. right. split; [reflexivity|]. split; [exact H1|].
      intros Hc. apply job_chainb_spec in Hc. congruence.
    + intros [[H _]|[_ [H1 H2]]]; [discriminate|]. split; [exact H1|].
      destruct (job_chainb I u v) eqn:E; [|reflexivity]. apply job_chainb_spec in E. contradiction.
  - split; [discriminate|]. intros [[H _]|[H _]]; discriminate.
Qed.

Lemma symb_spec (f : nat -> nat -> bool) (R : nat -> nat -> Prop) :
  (forall u v, f u v = true <-> R u v) -> forall u v, symb f u v = true <-> sym R u v.
Proof. intros H u v. unfold symb, sym. rewrite orb_true_iff, !H. tauto. Qed.

Lemma op_machineb_spec I u v : op_machineb I u v = true <-> op_machine I u v.
Proof.
  unfold op_machineb, op_machine. split.
  - destruct (key_of_id I u) as [[j p]|] eqn:Eu; [|discriminate].
    intros H. apply andb_true_iff in H. destruct H as [H1 H2]. apply Nat.leb_le in H1.
    apply mem_nat_In in H2. destruct (key_of_id_some _ _ _ Eu) as [o Ho]. simpl in Ho.
    rewrite (kmachines_of _ _ _ _ (proj1 Ho)) in H2. exists j, p, o, (v - num_ops I)%nat.
    split; [exact Ho|]. split; [exact H2|lia].
  - intros (j & p & o & m & H & Hm & ->). rewrite (key_of_id_is_op _ _ _ _ _ H).
    apply andb_true_iff. split; [apply Nat.leb_le; lia|]. apply mem_nat_In.
    rewrite (kmachines_of _ _ _ _ (proj1 H)). replace (num_ops I + m - num_ops I)%nat with m by lia. exact Hm.
Qed.

Lemma machine_machineb_spec I u v : machine_machineb I u v = true <-> machine_machine I u v.
Proof.
  unfold machine_machineb, machine_machine.
  rewrite !andb_true_iff, negb_true_iff, !Nat.leb_le, !Nat.ltb_lt, Nat.eqb_neq. split.
  - intros ((((H1 & H2) & H3) & H4) & H5). exists (u - num_ops I)%nat, (v - num_ops I)%nat. repeat split; lia.
  - intros (m & m' & H1 & H2 & H3 & -> & ->). repeat split; lia.
Qed.

Lemma same_jobb_spec I u v : same_jobb I u v = true <-> same_job I u v.
Proof.
  unfold same_jobb, same_job. split.
  - destruct (key_of_id I u) as [[j p]|] eqn:Eu; [|discriminate].
    destruct (key_of_id I v) as [[j' p']|] eqn:Ev; [|discriminate]. simpl.
    intros H. apply andb_true_iff in H. destruct H as [H1 H2]. apply Nat.eqb_eq in H1.
    apply negb_true_iff, Nat.eqb_neq in H2. subst j'.
    destruct (key_of_id_some _ _ _ Eu) as [o Ho]. destruct (key_of_id_some _ _ _ Ev) as [o' Ho'].
    exists j, p, o, p', o'. auto.
  - intros (j & p & o & p' & o' & H1 & H2 & Hne).
    rewrite (key_of_id_is_op _ _ _ _ _ H1), (key_of_id_is_op _ _ _ _ _ H2). simpl.
    rewrite Nat.eqb_refl. simpl. apply negb_true_iff, Nat.eqb_neq. exact Hne.
Qed.

Lemma op_jobb_spec I u v : op_jobb I u v = true <-> op_job I u v.
Proof.
  unfold op_jobb, op_job. split.
  - destruct (key_of_id I u) as [[j p]|] eqn:Eu; [|discriminate]. simpl. intros H. apply Nat.eqb_eq in H.
    destruct (key_of_id_some _ _ _ Eu) as [o Ho]. exists j, p, o. auto.
  - intros (j & p & o & H & ->). rewrite (key_of_id_is_op _ _ _ _ _ H). simpl. apply Nat.eqb_refl.
Qed.

Lemma job_jobb_spec I u v : job_jobb I u v = true <-> job_job I u v.
Proof.
  unfold job_jobb, job_job.
  rewrite !andb_true_iff, negb_true_iff, !Nat.leb_le, !Nat.ltb_lt, Nat.eqb_neq. split.
  - intros ((((H1 & H2) & H3) & H4) & H5).
    exists (u - (num_ops I + num_machines I))%nat, (v - (num_ops I + num_machines I))%nat. repeat split; lia.
  - intros (m & m' & H1 & H2 & H3 & -> & ->). repeat split; lia.
Qed.

Lemma machine_globalb_spec I u v : machine_globalb I u v = true <-> machine_global I u v.
Proof.
  unfold machine_globalb, machine_global. rewrite !andb_true_iff, !Nat.leb_le, !Nat.ltb_lt, Nat.eqb_eq. split.
  - intros ((H1 & H2) & ->). exists (u - num_ops I)%nat. repeat split; lia.
  - intros (m & H1 & -> & ->). repeat split; lia.
Qed.

Lemma job_globalb_spec I u v : job_globalb I u v = true <-> job_global I u v.
Proof.
  unfold job_globalb, job_global. rewrite !andb_true_iff, !Nat.leb_le, !Nat.ltb_lt, Nat.eqb_eq. split.
  - intros ((H1 & H2) & ->). exists (u - (num_ops I + num_machines I))%nat. repeat split; lia.
  - intros (m & H1 & -> & ->). repeat split; lia.
Qed.

Lemma is_none_spec t : is_none t = true <-> t = ENone.
Proof. destruct t; simpl; split; congruence. Qed.

Theorem spec_agent_taskb_spec I u v t : spec_agent_taskb I u v t = true <-> spec_agent_task I u v t.
Proof.
  unfold spec_agent_taskb, spec_agent_task.
  rewrite andb_true_iff, !orb_true_iff, is_none_spec, (symb_spec _ _ (op_machineb_spec I)),
    machine_machineb_spec, same_jobb_spec. tauto.
Qed.

Theorem spec_with_jobsb_spec I u v t : spec_with_jobsb I u v t = true <-> spec_with_jobs I u v t.
Proof.
  unfold spec_with_jobsb, spec_with_jobs.
  rewrite andb_true_iff, !orb_true_iff, is_none_spec, (symb_spec _ _ (op_machineb_spec I)),
    (symb_spec _ _ (op_jobb_spec I)), machine_machineb_spec, job_jobb_spec. tauto.
Qed.

Theorem spec_completeb_spec I u v t : spec_completeb I u v t = true <-> spec_complete I u v t.
Proof.
  unfold spec_completeb, spec_complete.
  rewrite andb_true_iff, !orb_true_iff, is_none_spec, (symb_spec _ _ (op_machineb_spec I)),
    (symb_spec _ _ (op_jobb_spec I)), (symb_spec _ _ (machine_globalb_spec I)),
    (symb_spec _ _ (job_globalb_spec I)). tauto.
Qed.

Lemma row_consecutiveb_spec I S u v : row_consecutiveb I S u v = true <-> row_consecutive I S u v.
Proof.
  unfold row_consecutiveb, row_consecutive. rewrite existsb_exists. split.
  - intros (row & Hr & H). apply existsb_exists in H. destruct H as ([x y] & Hc & H).
    apply andb_true_iff in H. destruct H as [H1 H2]. apply Nat.eqb_eq in H1. apply Nat.eqb_eq in H2.
    simpl in H1, H2. apply consecutive_split in Hc. destruct Hc as (l1 & l2 & ->).
    exists (l1 ++ x :: y :: l2), l1, x, y, l2. auto.
  - intros (row & l1 & x & y & l2 & Hr & -> & -> & ->). exists (l1 ++ x :: y :: l2). split; [exact Hr|].
    apply existsb_exists. exists (x, y). split; [apply consecutive_split; eauto|].
    simpl. rewrite !Nat.eqb_refl. reflexivity.
Qed.

Theorem spec_solvedb_spec I S u v t : spec_solvedb I S u v t = true <-> spec_solved I S u v t.
Proof.
  unfold spec_solvedb, spec_solved. destruct t.
  - rewrite andb_true_iff, negb_true_iff, conj_edgeb_spec. split.
    + intros [H1 H2]. right. split; [reflexivity|]. split; [exact H1|].
      intros Hc. apply row_consecutiveb_spec in Hc. congruence.
    + intros [[H _]|[_ [H1 H2]]]; [discriminate|]. split; [exact H1|].
      destruct (row_consecutiveb I S u v) eqn:E; [|reflexivity]. apply row_consecutiveb_spec in E. contradiction.
  - rewrite row_consecutiveb_spec. split; [auto|]. intros [[_ H]|[H _]]; [exact H|discriminate].
  - split; [discriminate|]. intros [[H _]|[H _]]; discriminate.
Qed.

(** ** the list checks *)

Lemma etype_eqb_eq a b : etype_eqb a b = true <-> a = b.
Proof. destruct a, b; unfold etype_eqb; simpl; split; congruence. Qed.

Lemma edge_eqb_eq a b : edge_eqb a b = true <-> a = b.
Proof.
  destruct a as [[u v] t], b as [[u' v'] t']. unfold edge_eqb, e_src, e_dst, e_type. simpl.
  rewrite !andb_true_iff, !Nat.eqb_eq, etype_eqb_eq. split.
  - intros [[-> ->] ->]. reflexivity.
  - intros H. inversion H. auto.
Qed.

Lemma mem_edge_In e l : mem_edge e l = true <-> In e l.
Proof.
  unfold mem_edge. rewrite existsb_exists. split.
  - intros (x & Hx & E). apply edge_eqb_eq in E. subst. exact Hx.
  - intros H. exists e. split; [exact H|apply edge_eqb_eq; reflexivity].
Qed.

Lemma In_all_triples n u v t : In (u, v, t) (all_triples n) <-> (u < n)%nat /\ (v < n)%nat.
Proof.
  unfold all_triples. rewrite in_flat_map. split.
  - intros (a & Ha & H). apply in_flat_map in H. destruct H as (b & Hb & H).
    apply in_seq in Ha. apply in_seq in Hb. simpl in H.
    destruct H as [E|[E|[E|[]]]]; inversion E; subst; lia.
  - intros [Hu Hv]. exists u. split; [apply in_seq; lia|]. apply in_flat_map. exists v.
    split; [apply in_seq; lia|]. destruct t; simpl; auto.
Qed.

Lemma edges_soundb_spec f es :
  edges_soundb f es = true <-> forall u v t, In (u, v, t) es -> f u v t = true.
Proof.
  unfold edges_soundb. rewrite forallb_forall. split.
  - intros H u v t Hin. apply (H (u, v, t) Hin).
  - intros H [[u v] t] Hin. apply H. exact Hin.
Qed.

Lemma edges_completeb_spec f n es :
  edges_completeb f n es = true <->
  forall u v t, (u < n)%nat -> (v < n)%nat -> f u v t = true -> In (u, v, t) es.
Proof.
  unfold edges_completeb. rewrite forallb_forall. split.
  - intros H u v t Hu Hv Hf. specialize (H (u, v, t) (proj2 (In_all_triples n u v t) (conj Hu Hv))).
    unfold e_src, e_dst, e_type in H. simpl in H. rewrite Hf in H. simpl in H. apply mem_edge_In. exact H.
  - intros H [[u v] t] Hin. apply In_all_triples in Hin. destruct Hin as [Hu Hv].
    unfold e_src, e_dst, e_type. simpl. destruct (f u v t) eqn:E; [|reflexivity]. simpl.
    apply mem_edge_In. apply H; assumption.
Qed.

Lemma keys_nodupb_spec es : keys_nodupb es = true <-> keys_nodup es.
Proof.
  unfold keys_nodup. induction es as [|e r IH]; simpl; [split; [constructor|reflexivity]|].
  rewrite andb_true_iff, negb_true_iff, IH. split.
  - intros [H1 H2]. constructor; [|exact H2]. intros Hin. apply in_map_iff in Hin.
    destruct Hin as (e' & E & He'). assert (X : existsb (fun e'0 => ((e_src e'0 =? e_src e) && (e_dst e'0 =? e_dst e))%nat) r = true).
    { apply existsb_exists. exists e'. split; [exact He'|]. unfold ekey in E. inversion E.
      rewrite !Nat.eqb_refl. reflexivity. }
    congruence.
  - intros H. inversion H as [|? ? Hni Hnd]; subst. split; [|exact Hnd].
    destruct (existsb _ r) eqn:E; [|reflexivity]. exfalso. apply Hni.
    apply existsb_exists in E. destruct E as (e' & He' & E). apply andb_true_iff in E.
    destruct E as [E1 E2]. apply Nat.eqb_eq in E1. apply Nat.eqb_eq in E2.
    apply in_map_iff. exists e'. split; [unfold ekey; congruence|exact He'].
Qed.

(** What the oracle's three checks say together about an observed edge list
    whose endpoints are all below [n] (they are node ids of the observed
    graph): it is, as a set, exactly the prescribed edge set, and no ordered
    pair is listed twice. *)
Theorem oracle_edges_exact f n es :
  (forall u v t, In (u, v, t) es -> (u < n)%nat /\ (v < n)%nat) ->
  (edges_soundb f es = true /\ edges_completeb f n es = true <->
   forall u v t, In (u, v, t) es <-> ((u < n)%nat /\ (v < n)%nat /\ f u v t = true)).
Proof.
  intros Hr. rewrite edges_soundb_spec, edges_completeb_spec. split.
  - intros [H1 H2] u v t. split.
    + intros Hin. destruct (Hr _ _ _ Hin). auto.
    + intros (Hu & Hv & Hf). apply H2; assumption.
  - intros H. split.
    + intros u v t Hin. apply H in Hin. tauto.
    + intros u v t Hu Hv Hf. apply H. auto.
Qed.

Lemma node_eqb_eq a b : node_eqb a b = true <-> a = b.
Proof.
  destruct a as [i x], b as [k y]. unfold node_eqb. cbn [fst snd]. rewrite andb_true_iff, Nat.eqb_eq.
  split.
  - intros [E H]. subst k. f_equal. destruct x, y; try discriminate; try reflexivity.
    + apply andb_true_iff in H. destruct H as [H1 H2]. apply Nat.eqb_eq in H1. apply Nat.eqb_eq in H2.
      congruence.
    + apply Nat.eqb_eq in H. congruence.
    + apply Nat.eqb_eq in H. congruence.
  - intros H. inversion H; subst. split; [reflexivity|]. destruct y; rewrite ?Nat.eqb_refl; reflexivity.
Qed.

Theorem nodes_eqb_eq a : forall b, nodes_eqb a b = true <-> a = b.
Proof.
  induction a as [|x a IH]; intros [|y b]; simpl; try (split; [reflexivity|reflexivity]);
    try (split; discriminate).
  rewrite andb_true_iff, node_eqb_eq, IH. split; [intros [-> ->]; reflexivity|intros H; inversion H; auto].
Qed.

Lemma nonempty_jobsb_spec I : nonempty_jobsb I = true <-> nonempty_jobs I.
Proof.
  unfold nonempty_jobsb, nonempty_jobs. rewrite forallb_forall. split.
  - intros H job Hj. specialize (H job Hj). destruct job; [discriminate|discriminate].
  - intros H job Hj. specialize (H job Hj). destruct job; [congruence|reflexivity].
Qed.

Lemma nodupb_spec l : nodupb l = true <-> NoDup l.
Proof.
  induction l as [|x t IH]; simpl; [split; [constructor|reflexivity]|].
  rewrite andb_true_iff, negb_true_iff, IH. split.
  - intros [H1 H2]. constructor; [|exact H2]. intros Hin. apply mem_nat_In in Hin. congruence.
  - intros H. inversion H as [|? ? Hni Hnd]; subst. split; [|exact Hnd].
    destruct (mem_nat x t) eqn:E; [|reflexivity]. apply mem_nat_In in E. contradiction.
Qed.

Lemma nodup_machinesb_spec I : nodup_machinesb I = true <-> nodup_machines I.
Proof.
  unfold nodup_machinesb, nodup_machines. rewrite forallb_forall. split.
  - intros H j p o Ho. destruct (get_op_In_job _ _ _ _ Ho) as [Hj Hin].
    specialize (H _ Hj). rewrite forallb_forall in H. apply nodupb_spec. apply H. exact Hin.
  - intros H job Hj. apply forallb_forall. intros o Ho. apply nodupb_spec.
    destruct (In_nth_error _ _ Hj) as [j Ej]. destruct (In_nth_error _ _ Ho) as [p Ep].
    apply (H j p o). unfold get_op. rewrite Ej. exact Ep.
Qed.

Lemma positiveb_positive I : positiveb I = true -> positive I.
Proof.
  unfold positiveb, positive. rewrite forallb_forall. intros H j p o Ho.
  destruct (get_op_In_job _ _ _ _ Ho) as [Hj Hin]. specialize (H _ Hj). rewrite forallb_forall in H.
  specialize (H _ Hin). unfold positive_opb in H. apply andb_true_iff in H. destruct H as [H1 H2].
  apply Z.ltb_lt in H1. split; [exact H1|]. destruct (machines o); [discriminate|discriminate].
Qed.

(** every operation has exactly one position in [all_keys], hence exactly
    one operation node *)
Lemma NoDup_all_keys I : NoDup (all_keys I).
Proof.
  apply NoDup_nth_error. intros i k Hi E.
  destruct (nth_error (all_keys I) i) as [[j p]|] eqn:Ei; [|apply nth_error_None in Ei; lia].
  symmetry in E. apply all_keys_nth in Ei. apply all_keys_nth in E. destruct Ei as [_ ->]. destruct E as [_ ->].
  reflexivity.
Qed.

Lemma op_nodes_nth I u x :
  nth_error (op_nodes I) u = Some x <->
  exists j p o, get_op I j p = Some o /\ u = op_id I j p /\ x = (u, OpNode j p).
Proof.
  unfold op_nodes. rewrite nth_error_map. split.
  - destruct (nth_error (all_keys I) u) as [[j p]|] eqn:E; [|discriminate]. simpl. intros H. inversion H; subst.
    apply all_keys_nth in E. destruct E as ((o & Ho) & ->). exists j, p, o. auto.
  - intros (j & p & o & Ho & -> & ->).
    assert (E : nth_error (all_keys I) (op_id I j p) = Some (j, p)) by (apply all_keys_nth; eauto).
    rewrite E. reflexivity.
Qed.

Lemma job_chain_asym I u v : job_chain I u v -> ~ job_chain I v u.
Proof.
  intros (j & p & o & o' & H1 & H2) (j' & p' & o2 & o2' & H3 & H4).
  destruct (is_op_fun _ _ _ _ _ _ _ _ H1 H4) as (-> & -> & _).
  destruct (is_op_fun _ _ _ _ _ _ _ _ H2 H3) as (_ & E & _). lia.
Qed.

Lemma share_machine_sym I u v : share_machine I u v -> share_machine I v u.
Proof.
  intros (Hne & j & p & o & j' & p' & o' & m & H1 & H2 & H3 & H4). split; [congruence|].
  exists j', p', o', j, p, o, m. auto.
Qed.
