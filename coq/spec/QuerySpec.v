(** QuerySpec.v — what every query event of a session answers: the uncached
    definition ([Derived.v]) evaluated on a dispatcher state, encoded exactly
    like [Session.run_query] encodes its result. Applied to [dstate_of I rows]
    it is the oracle the harness evaluates on the IMPLEMENTATION's own rows. *)
From JSL Require Import Base Instance Dstate Filters World Derived.

(** What a query event answers in a coherent world. *)
Definition pure_query (I : instance) (fs : list fname) (d : dstate) (q : Z) (arg : val) : val :=
  let ok {A} (f : A -> val) (x : A) := VL [VI 0; f x] in
  match q with
  | 0 => ok VI (p_now I fs d)
  | 1 => ok (vlist enc_key) (p_avail I fs d)
  | 2 => ok (vlist enc_key) (p_raw I d)
  | 3 => ok (vlist enc_key) (p_unsched I d)
  | 4 => ok (vlist enc_key) (p_sched I d)
  | 5 => ok (vlist vnat) (p_amach I fs d)
  | 6 => ok (vlist vnat) (p_ajobs I fs d)
  | 7 => ok (vlist enc_key) (p_completed I fs d)
  | 8 => ok (vlist enc_key) (p_uncompleted I fs d)
  | 9 => ok (vlist enc_sop) (p_ongoing I fs d)
  | 10 => match kop I (dec_key arg) with
          | Some o => match earliest_start_time d (fst (dec_key arg)) o with
                      | Some t => ok VI t | None => VL [VI (exn_code EOther)] end
          | None => VL [VI (exn_code EOther)] end
  | 11 => ok VI (s_end I (dec_sop arg) - Z.max (s_start (dec_sop arg)) (p_now I fs d))
  | 12 => ok vbool (snd (dec_key arg) <? nthN (jnext d) (fst (dec_key arg)))%nat
  | 13 => ok vbool (s_start (dec_sop arg) <=? p_now I fs d)
  | 14 => if (length (get_job I (asN arg)) <=? nthN (jnext d) (asN arg))%nat
          then VL [VI (exn_code EValidation)]
          else ok enc_key (asN arg, nthN (jnext d) (asN arg))
  | 15 => ok VI (min_start_time I d (asLof dec_key arg))
  | 16 => ok (vlist enc_key) (apply_filter I d (dec_fname (vnth arg 0)) (asLof dec_key (vnth arg 1)))
  | _ => VL []
  end.

