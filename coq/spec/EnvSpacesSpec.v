(** EnvSpacesSpec.v — what property C18 means, independent of how the
    environments compute their observations: "legal decision", "belongs to the
    declared observation space", "well-formed graph", "rectangular array".
    [obs_contains] / [action_contains] (model/EnvSpaces.v) are the boolean
    twins; they are extracted and applied to the observations and decisions of
    the IMPLEMENTATION, next to gymnasium's own [contains]. *)
From JSL Require Import Base Instance Dstate Graph EnvSpaces.
From Coq Require Import Lia.

(** "A job with operations left together with an eligible machine id of its
    next operation, or -1 for a single-machine operation". *)
Definition legal (I : instance) (d : dstate) (j : nat) (m : Z) : Prop :=
  exists o, get_op I j (nthN (jnext d) j) = Some o /\
    ((exists k, In k (machines o) /\ m = Z.of_nat k) \/ (m = -1 /\ exists k, machines o = [k])).

(** A pair is in [MultiDiscrete([J, M + 1], start=[0, -1])]. *)
Definition in_action_space (I : instance) (a : list Z) : Prop :=
  exists j m, a = [j; m] /\ 0 <= j < Z.of_nat (num_jobs I) /\ -1 <= m < Z.of_nat (num_machines I).

(** numpy arrays are rectangular. *)
Definition rect {A} (m : list (list A)) : Prop := Forall (fun row => length row = width m) m.

(** Graph well-formedness: as many flags and node objects as node ids, every
    edge joins ids that were handed out. *)
Definition edges_in (n : nat) (es : list edge) : Prop :=
  Forall (fun e => (e_src e < n)%nat /\ (e_dst e < n)%nat) es.
Record graph_ok (g : graph) : Prop := {
  ok_removed : length (g_removed g) = g_next g;
  ok_nodes : length (g_nodes g) = g_next g;
  ok_edges : edges_in (g_next g) (g_edges g)
}.

(** Membership in the declared [Dict] space: a mask with one flag per node;
    an edge index of exactly two rows of [edges] entries, each a node id or
    the padding value -1; the composite's feature keys, in its order, each
    matrix of the declared shape. *)
Definition has_shape {A} (r c : nat) (x : list (list A)) : Prop :=
  length x = r /\ Forall (fun row => length row = c) x.
Inductive feats_in {A} : list (ftype * (nat * nat)) -> list (ftype * list (list A)) -> Prop :=
| fi_nil : feats_in [] []
| fi_cons t r c sh m fs : has_shape r c m -> feats_in sh fs -> feats_in ((t, (r, c)) :: sh) ((t, m) :: fs).
Definition obs_in_space {A} (sp : ospace) (o : obsv A) : Prop :=
  length (ob_removed o) = sp_nodes sp /\
  (length (ob_edge o) = 2%nat /\
   Forall (fun row => length row = sp_edges sp /\
                      Forall (fun x => -1 <= x < Z.of_nat (sp_nodes sp)) row) (ob_edge o)) /\
  feats_in (sp_feats sp) (ob_feats o).

(** ** The twins agree with the specification *)

Lemma ftype_eqb_eq a b : ftype_eqb a b = true <-> a = b.
Proof. destruct a, b; simpl; split; intros H; try reflexivity; discriminate. Qed.

Lemma box_contains_spec {A} r c (x : list (list A)) : box_contains r c x = true <-> has_shape r c x.
Proof.
  unfold box_contains, has_shape. rewrite andb_true_iff, Nat.eqb_eq, forallb_forall, Forall_forall.
  split; intros [H1 H2]; split; auto; intros y Hy; specialize (H2 y Hy); apply Nat.eqb_eq; exact H2.
Qed.

Lemma feats_contains_spec {A} sh (fs : list (ftype * list (list A))) :
  feats_contains sh fs = true <-> feats_in sh fs.
Proof.
  revert fs. induction sh as [|[t [r c]] sh IH]; intros fs.
  - destruct fs; simpl; split; intros H; try discriminate; try constructor; inversion H.
  - destruct fs as [|[t' m] fs]; simpl.
    + split; intros H; [discriminate|inversion H].
    + rewrite !andb_true_iff, ftype_eqb_eq, box_contains_spec, IH. split.
      * intros [[-> Hb] Hf]. constructor; assumption.
      * intros H. inversion H; subst. auto.
Qed.

Lemma edge_entry_ok_spec N x : edge_entry_ok N x = true <-> -1 <= x < Z.of_nat N.
Proof. unfold edge_entry_ok, in_range. rewrite andb_true_iff, Z.leb_le, Z.ltb_lt. lia. Qed.

Lemma edge_space_contains_spec N E (x : list (list Z)) :
  edge_space_contains N E x = true <->
  length x = 2%nat /\ Forall (fun row => length row = E /\ Forall (fun z => -1 <= z < Z.of_nat N) row) x.
Proof.
  unfold edge_space_contains. rewrite andb_true_iff, Nat.eqb_eq, forallb_forall, Forall_forall.
  assert (Hrow : forall row, (length row =? E)%nat && forallb (edge_entry_ok N) row = true <->
                 length row = E /\ Forall (fun z => -1 <= z < Z.of_nat N) row).
  { intros row. rewrite andb_true_iff, Nat.eqb_eq, forallb_forall, Forall_forall.
    split; intros [H1 H2]; split; auto; intros z Hz; apply edge_entry_ok_spec; auto. }
  split; intros [H1 H2]; split; auto; intros row Hr; apply Hrow; auto.
Qed.

Theorem obs_contains_spec {A} (sp : ospace) (o : obsv A) : obs_contains sp o = true <-> obs_in_space sp o.
Proof.
  unfold obs_contains, obs_in_space, mask_contains.
  rewrite andb_true_iff, andb_true_iff, Nat.eqb_eq, feats_contains_spec, edge_space_contains_spec. tauto.
Qed.

Theorem action_contains_spec I a : action_contains (action_nvec I) a = true <-> in_action_space I a.
Proof.
  unfold action_contains, action_nvec, action_start, in_action_space. split.
  - destruct a as [|j [|m [|x t]]]; simpl; try discriminate;
      try (rewrite ?andb_false_r; discriminate).
    unfold in_range. rewrite ?andb_true_iff, ?Z.leb_le, ?Z.ltb_lt. intros H.
    exists j, m. split; [reflexivity|]. lia.
  - intros (j & m & -> & Hj & Hm). simpl. unfold in_range.
    rewrite ?andb_true_iff, ?Z.leb_le, ?Z.ltb_lt. repeat split; try lia.
Qed.
