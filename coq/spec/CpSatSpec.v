(** CpSatSpec.v — what the constraints handed to CP-SAT MEAN (the contract we
    assume of OR-tools, validated by the harness on every solver answer), the
    boolean twin [satb] that the harness applies to the real solver's values,
    and the lower bounds the property names. *)
From JSL Require Import Base Instance Dstate Feasible CpSat.
From Coq Require Import Lia.

Definition assignment := nat -> Z.

Definition ev (sigma : assignment) (ts : list (nat * Z)) : Z :=
  sumZ (map (fun t => snd t * sigma (fst t)) ts).

(** Two intervals of a no-overlap group: one ends before the other starts.
    Zero-length intervals are NOT exempt (cp_model.proto: "intervals of size
    zero do matter for this constraint"; the harness checks it). *)
Definition disjoint (sigma : assignment) (a b : nat * Z * nat) : Prop :=
  sigma (snd a) <= sigma (fst (fst b)) \/ sigma (snd b) <= sigma (fst (fst a)).

Definition sat_cstr (sigma : assignment) (c : cstr) : Prop :=
  match c with
  | CLin ts lo hi =>
      (match lo with Some l => l <= ev sigma ts | None => True end) /\
      (match hi with Some h => ev sigma ts <= h | None => True end)
  | CInterval s d e => sigma s + d = sigma e
  | CNoOverlap ivs => ForallOrdPairs (disjoint sigma) ivs
  | CLinMax t es => (forall e, In e es -> sigma e <= sigma t) /\ (exists e, In e es /\ sigma t = sigma e)
  end.

Definition in_domains (sigma : assignment) (vars : list (Z * Z)) : Prop :=
  forall i lo hi, nth_error vars i = Some (lo, hi) -> lo <= sigma i <= hi.

Definition sat (sigma : assignment) (M : cpmodel) : Prop :=
  in_domains sigma (cp_vars M) /\ Forall (sat_cstr sigma) (cp_cstrs M).

Definition objective (sigma : assignment) (M : cpmodel) : Z :=
  match cp_obj M with Some v => sigma v | None => 0 end.

(** "Non-flexible": every operation has exactly one machine. *)
Definition nonflex (I : instance) : Prop :=
  forall j p o, get_op I j p = Some o -> exists m, machines o = [m].
Definition nonflexb (I : instance) : bool :=
  forallb (forallb (fun o => (length (machines o) =? 1)%nat)) I.

(** Lower bounds: the longest job and the most loaded machine. *)
Definition machine_load (I : instance) (m : nat) : Z := sumZ (map (kdur I) (keys_on I m)).
Definition lower_bound (I : instance) : Z :=
  Z.max (maxZ0 (job_durations I)) (maxZ0 (map (machine_load I) (seq 0 (num_machines I)))).

(** ** Boolean twin *)

Definition disjointb (sigma : assignment) (a b : nat * Z * nat) : bool :=
  (sigma (snd a) <=? sigma (fst (fst b))) || (sigma (snd b) <=? sigma (fst (fst a))).

Fixpoint ord_pairsb {A : Type} (r : A -> A -> bool) (l : list A) : bool :=
  match l with
  | [] => true
  | x :: t => forallb (r x) t && ord_pairsb r t
  end.

Definition sat_cstrb (sigma : assignment) (c : cstr) : bool :=
  match c with
  | CLin ts lo hi =>
      (match lo with Some l => l <=? ev sigma ts | None => true end) &&
      (match hi with Some h => ev sigma ts <=? h | None => true end)
  | CInterval s d e => sigma s + d =? sigma e
  | CNoOverlap ivs => ord_pairsb (disjointb sigma) ivs
  | CLinMax t es => forallb (fun e => sigma e <=? sigma t) es && existsb (fun e => sigma t =? sigma e) es
  end.

Fixpoint in_domainsb_from (sigma : assignment) (i : nat) (vars : list (Z * Z)) : bool :=
  match vars with
  | [] => true
  | (lo, hi) :: t => (lo <=? sigma i) && (sigma i <=? hi) && in_domainsb_from sigma (S i) t
  end.

Definition satb (sigma : assignment) (M : cpmodel) : bool :=
  in_domainsb_from sigma 0 (cp_vars M) && forallb (sat_cstrb sigma) (cp_cstrs M).

(** ** Agreement *)

Lemma ord_pairsb_spec {A} (r : A -> A -> bool) (R : A -> A -> Prop) (l : list A) :
  (forall a b, r a b = true <-> R a b) ->
  (ord_pairsb r l = true <-> ForallOrdPairs R l).
Proof.
  intros Hr. induction l as [|x t IH]; simpl.
  - split; [constructor|reflexivity].
  - rewrite andb_true_iff, forallb_forall, IH. split.
    + intros [H1 H2]. constructor; [|exact H2]. apply Forall_forall. intros y Hy. apply Hr. apply H1; exact Hy.
    + intros H. inversion H as [|? ? Hf Ht]; subst. split; [|exact Ht].
      intros y Hy. apply Hr. rewrite Forall_forall in Hf. apply Hf; exact Hy.
Qed.

Lemma disjointb_spec sigma a b : disjointb sigma a b = true <-> disjoint sigma a b.
Proof. unfold disjointb, disjoint. rewrite orb_true_iff, !Z.leb_le. tauto. Qed.

Lemma sat_cstrb_spec sigma c : sat_cstrb sigma c = true <-> sat_cstr sigma c.
Proof.
  destruct c as [ts lo hi|s d e|ivs|t es]; simpl.
  - rewrite andb_true_iff. destruct lo as [l|], hi as [h|]; rewrite ?Z.leb_le; intuition.
  - apply Z.eqb_eq.
  - apply ord_pairsb_spec. intros a b. apply disjointb_spec.
  - rewrite andb_true_iff, forallb_forall, existsb_exists. split.
    + intros [H1 (e & He & Heq)]. split.
      * intros e' He'. apply Z.leb_le. apply H1; exact He'.
      * exists e. split; [exact He|]. apply Z.eqb_eq; exact Heq.
    + intros [H1 (e & He & Heq)]. split.
      * intros e' He'. apply Z.leb_le. apply H1; exact He'.
      * exists e. split; [exact He|]. apply Z.eqb_eq; exact Heq.
Qed.

Lemma in_domainsb_from_spec sigma vars i0 :
  in_domainsb_from sigma i0 vars = true <->
  (forall i lo hi, nth_error vars i = Some (lo, hi) -> lo <= sigma (i0 + i)%nat <= hi).
Proof.
  revert i0. induction vars as [|[lo0 hi0] t IH]; intros i0; simpl.
  - split; [|reflexivity]. intros _ i lo hi H. destruct i; discriminate.
  - rewrite !andb_true_iff, !Z.leb_le, IH. split.
    + intros [[H1 H2] H3] i lo hi Hn. destruct i as [|i]; simpl in Hn.
      * inversion Hn; subst. rewrite Nat.add_0_r. lia.
      * specialize (H3 i lo hi Hn). replace (i0 + S i)%nat with (S i0 + i)%nat by lia. exact H3.
    + intros H. split.
      * specialize (H 0%nat lo0 hi0 eq_refl). rewrite Nat.add_0_r in H. lia.
      * intros i lo hi Hn. specialize (H (S i) lo hi Hn).
        replace (i0 + S i)%nat with (S i0 + i)%nat in H by lia. exact H.
Qed.

Theorem satb_spec sigma M : satb sigma M = true <-> sat sigma M.
Proof.
  unfold satb, sat, in_domains. rewrite andb_true_iff, in_domainsb_from_spec, forallb_forall, Forall_forall.
  split; intros [H1 H2]; (split; [exact H1|]); intros c Hc; apply sat_cstrb_spec; apply H2; exact Hc.
Qed.

Lemma nonflexb_spec I : nonflexb I = true <-> nonflex I.
Proof.
  unfold nonflexb, nonflex. rewrite forallb_forall. split.
  - intros H j p o Hg. unfold get_op in Hg. destruct (nth_error I j) as [job|] eqn:Ej; [|discriminate].
    apply nth_error_In in Ej. specialize (H job Ej). rewrite forallb_forall in H.
    apply nth_error_In in Hg. specialize (H o Hg). apply Nat.eqb_eq in H.
    destruct (machines o) as [|m [|m2 t]]; simpl in H; try discriminate. exists m; reflexivity.
  - intros H job Hjob. apply forallb_forall. intros o Ho.
    apply In_nth_error in Hjob. destruct Hjob as [j Hj].
    apply In_nth_error in Ho. destruct Ho as [p Hp].
    destruct (H j p o) as [m Hm]; [unfold get_op; rewrite Hj; exact Hp|].
    rewrite Hm. reflexivity.
Qed.
