(** GraphSpec.v — what C16 means, independent of how the builders compute it.

    Node ids: the operation [(j, p)] has node id [op_id I j p] (its
    [operation_id]); the extra nodes follow in the builder's order. With
    [N = num_ops I], [M = num_machines I], [J = num_jobs I]:
      disjunctive / solved : source = N, sink = N + 1
      agent-task           : machine m = N + m
      .. with jobs         : machine m = N + m, job j = N + M + j
      complete             : machine m = N + m, job j = N + M + j, global = N + M + J

    Each [spec_<builder> I u v t] says, from the instance alone, when the
    DiGraph holds the edge [u -> v] with type [t]. Every predicate has a
    boolean twin ([…b]) which is extracted and applied to the IMPLEMENTATION's
    node and edge lists; the agreement lemmas ([…b_spec], [oracle_edges_exact],
    [nodes_eqb_eq]) are in proofs/GraphSpecFacts.v and restated in
    properties/C16.v ([C16_oracle_is_spec], [C16_oracle_lists]). *)
From JSL Require Import Base Instance Dstate Graph Feasible.
From Coq Require Import Lia.

(** ** Scope *)

Definition nonempty_jobs (I : instance) : Prop := forall job, In job I -> job <> [].
Definition nodup_machines (I : instance) : Prop :=
  forall j p o, get_op I j p = Some o -> NoDup (machines o).
Definition nonempty_jobsb (I : instance) : bool :=
  forallb (fun job => match job with [] => false | _ => true end) I.
Fixpoint nodupb (l : list nat) : bool :=
  match l with [] => true | x :: t => negb (mem_nat x t) && nodupb t end.
Definition nodup_machinesb (I : instance) : bool :=
  forallb (forallb (fun o => nodupb (machines o))) I.

(** ** Nodes *)

Definition op_nodes (I : instance) : list (nat * node) :=
  map (fun k => (op_id I (fst k) (snd k), OpNode (fst k) (snd k))) (all_keys I).
Definition machine_nodes (I : instance) : list (nat * node) :=
  map (fun m => (num_ops I + m, MachineNode m)%nat) (seq 0 (num_machines I)).
Definition job_nodes (I : instance) : list (nat * node) :=
  map (fun j => (num_ops I + num_machines I + j, JobNode j)%nat) (seq 0 (num_jobs I)).
Definition global_id (I : instance) : nat := (num_ops I + num_machines I + num_jobs I)%nat.

Definition nodes_disjunctive (I : instance) : list (nat * node) :=
  op_nodes I ++ [(num_ops I, SourceNode); (S (num_ops I), SinkNode)].
Definition nodes_agent_task (I : instance) : list (nat * node) := op_nodes I ++ machine_nodes I.
Definition nodes_with_jobs (I : instance) : list (nat * node) :=
  op_nodes I ++ machine_nodes I ++ job_nodes I.
Definition nodes_complete (I : instance) : list (nat * node) :=
  op_nodes I ++ machine_nodes I ++ job_nodes I ++ [(global_id I, GlobalNode)].

Definition spec_nodes (b : nat) (I : instance) : list (nat * node) :=
  match b with
  | 0 => nodes_disjunctive I
  | 1 => nodes_agent_task I
  | 2 => nodes_with_jobs I
  | _ => nodes_complete I
  end%nat.

(** ** Edges *)

Section Edges.
  Variable I : instance.
  Let N := num_ops I.
  Let M := num_machines I.
  Let J := num_jobs I.

  (** [u] is the node of operation [(j, p)], which is [o]. *)
  Definition is_op (u j p : nat) (o : op) : Prop := get_op I j p = Some o /\ u = op_id I j p.

  (** consecutive operations of one job *)
  Definition job_chain (u v : nat) : Prop :=
    exists j p o o', is_op u j p o /\ is_op v j (S p) o'.
  (** source -> first operation of a job; last operation of a job -> sink *)
  Definition src_edge (u v : nat) : Prop := u = N /\ exists j o, is_op v j 0 o.
  Definition snk_edge (u v : nat) : Prop :=
    v = S N /\ exists j p o, is_op u j p o /\ get_op I j (S p) = None.
  Definition conj_edge (u v : nat) : Prop := job_chain u v \/ src_edge u v \/ snk_edge u v.
  (** two different operations with a common eligible machine *)
  Definition share_machine (u v : nat) : Prop :=
    u <> v /\ exists j p o j' p' o' m,
      is_op u j p o /\ is_op v j' p' o' /\ In m (machines o) /\ In m (machines o').

  (** Disjunctive graph. A DiGraph holds one attribute set per ordered pair:
      when consecutive operations of a job also share a machine, the pair
      [p -> p+1] is CONJUNCTIVE (written last), the pair [p+1 -> p] stays
      DISJUNCTIVE. *)
  Definition spec_disjunctive (u v : nat) (t : etype) : Prop :=
    (t = EConj /\ conj_edge u v) \/
    (t = EDisj /\ share_machine u v /\ ~ job_chain u v).

  (** Agent-task family (edges carry no type). *)
  Definition sym (R : nat -> nat -> Prop) (u v : nat) : Prop := R u v \/ R v u.
  Definition op_machine (u v : nat) : Prop :=
    exists j p o m, is_op u j p o /\ In m (machines o) /\ v = (N + m)%nat.
  Definition machine_machine (u v : nat) : Prop :=
    exists m m', (m < M)%nat /\ (m' < M)%nat /\ m <> m' /\ u = (N + m)%nat /\ v = (N + m')%nat.
  Definition same_job (u v : nat) : Prop :=
    exists j p o p' o', is_op u j p o /\ is_op v j p' o' /\ p <> p'.
  Definition op_job (u v : nat) : Prop :=
    exists j p o, is_op u j p o /\ v = (N + M + j)%nat.
  Definition job_job (u v : nat) : Prop :=
    exists j j', (j < J)%nat /\ (j' < J)%nat /\ j <> j' /\ u = (N + M + j)%nat /\ v = (N + M + j')%nat.
  Definition machine_global (u v : nat) : Prop :=
    exists m, (m < M)%nat /\ u = (N + m)%nat /\ v = (N + M + J)%nat.
  Definition job_global (u v : nat) : Prop :=
    exists j, (j < J)%nat /\ u = (N + M + j)%nat /\ v = (N + M + J)%nat.

  Definition spec_agent_task (u v : nat) (t : etype) : Prop :=
    t = ENone /\ (sym op_machine u v \/ machine_machine u v \/ same_job u v).
  Definition spec_with_jobs (u v : nat) (t : etype) : Prop :=
    t = ENone /\ (sym op_machine u v \/ machine_machine u v \/ sym op_job u v \/ job_job u v).
  Definition spec_complete (u v : nat) (t : etype) : Prop :=
    t = ENone /\ (sym op_machine u v \/ sym op_job u v \/ sym machine_global u v \/ sym job_global u v).

  (** Solved disjunctive graph of the schedule [S]: the job chains and the
      source / sink edges, plus one edge between operations that are
      neighbours in a machine row, typed DISJUNCTIVE (written last: a job
      chain pair that is also a row-neighbour pair is DISJUNCTIVE). *)
  Definition row_consecutive (S : schedule) (u v : nat) : Prop :=
    exists row l1 x y l2, In row S /\ row = l1 ++ x :: y :: l2 /\ u = sop_id I x /\ v = sop_id I y.
  Definition spec_solved (S : schedule) (u v : nat) (t : etype) : Prop :=
    (t = EDisj /\ row_consecutive S u v) \/
    (t = EConj /\ conj_edge u v /\ ~ row_consecutive S u v).

  (** *** Boolean twins *)

  Definition key_of_id (u : nat) : option (nat * nat) := nth_error (all_keys I) u.
  Definition has_op (j p : nat) : bool :=
    match get_op I j p with Some _ => true | None => false end.

  Definition job_chainb (u v : nat) : bool :=
    match key_of_id u, key_of_id v with
    | Some k, Some k' => (fst k =? fst k')%nat && (snd k' =? S (snd k))%nat
    | _, _ => false
    end.
  Definition src_edgeb (u v : nat) : bool :=
    (u =? N)%nat && match key_of_id v with Some k => (snd k =? 0)%nat | None => false end.
  Definition snk_edgeb (u v : nat) : bool :=
    (v =? S N)%nat && match key_of_id u with Some k => negb (has_op (fst k) (S (snd k))) | None => false end.
  Definition conj_edgeb (u v : nat) : bool := job_chainb u v || src_edgeb u v || snk_edgeb u v.
  Definition share_machineb (u v : nat) : bool :=
    negb (u =? v)%nat &&
    match key_of_id u, key_of_id v with
    | Some k, Some k' => existsb (fun m => mem_nat m (kmachines I k')) (kmachines I k)
    | _, _ => false
    end.
  Definition spec_disjunctiveb (u v : nat) (t : etype) : bool :=
    match t with
    | EConj => conj_edgeb u v
    | EDisj => share_machineb u v && negb (job_chainb u v)
    | ENone => false
    end.

  Definition symb (f : nat -> nat -> bool) (u v : nat) : bool := f u v || f v u.
  Definition op_machineb (u v : nat) : bool :=
    match key_of_id u with
    | Some k => (N <=? v)%nat && mem_nat (v - N) (kmachines I k)
    | None => false
    end.
  Definition machine_machineb (u v : nat) : bool :=
    (N <=? u)%nat && (u <? N + M)%nat && (N <=? v)%nat && (v <? N + M)%nat && negb (u =? v)%nat.
  Definition same_jobb (u v : nat) : bool :=
    match key_of_id u, key_of_id v with
    | Some k, Some k' => (fst k =? fst k')%nat && negb (snd k =? snd k')%nat
    | _, _ => false
    end.
  Definition op_jobb (u v : nat) : bool :=
    match key_of_id u with
    | Some k => (v =? N + M + fst k)%nat
    | None => false
    end.
  Definition job_jobb (u v : nat) : bool :=
    (N + M <=? u)%nat && (u <? N + M + J)%nat && (N + M <=? v)%nat && (v <? N + M + J)%nat
    && negb (u =? v)%nat.
  Definition machine_globalb (u v : nat) : bool :=
    (N <=? u)%nat && (u <? N + M)%nat && (v =? N + M + J)%nat.
  Definition job_globalb (u v : nat) : bool :=
    (N + M <=? u)%nat && (u <? N + M + J)%nat && (v =? N + M + J)%nat.

  Definition is_none (t : etype) : bool := match t with ENone => true | _ => false end.
  Definition spec_agent_taskb (u v : nat) (t : etype) : bool :=
    is_none t && (symb op_machineb u v || machine_machineb u v || same_jobb u v).
  Definition spec_with_jobsb (u v : nat) (t : etype) : bool :=
    is_none t && (symb op_machineb u v || machine_machineb u v || symb op_jobb u v || job_jobb u v).
  Definition spec_completeb (u v : nat) (t : etype) : bool :=
    is_none t && (symb op_machineb u v || symb op_jobb u v || symb machine_globalb u v
                  || symb job_globalb u v).

  Definition row_consecutiveb (S : schedule) (u v : nat) : bool :=
    existsb (fun row => existsb (fun p => (sop_id I (fst p) =? u)%nat && (sop_id I (snd p) =? v)%nat)
                                (consecutive row)) S.
  Definition spec_solvedb (S : schedule) (u v : nat) (t : etype) : bool :=
    match t with
    | EDisj => row_consecutiveb S u v
    | EConj => conj_edgeb u v && negb (row_consecutiveb S u v)
    | ENone => false
    end.
End Edges.

Definition spec_edgesb (b : nat) (I : instance) : nat -> nat -> etype -> bool :=
  match b with
  | 0 => spec_disjunctiveb I
  | 1 => spec_agent_taskb I
  | 2 => spec_with_jobsb I
  | _ => spec_completeb I
  end%nat.

(** ** The oracle applied to an observed (node list, edge list)

    [sound]: every observed edge is prescribed; [complete]: every prescribed
    triple over the observed id range is observed; [nokeydup]: no ordered
    pair occurs twice. Together: observed edge set = prescribed edge set. *)
Definition edge_eqb (a b : edge) : bool :=
  (e_src a =? e_src b)%nat && (e_dst a =? e_dst b)%nat && etype_eqb (e_type a) (e_type b).
Definition mem_edge (e : edge) (l : list edge) : bool := existsb (edge_eqb e) l.
Definition all_triples (n : nat) : list edge :=
  flat_map (fun u => flat_map (fun v => [(u, v, EConj); (u, v, EDisj); (u, v, ENone)]) (seq 0 n)) (seq 0 n).
Definition edges_soundb (f : nat -> nat -> etype -> bool) (es : list edge) : bool :=
  forallb (fun e => f (e_src e) (e_dst e) (e_type e)) es.
Definition edges_completeb (f : nat -> nat -> etype -> bool) (n : nat) (es : list edge) : bool :=
  forallb (fun e => negb (f (e_src e) (e_dst e) (e_type e)) || mem_edge e es) (all_triples n).
Fixpoint keys_nodupb (es : list edge) : bool :=
  match es with
  | [] => true
  | e :: r => negb (existsb (fun e' => (e_src e' =? e_src e)%nat && (e_dst e' =? e_dst e)%nat) r)
              && keys_nodupb r
  end.

Definition node_eqb (a b : nat * node) : bool :=
  (fst a =? fst b)%nat &&
  match snd a, snd b with
  | OpNode j p, OpNode j' p' => (j =? j')%nat && (p =? p')%nat
  | MachineNode m, MachineNode m' => (m =? m')%nat
  | JobNode j, JobNode j' => (j =? j')%nat
  | GlobalNode, GlobalNode | SourceNode, SourceNode | SinkNode, SinkNode => true
  | _, _ => false
  end.
Fixpoint nodes_eqb (a b : list (nat * node)) : bool :=
  match a, b with
  | [], [] => true
  | x :: a', y :: b' => node_eqb x y && nodes_eqb a' b'
  | _, _ => false
  end.

(** ** Time labels of the solved graph, walks *)

Definition find_sop (I : instance) (S : schedule) (u : nat) : option sop :=
  find (fun x => (sop_id I x =? u)%nat) (all_sops S).
(** operation node: start / end of the scheduled operation; source: 0;
    sink: the makespan. *)
Definition node_start (I : instance) (S : schedule) (u : nat) : Z :=
  if (u <? num_ops I)%nat then match find_sop I S u with Some x => s_start x | None => 0 end
  else if (u =? num_ops I)%nat then 0 else makespan I S.
Definition node_end (I : instance) (S : schedule) (u : nat) : Z :=
  if (u <? num_ops I)%nat then match find_sop I S u with Some x => s_end I x | None => 0 end
  else if (u =? num_ops I)%nat then 0 else makespan I S.
(** weight of a node on a path: the operation's duration; 0 for source / sink *)
Definition node_dur (I : instance) (u : nat) : Z :=
  match key_of_id I u with Some k => kdur I k | None => 0 end.

Definition has_edge (es : list edge) (u v : nat) : Prop := exists t, In (u, v, t) es.
Fixpoint walk (es : list edge) (l : list nat) : Prop :=
  match l with
  | u :: ((v :: _) as r) => has_edge es u v /\ walk es r
  | _ => True
  end.
Definition edges_respect_timeb (I : instance) (S : schedule) (es : list edge) : bool :=
  forallb (fun e => node_end I S (e_src e) <=? node_start I S (e_dst e)) es.
