(** GeneratorSpec.v — what "a generated instance respects the requested shape"
    means (property C19), independent of how the generator computes it, with
    boolean twins (extracted; applied to the implementation's instances). *)
From JSL Require Import Base Instance Generator.
From Coq Require Import Permutation Lia.

(** ** One operation: duration in range; the requested number [k] of
    machines, [k] within [machines_per_operation]; pairwise distinct; all
    below the number of machines [M]. *)
Definition op_ok (p : params) (M : nat) (o : op) : Prop :=
  (dlo p <= duration o <= dhi p) /\
  (klo p <= length (machines o) <= khi p)%nat /\
  NoDup (machines o) /\
  Forall (fun m => (m < M)%nat) (machines o).

(** The job visits each of the [M] machines exactly once. *)
Definition visits_each_once (M : nat) (job : list op) : Prop :=
  Permutation (concat (map machines job)) (seq 0 M).

(** One job: [M] operations, each fine; a permutation of [range M] when
    recirculation is off and operations have a single machine. *)
Definition job_ok (p : params) (M : nat) (job : list op) : Prop :=
  length job = M /\
  Forall (op_ok p M) job /\
  (recirc p = false -> (khi p <= 1)%nat -> visits_each_once M job).

(** The number of machines of a generated instance = operations per job. *)
(* [M_of] is defined in model/Generator.v: [mlo p] for the empty instance, else the length of the first job. *)

(** The shape predicate of [generate()]. *)
Definition shape (p : params) (I : instance) : Prop :=
  (jlo p <= length I <= jhi p)%nat /\
  (mlo p <= M_of p I <= mhi p)%nat /\
  (allow_less p = false -> (M_of p I <= length I)%nat) /\
  Forall (job_ok p (M_of p I)) I.

(** The shape of [generate(num_jobs=J, num_machines=M)]. *)
Definition shape_at (p : params) (J M : nat) (I : instance) : Prop :=
  length I = J /\ Forall (job_ok p M) I.

(** Names never reused. *)
Definition names_distinct (xs : list ginst) : Prop := NoDup (map fst xs).

(** Preconditions on the parameter record (what a caller must supply for the
    request to make sense; the repaired constructor rejects the last one,
    [random.randint] the empty ranges). *)
Definition wf_params (p : params) : Prop :=
  (jlo p <= jhi p)%nat /\ (mlo p <= mhi p)%nat /\ dlo p <= dhi p /\
  (1 <= klo p <= khi p)%nat /\
  ((1 < khi p)%nat -> (khi p <= mlo p)%nat) /\
  (allow_less p = false -> (mlo p <= jhi p)%nat).

(** Reading of "for every draw stream respecting the randint/choice contract":
    whenever the call does not answer [Bad] (stream exhausted / contract
    broken) it raises nothing and its result satisfies [Q]. *)
Definition post {A : Type} (Q : A -> gst -> Prop) (r : res A) : Prop :=
  match r with Ok a g => Q a g | Exn _ _ => False | Bad => True end.

(** Names a generator handed out in an answer. *)
Definition out_names (o : output) : list (list Z) :=
  match o with
  | OInst x => [fst x]
  | OList xs => map fst xs
  | _ => []
  end.

(** Any sequence of actions on one generator, whatever its RNG returns
    (own stream, shared stream, re-seeded in between ...). *)
Inductive trace (p : params) : gst -> list output -> Prop :=
| trace_nil : forall g, trace p g []
| trace_cons : forall g s a o g' outs,
    act p a (set_rng g s) = (o, g') -> trace p g' outs -> trace p g (o :: outs).

(** ** Boolean twins *)

Fixpoint nodup_natb (l : list nat) : bool :=
  match l with [] => true | x :: t => negb (mem_nat x t) && nodup_natb t end.

Definition permb (M : nat) (l : list nat) : bool :=
  (length l =? M)%nat && nodup_natb l && forallb (fun m => (m <? M)%nat) l.

Definition all_ops (f : op -> bool) (I : instance) : bool := forallb (forallb f) I.

(** The clauses of the core, by name (the harness reports the failing one):
    same-length, ids-below-M, durations-in-range, k-in-range,
    machines-distinct, permutation-without-recirculation. *)
Definition core_clauses (p : params) (M : nat) (I : instance) : list bool :=
  [ forallb (fun job => (length job =? M)%nat) I;
    all_ops (fun o => forallb (fun m => (m <? M)%nat) (machines o)) I;
    all_ops (fun o => (dlo p <=? duration o) && (duration o <=? dhi p)) I;
    all_ops (fun o => (klo p <=? length (machines o))%nat && (length (machines o) <=? khi p)%nat) I;
    all_ops (fun o => nodup_natb (machines o)) I;
    recirc p || (1 <? khi p)%nat || forallb (fun job => permb M (concat (map machines job))) I ].

(** jobs-in-range, machines-in-range, jobs-ge-machines, then the core. *)
Definition shape_clauses (p : params) (I : instance) : list bool :=
  let M := M_of p I in
  [ (jlo p <=? length I)%nat && (length I <=? jhi p)%nat;
    (mlo p <=? M)%nat && (M <=? mhi p)%nat;
    allow_less p || (M <=? length I)%nat ] ++ core_clauses p M I.

Definition all_true (l : list bool) : bool := forallb (fun b => b) l.
Definition coreb (p : params) (M : nat) (I : instance) : bool := all_true (core_clauses p M I).
Definition shapeb (p : params) (I : instance) : bool := all_true (shape_clauses p I).
Definition shape_atb (p : params) (J M : nat) (I : instance) : bool :=
  (length I =? J)%nat && coreb p M I.

Fixpoint eqb_listZ (a b : list Z) : bool :=
  match a, b with
  | [], [] => true
  | x :: a', y :: b' => (x =? y) && eqb_listZ a' b'
  | _, _ => false
  end.
Fixpoint mem_name (x : list Z) (l : list (list Z)) : bool :=
  match l with [] => false | y :: t => eqb_listZ x y || mem_name x t end.
Fixpoint nodup_nameb (l : list (list Z)) : bool :=
  match l with [] => true | x :: t => negb (mem_name x t) && nodup_nameb t end.
Definition names_distinctb (xs : list ginst) : bool := nodup_nameb (map fst xs).

Definition wf_paramsb (p : params) : bool :=
  (jlo p <=? jhi p)%nat && (mlo p <=? mhi p)%nat && (dlo p <=? dhi p) &&
  (1 <=? klo p)%nat && (klo p <=? khi p)%nat &&
  (negb (1 <? khi p)%nat || (khi p <=? mlo p)%nat) &&
  (allow_less p || (mlo p <=? jhi p)%nat).

(** ** Twins agree with the specification *)

Lemma mem_nat_In : forall x l, mem_nat x l = true <-> In x l.
Proof.
  induction l as [|y t IH]; simpl.
  - split; [discriminate | tauto].
  - rewrite orb_true_iff, IH, Nat.eqb_eq. split; intros [H|H]; auto.
Qed.

Lemma nodup_natb_spec : forall l, nodup_natb l = true <-> NoDup l.
Proof.
  induction l as [|x t IH]; simpl.
  - split; [constructor | reflexivity].
  - rewrite andb_true_iff, negb_true_iff, IH. split.
    + intros [Hm Hn]. constructor; [|exact Hn].
      intro Hin. apply mem_nat_In in Hin. congruence.
    + intro Hn. inversion Hn as [|? ? Hnin Hnd]; subst. split; [|exact Hnd].
      destruct (mem_nat x t) eqn:E; [|reflexivity]. apply mem_nat_In in E. contradiction.
Qed.

Lemma forallb_ltb : forall M l, forallb (fun m => (m <? M)%nat) l = true <-> Forall (fun m => (m < M)%nat) l.
Proof.
  intros M l. rewrite forallb_forall, Forall_forall.
  split; intros H x Hx; specialize (H x Hx); apply Nat.ltb_lt; exact H.
Qed.

(** A list of length [M] without repetition and below [M] is a permutation
    of [range M], and conversely. *)
Lemma permb_spec : forall M l, permb M l = true <-> Permutation l (seq 0 M).
Proof.
  intros M l. unfold permb. rewrite !andb_true_iff, Nat.eqb_eq, nodup_natb_spec, forallb_ltb. split.
  - intros [[Hlen Hnd] Hlt]. apply NoDup_Permutation_bis.
    + exact Hnd.
    + rewrite seq_length. lia.
    + intros x Hx. apply in_seq. rewrite Forall_forall in Hlt. specialize (Hlt x Hx). lia.
  - intro HP. split; [split|].
    + rewrite (Permutation_length HP). apply seq_length.
    + apply (Permutation_NoDup (Permutation_sym HP)). apply seq_NoDup.
    + apply Forall_forall. intros x Hx. apply (Permutation_in _ HP) in Hx. apply in_seq in Hx. lia.
Qed.

Lemma all_ops_spec : forall (f : op -> bool) (P : op -> Prop),
  (forall o, f o = true <-> P o) ->
  forall I, all_ops f I = true <-> Forall (Forall P) I.
Proof.
  intros f P HfP I. unfold all_ops. rewrite forallb_forall, Forall_forall.
  split; intros H job Hj; specialize (H job Hj).
  - apply Forall_forall. intros o Ho. apply HfP. rewrite forallb_forall in H. auto.
  - apply forallb_forall. intros o Ho. apply HfP. rewrite Forall_forall in H. auto.
Qed.

Lemma job_ok_split : forall p M I,
  Forall (job_ok p M) I <->
  Forall (fun job => length job = M) I /\
  Forall (Forall (fun o => Forall (fun m => (m < M)%nat) (machines o))) I /\
  Forall (Forall (fun o => dlo p <= duration o <= dhi p)) I /\
  Forall (Forall (fun o => (klo p <= length (machines o) <= khi p)%nat)) I /\
  Forall (Forall (fun o => NoDup (machines o))) I /\
  (recirc p = false -> (khi p <= 1)%nat -> Forall (visits_each_once M) I).
Proof.
  intros p M I. split.
  - intro H. repeat split.
    + apply Forall_forall. intros job Hj. rewrite Forall_forall in H. apply (H job Hj).
    + apply Forall_forall. intros job Hj. rewrite Forall_forall in H.
      destruct (H job Hj) as (_ & Ho & _). apply Forall_forall. intros o Hin.
      rewrite Forall_forall in Ho. apply (Ho o Hin).
    + apply Forall_forall. intros job Hj. rewrite Forall_forall in H.
      destruct (H job Hj) as (_ & Ho & _). apply Forall_forall. intros o Hin.
      rewrite Forall_forall in Ho. apply (Ho o Hin).
    + apply Forall_forall. intros job Hj. rewrite Forall_forall in H.
      destruct (H job Hj) as (_ & Ho & _). apply Forall_forall. intros o Hin.
      rewrite Forall_forall in Ho. apply (Ho o Hin).
    + apply Forall_forall. intros job Hj. rewrite Forall_forall in H.
      destruct (H job Hj) as (_ & Ho & _). apply Forall_forall. intros o Hin.
      rewrite Forall_forall in Ho. apply (Ho o Hin).
    + intros Hr Hk. apply Forall_forall. intros job Hj. rewrite Forall_forall in H.
      destruct (H job Hj) as (_ & _ & Hv). auto.
  - intros (H1 & H2 & H3 & H4 & H5 & H6). apply Forall_forall. intros job Hj.
    rewrite Forall_forall in H1, H2, H3, H4, H5.
    specialize (H1 job Hj). specialize (H2 job Hj). specialize (H3 job Hj).
    specialize (H4 job Hj). specialize (H5 job Hj).
    split; [exact H1|]. split.
    + rewrite Forall_forall in *. intros o Ho. unfold op_ok.
      split; [apply (H3 o Ho)|]. split; [apply (H4 o Ho)|]. split; [apply (H5 o Ho)|apply (H2 o Ho)].
    + intros Hr Hk. specialize (H6 Hr Hk). rewrite Forall_forall in H6. auto.
Qed.

Lemma coreb_spec : forall p M I, coreb p M I = true <-> Forall (job_ok p M) I.
Proof.
  intros p M I. rewrite job_ok_split. unfold coreb, all_true, core_clauses.
  cbn [forallb]. rewrite !andb_true_iff.
  rewrite (all_ops_spec _ (fun o => Forall (fun m => (m < M)%nat) (machines o)))
    by (intro o; apply forallb_ltb).
  rewrite (all_ops_spec _ (fun o => dlo p <= duration o <= dhi p))
    by (intro o; rewrite andb_true_iff, !Z.leb_le; tauto).
  rewrite (all_ops_spec _ (fun o => (klo p <= length (machines o) <= khi p)%nat))
    by (intro o; rewrite andb_true_iff, !Nat.leb_le; tauto).
  rewrite (all_ops_spec _ (fun o => NoDup (machines o)))
    by (intro o; apply nodup_natb_spec).
  assert (Hlen : forallb (fun job : list op => (length job =? M)%nat) I = true <->
                 Forall (fun job => length job = M) I).
  { rewrite forallb_forall, Forall_forall. split; intros H x Hx; apply Nat.eqb_eq; auto. }
  assert (Hperm : recirc p || (1 <? khi p)%nat ||
                  forallb (fun job => permb M (concat (map machines job))) I = true <->
                  (recirc p = false -> (khi p <= 1)%nat -> Forall (visits_each_once M) I)).
  { rewrite !orb_true_iff, Nat.ltb_lt, forallb_forall, Forall_forall. unfold visits_each_once. split.
    - intros [[Hr|Hk]|Hf] Hr' Hk' x Hx; [congruence|lia|]. apply permb_spec. auto.
    - intro H. destruct (recirc p); [auto|]. destruct (Nat.ltb_spec 1 (khi p)) as [Hlt|Hle]; [auto|].
      right. intros x Hx. apply permb_spec. apply H; auto. }
  rewrite Hlen, Hperm. tauto.
Qed.

Theorem shapeb_spec : forall p I, shapeb p I = true <-> shape p I.
Proof.
  intros p I. unfold shapeb, shape, shape_clauses, all_true.
  cbn [app forallb]. fold (all_true (core_clauses p (M_of p I) I)). fold (coreb p (M_of p I) I).
  rewrite !andb_true_iff, coreb_spec, orb_true_iff, !Nat.leb_le.
  split.
  - intros (Hj & Hm & Ha & Hc). repeat split; try tauto.
    intro Hal. destruct Ha as [Ha|Ha]; [congruence|exact Ha].
  - intros (Hj & Hm & Ha & Hc). repeat split; try tauto.
    destruct (allow_less p); [left; reflexivity|right; auto].
Qed.

Theorem shape_atb_spec : forall p J M I, shape_atb p J M I = true <-> shape_at p J M I.
Proof.
  intros p J M I. unfold shape_atb, shape_at. rewrite andb_true_iff, Nat.eqb_eq, coreb_spec. tauto.
Qed.

Lemma eqb_listZ_spec : forall a b, eqb_listZ a b = true <-> a = b.
Proof.
  induction a as [|x a IH]; destruct b as [|y b]; simpl; try (split; [discriminate|discriminate]).
  - tauto.
  - rewrite andb_true_iff, Z.eqb_eq, IH. split; [intros [-> ->]; reflexivity | intro H; inversion H; auto].
Qed.

Lemma mem_name_In : forall x l, mem_name x l = true <-> In x l.
Proof.
  induction l as [|y t IH]; simpl.
  - split; [discriminate | tauto].
  - rewrite orb_true_iff, IH, eqb_listZ_spec. split; intros [H|H]; auto.
Qed.

Lemma nodup_nameb_spec : forall l, nodup_nameb l = true <-> NoDup l.
Proof.
  induction l as [|x t IH]; simpl.
  - split; [constructor | reflexivity].
  - rewrite andb_true_iff, negb_true_iff, IH. split.
    + intros [Hm Hn]. constructor; [|exact Hn].
      intro Hin. apply mem_name_In in Hin. congruence.
    + intro Hn. inversion Hn as [|? ? Hnin Hnd]; subst. split; [|exact Hnd].
      destruct (mem_name x t) eqn:E; [|reflexivity]. apply mem_name_In in E. contradiction.
Qed.

Theorem names_distinctb_spec : forall xs, names_distinctb xs = true <-> names_distinct xs.
Proof. intro xs. apply nodup_nameb_spec. Qed.

Theorem wf_paramsb_spec : forall p, wf_paramsb p = true <-> wf_params p.
Proof.
  intro p. unfold wf_paramsb, wf_params.
  rewrite !andb_true_iff, !orb_true_iff, negb_true_iff, !Nat.leb_le, Z.leb_le, Nat.ltb_nlt.
  split.
  - intros ((((((H1 & H2) & H3) & H4) & H5) & H6) & H7). repeat split; auto.
    + intro Hk. destruct H6 as [H6|H6]; [lia|exact H6].
    + intro Ha. destruct H7 as [H7|H7]; [congruence|exact H7].
  - intros (H1 & H2 & H3 & (H4 & H5) & H6 & H7). repeat split; auto.
    + destruct (Nat.lt_ge_cases 1 (khi p)); [right; auto | left; lia].
    + destruct (allow_less p); [left; reflexivity | right; auto].
Qed.
