(** Derived.v — the dispatcher's book-keeping recomputed FROM SCRATCH from
    the schedule rows (the user-visible object), and every dispatcher query
    as a pure function of (instance, filter configuration, schedule rows).
    This is the "independent recomputation from the instance and the dispatch
    history" of C02 / C05: nothing here reads a tracking vector or a cache. *)
From JSL Require Import Base Instance Dstate Filters.

Definition job_sops (S : schedule) (j : nat) : list sop :=
  filter (fun x => (s_job x =? j)%nat) (all_sops S).

(** end of the last operation of each machine row = the largest end in it *)
Definition sp_mfree (I : instance) (S : schedule) : list Z :=
  map (fun row => maxZ0 (map (s_end I) row)) S.
(** number of operations of job j already in the schedule *)
Definition sp_jnext (I : instance) (S : schedule) : list nat :=
  map (fun j => length (job_sops S j)) (seq 0 (length I)).
(** end of the latest operation of job j in the schedule (0 if none) *)
Definition sp_jfree (I : instance) (S : schedule) : list Z :=
  map (fun j => maxZ0 (map (s_end I) (job_sops S j))) (seq 0 (length I)).

Definition dstate_of (I : instance) (S : schedule) : dstate :=
  mkd (sp_mfree I S) (sp_jnext I S) (sp_jfree I S) S.

(** makespan: the largest end time of any scheduled operation *)
Definition sp_makespan (I : instance) (S : schedule) : Z := maxZ0 (map (s_end I) (all_sops S)).

(** total idle time of all machines up to their last operation *)
Definition sp_idle (I : instance) (S : schedule) : Z :=
  sumZ (map (fun row => maxZ0 (map (s_end I) row) - sumZ (map (dur I) row)) S).

(** The forced start of operation (j,p) on machine m (C02): the later of the
    end of its job predecessor in the schedule (0 if none) and the end of the
    last operation in row m (0 if empty). *)
Definition pred_end (I : instance) (S : schedule) (j p : nat) : Z :=
  match p with
  | O => 0
  | Datatypes.S p' =>
      match find (fun x => eqb_key (key x) (j, p')) (all_sops S) with
      | Some y => s_end I y
      | None => 0
      end
  end.
Definition row_last_end (I : instance) (S : schedule) (m : nat) : Z :=
  last_end I (nth m S []).
Definition forced_start (I : instance) (S : schedule) (j p m : nat) : Z :=
  Z.max (pred_end I S j p) (row_last_end I S m).

(** ** The queries, uncached, on a dispatcher state *)
Section Pure.
  Variable I : instance.
  Variable fs : list fname.
  Variable d : dstate.

  Definition p_raw := raw_ready I d.
  Definition p_avail := apply_filters I d fs p_raw.
  Definition p_now := min_start_time I d p_avail.
  Definition p_unsched := unscheduled_ops I d.
  Definition p_sched := scheduled_ops I d.
  Definition p_amach := sort_nat (dedup_nat (flat_map (kmachines I) p_avail)).
  Definition p_ajobs := sort_nat (dedup_nat (map fst p_avail)).
  Definition p_ongoing := ongoing_at I p_now (sched d).
  Definition p_completed := filter (fun k => negb (mem_key k (map key p_ongoing))) p_sched.
  Definition p_uncompleted := p_unsched ++ map key p_ongoing.
End Pure.
