(** ViewsSpec.v — what the derived views of an instance MEAN, independent of
    how the library computes them; the spec-level Taillard printer; the
    precedence order of per-machine job sequences.

    Operations are identified by their key (job, position); [all_keys I] lists
    them in job-major order; [op_id I j p] (Instance.v) is the definitional
    dense id: the sum of the lengths of the earlier jobs plus [p]. *)
From JSL Require Import Base Instance Dstate Filters World Views.
From Coq Require Import Lia Permutation.

(** ** Numbering *)
(** "Dense, job-major": listing the operations job by job, position by
    position, their ids are 0, 1, ..., N-1 — a bijection onto [0, N). *)
Definition dense_job_major (I : instance) (id : nat -> nat -> nat) : Prop :=
  map (fun k => id (fst k) (snd k)) (all_keys I) = seq 0 (num_ops I).

(** ** Counts *)
(** [n] is "largest machine id present, plus one" (0 when no machine occurs). *)
Definition is_num_machines (I : instance) (n : nat) : Prop :=
  (forall j p o m, get_op I j p = Some o -> In m (machines o) -> (m < n)%nat) /\
  (n = 0%nat \/ exists j p o, get_op I j p = Some o /\ In (pred n) (machines o)).
Definition flexible (I : instance) : Prop :=
  exists j p o, get_op I j p = Some o /\ (1 < length (machines o))%nat.
(** every operation has exactly one eligible machine *)
Definition single_machine (I : instance) : Prop :=
  forall j p o, get_op I j p = Some o -> exists m, machines o = [m].

(** boolean twins (proved equivalent in proofs/ViewsProofs.v) *)
Definition has_machines_b (I : instance) : bool :=
  forallb (forallb (fun o => match machines o with [] => false | _ => true end)) I.
Definition single_machine_b (I : instance) : bool :=
  forallb (forallb (fun o => (length (machines o) =? 1)%nat)) I.

(** ** Greatest element *)
Definition is_max (l : list Z) (x : Z) : Prop := In x l /\ forall y, In y l -> y <= x.
Definition is_maxb (l : list Z) (x : Z) : bool :=
  existsb (Z.eqb x) l && forallb (fun y => y <=? x) l.

(** ** Padded arrays ([None] = NaN) *)
Definition pad {A} (n : nat) (l : list A) : list (option A) :=
  map Some l ++ repeat None (n - length l).
Definition max_len {A} (ll : list (list A)) : nat := fold_right Nat.max 0%nat (map (@length A) ll).
Definition durations_array_spec (I : instance) : list (list (option Z)) :=
  map (pad (max_len I)) (durations_matrix I).
(** non-flexible: the single machine of every operation *)
Definition machine_of (o : op) : nat := hd 0%nat (machines o).
Definition machines_array2_spec (I : instance) : list (list (option nat)) :=
  map (fun job => pad (max_len I) (map machine_of job)) I.
(** flexible: shape (jobs, longest job, longest machine list) *)
Definition machines_array3_spec (I : instance) : list (list (list (option nat))) :=
  let n1 := max_len I in
  let n2 := max_len (map machines (concat I)) in
  map (fun job => map (fun o => pad n2 (machines o)) job ++ repeat (repeat None n2) (n1 - length job)) I.

(** ** Per-machine views. An operation is listed once per occurrence of the
    machine in its machine list, in job-major order. *)
Definition count_m (m : nat) (ms : list nat) : nat := length (filter (Nat.eqb m) ms).
Definition obm_spec (I : instance) (m : nat) : list (nat * nat) :=
  flat_map (fun k => repeat k (count_m m (kmachines I k))) (all_keys I).
Definition load_spec (I : instance) (m : nat) : Z := sumZ (map (kdur I) (obm_spec I m)).
Definition maxdur_machine_spec (I : instance) (m : nat) : Z := maxZ0 (map (kdur I) (obm_spec I m)).
Definition all_durations (I : instance) : list Z := map duration (concat I).

(** ** Spec-level Taillard printer (the library has no writer): [c] comment
    lines, the header "jobs machines", then one row "m d m d ..." per job. *)
Definition job_row (job : list op) : list Z :=
  flat_map (fun o => [Z.of_nat (machine_of o); duration o]) job.
Definition print_taillard (c : nat) (I : instance) : list tline :=
  repeat TComment c ++ TRow [Z.of_nat (num_jobs I); Z.of_nat (num_machines I)] :: map (fun job => TRow (job_row job)) I.
Definition drop_comments (ls : list tline) : list tline :=
  filter (fun l => match l with TComment => false | TRow _ => true end) ls.

(** ** Per-machine job sequences and the order they impose.
    [L] is a total order (a list) of all operation keys. It LINEARISES the
    per-machine job sequences [P] when it respects the job order (every
    earlier position of the same job comes first) and its restriction to the
    operations of machine [m], read as job ids, is [P[m]] — i.e. [L] is a
    linear extension of "job order ∪ machine order of P". Such an [L] exists
    iff that relation has no cycle. *)
Definition on_machine_k (I : instance) (m : nat) (k : nat * nat) : bool := mem_nat m (kmachines I k).
Definition project (I : instance) (m : nat) (L : list (nat * nat)) : list nat :=
  map fst (filter (on_machine_k I m) L).
Record linearises (I : instance) (P : list (list nat)) (L : list (nat * nat)) : Prop := {
  lin_perm : Permutation L (all_keys I);
  lin_job : forall L1 k L2 q, L = L1 ++ k :: L2 -> (q < snd k)%nat -> In (fst k, q) L1;
  lin_rows : P = map (fun m => project I m L) (seq 0 (num_machines I))
}.

(** [P] is a per-machine permutation: one row per machine, row [m] a
    rearrangement of the job ids of the operations that run on machine [m]. *)
Definition true_permutation (I : instance) (P : list (list nat)) : Prop :=
  length P = num_machines I /\
  forall m, (m < num_machines I)%nat -> Permutation (nth m P []) (project I m (all_keys I)).
