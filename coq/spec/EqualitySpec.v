(** EqualitySpec.v — what "same content" means for C15, independent of how the
    [__eq__] methods are written, and what the oracle checks on a table of
    comparison results. *)
From JSL Require Import Base Equality.

(** ** Content of each kind of object (plain data; equality on it is Leibniz
    equality).

    * operation: machines (as an ordered list), duration, and its place in the
      job structure (job id, position in the job, operation id);
    * scheduled operation: the operation's content, start time, machine;
    * schedule: its machine rows, each the contents of its scheduled
      operations in order (the number of rows and the row an operation sits
      in are part of it — that is the machine assignment);
    * instance: its jobs, each the contents of its operations in order (number
      of jobs, job lengths and the job an operation sits in are part of it —
      that is the job structure).

    NOT content, because no [__eq__] of the library looks at it: the name and
    metadata of an instance, the metadata of a schedule, and the part of a
    schedule's instance that is not scheduled yet. *)
Definition op_content := (list Z * Z * Z * Z * Z)%type.
Definition sop_content := (op_content * Z * Z)%type.

Inductive cont :=
| COp (c : op_content)
| CSop (c : sop_content)
| CSched (rows : list (list sop_content))
| CInst (jobs : list (list op_content))
| CForeign (t z : Z).

Definition cont_op (o : oper) : op_content :=
  (o_machines o, o_duration o, o_job o, o_pos o, o_id o).
Definition cont_sop (s : soper) : sop_content :=
  (cont_op (so_op s), so_start s, so_mach s).
Definition cont_rows (rows : list (list soper)) : list (list sop_content) :=
  map (map cont_sop) rows.
Definition cont_jobs (jobs : list (list oper)) : list (list op_content) :=
  map (map cont_op) jobs.

Definition content (x : pyobj) : cont :=
  match x with
  | OOp o => COp (cont_op o)
  | OSop s => CSop (cont_sop s)
  | OSched s => CSched (cont_rows (sc_rows s))
  | OInst i => CInst (cont_jobs (i_jobs i))
  | OForeign t z => CForeign t z
  end.

(** The job structure / machine assignment seen as a shape. *)
Definition job_shape (i : inst) : list nat := map (@length oper) (i_jobs i).
Definition row_shape (s : schd) : list nat := map (@length soper) (sc_rows s).

(** ** Boolean twin (the oracle applies it to snapshots of the IMPLEMENTATION's
    objects read back through their public attributes). *)
Definition op_content_eqb (a b : op_content) : bool :=
  match a, b with
  | (m1, d1, j1, p1, i1), (m2, d2, j2, p2, i2) =>
      list_eqb Z.eqb m1 m2 && (d1 =? d2) && (j1 =? j2) && (p1 =? p2) && (i1 =? i2)
  end.
Definition sop_content_eqb (a b : sop_content) : bool :=
  match a, b with
  | (o1, s1, m1), (o2, s2, m2) => op_content_eqb o1 o2 && (s1 =? s2) && (m1 =? m2)
  end.
Definition cont_eqb (a b : cont) : bool :=
  match a, b with
  | COp x, COp y => op_content_eqb x y
  | CSop x, CSop y => sop_content_eqb x y
  | CSched x, CSched y => list_eqb (list_eqb sop_content_eqb) x y
  | CInst x, CInst y => list_eqb (list_eqb op_content_eqb) x y
  | CForeign t z, CForeign t' z' => (t =? t') && (z =? z')
  | _, _ => false
  end.

(** ** A table of answers [M i j] = "object i == object j" *)
Definition mget (M : list (list bool)) (i j : nat) : bool := nth j (nth i M []) false.

Definition reflexive_on (M : list (list bool)) : Prop :=
  forall i, (i < length M)%nat -> mget M i i = true.
Definition symmetric_on (M : list (list bool)) : Prop :=
  forall i j, (i < length M)%nat -> (j < length M)%nat -> mget M i j = mget M j i.
Definition transitive_on (M : list (list bool)) : Prop :=
  forall i j k, (i < length M)%nat -> (j < length M)%nat -> (k < length M)%nat ->
    mget M i j = true -> mget M j k = true -> mget M i k = true.

Definition idx (M : list (list bool)) : list nat := seq 0 (length M).
Definition reflexiveb (M : list (list bool)) : bool :=
  forallb (fun i => mget M i i) (idx M).
Definition symmetricb (M : list (list bool)) : bool :=
  forallb (fun i => forallb (fun j => Bool.eqb (mget M i j) (mget M j i)) (idx M)) (idx M).
Definition transitiveb (M : list (list bool)) : bool :=
  forallb (fun i => forallb (fun j => forallb (fun k =>
    implb (mget M i j && mget M j k) (mget M i k)) (idx M)) (idx M)) (idx M).

(** [E] agrees with content equality of the objects [xs]. *)
Definition reflects_content (xs : list cont) (M : list (list bool)) : Prop :=
  forall i j, (i < length xs)%nat -> (j < length xs)%nat ->
    (mget M i j = true <-> nth i xs (CForeign 0 0) = nth j xs (CForeign 0 0)).
Definition content_table (xs : list cont) : list (list bool) :=
  map (fun a => map (fun b => cont_eqb a b) xs) xs.

(** Codec of contents (snapshots): tag first. *)
Definition dec_op_content (v : val) : op_content :=
  (asLof asZ (vnth v 0), asZ (vnth v 1), asZ (vnth v 2), asZ (vnth v 3), asZ (vnth v 4)).
Definition dec_sop_content (v : val) : sop_content :=
  (dec_op_content (vnth v 0), asZ (vnth v 1), asZ (vnth v 2)).
Definition dec_cont (v : val) : cont :=
  let tag := asZ (vnth v 0) in
  if tag =? 0 then COp (dec_op_content (vnth v 1))
  else if tag =? 1 then CSop (dec_sop_content (vnth v 1))
  else if tag =? 2 then CSched (asLof (asLof dec_sop_content) (vnth v 1))
  else if tag =? 3 then CInst (asLof (asLof dec_op_content) (vnth v 1))
  else CForeign (asZ (vnth v 1)) (asZ (vnth v 2)).

Definition enc_op_content (c : op_content) : val :=
  match c with (m, d, j, p, i) => VL [vlist VI m; VI d; VI j; VI p; VI i] end.
Definition enc_sop_content (c : sop_content) : val :=
  match c with (o, s, m) => VL [enc_op_content o; VI s; VI m] end.
Definition enc_cont (c : cont) : val :=
  match c with
  | COp x => VL [VI 0; enc_op_content x]
  | CSop x => VL [VI 1; enc_sop_content x]
  | CSched rows => VL [VI 2; vlist (vlist enc_sop_content) rows]
  | CInst jobs => VL [VI 3; vlist (vlist enc_op_content) jobs]
  | CForeign t z => VL [VI 4; VI t; VI z]
  end.
