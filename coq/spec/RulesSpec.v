(** RulesSpec.v — what "a best operation under the rule's documented
    criterion" means (C04), independent of how the rules compute it, with
    boolean twins that are extracted and applied to the operation the
    IMPLEMENTATION selected. *)
From JSL Require Import Base Instance Dstate Filters Feasible Derived.
From Coq Require Import Lia.

Definition min_by (f : nat * nat -> Z) (av : list (nat * nat)) (k : nat * nat) : Prop :=
  In k av /\ forall k', In k' av -> f k <= f k'.
Definition max_by (f : nat * nat -> Z) (av : list (nat * nat)) (k : nat * nat) : Prop :=
  In k av /\ forall k', In k' av -> f k' <= f k.
Definition min_byb (f : nat * nat -> Z) (av : list (nat * nat)) (k : nat * nat) : bool :=
  mem_key k av && forallb (fun k' => f k <=? f k') av.
Definition max_byb (f : nat * nat -> Z) (av : list (nat * nat)) (k : nat * nat) : bool :=
  mem_key k av && forallb (fun k' => f k' <=? f k) av.

Lemma min_byb_spec f av k : min_byb f av k = true <-> min_by f av k.
Proof.
  unfold min_byb, min_by. rewrite andb_true_iff, mem_key_In, forallb_forall.
  split; intros [H1 H2]; (split; [exact H1|]); intros k' Hk'.
  - apply Z.leb_le. apply H2; exact Hk'.
  - apply Z.leb_le. apply H2; exact Hk'.
Qed.
Lemma max_byb_spec f av k : max_byb f av k = true <-> max_by f av k.
Proof.
  unfold max_byb, max_by. rewrite andb_true_iff, mem_key_In, forallb_forall.
  split; intros [H1 H2]; (split; [exact H1|]); intros k' Hk'.
  - apply Z.leb_le. apply H2; exact Hk'.
  - apply Z.leb_le. apply H2; exact Hk'.
Qed.

Definition of_job (j : nat) (k : nat * nat) : bool := (fst k =? j)%nat.

Section RuleSpec.
  Variable I : instance.
  Variable fs : list fname.
  Variable d : dstate.

  (** remaining work of job [j]: the sum of the durations of its operations
      that have not been scheduled *)
  Definition remaining_work (j : nat) : Z :=
    sumZ (map (kdur I) (filter (of_job j) (unscheduled_ops I d))).
  (** remaining operations of job [j]: its operations that are not completed,
      i.e. unscheduled, or scheduled and still running at the current time
      ([uncompleted_operations()], C05 / Partition.v) *)
  Definition remaining_ops (j : nat) : Z :=
    Z.of_nat (length (filter (of_job j) (p_uncompleted I fs d))).

  Definition spt_key (k : nat * nat) : Z := kdur I k.
  Definition fcfs_key (k : nat * nat) : Z := Z.of_nat (snd k).
  Definition mwkr_key (k : nat * nat) : Z := remaining_work (fst k).
  Definition mopnr_key (k : nat * nat) : Z := remaining_ops (fst k).

  Definition spt_best (k : nat * nat) : Prop := min_by spt_key (available I d fs) k.
  Definition fcfs_best (k : nat * nat) : Prop := min_by fcfs_key (available I d fs) k.
  Definition mwkr_best (k : nat * nat) : Prop := max_by mwkr_key (available I d fs) k.
  Definition mopnr_best (k : nat * nat) : Prop := max_by mopnr_key (available I d fs) k.

  (** rule number: 0 SPT, 1 FCFS, 2 MWKR, 3 MOPNR, otherwise random (any
      available operation) *)
  Definition rule_bestb (r : Z) (k : nat * nat) : bool :=
    match r with
    | 0 => min_byb spt_key (available I d fs) k
    | 1 => min_byb fcfs_key (available I d fs) k
    | 2 => max_byb mwkr_key (available I d fs) k
    | 3 => max_byb mopnr_key (available I d fs) k
    | _ => mem_key k (available I d fs)
    end.
End RuleSpec.

(** ** Lexicographic order on score vectors *)
Fixpoint lex_le (a b : list Z) : Prop :=
  match a, b with
  | x :: a', y :: b' => x < y \/ (x = y /\ lex_le a' b')
  | _, _ => True
  end.
Fixpoint lex_leb (a b : list Z) : bool :=
  match a, b with
  | x :: a', y :: b' => (x <? y) || ((x =? y) && lex_leb a' b')
  | _, _ => true
  end.
Lemma lex_leb_spec a : forall b, lex_leb a b = true <-> lex_le a b.
Proof.
  induction a as [|x a IH]; intros [|y b]; simpl; try tauto.
  rewrite orb_true_iff, andb_true_iff, Z.ltb_lt, Z.eqb_eq, IH. tauto.
Qed.

(** the score vector of an operation: one entry per scoring function, each
    the score of the operation's JOB *)
Definition score_vec (vs : list (list Z)) (k : nat * nat) : list Z :=
  map (fun v => nthZ v (fst k)) vs.
Definition lex_best (vs : list (list Z)) (av : list (nat * nat)) (k : nat * nat) : Prop :=
  In k av /\ forall k', In k' av -> lex_le (score_vec vs k') (score_vec vs k).
Definition lex_bestb (vs : list (list Z)) (av : list (nat * nat)) (k : nat * nat) : bool :=
  mem_key k av && forallb (fun k' => lex_leb (score_vec vs k') (score_vec vs k)) av.
Lemma lex_bestb_spec vs av k : lex_bestb vs av k = true <-> lex_best vs av k.
Proof.
  unfold lex_bestb, lex_best. rewrite andb_true_iff, mem_key_In, forallb_forall.
  split; intros [H1 H2]; (split; [exact H1|]); intros k' Hk'.
  - apply lex_leb_spec. apply H2; exact Hk'.
  - apply lex_leb_spec. apply H2; exact Hk'.
Qed.
