(** ResidualSpec.v — what C17 means, independent of how the updater computes
    it. The clauses talk about a graph AS OBSERVED — its node list
    ([g_nodes]: id and kind of every node), its [removed_nodes] flags
    ([g_removed]) and its remaining edges ([g_edges]) — and a dispatcher
    state [d]; "completed", "unscheduled" are the dispatcher queries as pure
    functions of the state (spec/Derived.v), the node of operation [(j, p)]
    is the node whose id is its [operation_id] ([op_id I j p], C16).

      completed_removed : every completed operation's node is removed
      unscheduled_kept  : no unscheduled operation's node is removed
      group_nodes       : a removed machine (job) node has no unscheduled
                          operation that lists the machine (belongs to the job)
      monotone          : what was removed stays removed
      no_dangling       : both endpoints of every remaining edge are present
      all_removed       : every node is removed (claimed for complete
                          schedules, default options, every machine used)

    Each clause has a boolean twin; the twins are extracted and applied to
    the IMPLEMENTATION's graph and schedule rows after every dispatch. *)
From JSL Require Import Base Instance Dstate Filters Graph Feasible Derived.
From Coq Require Import Lia.

Definition kid (I : instance) (k : nat * nat) : nat := op_id I (fst k) (snd k).
Definition uses_machine (I : instance) (m : nat) (k : nat * nat) : bool := mem_nat m (kmachines I k).

Section Clauses.
  Variable I : instance.
  Variable fs : list fname.
  Variable g : graph.
  Variable d : dstate.

  (** [removed_nodes[n]]; an id outside the list is "not removed" *)
  Definition is_rm (n : nat) : bool := nth n (g_removed g) false.

  Definition completed_removed : Prop :=
    forall k, In k (p_completed I fs d) -> is_rm (kid I k) = true.
  Definition unscheduled_kept : Prop :=
    forall k, In k (p_unsched I d) -> is_rm (kid I k) = false.

  Definition group_done (nd : node) : Prop :=
    match nd with
    | MachineNode m => forall k, In k (p_unsched I d) -> uses_machine I m k = false
    | JobNode j => forall k, In k (p_unsched I d) -> fst k <> j
    | _ => True
    end.
  Definition group_nodes : Prop :=
    forall x, In x (g_nodes g) -> is_rm (fst x) = true -> group_done (snd x).

  (** an endpoint outside the flag list counts as absent *)
  Definition no_dangling : Prop :=
    forall e, In e (g_edges g) ->
      nth (e_src e) (g_removed g) true = false /\ nth (e_dst e) (g_removed g) true = false.

  Definition all_removed : Prop := forall x, In x (g_nodes g) -> is_rm (fst x) = true.

  (** *** Boolean twins *)
  Definition completed_removedb : bool := forallb (fun k => is_rm (kid I k)) (p_completed I fs d).
  Definition unscheduled_keptb : bool := forallb (fun k => negb (is_rm (kid I k))) (p_unsched I d).
  Definition group_doneb (nd : node) : bool :=
    match nd with
    | MachineNode m => forallb (fun k => negb (uses_machine I m k)) (p_unsched I d)
    | JobNode j => forallb (fun k => negb (fst k =? j)%nat) (p_unsched I d)
    | _ => true
    end.
  Definition group_nodesb : bool :=
    forallb (fun x => negb (is_rm (fst x)) || group_doneb (snd x)) (g_nodes g).
  Definition no_danglingb : bool :=
    forallb (fun e => negb (nth (e_src e) (g_removed g) true) && negb (nth (e_dst e) (g_removed g) true))
            (g_edges g).
  Definition all_removedb : bool := forallb (fun x => is_rm (fst x)) (g_nodes g).

  Lemma completed_removedb_spec : completed_removedb = true <-> completed_removed.
  Proof. unfold completed_removedb, completed_removed. rewrite forallb_forall. tauto. Qed.

  Lemma unscheduled_keptb_spec : unscheduled_keptb = true <-> unscheduled_kept.
  Proof.
    unfold unscheduled_keptb, unscheduled_kept. rewrite forallb_forall.
    split; intros H k Hk; specialize (H k Hk); destruct (is_rm (kid I k)); simpl in *; congruence.
  Qed.

  Lemma group_doneb_spec nd : group_doneb nd = true <-> group_done nd.
  Proof.
    destruct nd; simpl; try tauto; rewrite forallb_forall.
    - split; intros H k Hk; specialize (H k Hk); destruct (uses_machine I m k); simpl in *; congruence.
    - split; intros H k Hk; specialize (H k Hk).
      + intros E. rewrite E, Nat.eqb_refl in H. discriminate.
      + destruct (fst k =? j)%nat eqn:E; [apply Nat.eqb_eq in E; contradiction|reflexivity].
  Qed.

  Lemma group_nodesb_spec : group_nodesb = true <-> group_nodes.
  Proof.
    unfold group_nodesb, group_nodes. rewrite forallb_forall. split; intros H x Hx.
    - intros Hr. specialize (H x Hx). rewrite Hr in H. simpl in H. apply group_doneb_spec. exact H.
    - destruct (is_rm (fst x)) eqn:E; [|reflexivity]. simpl. apply group_doneb_spec. apply H; assumption.
  Qed.

  Lemma no_danglingb_spec : no_danglingb = true <-> no_dangling.
  Proof.
    unfold no_danglingb, no_dangling. rewrite forallb_forall. split; intros H e He; specialize (H e He).
    - apply andb_true_iff in H. destruct H as [A B].
      destruct (nth (e_src e) (g_removed g) true), (nth (e_dst e) (g_removed g) true); simpl in *;
        try discriminate; auto.
    - destruct H as [-> ->]. reflexivity.
  Qed.

  Lemma all_removedb_spec : all_removedb = true <-> all_removed.
  Proof. unfold all_removedb, all_removed. rewrite forallb_forall. tauto. Qed.
End Clauses.

(** removals are permanent: flags before / after *)
Definition monotone (prev cur : list bool) : Prop :=
  forall n, nth n prev false = true -> nth n cur false = true.
Definition monotoneb (prev cur : list bool) : bool :=
  forallb (fun n => negb (nth n prev false) || nth n cur false) (seq 0 (length prev)).

Lemma monotoneb_spec prev cur : monotoneb prev cur = true <-> monotone prev cur.
Proof.
  unfold monotoneb, monotone. rewrite forallb_forall. split; intros H n.
  - intros Hn. destruct (Nat.lt_ge_cases n (length prev)) as [Hlt|Hge].
    + specialize (H n). rewrite in_seq in H. specialize (H ltac:(lia)). rewrite Hn in H. exact H.
    + rewrite nth_overflow in Hn by exact Hge. discriminate.
  - intros _. destruct (nth n prev false) eqn:E; [|reflexivity]. simpl. apply H. exact E.
Qed.

(** ** Scope of the last clause *)

(** every machine id below [num_machines] is listed by some operation *)
Definition every_machine_used (I : instance) : Prop :=
  forall m, (m < num_machines I)%nat -> exists k, In k (all_keys I) /\ uses_machine I m k = true.
Definition every_machine_usedb (I : instance) : bool :=
  forallb (fun m => existsb (uses_machine I m) (all_keys I)) (seq 0 (num_machines I)).
Lemma every_machine_usedb_spec I : every_machine_usedb I = true <-> every_machine_used I.
Proof.
  unfold every_machine_usedb, every_machine_used. rewrite forallb_forall. split; intros H m Hm.
  - specialize (H m). rewrite in_seq in H. specialize (H ltac:(lia)). apply existsb_exists in H. exact H.
  - apply in_seq in Hm. apply existsb_exists. apply H. lia.
Qed.

(** The graph "as observed": node list, removed flags, edges (the other
    fields of the record are not read by any clause). *)
Definition observed_graph (I : instance) (nodes : list (nat * node)) (removed : list bool)
           (es : list edge) : graph :=
  mkgraph I nodes [] [] [] (length nodes) removed es.
