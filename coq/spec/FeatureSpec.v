(** FeatureSpec.v — what every documented feature MEANS, as a function of the
    instance, the filter configuration and the schedule rows only (C11).
    Nothing here reads a tracking vector, a cache or an observer: the
    dispatcher's book-keeping is recomputed from the rows ([dstate_of],
    spec/Derived.v) and "now" is the dispatcher's current time recomputed from
    there ([p_now]).

    The statement compares only entities that still have work left; [*_rel]
    says, per feature, for which entities the documentation defines a value
    (always a subset of the entities with work left):
    - an operation has work left until it is completed (scheduled and its end
      time <= now);
    - "earliest start" of a machine / job talks about the NEXT operation that
      can be scheduled there, so it is defined while an unscheduled operation
      is left;
    - machine-level sums / counts are compared on non-flexible instances only
      (the caller adds that proviso). *)
From JSL Require Import Base Instance Dstate Filters Derived.

Definition zb (b : bool) : Z := if b then 1 else 0.

Section FeatureSpec.
  Variable I : instance.
  Variable fs : list fname.
  Variable S : schedule.

  Let d := dstate_of I S.
  Definition sp_now : Z := p_now I fs d.

  (** the scheduled operation of key [k], if it is in the rows *)
  Definition sp_find (k : nat * nat) : option sop := find (fun x => eqb_key (key x) k) (all_sops S).
  Definition sp_scheduled (k : nat * nat) : bool := mem_key k (map key (all_sops S)).
  (** completed: scheduled and finished by now *)
  Definition sp_done (k : nat * nat) : bool :=
    match sp_find k with Some x => s_end I x <=? sp_now | None => false end.
  (** number of operations of job [j] in the rows *)
  Definition n_sched (j : nat) : nat := length (job_sops S j).
  Definition job_keys_of (j : nat) : list (nat * nat) := job_keys j (get_job I j).
  Definition on_machine (m : nat) (k : nat * nat) : bool := mem_nat m (kmachines I k).

  (** ** entities with work left *)
  Definition op_work_left (k : nat * nat) : bool := negb (sp_done k).
  Definition job_work_left (j : nat) : bool := existsb op_work_left (job_keys_of j).
  Definition mach_work_left (m : nat) : bool :=
    existsb (fun k => on_machine m k && op_work_left k) (all_keys I).
  Definition job_has_unscheduled (j : nat) : bool := (n_sched j <? length (get_job I j))%nat.
  Definition mach_has_unscheduled (m : nat) : bool :=
    existsb (fun k => on_machine m k && negb (sp_scheduled k)) (all_keys I).

  (** ** IsReady: readiness w.r.t. the installed filter *)
  Definition sp_ready_op (k : nat * nat) : Z := zb (mem_key k (p_avail I fs d)).
  Definition sp_ready_mach (m : nat) : Z := zb (existsb (on_machine m) (p_avail I fs d)).
  Definition sp_ready_job (j : nat) : Z := zb (existsb (fun k => (fst k =? j)%nat) (p_avail I fs d)).

  (** ** EarliestStartTime, relative to now.
      A scheduled operation starts when it was scheduled to start. The
      unscheduled operations of a job form a chain behind the job's last
      scheduled operation; none starts before one of its machines is free. *)
  Definition mach_free (m : nat) : Z := maxZ0 (map (s_end I) (nth m S [])).
  Definition job_free (j : nat) : Z := maxZ0 (map (s_end I) (job_sops S j)).
  Definition op_mach_free (o : op) (t : Z) : Z :=
    match minZ_opt (map mach_free (machines o)) with Some z => z | None => t end.
  (** earliest start of the [n]-th operation of [ops] when the chain may begin at [t] *)
  Fixpoint est_from (ops : list op) (t : Z) (n : nat) : Z :=
    match ops with
    | [] => t
    | o :: r => let s := Z.max t (op_mach_free o t) in
                match n with O => s | Datatypes.S n' => est_from r (s + duration o) n' end
    end.
  Definition sp_est_abs (k : nat * nat) : Z :=
    match sp_find k with
    | Some x => s_start x
    | None => est_from (skipn (n_sched (fst k)) (get_job I (fst k))) (job_free (fst k)) (snd k - n_sched (fst k))
    end.
  Definition sp_est_op (k : nat * nat) : Z := sp_est_abs k - sp_now.
  Definition sp_est_job (j : nat) : Z := sp_est_abs (j, n_sched j) - sp_now.
  Definition sp_est_mach (m : nat) : Z :=
    match minZ_opt (map sp_est_abs (filter (fun k => on_machine m k && negb (sp_scheduled k)) (all_keys I))) with
    | Some z => z - sp_now
    | None => - sp_now
    end.

  (** ** Duration: remaining duration *)
  Definition sp_dur_op (k : nat * nat) : Z :=
    match sp_find k with
    | Some x => s_end I x - Z.max (s_start x) sp_now
    | None => kdur I k
    end.
  Definition sp_dur_job (j : nat) : Z :=
    sumZ (map (kdur I) (filter (fun k => negb (sp_scheduled k)) (job_keys_of j))).
  Definition sp_dur_mach (m : nat) : Z :=
    sumZ (map (kdur I) (filter (fun k => on_machine m k && negb (sp_scheduled k)) (all_keys I))).

  (** ** IsScheduled: flag; number of scheduled-but-uncompleted operations *)
  Definition sp_sched_op (k : nat * nat) : Z := zb (sp_scheduled k).
  Definition running (x : sop) : bool := sp_now <? s_end I x.
  Definition sp_ongoing_mach (m : nat) : Z :=
    Z.of_nat (length (filter (fun x => (s_mach x =? m)%nat && running x) (all_sops S))).
  Definition sp_ongoing_job (j : nat) : Z :=
    Z.of_nat (length (filter (fun x => (s_job x =? j)%nat && running x) (all_sops S))).

  (** ** PositionInJob: number of unscheduled operations that precede it *)
  Definition sp_position (k : nat * nat) : Z := Z.of_nat (snd k - n_sched (fst k)).

  (** ** RemainingOperations *)
  Definition sp_rem_job (j : nat) : Z := Z.of_nat (length (get_job I j) - n_sched j).
  Definition sp_rem_mach (m : nat) : Z :=
    Z.of_nat (length (filter (fun k => on_machine m k && negb (sp_scheduled k)) (all_keys I))).

  (** ** IsCompleted (as documented: all operations COMPLETED) *)
  Definition sp_completed_op (k : nat * nat) : Z := zb (sp_done k).
  Definition sp_completed_job (j : nat) : Z := zb (forallb sp_done (job_keys_of j)).
  Definition sp_completed_mach (m : nat) : Z :=
    zb (forallb (fun k => implb (on_machine m k) (sp_done k)) (all_keys I)).
  (** what the code computes instead: all operations SCHEDULED *)
  Definition sp_allsched_job (j : nat) : Z := zb (forallb sp_scheduled (job_keys_of j)).
  Definition sp_allsched_mach (m : nat) : Z :=
    zb (forallb (fun k => implb (on_machine m k) (sp_scheduled k)) (all_keys I)).
End FeatureSpec.

(** All spec vectors of one state, for the oracle. Per observer kind (in the
    order of the factory table) a triple [ops; machines; jobs] of
    [value] lists, then the relevance masks. *)
Definition spec_table (I : instance) (fs : list fname) (S : schedule) : val :=
  let ks := all_keys I in
  let ms := seq 0 (num_machines I) in
  let js := seq 0 (num_jobs I) in
  let vz {A} (f : A -> Z) (l : list A) := VL (map (fun a => VI (f a)) l) in
  let vb {A} (f : A -> bool) (l : list A) := VL (map (fun a => VI (zb (f a))) l) in
  VL [VI (sp_now I fs S);
      VL [vz (sp_ready_op I fs S) ks; vz (sp_ready_mach I fs S) ms; vz (sp_ready_job I fs S) js];
      VL [vz (sp_est_op I fs S) ks; vz (sp_est_mach I fs S) ms; vz (sp_est_job I fs S) js];
      VL [vz (sp_dur_op I fs S) ks; vz (sp_dur_mach I S) ms; vz (sp_dur_job I S) js];
      VL [vz (sp_sched_op S) ks; vz (sp_ongoing_mach I fs S) ms; vz (sp_ongoing_job I fs S) js];
      VL [vz (sp_position S) ks; VL []; VL []];
      VL [VL []; vz (sp_rem_mach I S) ms; vz (sp_rem_job I S) js];
      VL [vz (sp_completed_op I fs S) ks; vz (sp_completed_mach I fs S) ms; vz (sp_completed_job I fs S) js];
      (* masks: work left *)
      VL [vb (op_work_left I fs S) ks; vb (mach_work_left I fs S) ms; vb (job_work_left I fs S) js];
      (* masks: an unscheduled operation is left *)
      VL [vb (fun k => negb (sp_scheduled S k)) ks; vb (mach_has_unscheduled I S) ms; vb (job_has_unscheduled I S) js];
      (* the "all scheduled" reading of the completion flags *)
      VL [VL []; vz (sp_allsched_mach I S) ms; vz (sp_allsched_job I S) js];
      vbool (is_flexible I); vbool (positiveb I)].
