(** FilterSpec.v — the documented criterion of each built-in ready-operation
    filter, stated from scratch on (instance, dispatcher state, input list),
    and the sub-list relation. Boolean, so that the same definitions are the
    oracle applied to the implementation's filter outputs. *)
From JSL Require Import Base Instance Dstate Filters.

Section Crit.
  Variable I : instance.
  Variable d : dstate.
  Variable L : list (nat * nat).

  (** the earliest time at which some operation of [L] can start *)
  Definition t0 : Z := min_start_time I d L.

  (** "has an eligible machine with nothing still running at the earliest
      start time": every operation in that machine's row has ended by [t0] *)
  Definition machine_idle_at (m : nat) : bool :=
    forallb (fun x => s_end I x <=? t0) (nth m (sched d) []).
  Definition crit_non_idle (k : nat * nat) : bool := existsb machine_idle_at (kmachines I k).

  (** "can itself start at the earliest start time" *)
  Definition crit_immediate_op (k : nat * nat) : bool :=
    existsb (fun m => start_time d (fst k) m =? t0) (kmachines I k).

  (** "shares a machine with an operation that can" *)
  Definition crit_immediate_machine (k : nat * nat) : bool :=
    existsb (fun m => existsb (fun k' => mem_nat m (kmachines I k') && (start_time d (fst k') m =? t0)) L)
            (kmachines I k).

  (** "is not dominated: starts on some eligible machine before the earliest
      completion there" (earliest completion on m = the least start+duration
      over the operations of [L] that may run on m) *)
  Definition completions_on (m : nat) : list Z :=
    flat_map (fun k' => if mem_nat m (kmachines I k') then [start_time d (fst k') m + kdur I k'] else []) L.
  Definition crit_not_dominated (k : nat * nat) : bool :=
    existsb (fun m => forallb (fun e => start_time d (fst k) m <? e) (completions_on m)) (kmachines I k).

  Definition first_zero : option (nat * nat) := find (fun k => kdur I k =? 0) L.
End Crit.

Definition crit_of (I : instance) (d : dstate) (L : list (nat * nat)) (f : fname) : nat * nat -> bool :=
  match f with
  | FDominated => crit_not_dominated I d L
  | FNonImmediateMachines => crit_immediate_machine I d L
  | FNonIdleMachines => crit_non_idle I d L
  | FNonImmediateOps => crit_immediate_op I d L
  end.

(** what a filter must return on [L] (the zero-duration shortcut of the
    dominated filter included) *)
Definition spec_filter (I : instance) (d : dstate) (f : fname) (L : list (nat * nat)) : list (nat * nat) :=
  match f, first_zero I L with
  | FDominated, Some z => [z]
  | _, _ => filter (crit_of I d L f) L
  end.

(** [sublist a b]: [a] is obtained from [b] by deleting elements (same order,
    no duplicates beyond those of [b], no foreign elements). *)
Fixpoint sublistb (a b : list (nat * nat)) : bool :=
  match a, b with
  | [], _ => true
  | _ :: _, [] => false
  | x :: a', y :: b' => if eqb_key x y then sublistb a' b' else sublistb a b'
  end.

Inductive sublist : list (nat * nat) -> list (nat * nat) -> Prop :=
| sub_nil : forall b, sublist [] b
| sub_take : forall x a b, sublist a b -> sublist (x :: a) (x :: b)
| sub_skip : forall y a b, sublist a b -> sublist a (y :: b).
