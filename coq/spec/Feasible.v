(** Feasible.v — what "feasible schedule" means, independent of how the
    dispatcher keeps its books (DESIGN.md, Appendix A), its boolean twin
    [feasibleb] and the proof that the two agree. The twin is extracted and
    applied to the schedules the IMPLEMENTATION returns. *)
From JSL Require Import Base Instance Dstate.
From Coq Require Import Lia.

Definition valid (I : instance) : Prop :=
  forall j p o, get_op I j p = Some o -> 0 <= duration o.
Definition has_machines (I : instance) : Prop :=
  forall j p o, get_op I j p = Some o -> machines o <> [].
Definition positive (I : instance) : Prop :=
  forall j p o, get_op I j p = Some o -> 0 < duration o /\ machines o <> [].

Fixpoint row_sorted (I : instance) (row : list sop) : Prop :=
  match row with
  | x :: ((y :: _) as t) => s_end I x <= s_start y /\ row_sorted I t
  | _ => True
  end.

Record feasible (I : instance) (S : schedule) : Prop := {
  f_exists  : forall x, In x (all_sops S) ->
                exists o, get_op I (s_job x) (s_pos x) = Some o /\ In (s_mach x) (machines o);
  f_row     : forall m row x, nth_error S m = Some row -> In x row -> s_mach x = m;
  f_once    : NoDup (map key (all_sops S));
  f_job     : forall x y, In x (all_sops S) -> In y (all_sops S) ->
                s_job x = s_job y -> (s_pos x < s_pos y)%nat -> s_end I x <= s_start y;
  f_prefix  : forall x p, In x (all_sops S) -> (p < s_pos x)%nat ->
                exists y, In y (all_sops S) /\ key y = (s_job x, p);
  f_machine : forall row, In row S -> row_sorted I row;
  f_nonneg  : forall x, In x (all_sops S) -> 0 <= s_start x
}.

Definition complete (I : instance) (S : schedule) : Prop :=
  forall j p o, get_op I j p = Some o -> exists x, In x (all_sops S) /\ key x = (j, p).
Definition makespan (I : instance) (S : schedule) : Z :=
  fold_right Z.max 0 (map (s_end I) (all_sops S)).
Definition is_opt (I : instance) (c : Z) : Prop :=
  (exists S, feasible I S /\ complete I S /\ makespan I S = c) /\
  (forall S, feasible I S -> complete I S -> c <= makespan I S).

(** ** Boolean twin *)

Definition b_exists (I : instance) (S : schedule) : bool :=
  forallb (fun x => match get_op I (s_job x) (s_pos x) with
                    | Some o => mem_nat (s_mach x) (machines o)
                    | None => false end) (all_sops S).
Fixpoint b_row_from (m : nat) (S : schedule) : bool :=
  match S with
  | [] => true
  | row :: t => forallb (fun x => (s_mach x =? m)%nat) row && b_row_from (Datatypes.S m) t
  end.
Definition b_once (S : schedule) : bool := nodup_keyb (map key (all_sops S)).
Definition b_job (I : instance) (S : schedule) : bool :=
  forallb (fun x => forallb (fun y =>
     if ((s_job x =? s_job y)%nat && (s_pos x <? s_pos y)%nat)%bool then s_end I x <=? s_start y else true)
     (all_sops S)) (all_sops S).
Definition b_prefix (S : schedule) : bool :=
  forallb (fun x => forallb (fun p => mem_key (s_job x, p) (map key (all_sops S))) (seq 0 (s_pos x)))
          (all_sops S).
Fixpoint row_sortedb (I : instance) (row : list sop) : bool :=
  match row with
  | x :: ((y :: _) as t) => (s_end I x <=? s_start y) && row_sortedb I t
  | _ => true
  end.
Definition b_machine (I : instance) (S : schedule) : bool := forallb (row_sortedb I) S.
Definition b_nonneg (S : schedule) : bool := forallb (fun x => 0 <=? s_start x) (all_sops S).

Definition feasible_clauses (I : instance) (S : schedule) : list bool :=
  [b_exists I S; b_row_from 0 S; b_once S; b_job I S; b_prefix S; b_machine I S; b_nonneg S].
Definition feasibleb (I : instance) (S : schedule) : bool := forallb (fun b => b) (feasible_clauses I S).

Definition completeb (I : instance) (S : schedule) : bool :=
  forallb (fun k => mem_key k (map key (all_sops S))) (all_keys I).

(** ** Agreement *)

Lemma mem_nat_In x l : mem_nat x l = true <-> In x l.
Proof.
  induction l as [|y t IH]; simpl; [split; [discriminate|tauto]|].
  rewrite orb_true_iff, IH, Nat.eqb_eq. split; intros [H|H]; auto.
Qed.

Lemma eqb_key_eq a b : eqb_key a b = true <-> a = b.
Proof.
  destruct a as [a1 a2], b as [b1 b2]; unfold eqb_key; simpl.
  rewrite andb_true_iff, !Nat.eqb_eq. split; [intros [-> ->]; reflexivity|intros H; inversion H; auto].
Qed.

Lemma mem_key_In x l : mem_key x l = true <-> In x l.
Proof.
  induction l as [|y t IH]; simpl; [split; [discriminate|tauto]|].
  rewrite orb_true_iff, IH, eqb_key_eq. split; intros [H|H]; auto.
Qed.

Lemma nodup_keyb_NoDup l : nodup_keyb l = true <-> NoDup l.
Proof.
  induction l as [|x t IH]; simpl; [split; [constructor|reflexivity]|].
  rewrite andb_true_iff, negb_true_iff, IH. split.
  - intros [Hm Hn]. constructor; [|exact Hn]. intro Hin. apply mem_key_In in Hin. congruence.
  - intros H. inversion H as [|? ? Hni Hnd]; subst. split; [|exact Hnd].
    destruct (mem_key x t) eqn:E; [|reflexivity]. apply mem_key_In in E. contradiction.
Qed.

Lemma row_sortedb_spec I row : row_sortedb I row = true <-> row_sorted I row.
Proof.
  induction row as [|x t IH]; simpl; [tauto|].
  destruct t as [|y t']; [tauto|].
  rewrite andb_true_iff, Z.leb_le, IH. tauto.
Qed.

Lemma b_row_from_spec S m0 :
  b_row_from m0 S = true <->
  (forall m row x, nth_error S m = Some row -> In x row -> s_mach x = (m0 + m)%nat).
Proof.
  revert m0; induction S as [|row t IH]; intros m0; simpl.
  - split; [|reflexivity]. intros _ m row x H. destruct m; discriminate.
  - rewrite andb_true_iff, forallb_forall, IH. split.
    + intros [H1 H2] m r x Hn Hin. destruct m as [|m]; simpl in Hn.
      * inversion Hn; subst. apply H1 in Hin. apply Nat.eqb_eq in Hin. lia.
      * rewrite (H2 m r x Hn Hin). lia.
    + intros H. split.
      * intros x Hin. apply Nat.eqb_eq. rewrite (H 0%nat row x eq_refl Hin). lia.
      * intros m r x Hn Hin. rewrite (H (Datatypes.S m) r x Hn Hin). lia.
Qed.

Theorem feasibleb_spec I S : feasibleb I S = true <-> feasible I S.
Proof.
  unfold feasibleb, feasible_clauses. cbn [forallb]. rewrite !andb_true_iff.
  split.
  - intros (H1 & H2 & H3 & H4 & H5 & H6 & H7 & _). constructor.
    + intros x Hx. unfold b_exists in H1. rewrite forallb_forall in H1. specialize (H1 x Hx).
      destruct (get_op I (s_job x) (s_pos x)) as [o|]; [|discriminate].
      exists o. split; [reflexivity|]. apply mem_nat_In; exact H1.
    + intros m row x Hn Hin. apply (proj1 (b_row_from_spec S 0)) with (m := m) (row := row) (x := x) in H2; auto.
    + apply nodup_keyb_NoDup; exact H3.
    + intros x y Hx Hy Hj Hp. unfold b_job in H4. rewrite forallb_forall in H4.
      specialize (H4 x Hx). rewrite forallb_forall in H4. specialize (H4 y Hy).
      assert (E : ((s_job x =? s_job y)%nat && (s_pos x <? s_pos y)%nat)%bool = true).
      { apply andb_true_iff; split; [apply Nat.eqb_eq; exact Hj|apply Nat.ltb_lt; exact Hp]. }
      rewrite E in H4. apply Z.leb_le; exact H4.
    + intros x p Hx Hp. unfold b_prefix in H5. rewrite forallb_forall in H5.
      specialize (H5 x Hx). rewrite forallb_forall in H5.
      assert (Hin : In p (seq 0 (s_pos x))) by (apply in_seq; lia).
      specialize (H5 p Hin). apply mem_key_In in H5. apply in_map_iff in H5.
      destruct H5 as (y & Hk & Hy). exists y; split; auto.
    + intros row Hr. unfold b_machine in H6. rewrite forallb_forall in H6.
      apply row_sortedb_spec. apply H6; exact Hr.
    + intros x Hx. unfold b_nonneg in H7. rewrite forallb_forall in H7. apply Z.leb_le. apply H7; exact Hx.
  - intros [F1 F2 F3 F4 F5 F6 F7]. repeat split.
    + unfold b_exists. apply forallb_forall. intros x Hx. destruct (F1 x Hx) as (o & -> & Hin).
      apply mem_nat_In; exact Hin.
    + apply b_row_from_spec. intros m row x Hn Hin. simpl. eapply F2; eauto.
    + apply nodup_keyb_NoDup; exact F3.
    + unfold b_job. apply forallb_forall. intros x Hx. apply forallb_forall. intros y Hy.
      destruct ((s_job x =? s_job y)%nat && (s_pos x <? s_pos y)%nat)%bool eqn:E; [|reflexivity].
      apply andb_true_iff in E. destruct E as [E1 E2]. apply Nat.eqb_eq in E1. apply Nat.ltb_lt in E2.
      apply Z.leb_le. apply F4; auto.
    + unfold b_prefix. apply forallb_forall. intros x Hx. apply forallb_forall. intros p Hp.
      apply in_seq in Hp. destruct (F5 x p Hx) as (y & Hy & Hk); [lia|].
      apply mem_key_In. apply in_map_iff. exists y; split; auto.
    + unfold b_machine. apply forallb_forall. intros row Hr. apply row_sortedb_spec. apply F6; exact Hr.
    + unfold b_nonneg. apply forallb_forall. intros x Hx. apply Z.leb_le. apply F7; exact Hx.
Qed.
