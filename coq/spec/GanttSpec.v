(** GanttSpec.v — what C20 means, independent of how the plotting code loops.

    * a chart shows a schedule: one bar per scheduled operation, spanning
      start..end in its machine's row, coloured by job; the legend names
      exactly the jobs that have a bar, with the colour of their bars; every
      row is labelled by its machine; the time axis ends at the makespan or at
      the requested limit and its last tick is that value;
    * the k-th frame of an animation shows the first k entries of the history;
    * frames are read back in the order 1..n.

    Boolean twins ([…b]) with [ …b_spec : fb = true <-> F ] are extracted and
    applied to what the IMPLEMENTATION put on the axes. *)
From JSL Require Import Base Instance Dstate Filters World Feasible Gantt.
From Coq Require Import Lia Permutation.

(** ** Schedules the chart is asked to draw

    Every [Schedule] object satisfies [Schedule.check_schedule]: each
    operation sits in the row of its own machine and rows are in time order;
    its operations belong to the instance. *)
Definition rows_match (S : schedule) : Prop :=
  forall m row x, nth_error S m = Some row -> In x row -> s_mach x = m.
Definition rows_sorted (I : instance) (S : schedule) : Prop :=
  forall row, In row S -> row_sorted I row.
Definition jobs_in_range (I : instance) (S : schedule) : Prop :=
  forall x, In x (all_sops S) -> (s_job x < num_jobs I)%nat.

Definition drawable (I : instance) (S : schedule) : Prop :=
  rows_match S /\ rows_sorted I S /\ jobs_in_range I S.
Definition drawableb (I : instance) (S : schedule) : bool :=
  b_row_from 0 S && b_machine I S && forallb (fun x => (s_job x <? num_jobs I)%nat) (all_sops S).

(** ** Bars *)

(** The bar that stands for scheduled operation [x]: left edge at its start,
    width = end - start, in the band of ITS MACHINE ([1 + 10 m], 9 high),
    painted with the colour entry of ITS JOB. *)
Definition bar_of (I : instance) (x : sop) : bar :=
  mkbar (1 + 10 * Z.of_nat (s_mach x)) (s_start x) (s_end I x - s_start x) 9 (Z.of_nat (s_job x)).

(** "Exactly one bar per scheduled operation": the bars are, up to order,
    the images of the scheduled operations (a bijection). *)
Definition chart_bars (I : instance) (S : schedule) (B : list bar) : Prop :=
  Permutation B (map (bar_of I) (all_sops S)).

(** ** Legend *)
Fixpoint increasing_nat (l : list nat) : Prop :=
  match l with
  | x :: ((y :: _) as t) => (x < y)%nat /\ increasing_nat t
  | _ => True
  end.

(** One entry per job that has a bar, in ascending job order, carrying the
    colour entry used for that job's bars (entry [j] for job [j]: distinct
    jobs, distinct entries). *)
Definition legend_ok (S : schedule) (L : legend) : Prop :=
  increasing_nat (map fst L) /\
  (forall e, In e L -> snd e = Z.of_nat (fst e) /\ exists x, In x (all_sops S) /\ s_job x = fst e) /\
  (forall x, In x (all_sops S) -> In (s_job x, Z.of_nat (s_job x)) L).

(** ** Axes *)
Fixpoint increasing_Z (l : list Z) : Prop :=
  match l with
  | x :: ((y :: _) as t) => x < y /\ increasing_Z t
  | _ => True
  end.

(** The tick list starts at 0, increases strictly and ENDS AT the limit. *)
Definition xaxis_ok (xlim : Z) (ticks : list Z) : Prop :=
  hd_error ticks = Some 0 /\ last ticks (-1) = xlim /\ increasing_Z ticks.

(** The limit of the time axis: the requested one, else the makespan (the
    largest end time of any scheduled operation, [Feasible.makespan]). *)
Definition xlim_ok (I : instance) (S : schedule) (req : option Z) (xl : Z) : Prop :=
  xl = match req with Some r => r | None => makespan I S end.

(** Row [m] is the band [1 + 10 m, 1 + 10 m + 9]; tick number [m] (which
    carries machine [m]'s label) lies strictly inside it and the y-limits
    contain every band. *)
Definition yaxis_ok (M : nat) (yl : Z * Z) (yt : list Z) : Prop :=
  fst yl = 0 /\ 1 + 10 * Z.of_nat M <= snd yl /\ length yt = M /\
  forall m, (m < M)%nat -> 1 + 10 * Z.of_nat m < nth m yt 0 < 1 + 10 * Z.of_nat m + 9.

(** ** Animations *)

(** The schedule shown by a history: every entry at the end of its machine's
    row, with its recorded start time, in history order. *)
Definition place (S : schedule) (x : sop) : schedule :=
  upd S (s_mach x) (nth (s_mach x) S [] ++ [x]).
Definition sched_of_history (I : instance) (h : list sop) : schedule :=
  fold_left place h (repeat [] (num_machines I)).

(** A recorded history: what a [HistoryObserver] subscribed to a fresh
    [Dispatcher(instance, ready_operations_filter=fs)] holds after the
    requests [rs] (accepted or rejected, any machine choice). *)
Definition recorded (I : instance) (fs : list fname) (rs : list request) : list sop :=
  nth 0 (objs (fold_left (fun w r => fst (dispatch h_update I r w)) rs
                         (mkw (init_d I) empty_cache fs [[]] [0%nat]))) [].

(** Frame [k] (k = 1..n) shows the first [k] entries; every frame has the
    final makespan as its time-axis limit. *)
Definition frames_expected (I : instance) (h : list sop) : list frame :=
  map (fun k => mkframe (sched_of_history I (firstn k h)) (makespan I (sched_of_history I h)))
      (seq 1 (length h)).

(** ** Boolean twins *)

Definition bar_eqb (a b : bar) : bool :=
  (b_y a =? b_y b) && (b_x a =? b_x b) && (b_w a =? b_w b) && (b_h a =? b_h b) && (b_col a =? b_col b).

Fixpoint remove_bar (x : bar) (l : list bar) : option (list bar) :=
  match l with
  | [] => None
  | y :: t => if bar_eqb x y then Some t
              else match remove_bar x t with Some t' => Some (y :: t') | None => None end
  end.
Fixpoint perm_barb (l1 l2 : list bar) : bool :=
  match l1 with
  | [] => match l2 with [] => true | _ => false end
  | x :: t => match remove_bar x l2 with Some l2' => perm_barb t l2' | None => false end
  end.
Definition chart_barsb (I : instance) (S : schedule) (B : list bar) : bool :=
  perm_barb B (map (bar_of I) (all_sops S)).

Fixpoint increasing_natb (l : list nat) : bool :=
  match l with
  | x :: ((y :: _) as t) => (x <? y)%nat && increasing_natb t
  | _ => true
  end.
Definition legend_okb (S : schedule) (L : legend) : bool :=
  increasing_natb (map fst L) &&
  forallb (fun e => (snd e =? Z.of_nat (fst e)) &&
                    existsb (fun x => (s_job x =? fst e)%nat) (all_sops S)) L &&
  forallb (fun x => existsb (fun e => (fst e =? s_job x)%nat && (snd e =? Z.of_nat (s_job x))) L)
          (all_sops S).

Fixpoint increasing_Zb (l : list Z) : bool :=
  match l with
  | x :: ((y :: _) as t) => (x <? y) && increasing_Zb t
  | _ => true
  end.
Definition xaxis_okb (xlim : Z) (ticks : list Z) : bool :=
  match ticks with [] => false | t0 :: _ => t0 =? 0 end &&
  (last ticks (-1) =? xlim) && increasing_Zb ticks.
Definition xlim_okb (I : instance) (S : schedule) (req : option Z) (xl : Z) : bool :=
  xl =? match req with Some r => r | None => makespan I S end.
Definition yaxis_okb (M : nat) (yl : Z * Z) (yt : list Z) : bool :=
  (fst yl =? 0) && (1 + 10 * Z.of_nat M <=? snd yl) && (length yt =? M)%nat &&
  forallb (fun m => (1 + 10 * Z.of_nat m <? nth m yt 0) && (nth m yt 0 <? 1 + 10 * Z.of_nat m + 9))
          (seq 0 M).

(** ** Agreement of the twins *)

Lemma bar_eqb_eq a b : bar_eqb a b = true <-> a = b.
Proof.
  destruct a as [a1 a2 a3 a4 a5], b as [b1 b2 b3 b4 b5]. unfold bar_eqb; simpl.
  rewrite !andb_true_iff, !Z.eqb_eq. split.
  - intros ((((-> & ->) & ->) & ->) & ->). reflexivity.
  - intros H. inversion H. auto.
Qed.

Lemma remove_bar_perm x l l' : remove_bar x l = Some l' -> Permutation l (x :: l').
Proof.
  revert l'. induction l as [|y t IH]; intros l'; simpl; [discriminate|].
  destruct (bar_eqb x y) eqn:E.
  - apply bar_eqb_eq in E. subst y. intros H; inversion H; subst. apply Permutation_refl.
  - destruct (remove_bar x t) as [t'|]; [|discriminate].
    intros H; inversion H; subst. eapply perm_trans; [apply perm_skip; apply IH; reflexivity|].
    apply perm_swap.
Qed.

Lemma remove_bar_In x l : In x l -> exists l', remove_bar x l = Some l'.
Proof.
  induction l as [|y t IH]; simpl; [tauto|]. intros Hin.
  destruct (bar_eqb x y) eqn:E; [eexists; reflexivity|].
  destruct Hin as [->|Hin].
  - assert (H : bar_eqb x x = true) by (apply bar_eqb_eq; reflexivity). congruence.
  - destruct (IH Hin) as (t' & ->). eexists; reflexivity.
Qed.

Lemma perm_barb_spec l1 l2 : perm_barb l1 l2 = true <-> Permutation l1 l2.
Proof.
  revert l2. induction l1 as [|x t IH]; intros l2; simpl.
  - destruct l2 as [|b l2]; split; intros H.
    + constructor.
    + reflexivity.
    + discriminate.
    + apply Permutation_nil in H. discriminate.
  - split.
    + destruct (remove_bar x l2) as [l2'|] eqn:E; [|discriminate].
      intros H. apply IH in H. apply remove_bar_perm in E.
      apply Permutation_sym. eapply perm_trans; [exact E|]. apply perm_skip. apply Permutation_sym; exact H.
    + intros H. assert (Hin : In x l2) by (eapply Permutation_in; [exact H|left; reflexivity]).
      destruct (remove_bar_In _ _ Hin) as (l2' & E). rewrite E. apply IH.
      apply remove_bar_perm in E. apply Permutation_cons_inv with (a := x).
      eapply perm_trans; [exact H|exact E].
Qed.

Theorem chart_barsb_spec I S B : chart_barsb I S B = true <-> chart_bars I S B.
Proof. apply perm_barb_spec. Qed.

Lemma increasing_natb_spec l : increasing_natb l = true <-> increasing_nat l.
Proof.
  induction l as [|x t IH]; simpl; [tauto|]. destruct t as [|y t']; [tauto|].
  rewrite andb_true_iff, Nat.ltb_lt, IH. tauto.
Qed.

Lemma increasing_Zb_spec l : increasing_Zb l = true <-> increasing_Z l.
Proof.
  induction l as [|x t IH]; simpl; [tauto|]. destruct t as [|y t']; [tauto|].
  rewrite andb_true_iff, Z.ltb_lt, IH. tauto.
Qed.

Theorem legend_okb_spec S L : legend_okb S L = true <-> legend_ok S L.
Proof.
  unfold legend_okb, legend_ok. rewrite !andb_true_iff, increasing_natb_spec, !forallb_forall.
  split.
  - intros ((H1 & H2) & H3). split; [exact H1|]. split.
    + intros e He. specialize (H2 e He). apply andb_true_iff in H2. destruct H2 as [Hc Hx].
      apply Z.eqb_eq in Hc. apply existsb_exists in Hx. destruct Hx as (x & Hx & Hj).
      apply Nat.eqb_eq in Hj. split; [exact Hc|]. exists x; auto.
    + intros x Hx. specialize (H3 x Hx). apply existsb_exists in H3. destruct H3 as (e & He & Hb).
      apply andb_true_iff in Hb. destruct Hb as [Hj Hc]. apply Nat.eqb_eq in Hj. apply Z.eqb_eq in Hc.
      destruct e as [j c]; simpl in *. subst. exact He.
  - intros (H1 & H2 & H3). split; [split; [exact H1|]|].
    + intros e He. destruct (H2 e He) as (Hc & x & Hx & Hj). apply andb_true_iff. split.
      * apply Z.eqb_eq; exact Hc.
      * apply existsb_exists. exists x. split; [exact Hx|apply Nat.eqb_eq; exact Hj].
    + intros x Hx. apply existsb_exists. exists (s_job x, Z.of_nat (s_job x)). split; [apply H3; exact Hx|].
      simpl. rewrite Nat.eqb_refl, Z.eqb_refl. reflexivity.
Qed.

Theorem xaxis_okb_spec xlim ticks : xaxis_okb xlim ticks = true <-> xaxis_ok xlim ticks.
Proof.
  unfold xaxis_okb, xaxis_ok. rewrite !andb_true_iff, increasing_Zb_spec.
  destruct ticks as [|t0 t].
  - simpl. split; [intros ((H & _) & _); discriminate|intros (H & _); discriminate].
  - rewrite !Z.eqb_eq. cbn [hd_error]. split.
    + intros ((H1 & H2) & H3). subst t0. repeat split; assumption.
    + intros (H1 & H2 & H3). injection H1 as E. subst t0. repeat split; try assumption; reflexivity.
Qed.

Theorem xlim_okb_spec I S req xl : xlim_okb I S req xl = true <-> xlim_ok I S req xl.
Proof. unfold xlim_okb, xlim_ok. apply Z.eqb_eq. Qed.

Theorem yaxis_okb_spec M yl yt : yaxis_okb M yl yt = true <-> yaxis_ok M yl yt.
Proof.
  unfold yaxis_okb, yaxis_ok. rewrite !andb_true_iff, Z.eqb_eq, Z.leb_le, Nat.eqb_eq, forallb_forall.
  split.
  - intros (((H1 & H2) & H3) & H4). repeat split; auto;
      (assert (Hin : In m (seq 0 M)) by (apply in_seq; lia); specialize (H4 m Hin);
       apply andb_true_iff in H4; destruct H4 as [Ha Hb]; apply Z.ltb_lt in Ha; apply Z.ltb_lt in Hb; lia).
  - intros (H1 & H2 & H3 & H4). repeat split; auto. intros m Hm. apply in_seq in Hm.
    destruct (H4 m) as [Ha Hb]; [lia|]. apply andb_true_iff; split; apply Z.ltb_lt; lia.
Qed.

Theorem drawableb_spec I S : drawableb I S = true <-> drawable I S.
Proof.
  unfold drawableb, drawable. rewrite !andb_true_iff. unfold rows_match, rows_sorted, jobs_in_range.
  rewrite (b_row_from_spec S 0). unfold b_machine. rewrite !forallb_forall. split.
  - intros ((H1 & H2) & H3). repeat split.
    + intros m row x Hn Hx. exact (H1 m row x Hn Hx).
    + intros row Hr. apply row_sortedb_spec. apply H2; exact Hr.
    + intros x Hx. apply Nat.ltb_lt. apply H3; exact Hx.
  - intros (H1 & H2 & H3). repeat split.
    + intros m row x Hn Hx. simpl. exact (H1 m row x Hn Hx).
    + intros row Hr. apply row_sortedb_spec. apply H2; exact Hr.
    + intros x Hx. apply Nat.ltb_lt. apply H3; exact Hx.
Qed.

(** ** The whole chart *)
Definition chart_shows (I : instance) (S : schedule) (req : option Z) (c : chart) : Prop :=
  chart_bars I S (c_bars c) /\
  legend_ok S (c_legend c) /\
  yaxis_ok (length S) (c_ylim c) (c_yticks c) /\
  xlim_ok I S req (c_xlim c) /\
  exists ticks, c_xticks c = Some ticks /\ xaxis_ok (c_xlim c) ticks.
