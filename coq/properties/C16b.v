(** C16b — the graphs assembled from the library's PUBLIC building blocks are the builders' graphs.
    Statements only; proofs in proofs/RecipeFacts.v.

    A recipe (model/CmdC16.v) is a list of steps applied to [JobShopGraph(instance,
    add_operation_nodes=False)]: [add_node] of a given node, or one of the fifteen building blocks
    ([add_operation_nodes], [add_disjunctive_edges], ... [add_job_global_edges]) in the harness's numbering.
    [recipe_of b] is the sequence of building blocks the source of builder [b] calls; [recipe_manual b I] adds
    the operation nodes one by one with [add_node] instead of [add_operation_nodes] (the documented manual
    route). Both give exactly the graph of the builder, for every instance - so the theorems of C16.v / C17.v
    about the builders' graphs hold for graphs assembled by hand along these routes, which is what the
    correspondence check builds through the real building blocks (routes 1 and 2 of harness/c16.py). *)
From JSL Require Import Base Instance Dstate Graph Feasible GraphSpec CmdC16 RecipeFacts.

Theorem C16_building_blocks_give_the_builders_graph :
  forall (b : nat) (I : instance), (b < 4)%nat -> build_recipe I (recipe_of b) = build_by_code b I.
Proof. exact recipe_builders. Qed.
Print Assumptions C16_building_blocks_give_the_builders_graph.

Theorem C16_manual_operation_nodes_give_the_builders_graph :
  forall (b : nat) (I : instance), (b < 4)%nat -> build_recipe I (recipe_manual b I) = build_by_code b I.
Proof. exact recipe_manual_builders. Qed.
Print Assumptions C16_manual_operation_nodes_give_the_builders_graph.

(** Non-vacuity: a concrete instance, builder 3 (complete agent-task graph), both routes. *)
Definition exr_I : instance := [[mkop [0%nat; 1%nat] 3; mkop [1%nat] 2]; [mkop [1%nat] 4]].
Example C16b_nonvacuous :
  build_recipe exr_I (recipe_manual 3 exr_I) = build_complete_agent_task_graph exr_I /\
  build_complete_agent_task_graph exr_I <> None /\
  length (recipe_manual 3 exr_I) = 10%nat.
Proof. vm_compute. repeat split; try reflexivity. discriminate. Qed.
