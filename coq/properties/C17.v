(** C17 — the residual graph hides only the decided and everything done.
    Statements only. Model: coq/model/Residual.v on top of Graph.v / World.v;
    specification: coq/spec/ResidualSpec.v; proofs: proofs/ResidualGraph.v
    (graph-generic closed form of "remove these nodes"), ResidualObs.v (the
    IsCompletedObserver the updater reads), ResidualProofs.v.

    Setting of every theorem. [scope17 I b]: durations >= 0 (the property's
    "positive durations" is more than the proofs need: [scope17_positive]),
    every operation has a machine, every job non-empty, and — for the
    disjunctive graph only, as in C16 — no machine id listed twice inside one
    operation.
    [g0] is the graph returned by builder [b] (0 disjunctive, 1 agent-task,
    2 agent-task with jobs, 3 complete agent-task). On a FRESH dispatcher of
    [I] with any filter configuration [fs], any observers [ps] created
    beforehand (so the updater shares an existing IsCompletedObserver or
    creates its own), [ResidualGraphUpdater(remove_completed_machine_nodes =
    rm_m, remove_completed_job_nodes = rm_j)] is constructed on [g0]; then ANY
    request list [rs] is issued (accepted and rejected requests, any machine
    choices). [c17_run .. rs = rg_world fs d u]: afterwards the dispatcher is
    in state [d] and the updater in state [u]; [u_graph u] is its graph.
    No bound on jobs, machines, operations or steps. What [dispatcher.reset()]
    does to the updater is modelled ([rgu_reset]) but is property C12's
    business, not claimed here. *)
From JSL Require Import Base Instance Dstate Filters World Observers Graph Feasible Derived GraphSpec
  GraphSpecFacts Replay Residual ResidualSpec ResidualGraph ResidualObs ResidualProofs.
From Coq Require Import Permutation.

(** ** Graph-generic facts (any well-formed graph, not only the builders') *)

(** Removing a list of nodes (skipping the ones already removed, sweeping
    isolated nodes after every removal) has a closed form: the remaining
    edges are the edges that avoid the list, and a node is removed afterwards
    iff it was before, or some removal actually happened and the node is in
    the list or has no remaining edge. Removals are permanent, no edge
    dangles, every listed node ends up removed. *)
Theorem C17_removal_closed_form :
  forall L g, gwf g ->
    gwf (fold_left remove_if_present L g) /\ same_static g (fold_left remove_if_present L g) /\
    g_edges (fold_left remove_if_present L g) = filter (avoid L) (g_edges g) /\
    forall n, rmd (fold_left remove_if_present L g) n = true <->
              rmd g n = true \/
              ((exists u, In u L /\ rmd g u = false) /\
               (In n L \/ iso_in (g_edges (fold_left remove_if_present L g)) n)).
Proof. exact fold_char. Qed.
Print Assumptions C17_removal_closed_form.

(** The result is independent of the order in which the nodes are visited —
    in particular of the iteration order of the SET returned by
    [Dispatcher.completed_operations()]. *)
Theorem C17_removal_order_irrelevant :
  forall L L' g, gwf g -> Permutation L L' ->
    fold_left remove_if_present L g = fold_left remove_if_present L' g.
Proof. exact remove_all_perm. Qed.
Print Assumptions C17_removal_order_irrelevant.

Theorem C17_completed_set_order_irrelevant :
  forall I b g0, scope17 I b -> build_by_code b I = Some g0 ->
  forall fs ps rm_m rm_j rs l l',
    exists d u, c17_run I fs ps rm_m rm_j g0 rs = rg_world fs d u /\
      (Permutation l l' ->
       remove_completed_operations I (u_graph u) l = remove_completed_operations I (u_graph u) l').
Proof. exact f_order_irrelevant. Qed.
Print Assumptions C17_completed_set_order_irrelevant.

(** ** The clauses of the property, after every request list *)

(** every completed operation's node is removed *)
Theorem C17_completed_removed :
  forall I b g0, scope17 I b -> build_by_code b I = Some g0 ->
  forall fs ps rm_m rm_j rs,
    exists d u, c17_run I fs ps rm_m rm_j g0 rs = rg_world fs d u /\
                d = fold_left (apply_req I) rs (init_d I) /\
                completed_removed I fs (u_graph u) d.
Proof. exact f_completed_removed. Qed.
Print Assumptions C17_completed_removed.

(** no unscheduled operation's node is ever removed — neither explicitly nor
    by [remove_node]'s isolated-node sweep (all four builders) *)
Theorem C17_unscheduled_kept :
  forall I b g0, scope17 I b -> build_by_code b I = Some g0 ->
  forall fs ps rm_m rm_j rs,
    exists d u, c17_run I fs ps rm_m rm_j g0 rs = rg_world fs d u /\
                d = fold_left (apply_req I) rs (init_d I) /\
                unscheduled_kept I (u_graph u) d.
Proof. exact f_unscheduled_kept. Qed.
Print Assumptions C17_unscheduled_kept.

(** a machine (job) node is removed — explicitly or by the sweep — only when
    every operation that lists the machine (belongs to the job) is scheduled *)
Theorem C17_group_nodes :
  forall I b g0, scope17 I b -> build_by_code b I = Some g0 ->
  forall fs ps rm_m rm_j rs,
    exists d u, c17_run I fs ps rm_m rm_j g0 rs = rg_world fs d u /\
                d = fold_left (apply_req I) rs (init_d I) /\
                group_nodes I (u_graph u) d.
Proof. exact f_group_nodes. Qed.
Print Assumptions C17_group_nodes.

(** removed(k) is contained in removed(k') for every later point k' of the
    episode ([rs'] = one request gives removed(k) within removed(k+1)) *)
Theorem C17_monotone :
  forall I b g0, scope17 I b -> build_by_code b I = Some g0 ->
  forall fs ps rm_m rm_j rs rs',
    exists d u d' u', c17_run I fs ps rm_m rm_j g0 rs = rg_world fs d u /\
                      c17_run I fs ps rm_m rm_j g0 (rs ++ rs') = rg_world fs d' u' /\
                      monotone (g_removed (u_graph u)) (g_removed (u_graph u')).
Proof. exact f_monotone. Qed.
Print Assumptions C17_monotone.

(** no remaining edge touches a removed node *)
Theorem C17_no_dangling_edges :
  forall I b g0, scope17 I b -> build_by_code b I = Some g0 ->
  forall fs ps rm_m rm_j rs,
    exists d u, c17_run I fs ps rm_m rm_j g0 rs = rg_world fs d u /\
                d = fold_left (apply_req I) rs (init_d I) /\
                no_dangling (u_graph u).
Proof. exact f_no_dangling. Qed.
Print Assumptions C17_no_dangling_edges.

(** default options, every machine id below [num_machines] listed by some
    operation, at least one job: when the schedule is complete every node
    (operation, machine, job, source, sink, global) is removed *)
Theorem C17_all_removed_at_end :
  forall I b g0, scope17 I b -> build_by_code b I = Some g0 ->
  forall fs ps rm_m rm_j rs,
    rm_m = true -> rm_j = true -> every_machine_used I -> I <> [] ->
    exists d u, c17_run I fs ps rm_m rm_j g0 rs = rg_world fs d u /\
                d = fold_left (apply_req I) rs (init_d I) /\
                (complete I (sched d) -> all_removed (u_graph u)).
Proof. exact f_all_removed. Qed.
Print Assumptions C17_all_removed_at_end.

(** ** The oracle applied to the implementation's graph is the specification *)
Theorem C17_oracle_is_spec :
  forall I fs g d,
    (completed_removedb I fs g d = true <-> completed_removed I fs g d) /\
    (unscheduled_keptb I g d = true <-> unscheduled_kept I g d) /\
    (group_nodesb I g d = true <-> group_nodes I g d) /\
    (no_danglingb g = true <-> no_dangling g) /\
    (all_removedb g = true <-> all_removed g) /\
    (forall prev cur, monotoneb prev cur = true <-> monotone prev cur) /\
    (every_machine_usedb I = true <-> every_machine_used I).
Proof.
  intros I fs g d. split; [apply completed_removedb_spec|]. split; [apply unscheduled_keptb_spec|].
  split; [apply group_nodesb_spec|]. split; [apply no_danglingb_spec|]. split; [apply all_removedb_spec|].
  split; [apply monotoneb_spec|apply every_machine_usedb_spec].
Qed.
Print Assumptions C17_oracle_is_spec.

(** and, evaluated the way the harness does it (graph as observed, dispatcher
    state recomputed from the schedule rows), it accepts every reachable
    state of the model *)
Theorem C17_oracle_accepts_model :
  forall I b g0, scope17 I b -> build_by_code b I = Some g0 ->
  forall fs ps rm_m rm_j rs,
    exists d u, c17_run I fs ps rm_m rm_j g0 rs = rg_world fs d u /\
      let g := observed_graph I (g_nodes (u_graph u)) (g_removed (u_graph u)) (g_edges (u_graph u)) in
      let d' := dstate_of I (sched d) in
      completed_removedb I fs g d' = true /\ unscheduled_keptb I g d' = true /\
      group_nodesb I g d' = true /\ no_danglingb g = true.
Proof. exact f_oracle. Qed.
Print Assumptions C17_oracle_accepts_model.

(** ** Non-vacuity *)

(** flexible, irregular, recirculation (job 0 visits machine 0 twice), every
    machine used; a request list with a rejected request; all four builders *)
Definition ex_I : instance :=
  [[mkop [0%nat; 1%nat] 3; mkop [0%nat] 2; mkop [2%nat] 2]; [mkop [1%nat] 4; mkop [1%nat; 0%nat] 1]].
Definition ex_rs : list request :=
  [mkreq 0 0 (Some 1); mkreq 0 2 None; mkreq 1 0 None; mkreq 0 1 None; mkreq 1 1 (Some 0); mkreq 0 2 None].

Lemma ex_scope b : scope17 ex_I b.
Proof.
  apply scope17_positive; [apply positiveb_positive; reflexivity|apply nonempty_jobsb_spec; reflexivity|].
  intros _. apply nodup_machinesb_spec. reflexivity.
Qed.

Definition ex_removed (b : nat) (ps : list pre) (n : nat) : option (list bool) :=
  match build_by_code b ex_I with
  | Some g0 => match objs (c17_run ex_I [] ps true true g0 (firstn n ex_rs)) with
               | u :: _ => Some (g_removed (u_graph u))
               | [] => None
               end
  | None => None
  end.

Example C17_nonvacuous :
  every_machine_usedb ex_I = true /\
  (* disjunctive graph: 5 operations, source, sink *)
  ex_removed 0 [] 3 = Some [true; false; false; false; false; false; false] /\
  ex_removed 0 [] 4 = Some [true; true; false; false; false; false; false] /\
  ex_removed 0 [PIsComp true true true] 6 = Some (repeat true 7) /\
  (* agent-task graph: 5 operations, 3 machines; after 5 requests machines 0 and 1 are gone, machine 2 and
     the last operation of job 0 are still there *)
  ex_removed 1 [] 4 = Some [true; true; false; false; false; false; false; false] /\
  ex_removed 1 [] 5 = Some [true; true; false; false; false; true; true; false] /\
  ex_removed 1 [PRemOps true true] 6 = Some (repeat true 8) /\
  (* with job nodes / with the global node: job 1 is gone after 5 requests, job 0 and the global node stay *)
  ex_removed 2 [] 6 = Some (repeat true 10) /\
  ex_removed 3 [] 5 = Some [true; true; false; true; true; true; true; false; false; true; false] /\
  ex_removed 3 [PUnsched; PIsComp false true false] 6 = Some (repeat true 11).
Proof. vm_compute. repeat split; reflexivity. Qed.
