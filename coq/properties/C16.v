(** C16 — graph encodings are faithful to the instance and the schedule.
    Statements only; the model is coq/model/Graph.v, the specification
    coq/spec/GraphSpec.v, the proofs are in proofs/OpIds.v, GraphFacts.v,
    GraphStages.v, GraphProofs.v, GraphSpecFacts.v, SolvedProofs.v.

    Scope ("valid instance"): every job non-empty ([nonempty_jobs]; the
    disjunctive builders raise IndexError otherwise — the agent-task theorems
    do not need it); for the disjunctive graph additionally no machine id
    listed twice inside one operation ([nodup_machines]; a repeated id makes
    [itertools.combinations] pair the node with itself and the builder adds a
    self-loop). No bound on the number of jobs, machines or operations. *)
From JSL Require Import Base Instance Dstate Filters World Observers Graph Feasible GraphSpec
  OpIds GraphFacts GraphStages GraphProofs GraphSpecFacts DispatchFun Inv Run SolvedProofs.
From Coq Require Import Lia.

(** ** Nodes: one per entity, operation node id = operation id *)

(** [all_keys I] lists every operation exactly once … *)
Theorem C16_operations_once :
  forall I, NoDup (all_keys I) /\ forall j p, In (j, p) (all_keys I) <-> exists o, get_op I j p = Some o.
Proof. intros I. split; [apply NoDup_all_keys|intros j p; apply In_all_keys]. Qed.
Print Assumptions C16_operations_once.

(** … and the operation nodes ([op_nodes I], the common prefix of every
    builder's node list) are: at position [u] the node with [node_id = u],
    which is the node of the operation whose [operation_id] is [u]. *)
Theorem C16_op_node_id_is_operation_id :
  forall I u x, nth_error (op_nodes I) u = Some x <->
    exists j p o, get_op I j p = Some o /\ u = op_id I j p /\ x = (u, OpNode j p).
Proof. exact op_nodes_nth. Qed.
Print Assumptions C16_op_node_id_is_operation_id.

(** ** Disjunctive graph: node list and exact typed edge set *)
Theorem C16_disjunctive :
  forall I, nonempty_jobs I -> nodup_machines I ->
    exists G, build_disjunctive_graph I = Some G /\ g_nodes G = nodes_disjunctive I /\
      forall u v t, In (u, v, t) (g_edges G) <-> spec_disjunctive I u v t.
Proof.
  intros I H1 H2. destruct (disjunctive_char I H1 H2) as (G & w & E & Hs & He).
  exists G. split; [exact E|]. split; [apply (st_nodes _ _ _ _ Hs)|exact He].
Qed.
Print Assumptions C16_disjunctive.

(** Consecutive operations of a job that also share a machine: the DiGraph
    holds one attribute set per ordered pair — [p -> p+1] is CONJUNCTIVE (and
    not DISJUNCTIVE), [p+1 -> p] is DISJUNCTIVE. *)
Theorem C16_disjunctive_overlap :
  forall I G u v, nonempty_jobs I -> nodup_machines I -> build_disjunctive_graph I = Some G ->
    job_chain I u v -> share_machine I u v ->
    In (u, v, EConj) (g_edges G) /\ ~ In (u, v, EDisj) (g_edges G) /\ In (v, u, EDisj) (g_edges G).
Proof.
  intros I G u v H1 H2 E Hj Hs. destruct (C16_disjunctive I H1 H2) as (G' & E' & _ & He).
  rewrite E in E'. inversion E'; subst G'. split; [|split].
  - apply He. left. split; [reflexivity|left; exact Hj].
  - intros H. apply He in H. destruct H as [[H _]|[_ [_ H]]]; [discriminate|contradiction].
  - apply He. right. split; [reflexivity|]. split; [apply share_machine_sym; exact Hs|].
    apply job_chain_asym. exact Hj.
Qed.
Print Assumptions C16_disjunctive_overlap.

(** ** Agent-task family (any instance, empty jobs included) *)
Theorem C16_agent_task :
  forall I, exists G, build_agent_task_graph I = Some G /\ g_nodes G = nodes_agent_task I /\
    forall u v t, In (u, v, t) (g_edges G) <-> spec_agent_task I u v t.
Proof.
  intros I. destruct (agent_task_char I) as (G & w & E & Hs & He).
  exists G. split; [exact E|]. split; [apply (st_nodes _ _ _ _ Hs)|exact He].
Qed.
Print Assumptions C16_agent_task.

Theorem C16_agent_task_with_jobs :
  forall I, exists G, build_agent_task_graph_with_jobs I = Some G /\ g_nodes G = nodes_with_jobs I /\
    forall u v t, In (u, v, t) (g_edges G) <-> spec_with_jobs I u v t.
Proof.
  intros I. destruct (with_jobs_char I) as (G & w & E & Hs & He).
  exists G. split; [exact E|]. split; [apply (st_nodes _ _ _ _ Hs)|exact He].
Qed.
Print Assumptions C16_agent_task_with_jobs.

Theorem C16_complete_agent_task :
  forall I, exists G, build_complete_agent_task_graph I = Some G /\ g_nodes G = nodes_complete I /\
    forall u v t, In (u, v, t) (g_edges G) <-> spec_complete I u v t.
Proof.
  intros I. destruct (complete_char I) as (G & w & E & Hs & He).
  exists G. split; [exact E|]. split; [apply (st_nodes _ _ _ _ Hs)|exact He].
Qed.
Print Assumptions C16_complete_agent_task.

(** ** Solved disjunctive graph *)

(** Exact edge set, for any rows whose entries are operations of the instance. *)
Theorem C16_solved_edges :
  forall I S, nonempty_jobs I -> sops_valid I S ->
    exists G, build_solved_disjunctive_graph I S = Some G /\ g_nodes G = nodes_disjunctive I /\
      forall u v t, In (u, v, t) (g_edges G) <-> spec_solved I S u v t.
Proof.
  intros I S H1 H2. destruct (solved_char I S H1 H2) as (G & w & E & Hs & He).
  exists G. split; [exact E|]. split; [apply (st_nodes _ _ _ _ Hs)|exact He].
Qed.
Print Assumptions C16_solved_edges.

(** Complete feasible schedule, positive durations: every edge [u -> v] has
    [end u <= start v] (source: 0, sink: makespan); hence there is no closed
    walk (the graph is acyclic) and the duration-weight of every walk — in
    particular of every source-to-sink path — is at most the makespan. *)
Theorem C16_solved_dag :
  forall I S, nonempty_jobs I -> positive I -> feasible I S -> complete I S ->
    exists G, build_solved_disjunctive_graph I S = Some G /\ g_nodes G = nodes_disjunctive I /\
      (forall u v t, In (u, v, t) (g_edges G) <-> spec_solved I S u v t) /\
      (forall u v t, In (u, v, t) (g_edges G) -> node_end I S u <= node_start I S v) /\
      (forall l, walk (g_edges G) l -> (2 <= length l)%nat -> hd 0%nat l <> last l 0%nat) /\
      (forall l, walk (g_edges G) l -> sumZ (map (node_dur I) l) <= makespan I S).
Proof. exact solved_dag. Qed.
Print Assumptions C16_solved_dag.

(** Dispatcher-built schedules (any filter configuration, any request list —
    rejected requests included — that ends complete): each operation starts
    at 0 as first of its job, or exactly at the end of its job predecessor or
    of its machine predecessor ([Tight]) … *)
Theorem C16_dispatcher_schedules_tight :
  forall I fs rs, valid I -> Tight I (sched (core (run_reqs obs o_update I fs rs))).
Proof. exact (run_Tight obs o_update). Qed.
Print Assumptions C16_dispatcher_schedules_tight.

(** … so a source-to-sink path of weight exactly the makespan exists, and no
    walk weighs more: the longest path equals the makespan. *)
Theorem C16_critical_path :
  forall I fs rs, nonempty_jobs I -> I <> [] -> positive I ->
    complete I (sched (core (run_reqs obs o_update I fs rs))) ->
    exists G l,
      build_solved_disjunctive_graph I (sched (core (run_reqs obs o_update I fs rs))) = Some G /\
      walk (g_edges G) (num_ops I :: l ++ [S (num_ops I)]) /\
      sumZ (map (node_dur I) l) = makespan I (sched (core (run_reqs obs o_update I fs rs))) /\
      (forall l', walk (g_edges G) l' ->
                  sumZ (map (node_dur I) l') <= makespan I (sched (core (run_reqs obs o_update I fs rs)))).
Proof. exact (critical_path obs o_update). Qed.
Print Assumptions C16_critical_path.

(** ** The oracle applied to the implementation's graphs is the specification *)
Theorem C16_oracle_is_spec :
  forall I,
    (forall u v t, spec_disjunctiveb I u v t = true <-> spec_disjunctive I u v t) /\
    (forall u v t, spec_agent_taskb I u v t = true <-> spec_agent_task I u v t) /\
    (forall u v t, spec_with_jobsb I u v t = true <-> spec_with_jobs I u v t) /\
    (forall u v t, spec_completeb I u v t = true <-> spec_complete I u v t) /\
    (forall S u v t, spec_solvedb I S u v t = true <-> spec_solved I S u v t).
Proof.
  intros I. split; [apply spec_disjunctiveb_spec|]. split; [apply spec_agent_taskb_spec|].
  split; [apply spec_with_jobsb_spec|]. split; [apply spec_completeb_spec|intros S; apply spec_solvedb_spec].
Qed.
Print Assumptions C16_oracle_is_spec.

(** observed node list = prescribed node list; observed edge list (endpoints
    below the number of nodes) = prescribed edge set, no pair listed twice *)
Theorem C16_oracle_lists :
  (forall a b, nodes_eqb a b = true <-> a = b) /\
  (forall f n es, (forall u v t, In (u, v, t) es -> (u < n)%nat /\ (v < n)%nat) ->
     (edges_soundb f es = true /\ edges_completeb f n es = true <->
      forall u v t, In (u, v, t) es <-> ((u < n)%nat /\ (v < n)%nat /\ f u v t = true))) /\
  (forall es, keys_nodupb es = true <-> keys_nodup es) /\
  (forall I, nonempty_jobsb I = true <-> nonempty_jobs I) /\
  (forall I, nodup_machinesb I = true <-> nodup_machines I).
Proof.
  split; [exact nodes_eqb_eq|]. split; [exact oracle_edges_exact|]. split; [exact keys_nodupb_spec|].
  split; [exact nonempty_jobsb_spec|exact nodup_machinesb_spec].
Qed.
Print Assumptions C16_oracle_lists.

(** ** Non-vacuity *)

(** flexible, irregular, recirculation, an unused machine id (2), a job-chain
    pair sharing a machine (operations 0 and 1 on machine 0) *)
Definition ex_I : instance :=
  [[mkop [0%nat; 1%nat] 3; mkop [0%nat] 2; mkop [3%nat] 2]; [mkop [1%nat] 4; mkop [1%nat; 0%nat] 1]].

Example C16_disjunctive_nonvacuous :
  nonempty_jobsb ex_I = true /\ nodup_machinesb ex_I = true /\
  exists G, build_disjunctive_graph ex_I = Some G /\
    g_nodes G = [(0, OpNode 0 0); (1, OpNode 0 1); (2, OpNode 0 2); (3, OpNode 1 0); (4, OpNode 1 1);
                 (5, SourceNode); (6, SinkNode)]%nat /\
    In (0, 1, EConj)%nat (g_edges G) /\ In (1, 0, EDisj)%nat (g_edges G) /\
    In (4, 0, EDisj)%nat (g_edges G) /\ In (5, 3, EConj)%nat (g_edges G) /\ length (g_edges G) = 15%nat /\
    job_chainb ex_I 0 1 = true /\ share_machineb ex_I 0 1 = true.
Proof. vm_compute. repeat split; try reflexivity. eexists. repeat split; try reflexivity; simpl; tauto. Qed.

Example C16_agent_task_nonvacuous :
  (exists G, build_agent_task_graph ex_I = Some G /\ length (g_nodes G) = 9%nat /\ length (g_edges G) = 34%nat) /\
  (exists G, build_agent_task_graph_with_jobs ex_I = Some G /\ length (g_nodes G) = 11%nat /\
             length (g_edges G) = 38%nat) /\
  (exists G, build_complete_agent_task_graph ex_I = Some G /\ length (g_nodes G) = 12%nat /\
             length (g_edges G) = 36%nat).
Proof. vm_compute. repeat split; eexists; repeat split. Qed.

(** a complete run of the dispatcher (with two rejected requests) *)
Definition ex_rs : list request :=
  [mkreq 0 0 (Some 1); mkreq 0 2 None; mkreq 1 0 None; mkreq 1 1 (Some 5); mkreq 0 1 None;
   mkreq 1 1 (Some 0); mkreq 0 2 None].
Definition ex_S : schedule := sched (core (run_reqs obs o_update ex_I [] ex_rs)).

Example C16_solved_nonvacuous :
  positiveb ex_I = true /\ feasibleb ex_I ex_S = true /\ completeb ex_I ex_S = true /\
  ex_S = [[mksop 0 1 3 0; mksop 1 1 7 0]; [mksop 0 0 0 1; mksop 1 0 3 1]; []; [mksop 0 2 5 3]] /\
  makespan ex_I ex_S = 8 /\
  exists G, build_solved_disjunctive_graph ex_I ex_S = Some G /\
    walk (g_edges G) [5; 0; 3; 4; 6]%nat /\
    sumZ (map (node_dur ex_I) [0; 3; 4]%nat) = 8.
Proof.
  vm_compute. repeat split; try reflexivity. eexists. split; [reflexivity|].
  repeat split; try reflexivity; eexists; simpl; tauto.
Qed.
