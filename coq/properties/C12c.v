(** C12c — the environment part of "reset = new".

    [SingleJobShopGraphEnv] (model/EnvSpaces.v, the model C18's theorems are about) is a configuration, the
    initial graph kept by its graph updater, the current graph and the two declared spaces. An episode changes
    the current graph only ([inner_removes]: the updater's [remove_node] calls); [reset] restores the kept
    copy. After ANY number of episodes, removals and resets the environment reset is the freshly constructed
    environment, so the observation it returns - a function of that record and of the feature matrices, which
    are those of freshly constructed observers by C12b.v - is the one a new environment returns. *)
From JSL Require Import Base Instance Dstate Graph EnvSpaces.

(** one life-cycle event of the environment's own state: a step's removals, or a reset *)
Inductive env_event := EvRemoves (l : list nat) | EvReset.
Definition env_apply (e : inner) (ev : env_event) : inner :=
  match ev with EvRemoves l => inner_removes e l | EvReset => inner_reset e end.

Lemma env_apply_static e ev :
  i_cfg (env_apply e ev) = i_cfg e /\ i_graph0 (env_apply e ev) = i_graph0 e /\
  i_space (env_apply e ev) = i_space e /\ i_anvec (env_apply e ev) = i_anvec e.
Proof. destruct ev; repeat split; reflexivity. Qed.

Lemma env_run_static evs e :
  let e' := fold_left env_apply evs e in
  i_cfg e' = i_cfg e /\ i_graph0 e' = i_graph0 e /\ i_space e' = i_space e /\ i_anvec e' = i_anvec e.
Proof.
  revert e. induction evs as [|ev t IH]; intros e; cbn [fold_left]; [repeat split; reflexivity|].
  destruct (IH (env_apply e ev)) as (H1 & H2 & H3 & H4).
  destruct (env_apply_static e ev) as (K1 & K2 & K3 & K4).
  cbn zeta in *. rewrite H1, H2, H3, H4, K1, K2, K3, K4. repeat split; reflexivity.
Qed.

(** After any history of steps and resets, [reset] gives the freshly constructed environment. *)
Theorem C12_env_reset_is_fresh :
  forall (cfg : config) (g : graph) (evs : list env_event),
    inner_reset (fold_left env_apply evs (single_init cfg g)) = single_init cfg g.
Proof.
  intros cfg g evs. destruct (env_run_static evs (single_init cfg g)) as (H1 & H2 & H3 & H4).
  cbn zeta in *. unfold inner_reset, set_graph. rewrite H1, H2, H3, H4. reflexivity.
Qed.
Print Assumptions C12_env_reset_is_fresh.

(** ... hence the observation returned by [reset] is the one a new environment returns, given the same
    feature matrices (equal to those of fresh observers by C12b.v), and every later episode repeats the first:
    the same removals lead to the same environments and observations. *)
Theorem C12_env_observation_after_reset :
  forall (A : Type) (cfg : config) (g : graph) (evs : list env_event) (feats : list (ftype * list (list A))),
    inner_observe (inner_reset (fold_left env_apply evs (single_init cfg g))) feats =
    inner_observe (single_init cfg g) feats.
Proof. intros. rewrite C12_env_reset_is_fresh. reflexivity. Qed.
Print Assumptions C12_env_observation_after_reset.

Theorem C12_env_episodes_after_reset_coincide :
  forall (cfg : config) (g : graph) (evs episode : list env_event),
    fold_left env_apply episode (inner_reset (fold_left env_apply evs (single_init cfg g))) =
    fold_left env_apply episode (single_init cfg g).
Proof. intros. rewrite C12_env_reset_is_fresh. reflexivity. Qed.
Print Assumptions C12_env_episodes_after_reset_coincide.

(** Non-vacuity: removals really change the environment, reset really undoes them. *)
Example C12c_nonvacuous :
  let I : instance := [[mkop [0%nat] 3; mkop [1%nat] 2]; [mkop [1%nat] 4]] in
  match build_agent_task_graph I with
  | Some g =>
      let e0 := single_init (mkcfg [] 0 default_updater [] 0 0 true) g in
      let e1 := fold_left env_apply [EvRemoves [0%nat; 3%nat]] e0 in
      i_graph e1 <> i_graph e0 /\ inner_reset e1 = e0
  | None => False
  end.
Proof. vm_compute. split; [discriminate|reflexivity]. Qed.
