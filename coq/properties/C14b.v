(** C14b — "job sequences are rejected with a validation error exactly when
    no schedule has them - never a hang, never an infeasible result",
    stated in terms of SCHEDULES (continuation of properties/C14.v, §7-§8).
    Statements only; proofs are in proofs/FjsSchedulable.v (which rests on
    FjsIff.v / FjsPerm.v).

    Hypotheses (all spelled out in the statements):
    [positive I]        every duration is > 0 (and every operation lists a machine);
    [single_machine I]  every operation lists exactly one machine (non-flexible);
    [true_permutation I P]  one row per machine, row m a rearrangement of the
                        job ids of the operations that run on machine m.
    [realises I P S] (proofs/FjsSchedulable.v) unfolds to
        feasible I S /\ complete I S /\ job_sequences S = map (map Z.of_nat) P
    with [feasible]/[complete] of spec/Feasible.v and [job_sequences] of
    model/Views.v (the per-machine job-id view that Schedule.to_dict writes).
    No bound on the number of jobs, machines or operations anywhere.

    §2 connects the wording "the precedence graph of P is acyclic": [prec I P]
    (proofs/FjsSchedulable.v, restated in [C14_precedence_def]) is "job order ∪
    machine order of P" on operations (job, position), where row m of P is
    decoded into operations by reading the c-th occurrence of job id j as the
    c-th operation of job j that runs on machine m ([decode_row]); [acyclic]
    says that its transitive closure ([clos_trans], Coq.Relations) is
    irreflexive. This closes the gap named in C14_accept_iff_acyclic_partial.

    Positive durations are needed in §1: with zero durations a cyclic [P] can have a
    (degenerate) feasible schedule that the library nevertheless rejects, see
    the remark in properties/C14.v §8 and [exC] there. *)
From JSL Require Import Base Instance Dstate Filters World Feasible
  Views ViewsSpec ViewsProofs FjsIff FjsPerm FjsSchedulable.
From Coq Require Import Lia Permutation Relations.

(** * 1. Rejected exactly when no schedule has these sequences *)

(** The definition used below, restated so that it can be read here. *)
Theorem C14_realises_def :
  forall (I : instance) (P : list (list nat)) (S : schedule),
    realises I P S <->
    feasible I S /\ complete I S /\ job_sequences S = map (map Z.of_nat) P.
Proof. exact realises_def. Qed.
Print Assumptions C14_realises_def.

(** Listing the operations of ANY feasible complete schedule with sequences
    [P] by non-decreasing start time gives a linear extension of
    "job order ∪ machine order of P". *)
Theorem C14_schedule_order_linearises :
  forall (I : instance) (P : list (list nat)) (S : schedule),
    positive I -> single_machine I -> length P = num_machines I ->
    feasible I S -> complete I S -> job_sequences S = map (map Z.of_nat) P ->
    linearises I P (map key (sort_start (all_sops S))).
Proof. exact schedule_order_linearises. Qed.
Print Assumptions C14_schedule_order_linearises.

(** (b) Accepted exactly when a schedule with these sequences exists
    (sequences of the right shape: one row per machine, N entries). *)
Theorem C14_accepted_iff_schedule :
  forall (I : instance) (P : list (list nat)),
    positive I -> single_machine I ->
    length P = num_machines I -> sumN (map (@length nat) P) = num_ops I ->
    ((exists rows, from_job_sequences I (map (map Z.of_nat) P) = FOk rows) <->
     (exists S, feasible I S /\ complete I S /\ job_sequences S = map (map Z.of_nat) P)).
Proof. exact accepted_iff_schedule. Qed.
Print Assumptions C14_accepted_iff_schedule.

(** (a) For true per-machine permutations: rejected with the ValidationError
    exactly when NO feasible complete schedule has these sequences. *)
Theorem C14_rejected_iff_no_schedule :
  forall (I : instance) (P : list (list nat)),
    positive I -> single_machine I -> true_permutation I P ->
    (from_job_sequences I (map (map Z.of_nat) P) = FErr EValidation <->
     ~ exists S, feasible I S /\ complete I S /\ job_sequences S = map (map Z.of_nat) P).
Proof. exact rejected_iff_no_schedule. Qed.
Print Assumptions C14_rejected_iff_no_schedule.

(** Nothing else can happen: accepted, and the result is itself a feasible
    complete schedule with the requested sequences — or ValidationError and no
    such schedule exists. Never an IndexError, never a hang ([FOutOfFuel]),
    never an infeasible result. *)
Theorem C14_true_permutation_schedule_outcome :
  forall (I : instance) (P : list (list nat)),
    positive I -> single_machine I -> true_permutation I P ->
    (exists rows, from_job_sequences I (map (map Z.of_nat) P) = FOk rows /\
                  feasible I rows /\ complete I rows /\ job_sequences rows = map (map Z.of_nat) P) \/
    (from_job_sequences I (map (map Z.of_nat) P) = FErr EValidation /\
     ~ exists S, feasible I S /\ complete I S /\ job_sequences S = map (map Z.of_nat) P).
Proof. exact true_permutation_schedule_outcome. Qed.
Print Assumptions C14_true_permutation_schedule_outcome.

(** * Non-vacuity: two jobs crossing two machines, positive durations.
    [[0;1];[1;0]] is accepted and its schedule realises it; [[1;0];[0;1]]
    asks each machine to start with the SECOND operation of a job whose first
    operation waits on the other machine — a cycle: ValidationError, and by
    the theorem no feasible complete schedule has these sequences. *)
Definition exP : instance := [[mkop [0%nat] 3; mkop [1%nat] 2]; [mkop [1%nat] 4; mkop [0%nat] 1]].
Definition exP_ok : list (list nat) := [[0; 1]; [1; 0]]%nat.
Definition exP_bad : list (list nat) := [[1; 0]; [0; 1]]%nat.
Definition exP_S : schedule :=
  [[mksop 0 0 0 0; mksop 1 1 4 0]; [mksop 1 0 0 1; mksop 0 1 4 1]].

Example C14_schedulable_nonvacuous :
  positive exP /\ single_machine exP /\ true_permutation exP exP_ok /\ true_permutation exP exP_bad /\
  from_job_sequences exP (map (map Z.of_nat) exP_ok) = FOk exP_S /\
  (feasible exP exP_S /\ complete exP exP_S /\ job_sequences exP_S = map (map Z.of_nat) exP_ok) /\
  map key (sort_start (all_sops exP_S)) = [(0, 0); (1, 0); (1, 1); (0, 1)]%nat /\
  linearises exP exP_ok [(0, 0); (1, 0); (1, 1); (0, 1)]%nat /\
  from_job_sequences exP (map (map Z.of_nat) exP_bad) = FErr EValidation /\
  ~ (exists S, feasible exP S /\ complete exP S /\ job_sequences S = map (map Z.of_nat) exP_bad).
Proof.
  assert (Hp : positive exP) by (apply positiveb_is_positive; vm_compute; reflexivity).
  assert (Hs : single_machine exP) by (apply single_machine_b_spec; vm_compute; reflexivity).
  assert (Hnm : num_machines exP = 2%nat) by reflexivity.
  assert (Hok : true_permutation exP exP_ok).
  { split; [reflexivity|]. intros m Hm. rewrite Hnm in Hm.
    destruct m as [|[|m]]; [vm_compute; apply Permutation_refl|vm_compute; apply perm_swap|exfalso; lia]. }
  assert (Hbad : true_permutation exP exP_bad).
  { split; [reflexivity|]. intros m Hm. rewrite Hnm in Hm.
    destruct m as [|[|m]]; [vm_compute; apply perm_swap|vm_compute; apply Permutation_refl|exfalso; lia]. }
  assert (HR : feasible exP exP_S /\ complete exP exP_S /\ job_sequences exP_S = map (map Z.of_nat) exP_ok).
  { apply realises_by_computation; vm_compute; reflexivity. }
  split; [exact Hp|]. split; [exact Hs|]. split; [exact Hok|]. split; [exact Hbad|].
  split; [vm_compute; reflexivity|]. split; [exact HR|]. split; [vm_compute; reflexivity|]. split.
  - destruct HR as (Hf & Hc & HP).
    exact (C14_schedule_order_linearises exP exP_ok exP_S Hp Hs eq_refl Hf Hc HP).
  - assert (Hrej : from_job_sequences exP (map (map Z.of_nat) exP_bad) = FErr EValidation) by (vm_compute; reflexivity).
    split; [exact Hrej|]. apply (C14_rejected_iff_no_schedule exP exP_bad Hp Hs Hbad). exact Hrej.
Qed.

(** * 2. Accepted exactly when the precedence relation has no cycle *)

(** The relation, unfolded: same job and earlier position, or both in the
    decoded row of some machine, the first one earlier. *)
Theorem C14_precedence_def :
  forall (I : instance) (P : list (list nat)) (a b : nat * nat),
    prec I P a b <->
    (In a (all_keys I) /\ In b (all_keys I) /\ fst a = fst b /\ (snd a < snd b)%nat) \/
    (exists m, (m < num_machines I)%nat /\
               exists l1 l2 l3, decode_row I m [] (nth m P []) = l1 ++ a :: l2 ++ b :: l3).
Proof. exact prec_def. Qed.
Print Assumptions C14_precedence_def.

(** The decoding of a row of job ids, unfolded: the entry [j] that has been
    seen c times before stands for the c-th operation of job [j] on machine [m]. *)
Theorem C14_decode_row_def :
  forall (I : instance) (m : nat) (seen : list nat) (j : nat) (t : list nat),
    decode_row I m seen [] = [] /\
    decode_row I m seen (j :: t) =
      (j, nth (length (filter (Nat.eqb j) seen))
              (filter (fun p => mem_nat m (kmachines I (j, p))) (seq 0 (length (get_job I j)))) 0%nat)
      :: decode_row I m (j :: seen) t.
Proof. exact decode_row_def. Qed.
Print Assumptions C14_decode_row_def.

Theorem C14_acyclic_def :
  forall (I : instance) (P : list (list nat)),
    acyclic I P <-> forall k, ~ clos_trans (nat * nat) (prec I P) k k.
Proof. exact acyclic_def. Qed.
Print Assumptions C14_acyclic_def.

(** The order-theoretic bridge (topological sort of a finite relation): a
    linear extension exists iff there is no cycle. *)
Theorem C14_linear_extension_iff_acyclic :
  forall (I : instance) (P : list (list nat)),
    true_permutation I P -> ((exists L, linearises I P L) <-> acyclic I P).
Proof. exact linearisable_iff_acyclic. Qed.
Print Assumptions C14_linear_extension_iff_acyclic.

(** "accepted(P) <=> precedence graph of P acyclic" — any durations >= 0. *)
Theorem C14_accept_iff_acyclic :
  forall (I : instance) (P : list (list nat)),
    valid I -> single_machine I -> true_permutation I P ->
    ((exists rows, from_job_sequences I (map (map Z.of_nat) P) = FOk rows) <-> acyclic I P).
Proof. exact accept_iff_acyclic. Qed.
Print Assumptions C14_accept_iff_acyclic.

(** Constructively: the ValidationError comes with an actual cycle. *)
Theorem C14_rejected_iff_cycle :
  forall (I : instance) (P : list (list nat)),
    valid I -> single_machine I -> true_permutation I P ->
    (from_job_sequences I (map (map Z.of_nat) P) = FErr EValidation <->
     exists k, clos_trans (nat * nat) (prec I P) k k).
Proof. exact rejected_iff_cycle. Qed.
Print Assumptions C14_rejected_iff_cycle.

(** With positive durations the three readings coincide. *)
Theorem C14_schedule_iff_acyclic :
  forall (I : instance) (P : list (list nat)),
    positive I -> single_machine I -> true_permutation I P ->
    ((exists S, feasible I S /\ complete I S /\ job_sequences S = map (map Z.of_nat) P) <-> acyclic I P).
Proof. exact schedule_iff_acyclic. Qed.
Print Assumptions C14_schedule_iff_acyclic.

(** Non-vacuity: the decoding with recirculation (job 0 visits machine 0
    twice); the explicit 4-cycle of [exP_bad]; [exP_ok] is acyclic. *)
Definition exR : instance :=
  [[mkop [0%nat] 3; mkop [1%nat] 1; mkop [0%nat] 2]; [mkop [1%nat] 4; mkop [0%nat] 1]].
Example C14_acyclic_nonvacuous :
  decode exR [[0; 1; 0]; [1; 0]]%nat 0 = [(0, 0); (1, 1); (0, 2)]%nat /\
  decode exR [[0; 0; 1]; [1; 0]]%nat 0 = [(0, 0); (0, 2); (1, 1)]%nat /\
  decode exP exP_bad 0 = [(1, 1); (0, 0)]%nat /\ decode exP exP_bad 1 = [(0, 1); (1, 0)]%nat /\
  clos_trans _ (prec exP exP_bad) (0, 0)%nat (0, 0)%nat /\
  ~ acyclic exP exP_bad /\ acyclic exP exP_ok.
Proof.
  destruct C14_schedulable_nonvacuous as (Hp & Hs & Hok & Hbad & Hacc & _).
  assert (Hv : valid exP) by (apply validb_valid; reflexivity).
  assert (Hcyc : clos_trans _ (prec exP exP_bad) (0, 0)%nat (0, 0)%nat).
  { apply t_trans with (y := (0, 1)%nat).
    - apply t_step. left. vm_compute. repeat split; auto.
    - apply t_trans with (y := (1, 0)%nat).
      + apply t_step. right. exists 1%nat. split; [apply Nat.ltb_lt; reflexivity|]. exists [], [], []. reflexivity.
      + apply t_trans with (y := (1, 1)%nat).
        * apply t_step. left. vm_compute. repeat split; auto.
        * apply t_step. right. exists 0%nat. split; [apply Nat.ltb_lt; reflexivity|]. exists [], [], []. reflexivity. }
  split; [vm_compute; reflexivity|]. split; [vm_compute; reflexivity|].
  split; [vm_compute; reflexivity|]. split; [vm_compute; reflexivity|]. split; [exact Hcyc|]. split.
  - intros H. exact (H _ Hcyc).
  - apply (C14_accept_iff_acyclic exP exP_ok Hv Hs Hok). eexists. exact Hacc.
Qed.
