(** C14b — "job sequences are rejected with a validation error exactly when
    no schedule has them - never a hang, never an infeasible result",
    stated in terms of SCHEDULES (continuation of properties/C14.v, §7-§8).
    Statements only; proofs are in proofs/FjsSchedulable.v (which rests on
    FjsIff.v / FjsPerm.v).

    Hypotheses (all spelled out in the statements):
    [positive I]        every duration is > 0 (and every operation lists a machine);
    [single_machine I]  every operation lists exactly one machine (non-flexible);
    [true_permutation I P]  one row per machine, row m a rearrangement of the
                        job ids of the operations that run on machine m.
    [realises I P S] (proofs/FjsSchedulable.v) unfolds to
        feasible I S /\ complete I S /\ job_sequences S = map (map Z.of_nat) P
    with [feasible]/[complete] of spec/Feasible.v and [job_sequences] of
    model/Views.v (the per-machine job-id view that Schedule.to_dict writes).
    No bound on the number of jobs, machines or operations anywhere.

    Positive durations are needed: with zero durations a cyclic [P] can have a
    (degenerate) feasible schedule that the library nevertheless rejects, see
    the remark in properties/C14.v §8 and [exC] there. *)
From JSL Require Import Base Instance Dstate Filters World Feasible
  Views ViewsSpec ViewsProofs FjsIff FjsPerm FjsSchedulable.
From Coq Require Import Lia Permutation.

(** The definition used below, restated so that it can be read here. *)
Theorem C14_realises_def :
  forall (I : instance) (P : list (list nat)) (S : schedule),
    realises I P S <->
    feasible I S /\ complete I S /\ job_sequences S = map (map Z.of_nat) P.
Proof. exact realises_def. Qed.
Print Assumptions C14_realises_def.

(** Listing the operations of ANY feasible complete schedule with sequences
    [P] by non-decreasing start time gives a linear extension of
    "job order ∪ machine order of P". *)
Theorem C14_schedule_order_linearises :
  forall (I : instance) (P : list (list nat)) (S : schedule),
    positive I -> single_machine I -> length P = num_machines I ->
    feasible I S -> complete I S -> job_sequences S = map (map Z.of_nat) P ->
    linearises I P (map key (sort_start (all_sops S))).
Proof. exact schedule_order_linearises. Qed.
Print Assumptions C14_schedule_order_linearises.

(** (b) Accepted exactly when a schedule with these sequences exists
    (sequences of the right shape: one row per machine, N entries). *)
Theorem C14_accepted_iff_schedule :
  forall (I : instance) (P : list (list nat)),
    positive I -> single_machine I ->
    length P = num_machines I -> sumN (map (@length nat) P) = num_ops I ->
    ((exists rows, from_job_sequences I (map (map Z.of_nat) P) = FOk rows) <->
     (exists S, feasible I S /\ complete I S /\ job_sequences S = map (map Z.of_nat) P)).
Proof. exact accepted_iff_schedule. Qed.
Print Assumptions C14_accepted_iff_schedule.

(** (a) For true per-machine permutations: rejected with the ValidationError
    exactly when NO feasible complete schedule has these sequences. *)
Theorem C14_rejected_iff_no_schedule :
  forall (I : instance) (P : list (list nat)),
    positive I -> single_machine I -> true_permutation I P ->
    (from_job_sequences I (map (map Z.of_nat) P) = FErr EValidation <->
     ~ exists S, feasible I S /\ complete I S /\ job_sequences S = map (map Z.of_nat) P).
Proof. exact rejected_iff_no_schedule. Qed.
Print Assumptions C14_rejected_iff_no_schedule.

(** Nothing else can happen: accepted, and the result is itself a feasible
    complete schedule with the requested sequences — or ValidationError and no
    such schedule exists. Never an IndexError, never a hang ([FOutOfFuel]),
    never an infeasible result. *)
Theorem C14_true_permutation_schedule_outcome :
  forall (I : instance) (P : list (list nat)),
    positive I -> single_machine I -> true_permutation I P ->
    (exists rows, from_job_sequences I (map (map Z.of_nat) P) = FOk rows /\
                  feasible I rows /\ complete I rows /\ job_sequences rows = map (map Z.of_nat) P) \/
    (from_job_sequences I (map (map Z.of_nat) P) = FErr EValidation /\
     ~ exists S, feasible I S /\ complete I S /\ job_sequences S = map (map Z.of_nat) P).
Proof. exact true_permutation_schedule_outcome. Qed.
Print Assumptions C14_true_permutation_schedule_outcome.

(** * Non-vacuity: two jobs crossing two machines, positive durations.
    [[0;1];[1;0]] is accepted and its schedule realises it; [[1;0];[0;1]]
    asks each machine to start with the SECOND operation of a job whose first
    operation waits on the other machine — a cycle: ValidationError, and by
    the theorem no feasible complete schedule has these sequences. *)
Definition exP : instance := [[mkop [0%nat] 3; mkop [1%nat] 2]; [mkop [1%nat] 4; mkop [0%nat] 1]].
Definition exP_ok : list (list nat) := [[0; 1]; [1; 0]]%nat.
Definition exP_bad : list (list nat) := [[1; 0]; [0; 1]]%nat.
Definition exP_S : schedule :=
  [[mksop 0 0 0 0; mksop 1 1 4 0]; [mksop 1 0 0 1; mksop 0 1 4 1]].

Example C14_schedulable_nonvacuous :
  positive exP /\ single_machine exP /\ true_permutation exP exP_ok /\ true_permutation exP exP_bad /\
  from_job_sequences exP (map (map Z.of_nat) exP_ok) = FOk exP_S /\
  (feasible exP exP_S /\ complete exP exP_S /\ job_sequences exP_S = map (map Z.of_nat) exP_ok) /\
  map key (sort_start (all_sops exP_S)) = [(0, 0); (1, 0); (1, 1); (0, 1)]%nat /\
  linearises exP exP_ok [(0, 0); (1, 0); (1, 1); (0, 1)]%nat /\
  from_job_sequences exP (map (map Z.of_nat) exP_bad) = FErr EValidation /\
  ~ (exists S, feasible exP S /\ complete exP S /\ job_sequences S = map (map Z.of_nat) exP_bad).
Proof.
  assert (Hp : positive exP) by (apply positiveb_is_positive; vm_compute; reflexivity).
  assert (Hs : single_machine exP) by (apply single_machine_b_spec; vm_compute; reflexivity).
  assert (Hnm : num_machines exP = 2%nat) by reflexivity.
  assert (Hok : true_permutation exP exP_ok).
  { split; [reflexivity|]. intros m Hm. rewrite Hnm in Hm.
    destruct m as [|[|m]]; [vm_compute; apply Permutation_refl|vm_compute; apply perm_swap|exfalso; lia]. }
  assert (Hbad : true_permutation exP exP_bad).
  { split; [reflexivity|]. intros m Hm. rewrite Hnm in Hm.
    destruct m as [|[|m]]; [vm_compute; apply perm_swap|vm_compute; apply Permutation_refl|exfalso; lia]. }
  assert (HR : feasible exP exP_S /\ complete exP exP_S /\ job_sequences exP_S = map (map Z.of_nat) exP_ok).
  { apply realises_by_computation; vm_compute; reflexivity. }
  split; [exact Hp|]. split; [exact Hs|]. split; [exact Hok|]. split; [exact Hbad|].
  split; [vm_compute; reflexivity|]. split; [exact HR|]. split; [vm_compute; reflexivity|]. split.
  - destruct HR as (Hf & Hc & HP).
    exact (C14_schedule_order_linearises exP exP_ok exP_S Hp Hs eq_refl Hf Hc HP).
  - assert (Hrej : from_job_sequences exP (map (map Z.of_nat) exP_bad) = FErr EValidation) by (vm_compute; reflexivity).
    split; [exact Hrej|]. apply (C14_rejected_iff_no_schedule exP exP_bad Hp Hs Hbad). exact Hrej.
Qed.
