(** C13 — dense rewards add up to the sparse objective. Statements only;
    proofs in proofs/Rewards.v. *)
From JSL Require Import Base Instance Dstate Filters World Observers Feasible Derived
     DispatchFun Inv Run Replay Rewards.

(** Both reward observers subscribed from the initial state; ANY request list
    (accepted and rejected requests, any machine choices, zero durations,
    flexible operations). After it:
    - each reward list has exactly one entry per accepted dispatch (= per
      scheduled operation), every entry <= 0;
    - the makespan rewards sum to minus the current makespan (largest end time
      in the schedule rows), and [current_makespan] is that makespan;
    - the idle-time rewards sum to minus the total idle time of all machines up
      to their last operation (sum over rows of largest end minus durations). *)
Theorem C13_rewards_telescope :
  forall (I : instance) (fs : list fname) (rs : list request), valid I ->
    exists d mr cur ir,
      run_from obs o_update I (rw_world fs (init_d I) [] 0 []) rs = rw_world fs d mr cur ir /\
      d = fold_left (apply_req I) rs (init_d I) /\
      cur = makespan I (sched d) /\
      sumZ mr = - makespan I (sched d) /\
      sumZ ir = - sp_idle I (sched d) /\
      Forall (fun z => z <= 0) mr /\ Forall (fun z => z <= 0) ir /\
      length mr = length (all_sops (sched d)) /\ length ir = length (all_sops (sched d)).
Proof.
  intros I fs rs Hv.
  destruct (rewards_telescope I Hv fs rs (init_d I) [] 0 [] (Inv_init I) (RInv_init I))
    as (d & mr & cur & ir & Hrun & Hd & _ & [R1 R2 R3 R4 R5 R6 R7]).
  exists d, mr, cur, ir. repeat split; assumption.
Qed.
Print Assumptions C13_rewards_telescope.

(** One step: the reward appended by a dispatch is the last element of the
    list, i.e. what [last_reward] (read by [env.step] right after the dispatch)
    returns; a rejected request appends nothing. *)
Theorem C13_step_reward :
  forall (I : instance) (fs : list fname) (d : dstate) (mr : list Z) (cur : Z) (ir : list Z) (r : request),
    step_req obs o_update I (rw_world fs d mr cur ir) r =
    match sop_of_request I d r with
    | Some x => rw_world fs (apply_sop I d x (row_of d x))
                         (mr ++ [cur - Z.max cur (s_end I x)]) (Z.max cur (s_end I x))
                         (ir ++ [- idle_gap I d x])
    | None => rw_world fs d mr cur ir
    end.
Proof. exact rw_step. Qed.
Print Assumptions C13_step_reward.

Definition ex_I : instance :=
  [[mkop [0%nat; 1%nat] 3; mkop [1%nat] 0; mkop [0%nat] 2]; [mkop [1%nat] 4; mkop [1%nat; 0%nat] 1]].
Definition ex_rs : list request :=
  [mkreq 0 0 (Some 1); mkreq 0 2 None; mkreq 1 0 None; mkreq 1 1 (Some 5); mkreq 0 1 None;
   mkreq 1 1 (Some 0); mkreq 0 2 (Some 0)].
Example C13_nonvacuous :
  validb ex_I = true /\
  objs (run_from obs o_update ex_I (rw_world [] (init_d ex_I) [] 0 []) ex_rs) =
    [OMakespan [-3; -4; 0; -1; -2] 10; OIdle [0; 0; 0; -7; 0]].
Proof. vm_compute. split; reflexivity. Qed.
