(** C08 — pruning dominated operations never loses the optimum.
    Statements only; proof in proofs/Active.v (a Giffler-Thompson style
    simulation: any feasible complete schedule can be followed, one AVAILABLE
    operation at a time, by left-shifting operations into idle gaps of any
    eligible machine without ever increasing a completion time). *)
From JSL Require Import Base Instance Dstate Filters World Feasible Derived
     DispatchFun Inv Run Replay FilterSpec Search Active.

(** For every instance with positive durations (flexible or not, any shape),
    against ALL feasible complete schedules [S] - not only dispatcher-built
    ones -: some dispatch history that only ever dispatches operations surviving
    the dominated-operations filter, each on one of its eligible machines,
    completes the schedule with a makespan no larger than that of [S].
    (This is the statement pinned in DESIGN.md, Appendix A.) *)
Theorem C08_filtered_history_dominates :
  forall (I : instance) (S : schedule), positive I -> feasible I S -> complete I S ->
    exists rs : list request,
      only_available I [FDominated] (init_w unit I [FDominated]) rs /\
      complete I (sched (core (run_from unit no_update I (init_w unit I [FDominated]) rs))) /\
      makespan I (sched (core (run_from unit no_update I (init_w unit I [FDominated]) rs))) <= makespan I S.
Proof. intros I S Hp. exact (filtered_history_dominates I Hp S). Qed.
Print Assumptions C08_filtered_history_dominates.

(** Executable form: the exhaustive search over filtered histories returns
    the optimal makespan [OPT(I)] - least makespan over all feasible complete
    schedules, attained by one of them. *)
Theorem C08_opt :
  forall (I : instance), positive I -> exists c, opt_filtered I = Some c /\ is_opt I c.
Proof. exact filtered_search_is_optimal. Qed.
Print Assumptions C08_opt.

(** whatever a (filtered or unfiltered) search returns is the makespan of a
    feasible complete schedule, so the filtered optimum is never below OPT *)
Theorem C08_search_sound :
  forall (I : instance) (fs : list fname) (fuel : nat) (w : world unit) (c : Z), positive I ->
    Inv I (core w) -> best_makespan fs fuel I w = Some c ->
    exists d', Inv I d' /\ complete I (sched d') /\ makespan I (sched d') = c.
Proof. intros I fs fuel w c Hp. exact (search_sound I Hp fs fuel w c). Qed.
Print Assumptions C08_search_sound.

(** Non-vacuity: a flexible instance where the filter really prunes (the
    filtered search visits fewer histories) and both searches agree. *)
Definition ex_I : instance :=
  [[mkop [0%nat; 1%nat] 3; mkop [1%nat] 2]; [mkop [1%nat] 4; mkop [0%nat; 1%nat] 1]; [mkop [0%nat] 2; mkop [1%nat] 2]].
Example C08_nonvacuous :
  positiveb ex_I = true /\ opt_filtered ex_I = opt_unfiltered ex_I /\ opt_filtered ex_I = Some 8.
Proof. vm_compute. repeat split; reflexivity. Qed.
