(** C17b — C17 for the documented two-step life cycle with a LATE subscription.
    Statements only. Model: [Residual.rgu_update_detached] (model/Residual.v);
    proofs: proofs/ResidualLate.v on top of proofs/ResidualProofs.v.

      updater = ResidualGraphUpdater(dispatcher, graph, subscribe=False,
                                     remove_completed_machine_nodes=rm_m,
                                     remove_completed_job_nodes=rm_j)    # fresh dispatcher
      ... requests rs1 ...                # the updater is not notified
      dispatcher.subscribe(updater)       # appended after its helper observers
      ... requests rs2 ...                # everything is notified

    The constructor still creates-or-gets and SUBSCRIBES the
    IsCompletedObserver (and what that one depends on); only the updater
    itself is not in the subscriber list during [rs1]. A request of [rs1] is
    [dispatch rgu_update_detached] (the dependencies are updated, the graph is
    not touched), a request of [rs2] is [dispatch rgu_update].
    [c17_late_run .. rs1 rs2 = rg_world fs d u]: afterwards the dispatcher is
    in state [d] and the updater in state [u]. [rs1], [rs2]: ANY request lists
    (accepted and rejected requests, any machine choices, any lengths);
    [rs2 = []] is a point of the detached phase. Scope, builders [b], [fs],
    [ps], [rm_m], [rm_j] as in C17.v.

    [accepted_sops I d rs <> []] says that some request of [rs], issued from
    dispatcher state [d], is accepted ([C17_late_accepted_means]). *)
From JSL Require Import Base Instance Dstate Filters World Observers Graph Feasible Derived GraphSpec
  GraphSpecFacts Run Replay Residual ResidualSpec ResidualGraph ResidualObs ResidualProofs ResidualLate.

(** ** The helper observers do not notice whether the updater is attached *)

(** the dispatcher and everything of the updater except its graph — the
    subscribers it depends on, the position of its IsCompletedObserver, its
    options, its initial graph — are as after the ordinary run (updater
    subscribed from the start) on [rs1 ++ rs2]; any graph [g0] *)
Theorem C17_late_dependencies_unaffected :
  forall I fs ps rm_m rm_j g0 rs1 rs2,
    exists d u u',
      c17_late_run I fs ps rm_m rm_j g0 rs1 rs2 = rg_world fs d u /\
      c17_run I fs ps rm_m rm_j g0 (rs1 ++ rs2) = rg_world fs d u' /\
      d = fold_left (apply_req I) (rs1 ++ rs2) (init_d I) /\
      u_deps u = u_deps u' /\ u_ic u = u_ic u' /\ u_rm_m u = u_rm_m u' /\ u_rm_j u = u_rm_j u' /\
      u_init u = u_init u'.
Proof. exact f_late_deps. Qed.
Print Assumptions C17_late_dependencies_unaffected.

(** ** While detached the graph is the graph it was built with *)
Theorem C17_late_graph_untouched_while_detached :
  forall I fs ps rm_m rm_j g0 rs1,
    exists d u, c17_late_run I fs ps rm_m rm_j g0 rs1 [] = rg_world fs d u /\
                d = fold_left (apply_req I) rs1 (init_d I) /\
                u_graph u = u_graph (rgu_fresh I ps rm_m rm_j g0) /\ u_graph u = g0.
Proof. exact f_late_untouched. Qed.
Print Assumptions C17_late_graph_untouched_while_detached.

(** ** The clauses that hold at every point, attached or not *)

Theorem C17_late_unscheduled_kept :
  forall I b g0, scope17 I b -> build_by_code b I = Some g0 ->
  forall fs ps rm_m rm_j rs1 rs2,
    exists d u, c17_late_run I fs ps rm_m rm_j g0 rs1 rs2 = rg_world fs d u /\
                d = fold_left (apply_req I) (rs1 ++ rs2) (init_d I) /\
                unscheduled_kept I (u_graph u) d.
Proof. exact f_late_unscheduled_kept. Qed.
Print Assumptions C17_late_unscheduled_kept.

Theorem C17_late_group_nodes :
  forall I b g0, scope17 I b -> build_by_code b I = Some g0 ->
  forall fs ps rm_m rm_j rs1 rs2,
    exists d u, c17_late_run I fs ps rm_m rm_j g0 rs1 rs2 = rg_world fs d u /\
                d = fold_left (apply_req I) (rs1 ++ rs2) (init_d I) /\
                group_nodes I (u_graph u) d.
Proof. exact f_late_group_nodes. Qed.
Print Assumptions C17_late_group_nodes.

Theorem C17_late_no_dangling_edges :
  forall I b g0, scope17 I b -> build_by_code b I = Some g0 ->
  forall fs ps rm_m rm_j rs1 rs2,
    exists d u, c17_late_run I fs ps rm_m rm_j g0 rs1 rs2 = rg_world fs d u /\
                d = fold_left (apply_req I) (rs1 ++ rs2) (init_d I) /\
                no_dangling (u_graph u).
Proof. exact f_late_no_dangling. Qed.
Print Assumptions C17_late_no_dangling_edges.

(** removed(point) is contained in removed(later point): point 1 is any point
    of the detached phase, point 2 any later point (still detached when
    [rs2 = []], attached otherwise), point 3 any point after point 2 *)
Theorem C17_late_monotone :
  forall I b g0, scope17 I b -> build_by_code b I = Some g0 ->
  forall fs ps rm_m rm_j rs1 rs1' rs2 rs2',
    exists d1 u1 d2 u2 d3 u3,
      c17_late_run I fs ps rm_m rm_j g0 rs1 [] = rg_world fs d1 u1 /\
      c17_late_run I fs ps rm_m rm_j g0 (rs1 ++ rs1') rs2 = rg_world fs d2 u2 /\
      c17_late_run I fs ps rm_m rm_j g0 (rs1 ++ rs1') (rs2 ++ rs2') = rg_world fs d3 u3 /\
      monotone (g_removed (u_graph u1)) (g_removed (u_graph u2)) /\
      monotone (g_removed (u_graph u2)) (g_removed (u_graph u3)).
Proof. exact f_late_monotone. Qed.
Print Assumptions C17_late_monotone.

(** ** Once an accepted request has been notified to the attached updater *)

(** [update] removes the nodes of ALL completed operations, so the first
    notified update catches up on the whole detached phase *)
Theorem C17_late_completed_removed :
  forall I b g0, scope17 I b -> build_by_code b I = Some g0 ->
  forall fs ps rm_m rm_j rs1 rs2,
    exists d u, c17_late_run I fs ps rm_m rm_j g0 rs1 rs2 = rg_world fs d u /\
                d = fold_left (apply_req I) (rs1 ++ rs2) (init_d I) /\
                (accepted_sops I (fold_left (apply_req I) rs1 (init_d I)) rs2 <> [] ->
                 completed_removed I fs (u_graph u) d).
Proof. exact f_late_completed_removed. Qed.
Print Assumptions C17_late_completed_removed.

Theorem C17_late_all_removed_at_end :
  forall I b g0, scope17 I b -> build_by_code b I = Some g0 ->
  forall fs ps rm_m rm_j rs1 rs2,
    rm_m = true -> rm_j = true -> every_machine_used I -> I <> [] ->
    exists d u, c17_late_run I fs ps rm_m rm_j g0 rs1 rs2 = rg_world fs d u /\
                d = fold_left (apply_req I) (rs1 ++ rs2) (init_d I) /\
                (accepted_sops I (fold_left (apply_req I) rs1 (init_d I)) rs2 <> [] ->
                 complete I (sched d) -> all_removed (u_graph u)).
Proof. exact f_late_all_removed. Qed.
Print Assumptions C17_late_all_removed_at_end.

(** what the premise of the last two theorems says: some request of the list
    is accepted in the state it meets; and [sop_of_request .. <> None] is the
    dispatcher's answer "accepted" *)
Theorem C17_late_accepted_means :
  (forall I rs d,
     accepted_sops I d rs <> [] <->
     exists pre r post, rs = pre ++ r :: post /\
                        sop_of_request I (fold_left (apply_req I) pre d) r <> None) /\
  (forall I fs d u r,
     accepts rgu rgu_update I (rg_world fs d u) r = true <-> sop_of_request I d r <> None).
Proof.
  split; [exact accepted_sops_nonempty|].
  intros I fs d u r. exact (accepts_iff_sop rgu rgu_update I (rg_world fs d u) r).
Qed.
Print Assumptions C17_late_accepted_means.

(** ** Non-vacuity *)

(** two jobs, two machines; operation ids 0 = (0,0) on machine 0, 1 = (0,1)
    on machine 1, 2 = (1,0) on machine 1; agent-task graph: nodes 0..2 the
    operations, 3 = machine 0, 4 = machine 1 *)
Definition exb_I : instance := [[mkop [0%nat] 2; mkop [1%nat] 3]; [mkop [1%nat] 1]].

Lemma exb_scope b : scope17 exb_I b.
Proof.
  apply scope17_positive; [apply positiveb_positive; reflexivity|apply nonempty_jobsb_spec; reflexivity|].
  intros _. apply nodup_machinesb_spec. reflexivity.
Qed.

(** removed flags, and the oracle's [completed_removed], after the late run *)
Definition exb_late (b : nat) (rs1 rs2 : list request) : option (list bool * bool) :=
  match build_by_code b exb_I with
  | Some g0 => let w := c17_late_run exb_I [] [] true true g0 rs1 rs2 in
               match objs w with
               | u :: _ => Some (g_removed (u_graph u), completed_removedb exb_I [] (u_graph u) (core w))
               | [] => None
               end
  | None => None
  end.

Definition exb_r00 := mkreq 0 0 None.
Definition exb_r10 := mkreq 1 0 None.
Definition exb_r01 := mkreq 0 1 None.

Example C17_late_nonvacuous :
  every_machine_usedb exb_I = true /\
  (* detached: operation (0,0) — the only operation of machine 0 — is dispatched, nothing is removed *)
  exb_late 1 [exb_r00] [] = Some ([false; false; false; false; false], true) /\
  (* the first attached request, (1,0) on machine 1: the update removes the nodes of both completed
     operations AND node 3, machine 0, all of whose operations were scheduled while detached *)
  accepted_sops exb_I (fold_left (apply_req exb_I) [exb_r00] (init_d exb_I)) [exb_r10] <> [] /\
  exb_late 1 [exb_r00] [exb_r10] = Some ([true; false; true; true; false], true) /\
  (* the same two requests with the updater attached from the start: same graph *)
  exb_late 1 [] [exb_r00; exb_r10] = Some ([true; false; true; true; false], true) /\
  (* why the premise of [C17_late_completed_removed] is needed: both requests while detached, then a
     REJECTED attached request: two operations are completed, their nodes are still there *)
  exb_late 1 [exb_r00; exb_r10] [] = Some ([false; false; false; false; false], false) /\
  exb_late 1 [exb_r00; exb_r10] [exb_r10] = Some ([false; false; false; false; false], false) /\
  accepted_sops exb_I (fold_left (apply_req exb_I) [exb_r00; exb_r10] (init_d exb_I)) [exb_r10] = [] /\
  (* the last operation, attached: everything is removed (also with job nodes and the global node) *)
  exb_late 1 [exb_r00; exb_r10] [exb_r01] = Some (repeat true 5, true) /\
  exb_late 3 [exb_r00; exb_r10] [exb_r10; exb_r01] = Some (repeat true 8, true).
Proof. vm_compute. repeat split; try reflexivity. discriminate. Qed.
