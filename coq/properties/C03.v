(** C03 — the CP-SAT solver returns feasible, truly optimal schedules.
    Statements only; proofs are in proofs/CpSatLemmas.v and proofs/CpSatProofs.v.

    [cp_encode I] is the CpModelProto built by [ORToolsSolver._initialize_model]
    (tied to the real [solver.model.Proto()] on every run); [sat] is the
    meaning we assume OR-tools gives to it (spec/CpSatSpec.v; checked on every
    answer of the real solver by the extracted [satb]); [reconstruct] is
    [_create_schedule] + [Schedule.check_schedule] with the REPAIRED sort key
    [(start_time, end_time)]. The CP-SAT search is not modelled: what it
    returns enters as hypotheses ("solver contract"), never as an axiom.

    Scope everywhere: durations >= 0 ([valid]), exactly one machine per
    operation ([nonflex]). *)
From JSL Require Import Base Instance Dstate Filters World Observers Feasible DispatchFun Inv Run
  CpSat CpSatSpec CpSatLemmas CpSatProofs CpSatDominance.
From Coq Require Import Lia.

(** Every satisfying assignment that the rebuild accepts is a feasible,
    complete schedule whose makespan is the value of the makespan variable
    (which [solve] reports as metadata). *)
Theorem C03_sound :
  forall (I : instance) (sigma : assignment) (S : schedule),
    valid I -> nonflex I -> sat sigma (cp_encode I) -> reconstruct I sigma = inl S ->
    feasible I S /\ complete I S /\ makespan I S = sigma (mkvar I).
Proof. exact cp_sound. Qed.
Print Assumptions C03_sound.

(** With the repaired key the rebuild accepts EVERY satisfying assignment:
    [solve] cannot raise ValidationError on a solver answer. *)
Theorem C03_reconstruct_total :
  forall (I : instance) (sigma : assignment),
    valid I -> nonflex I -> sat sigma (cp_encode I) -> exists S, reconstruct I sigma = inl S.
Proof. exact cp_reconstruct_total. Qed.
Print Assumptions C03_reconstruct_total.

(** The same claim is FALSE for the unrepaired key [start_time]: a
    zero-duration operation that starts together with a longer one on the same
    machine and comes later in job-major order is left behind it. (This is
    what /repo does before the repair; found by the check, see the replay.) *)
Definition refute_I : instance := [[mkop [0%nat] 2]; [mkop [0%nat] 0]].
Definition refute_sigma : assignment := fun v => nthZ [0; 2; 0; 0; 2] v.
Theorem C03_reconstruct_total_start_only_refuted :
  exists (I : instance) (sigma : assignment),
    valid I /\ nonflex I /\ sat sigma (cp_encode I) /\
    reconstruct_gen KeyStart I (all_keys I) sigma = inr CpValidation /\
    (exists S, reconstruct I sigma = inl S).
Proof.
  exists refute_I, refute_sigma. split; [|split; [|split; [|split]]].
  - apply validb_valid. vm_compute. reflexivity.
  - apply nonflexb_spec. vm_compute. reflexivity.
  - apply satb_spec. vm_compute. reflexivity.
  - vm_compute. reflexivity.
  - eexists. vm_compute. reflexivity.
Qed.
Print Assumptions C03_reconstruct_total_start_only_refuted.

(** Nothing feasible is lost by the encoding: every feasible complete schedule
    whose makespan is within the horizon [total_duration] is a satisfying
    assignment with that makespan as objective value. *)
Theorem C03_complete :
  forall (I : instance) (S : schedule),
    valid I -> nonflex I ->
    feasible I S -> complete I S -> makespan I S <= total_duration I ->
    sat (sigma_of I S) (cp_encode I) /\ objective (sigma_of I S) (cp_encode I) = makespan I S.
Proof. exact cp_complete. Qed.
Print Assumptions C03_complete.

(** The constraint set always has a solution, so INFEASIBLE is impossible and
    [NoSolutionFoundError] can only come from a limit that stopped the search.
    This holds for an instance without any operation too: [_set_objective]
    emits [AddMaxEquality] only when there is an end time. (The check had
    found that the library emitted the maximum over no expression, which is
    unsatisfiable, so that [solve] raised NoSolutionFoundError on
    [JobShopInstance([[]])]; the defect was repaired in the library and the
    model follows the repaired code.) *)
Theorem C03_satisfiable :
  forall I : instance, valid I -> nonflex I -> exists sigma, sat sigma (cp_encode I).
Proof. intros I Hv Hnf. exists (sigma_seq I). apply cp_satisfiable; assumption. Qed.
Print Assumptions C03_satisfiable.

(** The instance without operations is solved: for EVERY instance with
    [num_ops I = 0] (it is valid and non-flexible; [[[]]], [[]] and
    [[[]; []]] are such instances) the encoding is satisfiable; every
    satisfying assignment gives the makespan variable the value 0 and rebuilds
    into the schedule without machine rows ([schedule == []], since
    [num_machines = 0]), which is feasible and complete with makespan 0;
    with status OPTIMAL [solve] returns it with metadata ("optimal", 0); and
    0 is the optimum. *)
Theorem C03_solves_the_instance_without_operations :
  forall I : instance, num_ops I = 0%nat ->
    valid I /\ nonflex I /\
    (exists sigma, sat sigma (cp_encode I)) /\
    (forall sigma, sat sigma (cp_encode I) ->
       sigma (mkvar I) = 0 /\
       (exists S, reconstruct I sigma = inl S /\ S = [] /\
                  feasible I S /\ complete I S /\ makespan I S = 0) /\
       (forall prev, snd (solve I prev StOptimal sigma) = inl ([], (1, 0)))) /\
    is_opt I 0.
Proof.
  intros I Hn. destruct (cp_no_ops I Hn) as (Hsat & Hall & Hopt).
  split; [apply no_ops_valid; exact Hn|]. split; [apply no_ops_nonflex; exact Hn|].
  split; [exists (sigma_seq I); exact Hsat|]. split; [|exact Hopt].
  intros sigma Hs. destruct (Hall sigma Hs) as [Hmk HS].
  split; [exact Hmk|]. split; [exact HS|]. intros prev. apply solve_no_ops; assumption.
Qed.
Print Assumptions C03_solves_the_instance_without_operations.

(** The three instances of the repaired defect's regression test. *)
Theorem C03_solves_the_instance_without_operations_concrete :
  forall I : instance, In I [[[]]; []; [[]; []]] ->
    (exists sigma, sat sigma (cp_encode I)) /\
    (forall sigma, sat sigma (cp_encode I) ->
       exists S, reconstruct I sigma = inl S /\ feasible I S /\ complete I S /\ makespan I S = 0) /\
    is_opt I 0.
Proof.
  intros I HI.
  assert (Hn : num_ops I = 0%nat) by (destruct HI as [<-|[<-|[<-|[]]]]; reflexivity).
  destruct (C03_solves_the_instance_without_operations I Hn) as (_ & _ & Hsat & Hall & Hopt).
  split; [exact Hsat|]. split; [|exact Hopt].
  intros sigma Hs. destruct (Hall sigma Hs) as (_ & (S & HS & _ & Hf & Hc & Hmk) & _).
  exists S. auto.
Qed.
Print Assumptions C03_solves_the_instance_without_operations_concrete.

(** Lower bounds for EVERY feasible complete schedule (hence for whatever the
    solver returns, by [C03_sound]): the longest job and the most loaded machine. *)
Theorem C03_lower_bounds :
  forall (I : instance) (S : schedule), valid I -> nonflex I -> feasible I S -> complete I S ->
    (forall j, sumZ (map duration (get_job I j)) <= makespan I S) /\
    (forall m, machine_load I m <= makespan I S) /\
    lower_bound I <= makespan I S.
Proof.
  intros I S Hv Hnf Hf Hc. split; [|split].
  - intros j. apply job_length_bound; assumption.
  - intros m. apply machine_load_bound; assumption.
  - apply lower_bound_le; assumption.
Qed.
Print Assumptions C03_lower_bounds.

(** The horizon [total_duration] never cuts off the optimum. *)
Theorem C03_horizon :
  forall (I : instance) (c : Z), valid I -> nonflex I -> is_opt I c ->
    c <= total_duration I.
Proof. exact cp_horizon. Qed.
Print Assumptions C03_horizon.

(** ** Optimality, under the solver contract *)
Section SolverContract.
  Variable I : instance.
  Variable sigma : assignment.      (* the values CP-SAT returned *)
  Hypothesis instance_valid : valid I.
  Hypothesis instance_nonflex : nonflex I.
  (** contract 1 (re-checked by [satb] on every real answer): the returned
      values satisfy the constraint set; *)
  Hypothesis solver_sat : sat sigma (cp_encode I).
  (** contract 2 (status OPTIMAL): no satisfying assignment has a smaller objective. *)
  Hypothesis solver_optimal :
    forall tau, sat tau (cp_encode I) -> objective sigma (cp_encode I) <= objective tau (cp_encode I).

  (** [solve] returns a feasible complete schedule whose (reported) makespan
      is OPT(I): no feasible complete schedule of ANY makespan is shorter. *)
  Theorem C03_opt :
    exists S, reconstruct I sigma = inl S /\ feasible I S /\ complete I S /\
              makespan I S = sigma (mkvar I) /\ is_opt I (makespan I S).
  Proof. exact (cp_opt I sigma instance_valid instance_nonflex solver_sat solver_optimal). Qed.

  (** ... in particular never above the result of any dispatch history
      (every dispatching-rule solver), whatever the filters and machine choices; *)
  Theorem C03_never_above_dispatch_history :
    forall (fs : list fname) (rs : list request),
      count_accepted obs o_update I (init_w obs I fs) rs = num_ops I ->
      sigma (mkvar I) <= makespan I (sched (core (run_reqs obs o_update I fs rs))).
  Proof.
    intros fs rs Hn. destruct C03_opt as (S & _ & _ & _ & Hmk & [_ Hmin]). rewrite <- Hmk.
    destruct (dispatch_histories_feasible obs o_update I fs rs instance_valid) as [Hf Hc].
    apply Hmin; [exact Hf|apply Hc; exact Hn].
  Qed.

  (** ... and never below the lower bounds. *)
  Theorem C03_never_below_lower_bound : lower_bound I <= sigma (mkvar I).
  Proof.
    destruct C03_opt as (S & _ & Hf & Hc & Hmk & _). rewrite <- Hmk.
    apply lower_bound_le; assumption.
  Qed.
End SolverContract.
Print Assumptions C03_opt.
Print Assumptions C03_never_above_dispatch_history.
Print Assumptions C03_never_below_lower_bound.

(** ** [solve]: statuses, metadata, no memory *)

(** Status OPTIMAL / FEASIBLE with a satisfying assignment: a feasible complete
    schedule and metadata (status, makespan variable); any other status:
    NoSolutionFoundError — whatever state [prev] earlier calls left behind. *)
Theorem C03_solve_outcome :
  forall (I : instance) (prev : cpstate) (stat : status) (sigma : assignment),
    valid I -> nonflex I ->
    match stat with
    | StOptimal | StFeasible =>
        sat sigma (cp_encode I) ->
        exists S, snd (solve I prev stat sigma) =
                    inl (S, ((match stat with StOptimal => 1 | _ => 0 end), sigma (mkvar I))) /\
                  feasible I S /\ complete I S /\ makespan I S = sigma (mkvar I)
    | _ => snd (solve I prev stat sigma) = inr CpNoSolution
    end.
Proof. exact solve_outcome. Qed.
Print Assumptions C03_solve_outcome.

(** The result does not depend on what the same solver object solved before,
    and the model it holds afterwards is [cp_encode] of the LAST instance. *)
Theorem C03_no_memory :
  forall (I : instance) (prev : cpstate) (stat : status) (sigma : assignment),
    snd (solve I prev stat sigma) = snd (solve I fresh_state stat sigma) /\
    (nonflex I -> st_model (fst (solve I prev stat sigma)) = cp_encode I).
Proof.
  intros I prev stat sigma. destruct (solve_no_memory KeyStartEnd I prev stat sigma) as [H1 H2].
  split; [exact H1|]. intros Hnf. apply H2. apply nonflex_no_exn; exact Hnf.
Qed.
Print Assumptions C03_no_memory.

(** ** The oracles the harness applies to the implementation's output *)

Theorem C03_satb_is_sat :
  forall (sigma : assignment) (M : cpmodel), satb sigma M = true <-> sat sigma M.
Proof. exact satb_spec. Qed.
Print Assumptions C03_satb_is_sat.

(** The "independently computed optimum" of the harness: the brute force over
    ALL dispatch histories (every ready operation on every eligible machine)
    is OPT(I) — attained by a feasible complete schedule, and no feasible
    complete schedule of any kind is shorter (semi-active dominance, proved
    for flexible instances and zero durations too). *)
Theorem C03_opt_bf_correct :
  forall (I : instance) (c : Z), valid I -> (opt_bf I = Some c <-> is_opt I c).
Proof. exact opt_bf_correct. Qed.
Print Assumptions C03_opt_bf_correct.

(** Semi-active dominance (shared with C08): whatever feasible complete
    schedule [S] is given, some dispatch history ends in a feasible complete
    schedule that is not longer. *)
Theorem C03_semi_active_dominates :
  forall (I : instance) (S : schedule), valid I -> feasible I S -> complete I S ->
    exists c, opt_bf I = Some c /\ c <= makespan I S /\
              exists S', feasible I S' /\ complete I S' /\ makespan I S' = c.
Proof. exact semi_active_dominates. Qed.
Print Assumptions C03_semi_active_dominates.

(** Hence, under the solver contract, the reported makespan IS [opt_bf I] —
    the comparison the harness makes on every tiny instance. *)
Theorem C03_optimal_is_opt_bf :
  forall (I : instance) (sigma : assignment),
    valid I -> nonflex I -> sat sigma (cp_encode I) ->
    (forall tau, sat tau (cp_encode I) -> objective sigma (cp_encode I) <= objective tau (cp_encode I)) ->
    opt_bf I = Some (sigma (mkvar I)).
Proof.
  intros I sigma Hv Hnf Hs Hm. destruct (cp_opt I sigma Hv Hnf Hs Hm) as (S & _ & _ & _ & Hmk & Ho).
  rewrite <- Hmk. apply opt_bf_correct; assumption.
Qed.
Print Assumptions C03_optimal_is_opt_bf.

(** ** Non-vacuity *)

(** A 3-job instance with recirculation, zero durations and an unused machine
    id; a satisfying assignment in which a zero-duration operation shares its
    start with a longer one on the same machine; its rebuild; the optimum. *)
Definition ex_I : instance :=
  [[mkop [0%nat] 2; mkop [2%nat] 0; mkop [0%nat] 1];
   [mkop [0%nat] 0; mkop [2%nat] 3];
   [mkop [2%nat] 0; mkop [0%nat] 0]].
Definition ex_sigma : assignment := fun v => nthZ [0; 2; 3; 3; 3; 4;  0; 0; 0; 3;  0; 0; 0; 0;  4] v.

Example C03_nonvacuous :
  validb ex_I = true /\ nonflexb ex_I = true /\ (0 <? num_ops ex_I)%nat = true /\
  satb ex_sigma (cp_encode ex_I) = true /\
  reconstruct ex_I ex_sigma =
    inl [[mksop 1 0 0 0; mksop 2 1 0 0; mksop 0 0 0 0; mksop 0 2 3 0]; [];
         [mksop 2 0 0 2; mksop 1 1 0 2; mksop 0 1 3 2]] /\
  reconstruct_gen KeyStart ex_I (all_keys ex_I) ex_sigma = inr CpValidation /\
  opt_bf ex_I = Some 4 /\ lower_bound ex_I = 3 /\ total_duration ex_I = 6 /\
  satb (sigma_seq ex_I) (cp_encode ex_I) = true.
Proof. vm_compute. repeat split; reflexivity. Qed.

(** The instances without operations: the model is the makespan variable with
    domain [0, 0], no constraint, the objective; the all-zero assignment
    satisfies it and rebuilds into the schedule without rows. *)
Example C03_without_operations_nonvacuous :
  cp_encode [[]] = mkcp [(0, 0)] [] (Some 0%nat) /\
  cp_encode [] = mkcp [(0, 0)] [] (Some 0%nat) /\
  cp_encode [[]; []] = mkcp [(0, 0)] [] (Some 0%nat) /\
  satb (fun _ => 0) (cp_encode [[]]) = true /\ satb (fun _ => 1) (cp_encode [[]]) = false /\
  reconstruct [[]] (fun _ => 0) = inl [] /\
  snd (solve [[]] fresh_state StOptimal (fun _ => 0)) = inl ([], (1, 0)) /\
  opt_bf [[]] = Some 0 /\ opt_bf [] = Some 0 /\ opt_bf [[]; []] = Some 0.
Proof. vm_compute. repeat split; reflexivity. Qed.

(** The feasible complete schedule of the example, read back as an assignment
    ([C03_complete]'s hypotheses are satisfiable). *)
Example C03_complete_nonvacuous :
  let S := [[mksop 1 0 0 0; mksop 2 1 0 0; mksop 0 0 0 0; mksop 0 2 3 0]; [];
            [mksop 2 0 0 2; mksop 1 1 0 2; mksop 0 1 3 2]] in
  feasibleb ex_I S = true /\ completeb ex_I S = true /\ makespan ex_I S = 4 /\
  satb (sigma_of ex_I S) (cp_encode ex_I) = true /\ objective (sigma_of ex_I S) (cp_encode ex_I) = 4.
Proof. vm_compute. repeat split; reflexivity. Qed.
