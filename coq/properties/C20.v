(** C20 — Gantt charts and animations show the schedule that was built.
    Statements only; proofs are in proofs/GanttProofs.v (and spec/GanttSpec.v
    for the agreement of the boolean oracles with the specification).

    Model: coq/model/Gantt.v. The read order of the frame files is modelled
    AFTER the repair /verif/.scratch/fix-C20-frame-order.diff (numeric sort
    key); the unrepaired string order is kept as [load_order_str] for the
    [_refuted] / [_partial] pair at the end. *)
From JSL Require Import Base Instance Dstate Filters World Observers Feasible DispatchFun Inv Run
     Gantt GanttSpec GanttProofs.
From Coq Require Import Permutation.

(** ** The static chart *)

(** Every [Schedule] object of the instance ([drawable] = what
    [Schedule.check_schedule] enforces + operations of the instance): the
    artists are, in row order, exactly the bars of the scheduled operations —
    one per operation. *)
Theorem C20_one_bar_per_operation :
  forall (I : instance) (S : schedule), drawable I S ->
    bars I S = map (bar_of I) (all_sops S).
Proof. exact bars_spec. Qed.
Print Assumptions C20_one_bar_per_operation.

Theorem C20_bars_bijection :
  forall (I : instance) (S : schedule), drawable I S -> chart_bars I S (bars I S).
Proof. exact bars_bijection. Qed.
Print Assumptions C20_bars_bijection.

(** No precondition at all: as many bars as scheduled operations. *)
Theorem C20_bar_count :
  forall (I : instance) (S : schedule), length (bars I S) = num_scheduled S.
Proof. exact bars_count. Qed.
Print Assumptions C20_bar_count.

(** What "the bar of an operation" is: x = start, x + width = end, y = the
    band of its machine, colour entry = its job. *)
Theorem C20_bar_geometry :
  forall (I : instance) (x : sop),
    b_x (bar_of I x) = s_start x /\
    b_x (bar_of I x) + b_w (bar_of I x) = s_end I x /\
    b_y (bar_of I x) = 1 + 10 * Z.of_nat (s_mach x) /\
    b_h (bar_of I x) = 9 /\
    b_col (bar_of I x) = Z.of_nat (s_job x).
Proof. exact bar_of_geometry. Qed.
Print Assumptions C20_bar_geometry.

(** [cmap(norm(job_id))] selects colour entry [job_id]: distinct jobs get
    distinct entries of the colour table. *)
Theorem C20_colour_of_job :
  forall (njobs j : Z), 0 <= j < njobs -> colour_index njobs j = j.
Proof. exact colour_index_id. Qed.
Print Assumptions C20_colour_of_job.

(** The legend lists exactly the jobs that have a bar, ascending, each with
    the colour entry of its bars. *)
Theorem C20_legend_consistent :
  forall (I : instance) (S : schedule), jobs_in_range I S -> legend_ok S (legend_entries I S).
Proof. exact legend_spec. Qed.
Print Assumptions C20_legend_consistent.

(** y axis: tick [m] (labelled with machine [m]) lies inside row [m]'s band;
    the limits contain every band. *)
Theorem C20_rows_labelled :
  forall (S : schedule), yaxis_ok (length S) (ylim S) (yticks S).
Proof. exact yaxis_spec. Qed.
Print Assumptions C20_rows_labelled.

(** x axis: the limit is the requested one, else THE makespan (largest end
    time of any scheduled operation), not merely the code's row-wise guess. *)
Theorem C20_axis_limit :
  forall (I : instance) (S : schedule) (req : option Z), valid I -> rows_sorted I S ->
    xlim_ok I S req (xlim_of I S req).
Proof. exact xlim_spec. Qed.
Print Assumptions C20_axis_limit.

(** x ticks, for EVERY limit >= 0 and EVERY requested tick count >= 1: the
    statements never raise; the list is the multiples of the interval that
    are strictly below the last multiple, followed by the limit itself … *)
Theorem C20_ticks_closed_form :
  forall (xlim nt : Z), 0 <= xlim -> 1 <= nt ->
    let ti := Z.max 1 (xlim / nt) in
    xticks xlim nt = Some (map (fun i => Z.of_nat i * ti) (seq 0 (Z.to_nat (xlim / ti))) ++ [xlim]).
Proof. exact xticks_closed. Qed.
Print Assumptions C20_ticks_closed_form.

(** … hence it starts at 0, increases strictly and its last tick is the limit. *)
Theorem C20_last_tick_is_limit :
  forall (xlim nt : Z) (ticks : list Z), 0 <= xlim -> 1 <= nt ->
    xticks xlim nt = Some ticks -> xaxis_ok xlim ticks.
Proof. exact xaxis_spec. Qed.
Print Assumptions C20_last_tick_is_limit.

(** All of it at once, for any drawable schedule … *)
Theorem C20_chart :
  forall (I : instance) (S : schedule) (req : option Z) (nt : Z),
    valid I -> drawable I S -> 1 <= nt ->
    match req with Some r => 0 <= r | None => True end ->
    chart_shows I S req (plot_gantt_chart I S req nt).
Proof. exact chart_correct. Qed.
Print Assumptions C20_chart.

(** … in particular for whatever a dispatcher has built after ANY request
    list (complete or partial schedule, any filter, any machine choice). *)
Theorem C20_chart_of_dispatched_schedule :
  forall (I : instance) (fs : list fname) (rs : list request) (req : option Z) (nt : Z),
    valid I -> 1 <= nt -> match req with Some r => 0 <= r | None => True end ->
    chart_shows I (sched (core (run_reqs obs o_update I fs rs))) req
                (plot_gantt_chart I (sched (core (run_reqs obs o_update I fs rs))) req nt).
Proof. exact (chart_of_run obs o_update). Qed.
Print Assumptions C20_chart_of_dispatched_schedule.

(** ** Animations *)

(** [{k:02d}] pads and never truncates: parsing the name gives the number
    back, so different frames are different files. *)
Theorem C20_frame_number_round_trip :
  forall k : nat, frame_number (frame_name k) = Some k.
Proof. exact frame_number_name. Qed.
Print Assumptions C20_frame_number_round_trip.

Theorem C20_frame_names_distinct :
  forall k k' : nat, frame_name k = frame_name k' -> k = k'.
Proof. exact frame_name_inj. Qed.
Print Assumptions C20_frame_names_distinct.

(** Frame order (repaired [_load_images]): FOR EVERY n, whatever order
    [os.listdir] answers in, the files are opened in the order 1..n. *)
Theorem C20_frame_order :
  forall (n : nat) (listing : list name),
    Permutation listing (map frame_name (seq 1 n)) ->
    load_order listing = Some (map frame_name (seq 1 n)).
Proof. exact load_order_frames. Qed.
Print Assumptions C20_frame_order.

(** The files: for every history recorded by a [HistoryObserver] (any
    instance, any filter, any request list — rejected requests included), the
    replay raises nothing, writes exactly the files 1..n, and file [k] holds
    the plot of [history[:k]] (start times as recorded). *)
Theorem C20_frame_k_shows_first_k :
  forall (I : instance) (fs : list fname) (rs : list request),
    recorded I fs rs <> [] ->
    Permutation (dir_names (fst (create_gantt_chart_frames I (recorded I fs rs))))
                (map frame_name (seq 1 (length (recorded I fs rs)))) /\
    forall k, (1 <= k <= length (recorded I fs rs))%nat ->
      option_map f_sched (dir_lookup (fst (create_gantt_chart_frames I (recorded I fs rs))) (frame_name k))
      = Some (sched_of_history I (firstn k (recorded I fs rs))).
Proof. exact frame_files_of_recorded. Qed.
Print Assumptions C20_frame_k_shows_first_k.

(** End to end: the pictures handed to imageio, in order, are the plots of
    history[:1], history[:2], …, history[:n], each with the final makespan as
    x limit — for histories of ANY length and any directory listing order. *)
Theorem C20_animation_shows_history :
  forall (I : instance) (fs : list fname) (rs : list request) (listing : list name),
    valid I -> recorded I fs rs <> [] ->
    Permutation listing (dir_names (fst (create_gantt_chart_frames I (recorded I fs rs)))) ->
    snd (create_gantt_chart_frames I (recorded I fs rs)) = None /\
    load_images (fst (create_gantt_chart_frames I (recorded I fs rs))) listing =
    Some (map Some (frames_expected I (recorded I fs rs))).
Proof. exact frames_of_recorded. Qed.
Print Assumptions C20_animation_shows_history.

(** ** The unrepaired read order ([sorted(os.listdir(...))], strings)

    Full statement, FALSE of the unchanged code:
      forall n listing, Permutation listing (map frame_name (seq 1 n)) ->
        load_order_str listing = map frame_name (seq 1 n). *)
Theorem C20_frame_order_string_sort_refuted :
  exists listing : list name,
    Permutation listing (map frame_name (seq 1 100)) /\
    nth 10 (load_order_str listing) [] = frame_name 100 /\
    load_order_str listing <> map frame_name (seq 1 100).
Proof. exact string_order_scrambles_100. Qed.
Print Assumptions C20_frame_order_string_sort_refuted.

(** The strongest true restriction: fewer than 100 frames (all names have the
    same width). Missing part: every n >= 100 — which is what the repair and
    [C20_frame_order] supply. *)
Theorem C20_frame_order_string_sort_partial :
  forall (n : nat) (listing : list name), (n < 100)%nat ->
    Permutation listing (map frame_name (seq 1 n)) ->
    load_order_str listing = map frame_name (seq 1 n).
Proof. exact load_order_str_below_100. Qed.
Print Assumptions C20_frame_order_string_sort_partial.

(** ** The oracles applied to the implementation's artists are the specification *)
Theorem C20_oracle_bars :
  forall I S B, chart_barsb I S B = true <-> chart_bars I S B.
Proof. exact chart_barsb_spec. Qed.
Print Assumptions C20_oracle_bars.
Theorem C20_oracle_legend : forall S L, legend_okb S L = true <-> legend_ok S L.
Proof. exact legend_okb_spec. Qed.
Print Assumptions C20_oracle_legend.
Theorem C20_oracle_xaxis : forall xlim ticks, xaxis_okb xlim ticks = true <-> xaxis_ok xlim ticks.
Proof. exact xaxis_okb_spec. Qed.
Print Assumptions C20_oracle_xaxis.
Theorem C20_oracle_xlim : forall I S req xl, xlim_okb I S req xl = true <-> xlim_ok I S req xl.
Proof. exact xlim_okb_spec. Qed.
Print Assumptions C20_oracle_xlim.
Theorem C20_oracle_yaxis : forall M yl yt, yaxis_okb M yl yt = true <-> yaxis_ok M yl yt.
Proof. exact yaxis_okb_spec. Qed.
Print Assumptions C20_oracle_yaxis.
Theorem C20_oracle_drawable : forall I S, drawableb I S = true <-> drawable I S.
Proof. exact drawableb_spec. Qed.
Print Assumptions C20_oracle_drawable.

(** ** Non-vacuity *)

(** A flexible instance with a zero duration, recirculation and an unused
    machine id (2); a complete schedule on it. *)
Definition ex_I : instance :=
  [[mkop [0%nat; 1%nat] 3; mkop [1%nat] 0; mkop [0%nat] 2]; [mkop [1%nat] 4; mkop [3%nat; 0%nat] 1]].
Definition ex_S : schedule :=
  [[mksop 0 2 7 0]; [mksop 0 0 0 1; mksop 1 0 3 1; mksop 0 1 7 1]; []; [mksop 1 1 7 3]].
Example C20_chart_nonvacuous :
  validb ex_I = true /\ drawableb ex_I ex_S = true /\
  plot_gantt_chart ex_I ex_S None 4 =
    mkchart [mkbar 1 7 2 9 0; mkbar 11 0 3 9 0; mkbar 11 3 4 9 1; mkbar 11 7 0 9 0; mkbar 31 7 1 9 1]
            [(0%nat, 0); (1%nat, 1)] (0, 41) [6; 16; 26; 36] 9 (Some [0; 2; 4; 6; 9]) /\
  xticks 100 15 = Some [0; 6; 12; 18; 24; 30; 36; 42; 48; 54; 60; 66; 72; 78; 84; 90; 100].
Proof. vm_compute. repeat split; reflexivity. Qed.

(** A request list with rejected requests; its recorded history has five
    entries, is replayed into five files and read back in order from a
    shuffled listing. *)
Definition ex_rs : list request :=
  [mkreq 0 0 (Some 1); mkreq 0 2 None; mkreq 1 0 None; mkreq 0 1 None; mkreq 1 1 (Some 5);
   mkreq 1 1 (Some 3); mkreq 0 2 (Some 0)].
Example C20_animation_nonvacuous :
  recorded ex_I [] ex_rs =
    [mksop 0 0 0 1; mksop 1 0 3 1; mksop 0 1 7 1; mksop 1 1 7 3; mksop 0 2 7 0] /\
  sched_of_history ex_I (recorded ex_I [] ex_rs) = ex_S /\
  load_images (fst (create_gantt_chart_frames ex_I (recorded ex_I [] ex_rs)))
              (map frame_name [3; 1; 5; 2; 4]%nat) =
    Some (map Some (frames_expected ex_I (recorded ex_I [] ex_rs))) /\
  nth 2 (frames_expected ex_I (recorded ex_I [] ex_rs)) (mkframe [] 0) =
    mkframe [[]; [mksop 0 0 0 1; mksop 1 0 3 1; mksop 0 1 7 1]; []; []] 9.
Proof. vm_compute. repeat split; reflexivity. Qed.

(** The repaired order on 120 frames listed backwards, and the same listing
    under the unrepaired order. *)
Example C20_frame_order_nonvacuous :
  load_order (rev (map frame_name (seq 1 120))) = Some (map frame_name (seq 1 120)) /\
  map frame_key (firstn 13 (load_order_str (rev (map frame_name (seq 1 120))))) =
    [1; 2; 3; 4; 5; 6; 7; 8; 9; 10; 100; 101; 102]%nat.
Proof. vm_compute. split; reflexivity. Qed.
