(** C04 — dispatching-rule solvers always finish and follow their rule.
    Statements only; proofs in proofs/RulesProofs.v, SolverProofs.v,
    MwkrAgree.v, TieBreakM.v (which use C01 [Inv], C05 [Queries] and C07
    [NoDeadlock]).

    Model of the REPAIRED code (three C04 repairs): the tie-breaker maximises
    over the candidates' scores, [DurationObserver] initialises its job feature
    from the unscheduled operations, [elapsed_time = now - start]. *)
From JSL Require Import Base Instance Dstate Filters World Feasible Derived DispatchFun Inv Run Replay Queries
     Sublist NoDeadlock RuleObservers Rules RulesSpec RulesProofs SolverProofs MwkrAgree TieBreakM.
From Coq Require Import Lia Strings.Ascii Strings.String.

(** ** Termination *)

(** Every valid instance (durations >= 0, every operation has an eligible
    machine; flexible, irregular, empty jobs, zero durations), every built-in
    rule [r], machine chooser [c], filter composition [fs] (the empty one, each
    single filter, every list of filters, the solver's default
    [default_filters]) and every oracle stream [orc] of random draws: the loop
    on fuel N = number of operations performs exactly N steps, never raises,
    never runs out of fuel, and returns a feasible complete schedule. *)
Theorem C04_terminates :
  forall (I : instance) (r : rule) (c : chooser) (fs : list fname) (orc : nat -> nat * nat),
    valid I -> has_machines I ->
    exists w', solve I r c fs orc = (w', Done (num_ops I)) /\
               feasible I (sched (core w')) /\ complete I (sched (core w')).
Proof.
  intros I r c fs orc Hv Hm. destruct (solve_terminates I Hv Hm r c fs orc) as (w' & E & _ & Hf & Hc).
  exists w'. auto.
Qed.
Print Assumptions C04_terminates.

(** [solve(instance, dispatcher)] with a dispatcher handed in mid-history, and
    any rule program that is sound in the sense of [rule_sound] (it returns an
    available operation whenever there is one): the loop needs exactly as many
    steps as operations are left. *)
Theorem C04_terminates_mid_history :
  forall (I : instance) (r : rule) (c : chooser) (orc : nat -> nat * nat) (fuel t : nat) (w : rwld),
    valid I -> has_machines I -> Inv I (core w) -> wok robs I w ->
    (num_ops I - sumN (jnext (core w)) <= fuel)%nat ->
    exists w', solve_loop I (run_rule I r) c orc fuel t w =
                 (w', Done (t + (num_ops I - sumN (jnext (core w))))) /\
               feasible I (sched (core w')) /\ complete I (sched (core w')).
Proof.
  intros I r c orc fuel t w Hv Hm Hi Hw Hf.
  destruct (solve_loop_terminates I Hv Hm (fun _ => True) (fun _ _ _ _ _ _ _ => Logic.I) (run_rule I r) c orc
              (fun draw => builtin_rule_sound I r draw) fuel t w Hi Hw Logic.I Hf) as (w' & E & Hi' & _ & _ & Hc).
  exists w'. split; [exact E|]. split; [apply Inv_feasible; exact Hi'|apply (is_complete_spec _ _ Hi'); exact Hc].
Qed.
Print Assumptions C04_terminates_mid_history.

(** The solver run with the observer-based most-work-remaining rule
    ([score_based_rule(MostWorkRemainingScorer())]; the scorer is object 0). *)
Theorem C04_terminates_observer_rule :
  forall (I : instance) (c : chooser) (fs : list fname) (orc : nat -> nat * nat),
    valid I -> has_machines I ->
    exists w', solve_loop I (fun _ => rule_mwkr_obs I 0) c orc (num_ops I) 0
                          (fst (new_scorer (init_w robs I fs))) = (w', Done (num_ops I)) /\
               feasible I (sched (core w')) /\ complete I (sched (core w')).
Proof. intros I c fs orc Hv Hm. exact (solve_obs_terminates I Hv Hm c fs orc). Qed.
Print Assumptions C04_terminates_observer_rule.

(** ** The rules follow their documented criterion *)

(** [w] ranges over every world reachable by an event list [evs]: dispatch
    requests (accepted or rejected, any machine), resets, creation of scorers
    and feature observers, invocations of rules and scorers — hence every state
    a solver run goes through. *)

(** a rule raises exactly when nothing is available; otherwise it returns one
    of the available operations (random rule included: any draw) *)
Theorem C04_rule_selects :
  forall (I : instance) (fs : list fname) (evs : list (rev)) (r : rule) (draw : nat),
    valid I -> has_machines I ->
    let w := reach I fs evs in
    (available I (core w) (filt w) <> [] ->
       exists k, snd (run_rule I r draw w) = inl k /\ In k (available I (core w) (filt w))) /\
    (available I (core w) (filt w) = [] -> exists e, snd (run_rule I r draw w) = inr e).
Proof.
  intros I fs evs r draw Hv Hm w. pose proof (reach_RI I Hv Hm fs evs) as Hri. fold w in Hri.
  destruct (run_rule_yields I r draw w (ri_wok _ _ Hri)) as (w' & E & _). rewrite E. cbn [snd]. split.
  - apply rule_pure_selects.
  - intros Hnil. unfold rule_pure. rewrite Hnil. destruct r; simpl; eauto.
Qed.
Print Assumptions C04_rule_selects.

(** shortest processing time: available, and no available operation is shorter *)
Theorem C04_spt :
  forall (I : instance) (fs : list fname) (evs : list rev) (draw : nat) (k : nat * nat),
    valid I -> has_machines I ->
    let w := reach I fs evs in
    snd (run_rule I RSpt draw w) = inl k ->
    In k (available I (core w) (filt w)) /\
    forall k', In k' (available I (core w) (filt w)) -> kdur I k <= kdur I k'.
Proof.
  intros I fs evs draw k Hv Hm w H. destruct (rule_result I Hv Hm fs evs RSpt draw k H) as [E _].
  apply opt_sum_inl in E. exact (spt_of_best I _ _ k E).
Qed.
Print Assumptions C04_spt.

(** first come first served: lowest position in its job *)
Theorem C04_fcfs :
  forall (I : instance) (fs : list fname) (evs : list rev) (draw : nat) (k : nat * nat),
    valid I -> has_machines I ->
    let w := reach I fs evs in
    snd (run_rule I RFcfs draw w) = inl k ->
    In k (available I (core w) (filt w)) /\
    forall k', In k' (available I (core w) (filt w)) -> (snd k <= snd k')%nat.
Proof.
  intros I fs evs draw k Hv Hm w H. destruct (rule_result I Hv Hm fs evs RFcfs draw k H) as [E _].
  apply opt_sum_inl in E. destruct (fcfs_of_best I _ _ k E) as [H1 H2]. split; [exact H1|].
  intros k' Hk'. specialize (H2 k' Hk'). unfold fcfs_key in H2. lia.
Qed.
Print Assumptions C04_fcfs.

(** most work remaining: its job has the largest sum of durations of
    unscheduled operations *)
Theorem C04_mwkr :
  forall (I : instance) (fs : list fname) (evs : list rev) (draw : nat) (k : nat * nat),
    valid I -> has_machines I ->
    let w := reach I fs evs in
    snd (run_rule I RMwkr draw w) = inl k ->
    In k (available I (core w) (filt w)) /\
    forall k', In k' (available I (core w) (filt w)) ->
      remaining_work I (core w) (fst k') <= remaining_work I (core w) (fst k).
Proof.
  intros I fs evs draw k Hv Hm w H. destruct (rule_result I Hv Hm fs evs RMwkr draw k H) as [E Hj].
  apply opt_sum_inl in E. exact (mwkr_of_best I _ _ Hj k E).
Qed.
Print Assumptions C04_mwkr.

(** most operations remaining: its job has the largest number of operations
    that are not completed (unscheduled, or scheduled and still running at the
    current time — the code's [uncompleted_operations()]) *)
Theorem C04_mopnr :
  forall (I : instance) (fs : list fname) (evs : list rev) (draw : nat) (k : nat * nat),
    valid I -> has_machines I ->
    let w := reach I fs evs in
    snd (run_rule I RMopnr draw w) = inl k ->
    In k (available I (core w) (filt w)) /\
    forall k', In k' (available I (core w) (filt w)) ->
      remaining_ops I (filt w) (core w) (fst k') <= remaining_ops I (filt w) (core w) (fst k).
Proof.
  intros I fs evs draw k Hv Hm w H. destruct (rule_result I Hv Hm fs evs RMopnr draw k H) as [E Hj].
  apply opt_sum_inl in E. exact (mopnr_of_best I _ _ Hj k E).
Qed.
Print Assumptions C04_mopnr.

(** Python's [min]/[max]: the FIRST optimum in list order *)
Theorem C04_first_optimum :
  forall (f : nat * nat -> Z) (av : list (nat * nat)) (k : nat * nat),
    (py_min f av = Some k -> exists l1 l2, av = l1 ++ k :: l2 /\ forall x, In x l1 -> f k < f x) /\
    (py_max f av = Some k -> exists l1 l2, av = l1 ++ k :: l2 /\ forall x, In x l1 -> f x < f k).
Proof. intros f av k. split; [apply py_min_first|apply py_max_first]. Qed.
Print Assumptions C04_first_optimum.

(** the oracle applied to the implementation's selections is the specification *)
Theorem C04_oracle_is_spec :
  forall (I : instance) (fs : list fname) (d : dstate) (k : nat * nat),
    (rule_bestb I fs d 0 k = true <-> spt_best I fs d k) /\
    (rule_bestb I fs d 1 k = true <-> fcfs_best I fs d k) /\
    (rule_bestb I fs d 2 k = true <-> mwkr_best I fs d k) /\
    (rule_bestb I fs d 3 k = true <-> mopnr_best I fs d k) /\
    (forall vs av, lex_bestb vs av k = true <-> lex_best vs av k).
Proof.
  intros I fs d k. split; [apply min_byb_spec|]. split; [apply min_byb_spec|]. split; [apply max_byb_spec|].
  split; [apply max_byb_spec|]. intros vs av. apply lex_bestb_spec.
Qed.
Print Assumptions C04_oracle_is_spec.

(** ** Tie-breaking *)

(** The loop on ANY score vectors (scores are per job; an operation's score is
    its job's): from a non-empty candidate list it never raises and returns a
    candidate whose score vector is lexicographically maximal. *)
Theorem C04_tiebreak :
  forall (vs : list (list Z)) (cands : list (nat * nat)), cands <> [] ->
    exists k, tb_of vs cands = inl k /\ In k cands /\
              forall k', In k' cands -> lex_le (score_vec vs k') (score_vec vs k).
Proof. intros vs cands H. destruct (tb_of_lex_best vs cands H) as (k & E & Hin & Hl). eauto. Qed.
Print Assumptions C04_tiebreak.

(** The rule program composed from ANY list of the built-in scoring functions
    (SPT, FCFS, MOPNR scores, the observer-based MWKR scorer — first invoked
    here or earlier —, random scores under any draws, or any given vectors), in
    every reachable world with a non-empty available list: returns an available
    operation lexicographically best under the vectors those functions have in
    that state. *)
Theorem C04_tiebreak_rule :
  forall (I : instance) (fs : list fname) (evs : list rev) (sfs : list sfun),
    valid I -> has_machines I ->
    let w := reach I fs evs in
    (forall s, In s sfs -> sfun_ok w s) ->
    available I (core w) (filt w) <> [] ->
    exists k, snd (rule_tie_breaker I sfs w) = inl k /\
              lex_best (map (sfun_vec I (filt w) (core w)) sfs) (available I (core w) (filt w)) k.
Proof.
  intros I fs evs sfs Hv Hm w Hok Hne. pose proof (reach_RI I Hv Hm fs evs) as Hri. fold w in Hri.
  destruct (rule_tie_breaker_spec I sfs w Hri Hok) as (w' & E & _). rewrite E. cbn [snd].
  apply tb_of_lex_best. exact Hne.
Qed.
Print Assumptions C04_tiebreak_rule.

(** [score_based_rule(s)]: an available operation whose job has the largest score *)
Theorem C04_score_based_rule :
  forall (I : instance) (fs : list fname) (evs : list rev) (s : sfun) (k : nat * nat),
    valid I -> has_machines I ->
    let w := reach I fs evs in
    sfun_ok w s -> snd (rule_score_based I s w) = inl k ->
    max_by (score_at (sfun_vec I (filt w) (core w) s)) (available I (core w) (filt w)) k.
Proof.
  intros I fs evs s k Hv Hm w Hok H. pose proof (reach_RI I Hv Hm fs evs) as Hri. fold w in Hri.
  destruct (rule_score_based_spec I s w Hri Hok) as (w' & E & _). rewrite E in H. cbn [snd] in H.
  apply opt_sum_inl in H. apply py_max_spec in H. exact H.
Qed.
Print Assumptions C04_score_based_rule.

(** ** Direct and observer-based most-work-remaining rules agree *)

(** In EVERY reachable world — the scorer may be invoked for the first time
    mid-history, may find a DurationObserver somebody subscribed at any earlier
    moment, the dispatcher may have been reset — both rules return the same
    result (the same operation, or both raise because nothing is available). *)
Theorem C04_mwkr_agree :
  forall (I : instance) (fs : list fname) (evs : list rev) (si : nat) (a b : option nat) (draw : nat),
    valid I -> has_machines I ->
    let w := reach I fs evs in
    nth_error (objs w) si = Some (OScorer a b) ->
    snd (rule_mwkr_obs I si w) = snd (run_rule I RMwkr draw w).
Proof.
  intros I fs evs si a b draw Hv Hm w Hsi. apply (mwkr_rules_agree I Hv Hm w si a b draw); [|exact Hsi].
  apply reach_RI; assumption.
Qed.
Print Assumptions C04_mwkr_agree.

(** ** Metadata *)
Theorem C04_metadata :
  forall (I : instance) (r : rule) (c : chooser) (fs : list fname) (orc : nat -> nat * nat) (clock : nat -> Z),
    valid I -> has_machines I -> clock 0%nat <= clock 1%nat ->
    exists w' md, call I r c fs orc clock = (w', Done (num_ops I), Some md) /\
                  0 <= elapsed_time md /\ elapsed_time md = clock 1%nat - clock 0%nat /\
                  solved_by md = solver_class_name.
Proof.
  intros I r c fs orc clock Hv Hm Hc. destruct (call_metadata I Hv Hm r c fs orc clock Hc) as (w' & md & E & H1 & H2 & H3 & _).
  exists w', md. auto.
Qed.
Print Assumptions C04_metadata.

(** ** The three defects of the unrepaired code, exhibited *)

(** tie-breaker: [max(scores)] over ALL jobs. Jobs [3,2] and [4,1] on a 2x2
    instance, nothing scheduled, SPT score then MOPNR score: the SPT scores are
    [-3,-4], fine; after dispatching job 0's first operation the available
    operations are (0,1),(1,0) with SPT scores [-2,-4] ... the failing state is
    reached when one job is finished: its score stays 0 = max(scores), no
    candidate has it, the candidate list becomes empty, [candidates[0]] raises. *)
Example C04_tiebreak_unrepaired_raises :
  exists vs cands, cands <> [] /\ tb_unrepaired vs cands = inr EIndex /\
                   exists k, tb_of vs cands = inl k.
Proof. exists [[0; -3]], [(1, 0)%nat]. split; [discriminate|]. split; [reflexivity|]. eexists; reflexivity. Qed.

(** observer initialised from the TOTAL job durations (unrepaired): jobs
    [9,1] and [5,1], after dispatching the 9 the totals [10,6] rank job 0
    first, the remaining work [1,6] ranks job 1 first. *)
Definition ex_I2 : instance := [[mkop [0%nat] 9; mkop [1%nat] 1]; [mkop [1%nat] 5; mkop [0%nat] 1]].
Definition ex_d2 : dstate := core (fst (dispatch r_update ex_I2 (mkreq 0 0 (Some 0)) (init_w robs ex_I2 []))).
Example C04_unrepaired_observer_init_disagrees :
  job_durations ex_I2 = [10; 6] /\ job_work ex_I2 ex_d2 = [1; 6] /\
  score_based_of (job_durations ex_I2) (available ex_I2 ex_d2 []) = Some (0, 1)%nat /\
  mwkr_of ex_I2 (unscheduled_ops ex_I2 ex_d2) (available ex_I2 ex_d2 []) = Some (1, 0)%nat.
Proof. vm_compute. repeat split; reflexivity. Qed.

(** elapsed time as the unrepaired code computed it: [start - now <= 0] *)
Example C04_unrepaired_elapsed_nonpositive : forall t0 t1 : Z, t0 <= t1 -> t0 - t1 <= 0.
Proof. intros; lia. Qed.

(** ** Non-vacuity *)
Definition ex_I : instance :=
  [[mkop [0%nat; 1%nat] 3; mkop [1%nat] 0; mkop [0%nat] 2]; [mkop [1%nat] 4; mkop [1%nat; 0%nat] 1]; [mkop [0%nat] 3]].

Example C04_nonvacuous_solve :
  validb ex_I = true /\
  (let '(w, out) := solve ex_I RMwkr CFirst default_filters (fun _ => (0, 0)%nat) in
   out = Done 6 /\ feasibleb ex_I (sched (core w)) = true /\ completeb ex_I (sched (core w)) = true /\
   sched (core w) = [[mksop 0 0 0 0; mksop 2 0 3 0; mksop 0 2 6 0]; [mksop 0 1 3 1; mksop 1 0 3 1; mksop 1 1 7 1]]) /\
  (let '(w, out) := solve ex_I RRandom CRandom [FNonImmediateOps; FDominated] (fun t => (t * 7 + 3, t + 1)%nat) in
   out = Done 6 /\ feasibleb ex_I (sched (core w)) = true /\ completeb ex_I (sched (core w)) = true).
Proof. vm_compute. repeat split; reflexivity. Qed.

(** a scorer created at the start but FIRST INVOKED after two dispatches, a
    user's DurationObserver without the job feature in between, a reset later *)
Definition ex_evs : list rev :=
  [EvNewScorer; EvDispatch (mkreq 0 0 (Some 1)); EvNewObs RKDur false; EvDispatch (mkreq 1 0 None);
   EvObsRule 0; EvDispatch (mkreq 2 0 None); EvReset; EvDispatch (mkreq 1 0 None)].
Example C04_nonvacuous_agree :
  let w := reach ex_I [FNonIdleMachines] ex_evs in
  nth_error (objs w) 0 = Some (OScorer (Some 2%nat) (Some 3%nat)) /\
  snd (rule_mwkr_obs ex_I 0 w) = inl (0, 0)%nat /\ snd (run_rule ex_I RMwkr 0 w) = inl (0, 0)%nat /\
  nth_error (objs w) 2 = Some (ODur true [5; 1; 3]) /\
  snd (rule_tie_breaker ex_I [SSpt; SMwkrObs 0; SFcfs] w) = inl (1, 1)%nat /\
  map (sfun_vec ex_I (filt w) (core w)) [SSpt; SMwkrObs 0; SFcfs] = [[-3; -1; -3]; [5; 1; 3]; [0; 4; 5]].
Proof. vm_compute. repeat split; reflexivity. Qed.

Example C04_class_name_is_the_string :
  solver_class_name = map (fun c => Z.of_nat (Ascii.nat_of_ascii c)) (String.list_ascii_of_string "DispatchingRuleSolver"%string).
Proof. vm_compute. reflexivity. Qed.
