(** C12 — reset makes everything indistinguishable from new.
    Statements for the dispatcher and the observers of model/Observers.v
    (history, unscheduled operations, makespan / idle-time rewards); the
    feature observers and the residual graph updater are added by
    properties/C12b.v when their models (FeatureObservers.v, Residual.v) carry
    the repaired initialisation. Proofs in proofs/ResetFresh.v. *)
From JSL Require Import Base Instance Dstate Filters World Observers Feasible DispatchFun Run Replay Notify ResetFresh.

(** resetting an observer on the just-reset dispatcher gives the state its
    constructor gives on a new dispatcher *)
Theorem C12_observer_reset_is_fresh :
  forall (I : instance) (fs : list fname) (o : obs), plain_kind (kind_of o) = true ->
    o_reset I fs (init_d I) o = o_construct I (init_d I) (kind_of o).
Proof. exact observer_reset_is_fresh. Qed.
Print Assumptions C12_observer_reset_is_fresh.

(** [Dispatcher.reset] in ANY world (any history before, any cache content,
    any creation order of the observers - the subscriber list only has to be
    duplicate-free, which constructor-driven subscription guarantees, C10):
    dispatcher fields of a new dispatcher, empty cache, same filter and
    subscribers, every subscribed observer in its freshly-constructed state. *)
Theorem C12_reset_world_is_fresh :
  forall (I : instance) (w : wld), NoDup (subs w) ->
    let w' := fst (reset o_reset I w) in
    core w' = init_d I /\ wcache w' = empty_cache /\ filt w' = filt w /\ subs w' = subs w /\
    forall i o, In i (subs w) -> nth_error (objs w) i = Some o -> plain_kind (kind_of o) = true ->
                nth_error (objs w') i = Some (fresh_obj I o).
Proof. exact reset_world_is_fresh. Qed.
Print Assumptions C12_reset_world_is_fresh.

(** every episode after a reset evolves the dispatcher exactly like a new one *)
Theorem C12_episodes_after_reset_coincide :
  forall (I : instance) (w : wld) (rs : list request),
    core (run_from obs o_update I (fst (reset o_reset I w)) rs) = fold_left (apply_req I) rs (init_d I).
Proof. exact episodes_after_reset_coincide. Qed.
Print Assumptions C12_episodes_after_reset_coincide.

Definition ex_I : instance := [[mkop [0%nat] 3; mkop [1%nat] 2]; [mkop [1%nat] 4]].
Definition ex_w : wld :=
  run_from obs o_update ex_I (mkw (init_d ex_I) empty_cache [] [OMakespan [] 0; OUnsched (all_deques ex_I); OHist []; OIdle []] [2%nat; 0%nat; 1%nat; 3%nat])
           [mkreq 0 0 None; mkreq 1 0 None].
Example C12_nonvacuous :
  objs ex_w = [OMakespan [-3; -1] 4; OUnsched [[(0, 1)%nat]; []]; OHist [mksop 0 0 0 0; mksop 1 0 0 1]; OIdle [0; 0]] /\
  objs (fst (reset o_reset ex_I ex_w)) = [OMakespan [] 0; OUnsched (all_deques ex_I); OHist []; OIdle []].
Proof. vm_compute. split; reflexivity. Qed.
