(** C12 — placeholder so that the check runs before the theorems land. *)
From JSL Require Import Base.
