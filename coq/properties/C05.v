(** C05 — state queries agree with the schedule, whatever was asked before.
    Statements only; proofs in proofs/Queries.v, SessionInv.v, Partition.v, Tracking.v. *)
From JSL Require Import Base Instance Dstate Filters World Observers Session Feasible Derived QuerySpec
     DispatchFun Inv Run Replay Tracking Queries Partition SessionInv UnschedObs Clock AnyClock.
From Coq Require Import Permutation.

(** For every instance with durations >= 0, every filter configuration and
    EVERY event script (accepted / rejected dispatches and environment steps,
    every query in any order and multiplicity, resets, observer events), a
    query issued in the world reached returns [pure_query] evaluated on
    [dstate_of I rows]: the uncached definition applied to a dispatcher state
    recomputed from scratch from the schedule rows alone. Neither the cache
    nor the order of earlier queries nor an earlier state enters the answer. *)
Theorem C05_queries :
  forall (I : instance) (fs : list fname) (evs : list val) (q : Z) (arg : val), valid I ->
    0 <= q <= 16 ->
    let w := run_world I evs (init_w obs I fs) in
    snd (run_query I q arg w) = inl (pure_query I (filt w) (dstate_of I (sched (core w))) q arg).
Proof. intros I fs evs q arg Hv Hq. exact (query_anywhere I Hv fs evs q arg Hq). Qed.
Print Assumptions C05_queries.

(** A query changes nothing but the cache. *)
Theorem C05_queries_read_only :
  forall (I : instance) (fs : list fname) (evs : list val) (q : Z) (arg : val), valid I ->
    0 <= q <= 16 ->
    let w := run_world I evs (init_w obs I fs) in
    ext obs w (fst (run_query I q arg w)).
Proof.
  intros I fs evs q arg Hv Hq w.
  destruct (run_query_spec I q arg w Hq (reachable_WInv I Hv fs evs)) as (w' & E & Hx & _).
  rewrite E. exact Hx.
Qed.
Print Assumptions C05_queries_read_only.

(** What the uncached definitions mean, on every reachable state [d]. *)
Theorem C05_partitions :
  forall (I : instance) (fs : list fname) (evs : list val), valid I ->
    let d := core (run_world I evs (init_w obs I fs)) in
    Permutation (p_sched I d ++ p_unsched I d) (all_keys I) /\ NoDup (all_keys I) /\
    (forall k, In k (p_sched I d) <-> In k (map key (all_sops (sched d)))) /\
    (forall k, In k (p_sched I d) <-> (In k (p_completed I fs d) \/ In k (map key (p_ongoing I fs d)))) /\
    (forall k, In k (p_completed I fs d) -> ~ In k (map key (p_ongoing I fs d))) /\
    p_uncompleted I fs d = p_unsched I d ++ map key (p_ongoing I fs d).
Proof.
  intros I fs evs Hv d. pose proof (proj1 (reachable_WInv I Hv fs evs)) as Hi. fold d in Hi.
  split; [exact (scheduled_unscheduled_partition I d Hi)|]. split; [exact (all_keys_nodup I)|].
  split; [exact (scheduled_is_schedule I d Hi)|]. split; [exact (completed_ongoing_partition I fs d Hi)|].
  split; [exact (completed_ongoing_disjoint I fs d)|reflexivity].
Qed.
Print Assumptions C05_partitions.

(** User-defined filters. [Dispatcher] accepts any callable as
    [ready_operations_filter]; the model's filter names enumerate the built-in
    ones. [dispatch] never consults the filter, so the states reached are the
    same; the filter enters [ongoing_operations()], [completed_operations()] and
    [uncompleted_operations()] only through the value of [current_time()].
    Whatever that value [t] is (under a user-defined filter it may even go DOWN
    from one state to the next), on every reachable state: ongoing at [t] = the
    scheduled operations that end after [t]; completed at [t] = those that
    ended by [t]; the two partition the scheduled operations; uncompleted =
    unscheduled ++ ongoing. The built-in clock is the instance [t = p_now]. *)
Theorem C05_partitions_at_any_clock :
  forall (I : instance) (fs : list fname) (evs : list val) (t : Z), valid I ->
    let d := core (run_world I evs (init_w obs I fs)) in
    (forall y, In y (ongoing_at I t (sched d)) <-> In y (all_sops (sched d)) /\ t < s_end I y) /\
    (forall k, In k (completed_at I t d) <->
               exists y, In y (all_sops (sched d)) /\ key y = k /\ s_end I y <= t) /\
    (forall k, In k (p_sched I d) <->
               In k (completed_at I t d) \/ In k (map key (ongoing_at I t (sched d)))) /\
    (forall k, In k (completed_at I t d) -> ~ In k (map key (ongoing_at I t (sched d)))) /\
    uncompleted_at I t d = p_unsched I d ++ map key (ongoing_at I t (sched d)) /\
    completed_at I (p_now I fs d) d = p_completed I fs d.
Proof.
  intros I fs evs t Hv d. pose proof (proj1 (reachable_WInv I Hv fs evs)) as Hi. fold d in Hi.
  split; [exact (ongoing_char I Hv d Hi t)|]. split; [exact (completed_at_char I Hv d Hi t)|].
  split; [exact (completed_ongoing_partition_at I Hv d Hi t)|].
  split; [exact (completed_ongoing_disjoint_at I d t)|]. split; reflexivity.
Qed.
Print Assumptions C05_partitions_at_any_clock.

(** The unscheduled-operations observer, subscribed at the initial state (or
    since a reset, which restores [all_deques I]): after ANY request list its
    per-job deques hold exactly the operations from each job's next position
    on, and its iterable (their concatenation) IS [unscheduled_operations()] of
    the same state - same elements, same order. *)
Theorem C05_unscheduled_observer :
  forall (I : instance) (fs : list fname) (rs : list request), valid I ->
    let d := fold_left (apply_req I) rs (init_d I) in
    run_from obs o_update I (unsched_world fs (init_d I) (all_deques I)) rs = unsched_world fs d (exp_dq I d) /\
    concat (exp_dq I d) = p_unsched I d.
Proof.
  intros I fs rs Hv d. split; [|apply unsched_observer_is_query].
  rewrite all_deques_is_exp. apply (unsched_observer_tracks I fs rs (init_d I) (Inv_init I) Hv).
Qed.
Print Assumptions C05_unscheduled_observer.

(** Non-vacuity: a script with a dispatch, [uncompleted_operations()] and then
    [unscheduled_operations()] (the order that used to alias the cached list). *)
Definition ex_I : instance := [[mkop [0%nat] 3; mkop [1%nat] 2]; [mkop [1%nat] 4; mkop [0%nat] 1]].
Definition ex_evs : list val :=
  [VL [VI 0; VI 0; VI 0; VL []]; VL [VI 1; VI 8; VL []]; VL [VI 1; VI 3; VL []]].
Example C05_nonvacuous :
  validb ex_I = true /\
  run_events ex_I ex_evs (init_w obs ex_I []) =
    [VL [VI 0; VL []];
     VL [VI 0; VL [VL [VI 0; VI 1]; VL [VI 1; VI 0]; VL [VI 1; VI 1]; VL [VI 0; VI 0]]];
     VL [VI 0; VL [VL [VI 0; VI 1]; VL [VI 1; VI 0]; VL [VI 1; VI 1]]]].
Proof. vm_compute. split; reflexivity. Qed.
