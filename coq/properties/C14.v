(** C14 — instances and schedules survive serialisation; views match.
    Statements only; proofs are in proofs/ViewsProofs.v, FjsInv.v, FjsStep.v,
    FjsRebuild.v, FjsIff.v, SchedDict.v. The model of the library code is
    model/Views.v ("…_code" = the view as written, possibly raising), the
    definitions are in spec/ViewsSpec.v.

    Hypotheses used below (all spelled out in the statements):
    [has_machines I]   every operation lists at least one machine;
    [single_machine I] every operation lists exactly one machine (non-flexible);
    [valid I]          durations >= 0.
    No bound on the number of jobs, machines, operations or requests anywhere.

    IMMUTABILITY of the instance is true by construction in a functional
    model; no theorem about it would mean anything. That clause of C14 is
    decided by the harness alone (deep snapshots), see harness/c14.py. *)
From JSL Require Import Base Instance Dstate Filters World Observers Feasible DispatchFun Inv Run
  Views ViewsSpec ViewsProofs FjsInv FjsStep FjsRebuild FjsIff FjsPerm SchedDict.
From Coq Require Import Permutation.

(** * 1. Numbering: job id, position, dense job-major operation id *)

Theorem C14_operation_attributes :
  forall I : instance,
    set_operation_attributes I =
    map (fun j => map (fun p => mkattrs j p (op_id I j p)) (seq 0 (length (get_job I j)))) (seq 0 (length I)).
Proof. exact set_operation_attributes_spec. Qed.
Print Assumptions C14_operation_attributes.

(** [op_id I j p] = (sum of the lengths of the jobs before j) + p by definition
    (Instance.v); listed job by job the ids are 0, 1, …, N-1. *)
Theorem C14_op_id_dense : forall I : instance, dense_job_major I (op_id I).
Proof. exact op_id_dense. Qed.
Print Assumptions C14_op_id_dense.

Theorem C14_op_id_bijective :
  forall I : instance,
    (forall j p o j' p' o', get_op I j p = Some o -> get_op I j' p' = Some o' ->
                            op_id I j p = op_id I j' p' -> (j, p) = (j', p')) /\
    (forall j p o, get_op I j p = Some o -> (op_id I j p < num_ops I)%nat) /\
    (forall n, (n < num_ops I)%nat -> exists j p o, get_op I j p = Some o /\ op_id I j p = n).
Proof. intros I. split; [exact (op_id_injective I)|split; [exact (op_id_range I)|exact (op_id_onto I)]]. Qed.
Print Assumptions C14_op_id_bijective.

(** * 2. Counts *)

Theorem C14_num_machines :
  forall I : instance,
    is_num_machines I (num_machines I) /\
    (has_machines I -> num_machines_code I = inl (num_machines I)).
Proof. intros I. split; [exact (num_machines_spec I)|exact (num_machines_code_spec I)]. Qed.
Print Assumptions C14_num_machines.

Theorem C14_num_operations : forall I : instance, num_operations_code I = num_ops I.
Proof. exact num_operations_code_spec. Qed.
Print Assumptions C14_num_operations.

Theorem C14_is_flexible : forall I : instance, is_flexible I = true <-> flexible I.
Proof. exact is_flexible_spec. Qed.
Print Assumptions C14_is_flexible.

(** * 3. Matrices and padded arrays ([None] = NaN) *)

Theorem C14_machines_matrix :
  forall I : instance,
    (is_flexible I = true ->
     machines_matrix_code I = inl (map (map (fun o => MList (machines o))) I)) /\
    (single_machine I ->
     machines_matrix_code I = inl (map (map (fun o => MInt (machine_of o))) I)).
Proof. intros I. split; [exact (machines_matrix_flexible I)|exact (machines_matrix_single_machine I)]. Qed.
Print Assumptions C14_machines_matrix.

Theorem C14_durations_matrix_array :
  forall I : instance, I <> [] -> durations_matrix_array_code I = inl (durations_array_spec I).
Proof. exact durations_matrix_array_spec. Qed.
Print Assumptions C14_durations_matrix_array.

Theorem C14_machines_matrix_array_non_flexible :
  forall I : instance, I <> [] -> single_machine I ->
    machines_matrix_array_code I = inl (A2 (machines_array2_spec I)).
Proof. exact machines_matrix_array_single_machine. Qed.
Print Assumptions C14_machines_matrix_array_non_flexible.

(** The library reads [len(matrix[0][0])]: the FIRST job must be non-empty. *)
Theorem C14_machines_matrix_array_flexible :
  forall (I : instance) o0 t0 t, I = (o0 :: t0) :: t -> is_flexible I = true ->
    machines_matrix_array_code I = inl (A3 (machines_array3_spec I)).
Proof. exact machines_matrix_array_flexible. Qed.
Print Assumptions C14_machines_matrix_array_flexible.

(** * 4. Per-machine views, loads, maxima, totals *)

Theorem C14_operations_by_machine :
  forall I : instance, has_machines I ->
    operations_by_machine_code I = inl (map (obm_spec I) (seq 0 (num_machines I))).
Proof. exact operations_by_machine_spec. Qed.
Print Assumptions C14_operations_by_machine.

Theorem C14_machine_loads :
  forall I : instance, has_machines I ->
    machine_loads_code I = inl (map (load_spec I) (seq 0 (num_machines I))).
Proof. exact machine_loads_spec. Qed.
Print Assumptions C14_machine_loads.

Theorem C14_max_duration_per_machine :
  forall I : instance, has_machines I ->
    max_duration_per_machine_code I = inl (map (maxdur_machine_spec I) (seq 0 (num_machines I))).
Proof. exact max_duration_per_machine_spec. Qed.
Print Assumptions C14_max_duration_per_machine.

Theorem C14_max_duration :
  forall I : instance,
    (forall x, max_duration_code I = inl x -> is_max (all_durations I) x) /\
    (I <> [] -> Forall (fun job => job <> []) I -> exists x, max_duration_code I = inl x).
Proof. intros I. split; [exact (max_duration_spec I)|exact (max_duration_defined I)]. Qed.
Print Assumptions C14_max_duration.

Theorem C14_max_duration_per_job :
  forall I : instance,
    (forall l, max_duration_per_job_code I = inl l ->
               Forall2 (fun job x => is_max (map duration job) x) I l) /\
    (Forall (fun job => job <> []) I -> exists l, max_duration_per_job_code I = inl l).
Proof. intros I. split; [exact (max_duration_per_job_spec I)|exact (max_duration_per_job_defined I)]. Qed.
Print Assumptions C14_max_duration_per_job.

Theorem C14_total_duration : forall I : instance, total_duration_code I = sumZ (all_durations I).
Proof. exact total_duration_spec. Qed.
Print Assumptions C14_total_duration.

(** * 5. Round trips of the instance *)

(** [from_matrices (to_dict X) = X]: operations with their machine lists,
    name and metadata (opaque values of arbitrary types). *)
Theorem C14_dict_roundtrip :
  forall (Nm Md : Type) (X : inst_obj Nm Md),
    is_flexible (io_jobs X) = true \/ single_machine (io_jobs X) ->
    exists D, to_dict X = inl D /\ from_matrices D = inl X.
Proof. exact from_matrices_to_dict. Qed.
Print Assumptions C14_dict_roundtrip.

(** Token level: a file is a list of comment lines / integer rows; Python's
    strip/split/int are trusted lexing. [print_taillard] is the spec-level
    printer (the library has no writer). Irregular job lengths are allowed. *)
Theorem C14_taillard_roundtrip :
  forall (c : nat) (I : instance), single_machine I -> parse_taillard (print_taillard c I) = I.
Proof. exact parse_print_taillard. Qed.
Print Assumptions C14_taillard_roundtrip.

Theorem C14_taillard_comments_anywhere :
  forall ls : list tline, parse_taillard ls = parse_taillard (drop_comments ls).
Proof. exact parse_ignores_comments. Qed.
Print Assumptions C14_taillard_comments_anywhere.

(** * 6. Schedules: rebuilt from job sequences / from the dictionary *)

(** For every observer configuration, filter list and request list (accepted
    or not): if the resulting schedule is complete, rebuilding it from its
    per-machine job sequences gives the identical schedule. *)
Theorem C14_job_sequences_roundtrip :
  forall (I : instance) (fs : list fname) (rs : list request),
    valid I -> single_machine I ->
    is_complete I (sched (core (run_reqs obs o_update I fs rs))) = true ->
    from_job_sequences I (job_sequences (sched (core (run_reqs obs o_update I fs rs)))) =
    FOk (sched (core (run_reqs obs o_update I fs rs))).
Proof. exact (run_reqs_rebuilt obs o_update). Qed.
Print Assumptions C14_job_sequences_roundtrip.

Theorem C14_schedule_dict_roundtrip :
  forall (Nm Md Sm : Type) (I : instance) (fs : list fname) (rs : list request) (nm : Nm) (md : Md) (sm : Sm),
    valid I -> single_machine I ->
    is_complete I (sched (core (run_reqs obs o_update I fs rs))) = true ->
    exists D,
      sched_to_dict (mkso (mkio I nm md) (sched (core (run_reqs obs o_update I fs rs))) sm) = inl D /\
      sched_from_dict D = FDOk (mkso (mkio I nm md) (sched (core (run_reqs obs o_update I fs rs))) sm).
Proof. exact (run_reqs_dict_roundtrip obs o_update). Qed.
Print Assumptions C14_schedule_dict_roundtrip.

(** The key lemma: a dispatcher-built schedule is determined by its
    per-machine job sequences. *)
Theorem C14_semi_active_unique :
  forall (I : instance) (fs : list fname) (rs : list request) (fs' : list fname) (rs' : list request),
    valid I -> single_machine I ->
    is_complete I (sched (core (run_reqs obs o_update I fs rs))) = true ->
    is_complete I (sched (core (run_reqs obs o_update I fs' rs'))) = true ->
    job_sequences (sched (core (run_reqs obs o_update I fs rs))) =
    job_sequences (sched (core (run_reqs obs o_update I fs' rs'))) ->
    sched (core (run_reqs obs o_update I fs rs)) = sched (core (run_reqs obs o_update I fs' rs')).
Proof. exact (semi_active_unique obs o_update). Qed.
Print Assumptions C14_semi_active_unique.

(** * 7. from_job_sequences on ARBITRARY sequences (any integers, any shape) *)

(** Never a hang: [num_ops I] passes of fuel (a fortiori the [num_ops I + 1]
    that [from_job_sequences] supplies) are never exhausted. *)
Theorem C14_fuel_suffices :
  forall (I : instance) (seqs : list (list Z)) (fuel : nat),
    valid I -> (num_ops I <= fuel)%nat -> from_job_sequences_fuel I fuel seqs <> FOutOfFuel.
Proof. exact from_job_sequences_never_out_of_fuel. Qed.
Print Assumptions C14_fuel_suffices.

(** Accepted => feasible and complete; rejected => IndexError (ill-formed
    ids / a job listed too often) or ValidationError; never out of fuel. *)
Theorem C14_accepted_feasible :
  forall (I : instance) (seqs : list (list Z)), valid I ->
    match from_job_sequences I seqs with
    | FOk rows => feasible I rows /\ complete I rows
    | FErr e => e = EIndex \/ e = EValidation
    | FOutOfFuel => False
    end.
Proof. exact from_job_sequences_sound. Qed.
Print Assumptions C14_accepted_feasible.

(** * 8. Accepted exactly when the precedence order has no cycle

    [linearises I P L] (spec/ViewsSpec.v): [L] is a total order of all
    operations that respects the job order and whose restriction to every
    machine, read as job ids, is [P[m]] — a linear extension of
    "job order ∪ machine order of P". For sequences of the right shape
    (one row per machine, N entries in total):

        accepted  <->  such a linear extension exists,

    and then the result is the schedule obtained by dispatching in that order.

    PARTIAL with respect to the wording "the precedence graph of P is
    acyclic": what is proved is the equivalence with the EXISTENCE OF A LINEAR
    EXTENSION. The missing step is the order-theoretic fact that a finite
    relation is acyclic ([clos_trans] irreflexive) iff it has a linear
    extension (topological sort), together with the decoding of the k-th
    occurrence of a job id in [P[m]] into an operation that is needed to state
    the machine order without [L].
    Zero durations: a cyclic [P] may still have a schedule that is feasible
    in the weak sense (all operations of the cycle at one instant); the
    library rejects it, and it is the acyclicity reading that is formalised. *)
Theorem C14_accept_iff_acyclic_partial :
  forall (I : instance) (P : list (list nat)),
    valid I -> single_machine I ->
    length P = num_machines I -> sumN (map (@length nat) P) = num_ops I ->
    ((exists rows, from_job_sequences I (map (map Z.of_nat) P) = FOk rows) <->
     (exists L, linearises I P L)).
Proof.
  intros I P Hv Hs Hl Hn. split.
  - intros [rows H]. destruct (accept_only_if_linearisable I Hv Hs P rows Hl Hn H) as (h & d & _ & _ & HL). eauto.
  - intros [L HL]. destruct (accept_if_linearisable I Hv Hs P L HL) as (h & d & _ & _ & H). eauto.
Qed.
Print Assumptions C14_accept_iff_acyclic_partial.

(** An accepted schedule has exactly the requested per-machine job sequences. *)
Theorem C14_accepted_has_requested_sequences :
  forall (I : instance) (P : list (list nat)) (rows : schedule),
    valid I -> single_machine I ->
    length P = num_machines I -> sumN (map (@length nat) P) = num_ops I ->
    from_job_sequences I (map (map Z.of_nat) P) = FOk rows ->
    job_sequences rows = map (map Z.of_nat) P.
Proof. exact accepted_rows_have_sequences. Qed.
Print Assumptions C14_accepted_has_requested_sequences.

(** The accepted schedule is the one built by dispatching along the linear
    extension; no shape hypothesis is needed in this direction. *)
Theorem C14_linear_extension_accepted :
  forall (I : instance) (P : list (list nat)) (L : list (nat * nat)),
    valid I -> single_machine I -> linearises I P L ->
    exists h d, Hist I h d /\ map key h = L /\
                from_job_sequences I (map (map Z.of_nat) P) = FOk (sched d).
Proof. intros I P L Hv Hs. exact (accept_if_linearisable I Hv Hs P L). Qed.
Print Assumptions C14_linear_extension_accepted.

(** For TRUE per-machine permutations (row m = a rearrangement of the job ids
    of machine m's operations) exactly two things can happen: a linear
    extension exists and the sequences are accepted with a feasible complete
    schedule, or none exists and the rejection is the ValidationError — never
    an IndexError, never a hang, never an infeasible result. *)
Theorem C14_true_permutation_outcome :
  forall (I : instance) (P : list (list nat)),
    valid I -> single_machine I -> true_permutation I P ->
    (exists rows, from_job_sequences I (map (map Z.of_nat) P) = FOk rows /\
                  feasible I rows /\ complete I rows /\ exists L, linearises I P L) \/
    (from_job_sequences I (map (map Z.of_nat) P) = FErr EValidation /\ ~ exists L, linearises I P L).
Proof. intros I P Hv Hs. exact (true_permutation_outcome I Hv Hs P). Qed.
Print Assumptions C14_true_permutation_outcome.

(** * 9. The boolean checkers the harness extracts are the specification *)
Theorem C14_oracle_is_spec :
  (forall l x, is_maxb l x = true <-> is_max l x) /\
  (forall I, single_machine_b I = true <-> single_machine I) /\
  (forall I, has_machines_b I = true <-> has_machines I).
Proof. split; [exact is_maxb_spec|split; [exact single_machine_b_spec|exact has_machines_b_spec]]. Qed.
Print Assumptions C14_oracle_is_spec.

(** * Non-vacuity *)

(** a flexible, irregular instance with a zero duration, an unused machine id
    (1) and a machine listed twice *)
Definition exF : instance :=
  [[mkop [0%nat; 2%nat] 3; mkop [2%nat] 0; mkop [3%nat; 3%nat] 2]; [mkop [2%nat] 4]].
Example C14_views_nonvacuous :
  has_machines_b exF = true /\ is_flexible exF = true /\
  set_operation_attributes exF = [[mkattrs 0 0 0; mkattrs 0 1 1; mkattrs 0 2 2]; [mkattrs 1 0 3]] /\
  num_machines_code exF = inl 4%nat /\
  operations_by_machine_code exF =
    inl [[(0, 0)]; []; [(0, 0); (0, 1); (1, 0)]; [(0, 2); (0, 2)]]%nat /\
  machine_loads_code exF = inl [3; 0; 7; 4] /\
  max_duration_per_machine_code exF = inl [3; 0; 4; 2] /\
  max_duration_code exF = inl 4 /\
  machines_matrix_array_code exF =
    inl (A3 [[[Some 0; Some 2]; [Some 2; None]; [Some 3; Some 3]];
             [[Some 2; None]; [None; None]; [None; None]]]%nat) /\
  (exists D, to_dict (mkio exF 7 8) = inl D /\ from_matrices D = inl (mkio exF 7 8)).
Proof. vm_compute. repeat split; try reflexivity. eexists; split; reflexivity. Qed.

(** a non-flexible instance with recirculation and zero durations; a request
    list with rejected requests; the complete schedule is rebuilt *)
Definition exS : instance :=
  [[mkop [0%nat] 3; mkop [1%nat] 0; mkop [0%nat] 2]; [mkop [1%nat] 4; mkop [0%nat] 0]].
Definition exS_rs : list request :=
  [mkreq 0 0 None; mkreq 0 2 None; mkreq 1 0 None; mkreq 1 1 (Some 5); mkreq 0 1 None;
   mkreq 1 1 (Some 0); mkreq 0 2 (Some 0)].
Example C14_schedule_nonvacuous :
  validb exS = true /\ single_machine_b exS = true /\
  is_complete exS (sched (core (run_reqs obs o_update exS [] exS_rs))) = true /\
  job_sequences (sched (core (run_reqs obs o_update exS [] exS_rs))) = [[0; 1; 0]; [1; 0]] /\
  from_job_sequences exS [[0; 1; 0]; [1; 0]] = FOk [[mksop 0 0 0 0; mksop 1 1 4 0; mksop 0 2 4 0];
                                                    [mksop 1 0 0 1; mksop 0 1 4 1]] /\
  parse_taillard (print_taillard 2 exS) = exS.
Proof. vm_compute. repeat split; reflexivity. Qed.

(** a deadlocking permutation of zero-duration operations (a cycle through
    both machines) is rejected with the ValidationError; an ill-formed one
    with the IndexError; the cyclic one has no linear extension by the iff *)
Definition exC : instance := [[mkop [1%nat] 0; mkop [0%nat] 0]; [mkop [0%nat] 0; mkop [1%nat] 0]].
Example C14_rejections_nonvacuous :
  from_job_sequences exC [[0; 1]; [1; 0]] = FErr EValidation /\
  from_job_sequences exC [[1; 0]; [0; 1]] = FOk [[mksop 1 0 0 0; mksop 0 1 0 0]; [mksop 0 0 0 1; mksop 1 1 0 1]] /\
  from_job_sequences exC [[1; 1]; [0; 1]] = FErr EIndex /\
  from_job_sequences exC [[1; -2]; [0; -1]] = FOk [[mksop 1 0 0 0; mksop 0 1 0 0]; [mksop 0 0 0 1; mksop 1 1 0 1]] /\
  (exists L, linearises exC [[1; 0]; [0; 1]]%nat L) /\
  ~ (exists L, linearises exC [[0; 1]; [1; 0]]%nat L).
Proof.
  assert (Hv : valid exC) by (apply validb_valid; reflexivity).
  assert (Hs : single_machine exC) by (apply single_machine_b_spec; reflexivity).
  split; [vm_compute; reflexivity|]. split; [vm_compute; reflexivity|].
  split; [vm_compute; reflexivity|]. split; [vm_compute; reflexivity|]. split.
  - apply (C14_accept_iff_acyclic_partial exC [[1; 0]; [0; 1]]%nat Hv Hs eq_refl eq_refl).
    eexists. vm_compute. reflexivity.
  - intros H. apply (C14_accept_iff_acyclic_partial exC [[0; 1]; [1; 0]]%nat Hv Hs eq_refl eq_refl) in H.
    destruct H as [rows H]. vm_compute in H. discriminate H.
Qed.
