(** C14 — placeholder while the proofs are being built. *)
From JSL Require Import Base Instance Dstate Filters World Views ViewsSpec.
Theorem C14_placeholder : True. Proof. exact Logic.I. Qed.
Print Assumptions C14_placeholder.
