(** C15 — equality means same content.
    Statements only; proofs are in proofs/EqualityProofs.v. The model
    (model/Equality.v) is the library AFTER the repair of [Operation.__eq__]
    (.scratch/fix-C15-operation-eq.diff); the current [Operation.__eq__] is
    kept beside it and refuted at the end of this file. *)
From JSL Require Import Base Equality EqualitySpec EqualityProofs.

(** ** [==] decides content equality — for every pair of values, whatever
    their kinds (two values of different classes, or a library object and a
    foreign value, are unequal in both argument orders). *)
Theorem C15_eq_iff_same_content :
  forall a b : pyobj, py_eq a b = true <-> content a = content b.
Proof. exact py_eq_iff. Qed.
Print Assumptions C15_eq_iff_same_content.

Theorem C15_op_eq_iff : forall a b : oper, op_eq a b = true <-> cont_op a = cont_op b.
Proof. exact op_eq_iff. Qed.
Print Assumptions C15_op_eq_iff.

Theorem C15_sop_eq_iff : forall a b : soper, sop_eq a b = true <-> cont_sop a = cont_sop b.
Proof. exact sop_eq_iff. Qed.
Print Assumptions C15_sop_eq_iff.

Theorem C15_schedule_eq_iff :
  forall a b : schd, schedule_eq a b = true <-> cont_rows (sc_rows a) = cont_rows (sc_rows b).
Proof. exact schedule_eq_iff. Qed.
Print Assumptions C15_schedule_eq_iff.

Theorem C15_instance_eq_iff :
  forall a b : inst, instance_eq a b = true <-> cont_jobs (i_jobs a) = cont_jobs (i_jobs b).
Proof. exact instance_eq_iff. Qed.
Print Assumptions C15_instance_eq_iff.

(** ** Reflexive, symmetric, transitive *)
Theorem C15_eq_reflexive : forall a : pyobj, py_eq a a = true.
Proof. exact (iff_refl _ _ _ _ py_eq_iff). Qed.
Print Assumptions C15_eq_reflexive.

Theorem C15_eq_symmetric : forall a b : pyobj, py_eq a b = py_eq b a.
Proof. exact (iff_sym _ _ _ _ py_eq_iff). Qed.
Print Assumptions C15_eq_symmetric.

Theorem C15_eq_transitive :
  forall a b c : pyobj, py_eq a b = true -> py_eq b c = true -> py_eq a c = true.
Proof. exact (iff_trans _ _ _ _ py_eq_iff). Qed.
Print Assumptions C15_eq_transitive.

Theorem C15_op_eq_equivalence :
  (forall a, op_eq a a = true) /\ (forall a b, op_eq a b = op_eq b a) /\
  (forall a b c, op_eq a b = true -> op_eq b c = true -> op_eq a c = true).
Proof.
  exact (conj (iff_refl _ _ _ _ op_eq_iff)
        (conj (iff_sym _ _ _ _ op_eq_iff) (iff_trans _ _ _ _ op_eq_iff))).
Qed.
Print Assumptions C15_op_eq_equivalence.

Theorem C15_sop_eq_equivalence :
  (forall a, sop_eq a a = true) /\ (forall a b, sop_eq a b = sop_eq b a) /\
  (forall a b c, sop_eq a b = true -> sop_eq b c = true -> sop_eq a c = true).
Proof.
  exact (conj (iff_refl _ _ _ _ sop_eq_iff)
        (conj (iff_sym _ _ _ _ sop_eq_iff) (iff_trans _ _ _ _ sop_eq_iff))).
Qed.
Print Assumptions C15_sop_eq_equivalence.

Theorem C15_schedule_eq_equivalence :
  (forall a, schedule_eq a a = true) /\ (forall a b, schedule_eq a b = schedule_eq b a) /\
  (forall a b c, schedule_eq a b = true -> schedule_eq b c = true -> schedule_eq a c = true).
Proof.
  exact (conj (iff_refl _ _ _ _ schedule_eq_iff)
        (conj (iff_sym _ _ _ _ schedule_eq_iff) (iff_trans _ _ _ _ schedule_eq_iff))).
Qed.
Print Assumptions C15_schedule_eq_equivalence.

Theorem C15_instance_eq_equivalence :
  (forall a, instance_eq a a = true) /\ (forall a b, instance_eq a b = instance_eq b a) /\
  (forall a b c, instance_eq a b = true -> instance_eq b c = true -> instance_eq a c = true).
Proof.
  exact (conj (iff_refl _ _ _ _ instance_eq_iff)
        (conj (iff_sym _ _ _ _ instance_eq_iff) (iff_trans _ _ _ _ instance_eq_iff))).
Qed.
Print Assumptions C15_instance_eq_equivalence.

(** [!=] is the negation of [==]. *)
Theorem C15_ne_is_not_eq : forall a b : pyobj, py_ne a b = negb (py_eq a b).
Proof. exact py_ne_negb. Qed.
Print Assumptions C15_ne_is_not_eq.

(** ** Differing machines / duration / job structure / start / machine
    assignment make the comparison fail *)
Theorem C15_op_differs_machines :
  forall a b : oper, o_machines a <> o_machines b -> op_eq a b = false.
Proof. exact op_eq_false_machines. Qed.
Print Assumptions C15_op_differs_machines.

Theorem C15_op_differs_duration :
  forall a b : oper, o_duration a <> o_duration b -> op_eq a b = false.
Proof. exact op_eq_false_duration. Qed.
Print Assumptions C15_op_differs_duration.

Theorem C15_op_differs_job_structure :
  forall a b : oper, o_job a <> o_job b \/ o_pos a <> o_pos b \/ o_id a <> o_id b ->
    op_eq a b = false.
Proof. exact op_eq_false_place. Qed.
Print Assumptions C15_op_differs_job_structure.

Theorem C15_sop_differs_start :
  forall a b : soper, so_start a <> so_start b -> sop_eq a b = false.
Proof. exact sop_eq_false_start. Qed.
Print Assumptions C15_sop_differs_start.

Theorem C15_sop_differs_machine :
  forall a b : soper, so_mach a <> so_mach b -> sop_eq a b = false.
Proof. exact sop_eq_false_machine. Qed.
Print Assumptions C15_sop_differs_machine.

Theorem C15_sop_differs_operation :
  forall a b : soper, op_eq (so_op a) (so_op b) = false -> sop_eq a b = false.
Proof. exact sop_eq_false_op. Qed.
Print Assumptions C15_sop_differs_operation.

(** Schedules: a different number of rows or row lengths, or — at any row and
    position — scheduled operations that compare unequal (hence a different
    start, machine, or operation machines / duration / place in its job). *)
Theorem C15_schedule_differs_shape :
  forall a b : schd, row_shape a <> row_shape b -> schedule_eq a b = false.
Proof. exact schedule_eq_false_shape. Qed.
Print Assumptions C15_schedule_differs_shape.

Theorem C15_schedule_differs_at :
  forall (a b : schd) (m i : nat) (ra rb : list soper) (x y : soper),
    nth_error (sc_rows a) m = Some ra -> nth_error (sc_rows b) m = Some rb ->
    nth_error ra i = Some x -> nth_error rb i = Some y ->
    sop_eq x y = false -> schedule_eq a b = false.
Proof. exact schedule_eq_false_at. Qed.
Print Assumptions C15_schedule_differs_at.

(** Instances: a different number of jobs or job lengths (an operation moved
    from one job to another changes them), or — at any job and position —
    operations that compare unequal. *)
Theorem C15_instance_differs_job_structure :
  forall a b : inst, job_shape a <> job_shape b -> instance_eq a b = false.
Proof. exact instance_eq_false_shape. Qed.
Print Assumptions C15_instance_differs_job_structure.

Theorem C15_instance_differs_at :
  forall (a b : inst) (j p : nat) (ja jb : list oper) (x y : oper),
    nth_error (i_jobs a) j = Some ja -> nth_error (i_jobs b) j = Some jb ->
    nth_error ja p = Some x -> nth_error jb p = Some y ->
    op_eq x y = false -> instance_eq a b = false.
Proof. exact instance_eq_false_at. Qed.
Print Assumptions C15_instance_differs_at.

(** Scope, stated rather than hidden: what the library's comparisons ignore. *)
Theorem C15_instance_eq_ignores_name_metadata :
  forall jobs n1 m1 n2 m2, instance_eq (mkinst jobs n1 m1) (mkinst jobs n2 m2) = true.
Proof. exact instance_eq_ignores_name_metadata. Qed.
Print Assumptions C15_instance_eq_ignores_name_metadata.

Theorem C15_schedule_eq_ignores_instance_metadata :
  forall rows i1 m1 i2 m2, schedule_eq (mkschd i1 rows m1) (mkschd i2 rows m2) = true.
Proof. exact schedule_eq_ignores_instance_metadata. Qed.
Print Assumptions C15_schedule_eq_ignores_instance_metadata.

(** ** Equal operations hash equally: [hash(self.operation_id)]; the builtin
    [hash] is an arbitrary function. *)
Theorem C15_op_eq_hash_key : forall a b : oper, op_eq a b = true -> hash_key a = hash_key b.
Proof. exact op_eq_hash_key. Qed.
Print Assumptions C15_op_eq_hash_key.

Theorem C15_op_eq_hash :
  forall (py_hash : Z -> Z) (a b : oper),
    op_eq a b = true -> operation_hash py_hash a = operation_hash py_hash b.
Proof. exact op_eq_hash. Qed.
Print Assumptions C15_op_eq_hash.

(** ** The oracle applied to the implementation's answers is the specification *)
Theorem C15_oracle_content_eqb : forall a b : cont, cont_eqb a b = true <-> a = b.
Proof. exact cont_eqb_spec. Qed.
Print Assumptions C15_oracle_content_eqb.

Theorem C15_oracle_table_reflects :
  forall xs : list cont, reflects_content xs (content_table xs).
Proof. exact content_table_reflects. Qed.
Print Assumptions C15_oracle_table_reflects.

Theorem C15_oracle_equivalence_checks :
  forall M, (reflexiveb M = true <-> reflexive_on M) /\
            (symmetricb M = true <-> symmetric_on M) /\
            (transitiveb M = true <-> transitive_on M).
Proof.
  intros M. exact (conj (reflexiveb_spec M) (conj (symmetricb_spec M) (transitiveb_spec M))).
Qed.
Print Assumptions C15_oracle_equivalence_checks.

Theorem C15_reflecting_table_is_equivalence :
  forall xs M, length M = length xs -> reflects_content xs M ->
    reflexive_on M /\ symmetric_on M /\ transitive_on M.
Proof. exact reflects_equivalence. Qed.
Print Assumptions C15_reflecting_table_is_equivalence.

(** ** The CURRENT code: [self.__slots__ == value.__slots__] is true of any two
    operations, so the claim "differing content => unequal" is false of the
    unchanged tree — for operations and for everything compared through them. *)
Definition w_op1 : oper := mkoper [0] 1 (-1) (-1) (-1).       (* Operation(0, 1) *)
Definition w_op2 : oper := mkoper [1] 5 (-1) (-1) (-1).       (* Operation(1, 5) *)

Theorem C15_op_eq_unrepaired_refuted :
  exists a b : oper, operation_eq_unrepaired a b = true /\ cont_op a <> cont_op b.
Proof. exists w_op1, w_op2. split; [vm_compute; reflexivity | vm_compute; discriminate]. Qed.
Print Assumptions C15_op_eq_unrepaired_refuted.

Theorem C15_op_eq_unrepaired_always_true :
  forall a b : oper, operation_eq_unrepaired a b = true.
Proof. exact unrepaired_always_true. Qed.
Print Assumptions C15_op_eq_unrepaired_always_true.

Definition w_i1 : inst := build_instance [[w_op1; w_op2]; [w_op2]] [] 0 true.
Definition w_i2 : inst := build_instance [[w_op2; w_op1]; [mkoper [2; 0] 7 (-1) (-1) (-1)]] [] 0 true.
Definition w_s1 : schd := mkschd w_i1 [[mksoper (inst_op w_i1 0 0) 0 0]; [mksoper (inst_op w_i1 0 1) 1 1]] 0.
Definition w_s2 : schd := mkschd w_i1 [[mksoper (inst_op w_i1 0 0) 0 0]; [mksoper (inst_op w_i1 1 0) 1 1]] 0.

Theorem C15_eq_unrepaired_refuted :
  exists a b : pyobj, py_eq_unrepaired a b = true /\ content a <> content b.
Proof. exists (OInst w_i1), (OInst w_i2). split; [vm_compute; reflexivity | vm_compute; discriminate]. Qed.
Print Assumptions C15_eq_unrepaired_refuted.

Theorem C15_schedule_eq_unrepaired_refuted :
  exists a b : schd, py_eq_unrepaired (OSched a) (OSched b) = true /\
                     cont_rows (sc_rows a) <> cont_rows (sc_rows b).
Proof. exists w_s1, w_s2. split; [vm_compute; reflexivity | vm_compute; discriminate]. Qed.
Print Assumptions C15_schedule_eq_unrepaired_refuted.

(** ** Non-vacuity *)

(** Independently built, same content => equal, equal hash key; every single
    difference is seen. A flexible operation with its place in an instance. *)
Definition ex_o : oper := mkoper [2; 0] 4 1 0 3.
Example C15_nonvacuous_op :
  op_eq ex_o (mkoper [2; 0] 4 1 0 3) = true /\
  hash_key ex_o = hash_key (mkoper [2; 0] 4 1 0 3) /\
  op_eq ex_o (mkoper [0; 2] 4 1 0 3) = false /\            (* machines reordered *)
  op_eq ex_o (mkoper [2] 4 1 0 3) = false /\               (* machine dropped *)
  op_eq ex_o (mkoper [2; 0] 5 1 0 3) = false /\            (* duration *)
  op_eq ex_o (mkoper [2; 0] 4 0 0 3) = false /\            (* other job *)
  op_eq ex_o (mkoper [2; 0] 4 1 1 3) = false /\            (* other position *)
  op_eq ex_o (mkoper [2; 0] 4 1 0 2) = false /\            (* other id *)
  py_eq (OOp ex_o) (OForeign 0 4) = false /\ py_eq (OForeign 0 4) (OOp ex_o) = false /\
  py_ne (OOp ex_o) (OForeign 0 4) = true.
Proof. vm_compute. repeat split; reflexivity. Qed.

(** Hypotheses of the [differs] theorems are satisfiable. *)
Example C15_nonvacuous_differs :
  o_machines ex_o <> o_machines (mkoper [0; 2] 4 1 0 3) /\
  o_duration ex_o <> o_duration (mkoper [2; 0] 5 1 0 3) /\
  (o_job ex_o <> o_job (mkoper [2; 0] 4 0 0 3) \/ o_pos ex_o <> 0 \/ o_id ex_o <> 3) /\
  so_start (mksoper ex_o 3 2) <> so_start (mksoper ex_o 4 2) /\
  so_mach (mksoper ex_o 3 2) <> so_mach (mksoper ex_o 3 0) /\
  op_eq (so_op (mksoper ex_o 3 2)) (so_op (mksoper w_op1 3 2)) = false.
Proof.
  vm_compute. repeat split; try discriminate; try reflexivity. left; discriminate.
Qed.

(** Two instances built separately from the same jobs — different names and
    metadata — are equal; moving the last operation of job 0 to job 1 (same
    multiset of operations) is seen, and so is a change in one duration. *)
Definition ex_jobs : list (list oper) :=
  [[mkoper [0; 1] 3 (-1) (-1) (-1); mkoper [1] 0 (-1) (-1) (-1)]; [mkoper [1] 4 (-1) (-1) (-1)]].
Definition ex_i1 : inst := build_instance ex_jobs [97] 0 true.
Definition ex_i2 : inst := build_instance ex_jobs [98; 99] 7 true.
Definition ex_i3 : inst :=
  build_instance [[mkoper [0; 1] 3 (-1) (-1) (-1)]; [mkoper [1] 0 (-1) (-1) (-1); mkoper [1] 4 (-1) (-1) (-1)]]
                 [97] 0 true.
Definition ex_i4 : inst :=
  build_instance [[mkoper [0; 1] 3 (-1) (-1) (-1); mkoper [1] 1 (-1) (-1) (-1)]; [mkoper [1] 4 (-1) (-1) (-1)]]
                 [97] 0 true.
Example C15_nonvacuous_instance :
  instance_eq ex_i1 ex_i2 = true /\ content (OInst ex_i1) = content (OInst ex_i2) /\
  job_shape ex_i1 <> job_shape ex_i3 /\ instance_eq ex_i1 ex_i3 = false /\
  nth_error (i_jobs ex_i1) 0 = Some [mkoper [0; 1] 3 0 0 0; mkoper [1] 0 0 1 1] /\
  nth_error (i_jobs ex_i4) 0 = Some [mkoper [0; 1] 3 0 0 0; mkoper [1] 1 0 1 1] /\
  op_eq (mkoper [1] 0 0 1 1) (mkoper [1] 1 0 1 1) = false /\ instance_eq ex_i1 ex_i4 = false /\
  py_eq (OInst ex_i1) (OSched (mkschd ex_i1 [] 0)) = false.
Proof. vm_compute. repeat split; try reflexivity; discriminate. Qed.

(** Schedules of that instance: equal copies (different metadata); a later
    start; the flexible operation on its other machine; another job's
    operation in the same slot; a trailing empty machine row. *)
Definition ex_s (rows : list (list soper)) (meta : Z) : schd := mkschd ex_i1 rows meta.
Definition o00 := inst_op ex_i1 0 0.
Definition o01 := inst_op ex_i1 0 1.
Definition o10 := inst_op ex_i1 1 0.
Definition ex_rows : list (list soper) := [[mksoper o00 0 0]; [mksoper o10 0 1; mksoper o01 4 1]].
Example C15_nonvacuous_schedule :
  schedule_eq (ex_s ex_rows 0) (mkschd ex_i2 ex_rows 5) = true /\
  schedule_eq (ex_s ex_rows 0) (ex_s [[mksoper o00 0 0]; [mksoper o10 0 1; mksoper o01 5 1]] 0) = false /\
  schedule_eq (ex_s ex_rows 0) (ex_s [[]; [mksoper o00 0 1; mksoper o10 3 1; mksoper o01 7 1]] 0) = false /\
  row_shape (ex_s ex_rows 0) <> row_shape (ex_s (ex_rows ++ [[]]) 0) /\
  schedule_eq (ex_s ex_rows 0) (ex_s (ex_rows ++ [[]]) 0) = false /\
  nth_error (sc_rows (ex_s ex_rows 0)) 1 = Some [mksoper o10 0 1; mksoper o01 4 1] /\
  sop_eq (mksoper o01 4 1) (mksoper o01 5 1) = false /\
  sop_eq (mksoper o00 0 0) (mksoper o00 0 1) = false /\
  sop_eq (mksoper o10 0 1) (mksoper o01 0 1) = false.
Proof. vm_compute. repeat split; try reflexivity; discriminate. Qed.

(** Transitivity and symmetry on three separately built equal values, and the
    oracle's table checks on a table that is and one that is not an equivalence. *)
Example C15_nonvacuous_equivalence :
  py_eq (OInst ex_i1) (OInst ex_i2) = true /\ py_eq (OInst ex_i2) (OInst (build_instance ex_jobs [] 1 true)) = true /\
  py_eq (OInst ex_i1) (OInst (build_instance ex_jobs [] 1 true)) = true /\
  py_eq (OInst ex_i2) (OInst ex_i1) = true /\
  reflexiveb [[true; true; false]; [true; true; false]; [false; false; true]] = true /\
  symmetricb [[true; true; false]; [true; true; false]; [false; false; true]] = true /\
  transitiveb [[true; true; false]; [true; true; false]; [false; false; true]] = true /\
  transitiveb [[true; true; false]; [true; true; true]; [false; true; true]] = false /\
  symmetricb [[true; true]; [false; true]] = false /\ reflexiveb [[true; true]; [true; false]] = false /\
  content_table [content (OOp w_op1); content (OOp w_op2); content (OOp w_op1)] =
    [[true; false; true]; [false; true; false]; [true; false; true]].
Proof. vm_compute. repeat split; reflexivity. Qed.
