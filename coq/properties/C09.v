(** C09 — rejected requests change nothing. Statements only; proofs in
    proofs/DispatchFun.v and proofs/Atomic.v. The world compared is the WHOLE
    model world: dispatcher fields, schedule rows, cache, every observer's
    state (any observer type [O]), subscriber list. *)
From JSL Require Import Base Instance Dstate Filters World Observers Feasible DispatchFun Run Atomic.

Theorem C09_dispatch_atomic :
  forall (O : Type) (upd : instance -> list fname -> dstate -> sop -> O -> O)
         (I : instance) (r : request) (w w' : world O) (e : exn),
    dispatch upd I r w = (w', inr e) -> w' = w.
Proof. exact dispatch_atomic. Qed.
Print Assumptions C09_dispatch_atomic.

Theorem C09_env_step_atomic :
  forall (O : Type) (upd : instance -> list fname -> dstate -> sop -> O -> O)
         (I : instance) (j : nat) (m : Z) (w w' : world O) (e : exn),
    env_step upd I j m w = (w', inr e) -> w' = w.
Proof. exact env_step_atomic. Qed.
Print Assumptions C09_env_step_atomic.

(** Subsequent requests behave as if the rejected one had never been made:
    whole-world equality after any continuation. *)
Theorem C09_as_if_never_made :
  forall (O : Type) (upd : instance -> list fname -> dstate -> sop -> O -> O) (I : instance)
         (w : world O) (l1 : list areq) (a : areq) (l2 : list areq),
    rejected O upd I (run_a O upd I w l1) a ->
    run_a O upd I w (l1 ++ a :: l2) = run_a O upd I w (l1 ++ l2).
Proof. exact as_if_never_made. Qed.
Print Assumptions C09_as_if_never_made.

(** The requests the property names ARE rejected (so the theorems above apply
    to them): operation not the next of its job; machine id not among the
    operation's machines (ids >= M, negative ids that wrap, negative ids out of
    range all included: the hypothesis only says "no eligible machine has this
    id"); environment step for a job with no operations left. *)
Theorem C09_not_next_rejected :
  forall (O : Type) upd (I : instance) (w : world O) (r : request),
    nthN (jnext (core w)) (r_job r) <> r_pos r -> rejected O upd I w (RDispatch r).
Proof. exact not_next_rejected. Qed.
Print Assumptions C09_not_next_rejected.

Theorem C09_ineligible_machine_rejected :
  forall (O : Type) upd (I : instance) (w : world O) (r : request) (m : Z) (o : op),
    r_mach r = Some m -> get_op I (r_job r) (r_pos r) = Some o ->
    (forall k, In k (machines o) -> Z.of_nat k <> m) -> rejected O upd I w (RDispatch r).
Proof. exact ineligible_machine_rejected. Qed.
Print Assumptions C09_ineligible_machine_rejected.

Theorem C09_finished_job_step_rejected :
  forall (O : Type) upd (I : instance) (w : world O) (j : nat) (m : Z),
    (length (get_job I j) <= nthN (jnext (core w)) j)%nat -> rejected O upd I w (RStep j m).
Proof. exact finished_job_step_rejected. Qed.
Print Assumptions C09_finished_job_step_rejected.

(** Non-vacuity: each kind of bad request on a concrete world with observers. *)
Definition ex_I : instance := [[mkop [0%nat; 1%nat] 3; mkop [1%nat] 2]; [mkop [1%nat] 4]].
Definition ex_w : wld :=
  fst (dispatch o_update ex_I (mkreq 0 0 (Some 1))
         (mkw (init_d ex_I) empty_cache [] [OHist []; OMakespan [] 0] [0%nat; 1%nat])).
Example C09_nonvacuous :
  objs ex_w = [OHist [mksop 0 0 0 1]; OMakespan [-3] 3] /\
  (forall bad, In bad [RDispatch (mkreq 0 0 (Some 1)); RDispatch (mkreq 1 0 (Some 0)); RDispatch (mkreq 1 0 (Some 7));
                       RDispatch (mkreq 1 0 (Some (-1))); RDispatch (mkreq 1 0 (Some (-5)));
                       RStep 1 0; RStep 0 5] ->
     step_a obs o_update ex_I ex_w bad = ex_w /\ exists e, snd (do_req obs o_update ex_I bad ex_w) = inr e).
Proof.
  split; [vm_compute; reflexivity|].
  intros bad H. simpl in H.
  repeat (destruct H as [<-|H]; [vm_compute; split; [reflexivity|eexists; reflexivity]|]). contradiction.
Qed.
