(** C18 — the environments honour the Gymnasium contract.
    Statements only. Model: model/EnvSpaces.v (on top of Graph.v, Generator.v,
    World.v); proofs: proofs/EnvSpacesProofs.v.

    The model is the REPAIRED library for two one-line defects
    (/verif/.scratch/fix-C18-action-space.diff, fix-C18-multi-reset-updater.diff);
    the unchanged expressions are kept and refuted below. The third defect (the
    multi environment declares the sizes of ONE random max-size instance) has no
    small repair: the model is faithful, [C18_multi_obs_in_space_partial] states
    what is true and [C18_multi_obs_in_space_refuted] exhibits the failure.

    Reading guide. An observation is [mkobs removed-mask edge-index features].
    [obs_contains sp o] is [sp.contains(o)] for the declared [Dict] space
    (shapes, [MultiDiscrete] bounds -1 .. nodes-1, same feature keys). A raised
    exception is [None]. The graph of the single environment only changes by
    [remove_node] calls ([run_removes g0 l], ANY list [l]: whatever the graph
    updater decides to remove) and is restored from the initial copy at reset.
    Feature matrices are arbitrary matrices of the declared shapes (their
    values are property C11's). With [use_padding = False] the observations are
    unpadded on purpose (documented option); the in-space theorems are about
    [use_padding = True]. *)
From JSL Require Import Base Instance Dstate Filters World Observers Graph Generator GeneratorSpec
     GeneratorProofs EnvSpaces EnvSpacesSpec Feasible DispatchFun Inv Run Atomic EnvSpacesProofs.
From Coq Require Import Lia Permutation.

(** ** The oracles applied to the implementation's output are the specification *)

(** [obs_contains] (extracted; applied to every observation the real
    environments return, next to gymnasium's own [contains]) says exactly:
    one flag per declared node; two rows of the declared number of edge
    columns, every entry a node id or -1; the declared feature keys in order,
    every matrix of its declared shape. *)
Theorem C18_oracle_is_spec :
  forall (A : Type) (sp : ospace) (o : obsv A), obs_contains sp o = true <-> obs_in_space sp o.
Proof. intros A. exact (@obs_contains_spec A). Qed.
Print Assumptions C18_oracle_is_spec.

Theorem C18_action_oracle_is_spec :
  forall (I : instance) (a : list Z), action_contains (action_nvec I) a = true <-> in_action_space I a.
Proof. exact action_contains_spec. Qed.
Print Assumptions C18_action_oracle_is_spec.

(** ** Legal decisions belong to the declared action space *)

(** Every instance, every dispatcher state: a job whose next operation exists
    (operations left), with any eligible machine id of that operation, or -1
    when it has exactly one machine, is in [MultiDiscrete([J, M+1], start=[0,-1])]. *)
Theorem C18_legal_action_in_space :
  forall (I : instance) (d : dstate) (j : nat) (m : Z),
    legal I d j m -> action_contains (action_nvec I) [Z.of_nat j; m] = true.
Proof. exact legal_in_action_space. Qed.
Print Assumptions C18_legal_action_in_space.

(** The enumerated legal-decision set (what the harness compares with the real
    dispatcher) consists of exactly those pairs, all in the space. *)
Theorem C18_legal_decisions_in_space :
  forall (I : instance) (d : dstate),
    Forall (fun a => action_contains (action_nvec I) a = true) (legal_decisions I d) /\
    forall j a, In a (decisions_of I (j, nthN (jnext d) j)) <->
                exists m, a = [Z.of_nat j; m] /\ legal I d j m.
Proof. intros I d. split; [apply legal_decisions_contained|intros j a; apply decisions_of_legal]. Qed.
Print Assumptions C18_legal_decisions_in_space.

(** The unchanged code declares [MultiDiscrete([J, M], start=[0,-1])]: the
    legal decision (job 0, machine 1) of a one-operation instance is outside. *)
Theorem C18_legal_action_unrepaired_refuted :
  exists (I : instance) (d : dstate) (j : nat) (m : Z),
    legal I d j m /\ action_contains (action_nvec_unrepaired I) [Z.of_nat j; m] = false.
Proof.
  exists [[mkop [0%nat; 1%nat] 1]], (init_d [[mkop [0%nat; 1%nat] 1]]), 0%nat, 1.
  split; [|vm_compute; reflexivity].
  exists (mkop [0%nat; 1%nat] 1). split; [reflexivity|]. left. exists 1%nat. split; [right; left; reflexivity|reflexivity].
Qed.
Print Assumptions C18_legal_action_unrepaired_refuted.

(** ** add_padding *)

(** Vectors: raises exactly when the input is longer than requested; otherwise
    the result has the requested length, starts with the input and continues
    with the fill value only. *)
Theorem C18_add_padding_vector :
  forall (A : Type) (fill : A) (n : nat) (l : list A),
    (pad1 fill n l = None <-> (n < length l)%nat) /\
    (forall r, pad1 fill n l = Some r ->
       length r = n /\ firstn (length l) r = l /\ skipn (length l) r = repeat fill (n - length l)).
Proof.
  intros A fill n l. split; [apply pad1_none|]. intros r H.
  destruct (pad1_some _ _ _ _ H) as (-> & Hlen & _). split; [exact Hlen|]. split.
  - rewrite firstn_app, Nat.sub_diag, firstn_all. simpl. apply app_nil_r.
  - rewrite skipn_app, Nat.sub_diag, skipn_all. reflexivity.
Qed.
Print Assumptions C18_add_padding_vector.

(** Matrices (rectangular input, as every numpy array is): raises exactly when
    the input has more rows or more columns than requested; otherwise shape =
    requested, cell (i, j) = the input's inside the leading block and the fill
    value everywhere else. *)
Theorem C18_add_padding :
  forall (A : Type) (fill : A) (r c : nat) (m : list (list A)),
    rect m ->
    (pad2 fill r c m = None <-> (r < length m \/ c < width m)%nat) /\
    (forall x, pad2 fill r c m = Some x ->
       length x = r /\ Forall (fun row => length row = c) x /\
       forall i j d, (i < r)%nat -> (j < c)%nat ->
         nth j (nth i x []) d =
         if ((i <? length m) && (j <? width m))%nat then nth j (nth i m []) d else fill).
Proof.
  intros A fill r c m Hr. split; [apply pad2_none|]. intros x H.
  destruct (pad2_some _ _ _ _ _ H) as (-> & Hl & Hw).
  destruct (pad2_shape fill r c m Hr Hl Hw) as [S1 S2]. split; [exact S1|]. split; [exact S2|].
  intros i j d Hi Hj. apply pad2_cell; assumption.
Qed.
Print Assumptions C18_add_padding.

(** ** The single environment *)

(** Every graph the four builders return is well formed (as many flags and
    node objects as node ids; every edge joins existing ids) and belongs to
    the instance. *)
Theorem C18_built_graph_ok :
  forall (b : nat) (I : instance) (g : graph), build_by_code b I = Some g -> graph_ok g /\ g_inst g = I.
Proof. exact build_by_code_ok. Qed.
Print Assumptions C18_built_graph_ok.

(** Along any history (any sequence of [remove_node] calls since the last
    reset; a raising call changes nothing): the number of edges never exceeds
    the initial one ([remove_node] only removes), the mask length and the node
    list are constant; with padding the observation is exactly
    (mask, [sources ++ -1..; targets ++ -1..], features), and it belongs to the
    declared space. *)
Theorem C18_single_obs_in_space :
  forall (A : Type) (g0 : graph) (shapes : list (ftype * (nat * nat))) (l : list nat)
         (feats : list (ftype * list (list A))),
    graph_ok g0 -> feats_contains shapes feats = true ->
    let sp := observation_space g0 shapes in
    let g := run_removes g0 l in
    (length (edge_view g) <= sp_edges sp)%nat /\
    length (g_removed g) = sp_nodes sp /\ g_nodes g = g_nodes g0 /\
    get_observation true sp g feats =
      Some (mkobs (g_removed g) (edge_rows g (sp_edges sp - length (edge_view g))) feats) /\
    obs_contains sp (mkobs (g_removed g) (edge_rows g (sp_edges sp - length (edge_view g))) feats) = true.
Proof. intros A. exact (@single_obs_in_space A). Qed.
Print Assumptions C18_single_obs_in_space.

(** The observation mirrors the current graph: the mask IS the graph's
    removed flags; the two rows of the edge index are the sources and targets
    of [edge_view g] — networkx's iteration order: sorted by source, out-edges
    of one source in insertion order — which is a permutation of the graph's
    edge map (same edges, none added, none lost); without padding nothing else
    is in the observation. *)
Theorem C18_obs_mirrors_graph :
  forall (A : Type) (g0 : graph) (shapes : list (ftype * (nat * nat))) (l : list nat)
         (feats : list (ftype * list (list A))) (pad : bool) (o : obsv A),
    graph_ok g0 ->
    let sp := observation_space g0 shapes in
    let g := run_removes g0 l in
    get_observation pad sp g feats = Some o ->
    ob_removed o = g_removed g /\ ob_feats o = feats /\
    Permutation (edge_view g) (g_edges g) /\
    (forall i j, (i <= j)%nat -> (j < length (edge_view g))%nat ->
       (e_src (nth i (edge_view g) edge0) <= e_src (nth j (edge_view g) edge0))%nat) /\
    (pad = false -> ob_edge o = edge_index_raw g) /\
    (pad = true -> ob_edge o = edge_rows g (sp_edges sp - length (edge_view g))).
Proof.
  intros A g0 shapes l feats pad o Hg sp g H.
  destruct (run_removes_facts l g0 Hg) as (Hg' & _ & _ & _ & Hle). fold g in Hg', Hle.
  unfold get_observation in H. destruct (get_edge_index pad sp g) as [ei|] eqn:E; [|discriminate].
  inversion H; subst o; clear H. cbn [ob_removed ob_edge ob_feats].
  split; [reflexivity|]. split; [reflexivity|]. split; [apply edge_view_perm; exact Hg'|].
  split; [apply edge_view_sorted|]. split; intros ->.
  - simpl in E. inversion E. reflexivity.
  - rewrite get_edge_index_padded in E by (rewrite (edge_view_length g Hg'); exact Hle).
    inversion E. reflexivity.
Qed.
Print Assumptions C18_obs_mirrors_graph.

(** [done] is true exactly when the schedule is complete — after ANY sequence
    of dispatches and environment steps, accepted or rejected, any observers —
    and [truncated] is always false. *)
Theorem C18_done_iff_complete :
  forall (O : Type) (upd : instance -> list fname -> dstate -> sop -> O -> O)
         (I : instance) (fs : list fname) (l : list areq),
    valid I ->
    let w := run_a O upd I (init_w O I fs) l in
    (step_done I (core w) = true <-> complete I (sched (core w))) /\ step_truncated = false.
Proof. intros O upd I fs l Hv w. split; [apply done_iff_complete; exact Hv|reflexivity]. Qed.
Print Assumptions C18_done_iff_complete.

(** ** The multi-instance environment *)

(** Every argument of the constructor reaches the inner environment of every
    episode: in every reachable state (constructed; then resets on whatever the
    generator's RNG returns, steps, in any order) the stored configurations
    AND the configuration of the current inner environment are the
    constructor's, the inner graph was built by the configured builder, its
    spaces were computed from that graph, and the declared spaces are still
    those of the constructor. *)
Theorem C18_multi_reset_config :
  forall (cfg : config) (b : nat) (p : params) (m : menv),
    reachable cfg b p m ->
    keeps_config cfg b p m /\ inner_wf b (m_inner m) /\
    exists g m0 g', multi_init p b cfg g = Ok (Some m0) g' /\
      m_space m = i_space (m_inner m0) /\ m_anvec m = i_anvec (m_inner m0).
Proof.
  intros cfg b p m H. destruct (reachable_keeps_config _ _ _ _ H) as [K W].
  destruct (reachable_space _ _ _ _ H) as (g & m0 & g' & Hi & A & B & _).
  split; [exact K|]. split; [exact W|]. exists g, m0, g'. auto.
Qed.
Print Assumptions C18_multi_reset_config.

(** One reset, spelled out. *)
Theorem C18_multi_reset_step :
  forall cfg b p m g m' g',
    keeps_config cfg b p m -> multi_reset true m g = Ok (Some m') g' ->
    i_cfg (m_inner m') = cfg /\ m_space m' = m_space m /\ m_anvec m' = m_anvec m /\
    exists x, generate p None None g = Ok x g' /\
              build_by_code b (snd x) = Some (i_graph0 (m_inner m')) /\
              i_graph (m_inner m') = i_graph0 (m_inner m').
Proof.
  intros cfg b p m g m' g' K H.
  destruct (multi_reset_config _ _ _ _ _ _ _ K H) as (K' & W & S1 & S2 & Hg & x & Hx & Hi).
  split; [apply (kc_inner _ _ _ _ K')|]. split; [exact S1|]. split; [exact S2|].
  exists x. split; [exact Hx|]. split; [|exact Hg]. rewrite <- Hi. apply (iw_built _ _ W).
Qed.
Print Assumptions C18_multi_reset_step.

(** ... and every episode's instance lies inside the generator's ranges
    (C19's shape predicate), for every stream respecting the randint/choice
    contract (a stream that does not makes [generate] answer [Bad], not [Ok]). *)
Theorem C18_multi_instance_in_ranges :
  forall cfg b p m g m' g',
    wf_params p -> keeps_config cfg b p m -> multi_reset true m g = Ok (Some m') g' ->
    shape p (g_inst (i_graph0 (m_inner m'))).
Proof.
  intros cfg b p m g m' g' Hwf K H.
  destruct (multi_reset_config _ _ _ _ _ _ _ K H) as (_ & _ & _ & _ & _ & x & Hx & Hi).
  pose proof (generate_post p g Hwf) as Hp. rewrite Hx in Hp. simpl in Hp. destruct Hp as [Hs _].
  rewrite Hi. exact Hs.
Qed.
Print Assumptions C18_multi_instance_in_ranges.

(** The unchanged [reset] omits [graph_updater_config]: a non-default updater
    configuration is replaced by the default one. *)
Definition p_w : params := mkparams 2 2 2 2 1 1 1 1 true true [103] None.
Definition cfg_w : config := mkcfg [mkfo 0 None] 0 [0; 0; 1] [] 0 0 true.
Definition s_max : stream := [1;0; 1;1; 1;0; 1;1].
Definition s_next : stream := [2;2; 1;0; 1;0; 1;0; 1;0].

Theorem C18_multi_reset_config_refuted :
  exists (p : params) (b : nat) (cfg : config) (m m' : menv) (g g0 g' : gst),
    multi_init p b cfg g0 = Ok (Some m) g /\ keeps_config cfg b p m /\
    multi_reset false m (set_rng g s_next) = Ok (Some m') g' /\
    c_updater (i_cfg (m_inner m')) <> c_updater cfg.
Proof.
  destruct (multi_init p_w 0 cfg_w (fresh s_max)) as [[m|] g| |] eqn:Ei; try (vm_compute in Ei; discriminate).
  destruct (multi_reset false m (set_rng g s_next)) as [[m'|] g'| |] eqn:Er;
    try (vm_compute in Ei; inversion Ei; subst; vm_compute in Er; discriminate).
  exists p_w, 0%nat, cfg_w, m, m', g, (fresh s_max), g'.
  split; [exact Ei|]. split; [apply (multi_init_config _ _ _ _ _ _ Ei)|]. split; [exact Er|].
  vm_compute in Ei. inversion Ei; subst. vm_compute in Er. inversion Er; subst. vm_compute. discriminate.
Qed.
Print Assumptions C18_multi_reset_config_refuted.

(** PARTIAL. Under the explicit hypothesis that the inner environment's sizes
    fit into the declared ones ([space_fits]: nodes, edges, rows of every
    feature matrix; same feature keys and column counts), every observation
    of the multi environment — any state of the inner graph — is the inner
    observation padded at the end only (mask with True, everything else with
    -1) and belongs to the declared space. Missing part: the hypothesis itself
    is NOT guaranteed by the library (next theorem). *)
Theorem C18_multi_obs_in_space_partial :
  forall (A : Type) (neg1 : A) (b : nat) (m : menv) (feats : list (ftype * list (list A))),
    let e := m_inner m in
    let g := i_graph e in
    inner_wf b e -> c_padding (i_cfg e) = true ->
    space_fits (i_space e) (m_space m) = true ->
    nodup_keysb (sp_feats (m_space m)) = true ->
    feats_contains (sp_feats (i_space e)) feats = true ->
    let o := mkobs (g_removed g ++ repeat true (sp_nodes (m_space m) - length (g_removed g)))
                   (edge_rows g (sp_edges (m_space m) - length (edge_view g)))
                   (padded_feats neg1 (sp_feats (m_space m)) feats) in
    multi_observe neg1 m feats = Some o /\ obs_contains (m_space m) o = true /\
    (length (g_removed g) <= sp_nodes (m_space m))%nat /\
    (length (edge_view g) <= sp_edges (m_space m))%nat.
Proof. intros A. exact (@multi_obs_in_space_partial A). Qed.
Print Assumptions C18_multi_obs_in_space_partial.

(** the side conditions of the partial theorem hold in every reachable state *)
Theorem C18_multi_partial_side_conditions :
  forall cfg b p m, reachable cfg b p m ->
    inner_wf b (m_inner m) /\ nodup_keysb (sp_feats (m_space m)) = true.
Proof.
  intros cfg b p m H. split; [apply (reachable_keeps_config _ _ _ _ H)|].
  destruct (reachable_space _ _ _ _ H) as (_ & _ & _ & _ & _ & _ & E). exact E.
Qed.
Print Assumptions C18_multi_partial_side_conditions.

(** REFUTED for the faithful model: a generator (2 jobs x 2 machines,
    recirculation allowed), the disjunctive-graph builder, and two streams
    respecting the randint/choice contract: the max-size sample drawn by the
    constructor has 10 edges, the instance of the first episode — inside the
    generator's ranges — has 16, so the padding raises: [reset] returns no
    observation at all. *)
Theorem C18_multi_obs_in_space_refuted :
  exists (p : params) (b : nat) (cfg : config) (m m' : menv) (g g' : gst),
    wf_params p /\ c_padding cfg = true /\
    multi_init p b cfg (fresh s_max) = Ok (Some m) g /\
    multi_reset true m (set_rng g s_next) = Ok (Some m') g' /\
    shape p (g_inst (i_graph0 (m_inner m'))) /\
    (sp_edges (m_space m') < sp_edges (i_space (m_inner m')))%nat /\
    space_fits (i_space (m_inner m')) (m_space m') = false /\
    forall (A : Type) (neg1 : A) feats, multi_observe neg1 m' feats = None.
Proof.
  destruct (multi_init p_w 0 cfg_w (fresh s_max)) as [[m|] g| |] eqn:Ei; try (vm_compute in Ei; discriminate).
  destruct (multi_reset true m (set_rng g s_next)) as [[m'|] g'| |] eqn:Er;
    try (vm_compute in Ei; inversion Ei; subst; vm_compute in Er; discriminate).
  exists p_w, 0%nat, cfg_w, m, m', g, g'.
  split; [apply wf_paramsb_spec; vm_compute; reflexivity|]. split; [reflexivity|].
  split; [exact Ei|]. split; [exact Er|].
  destruct (multi_init_config _ _ _ _ _ _ Ei) as (K & _).
  destruct (multi_reset_config _ _ _ _ _ _ _ K Er) as (K' & W & _).
  assert (Hlt : (sp_edges (m_space m') < sp_edges (i_space (m_inner m')))%nat).
  { vm_compute in Ei. inversion Ei; subst. vm_compute in Er. inversion Er; subst. vm_compute. lia. }
  split; [|split; [exact Hlt|split]].
  - apply shapeb_spec. vm_compute in Ei. inversion Ei; subst. vm_compute in Er. inversion Er; subst.
    vm_compute. reflexivity.
  - vm_compute in Ei. inversion Ei; subst. vm_compute in Er. inversion Er; subst. vm_compute. reflexivity.
  - intros A neg1 feats. apply (multi_observe_raises_on_edges neg1 0 m' feats W); [|exact Hlt].
    rewrite (kc_inner _ _ _ _ K'). reflexivity.
Qed.
Print Assumptions C18_multi_obs_in_space_refuted.

(** ** Non-vacuity: the hypotheses are satisfiable on non-trivial inputs *)

(** a flexible instance with recirculation and an irregular job *)
Definition ex_I : instance :=
  [[mkop [0%nat; 1%nat] 3; mkop [1%nat] 2; mkop [1%nat] 1]; [mkop [1%nat] 4; mkop [0%nat] 1]].

(** legal decisions of a mid-episode state, all contained; (0, 1) is legal *)
Example C18_legal_nonvacuous :
  legal_decisions ex_I (mkd [] [1%nat; 0%nat] [] []) = [[0; 1]; [0; -1]; [1; 1]; [1; -1]] /\
  legal ex_I (init_d ex_I) 0 1 /\ action_nvec ex_I = [2; 3] /\
  forallb (action_contains (action_nvec ex_I)) (legal_decisions ex_I (init_d ex_I)) = true.
Proof.
  split; [vm_compute; reflexivity|]. split; [|split; vm_compute; reflexivity].
  exists (mkop [0%nat; 1%nat] 3). split; [reflexivity|]. left. exists 1%nat. split; [right; left; reflexivity|reflexivity].
Qed.

(** padding: the doctest of add_padding, a too-large input, the empty edge index *)
Example C18_add_padding_nonvacuous :
  pad2 (-1) 3 3 [[1; 2]; [3; 4]] = Some [[1; 2; -1]; [3; 4; -1]; [-1; -1; -1]] /\
  pad2 (-1) 2 1 [[1; 2]; [3; 4]] = None /\ pad2 (-1) 2 3 [] = Some [[-1; -1; -1]; [-1; -1; -1]] /\
  pad1 true 4 [false; true] = Some [false; true; true; true] /\ pad1 true 1 [false; true] = None /\
  rect [[1; 2]; [3; 4]].
Proof. repeat split; try (vm_compute; reflexivity). repeat constructor. Qed.

(** a single environment on the disjunctive graph of [ex_I]: 7 nodes, 19
    edges; after removing operation 0 and the source (node 5) the observation
    has 9 real edge columns followed by 10 columns of -1 and is in the space *)
Example C18_single_nonvacuous :
  exists g0, build_by_code 0 ex_I = Some g0 /\ graph_ok g0 /\
    let shapes := composite_shapes ex_I [mkfo 0 None; mkfo 4 None; mkfo 5 (Some [FJobs])] in
    shapes = [(FOps, (5, 2)); (FMachines, (2, 1)); (FJobs, (2, 2))]%nat /\
    let sp := observation_space g0 shapes in
    sp_nodes sp = 7%nat /\ sp_edges sp = 19%nat /\
    feats_contains shapes (zero_feats shapes) = true /\
    let g := run_removes g0 [0%nat; 5%nat; 0%nat] in
    length (edge_view g) = 9%nat /\
    g_removed g = [true; false; false; false; false; true; false] /\
    option_map (fun o => (ob_edge o, obs_contains sp o)) (get_observation true sp g (zero_feats shapes)) =
      Some ([[1; 1; 2; 2; 2; 3; 3; 3; 4; -1; -1; -1; -1; -1; -1; -1; -1; -1; -1];
             [2; 3; 1; 3; 6; 1; 2; 4; 6; -1; -1; -1; -1; -1; -1; -1; -1; -1; -1]], true) /\
    option_map (fun o => obs_contains sp o) (get_observation false sp g (zero_feats shapes)) = Some false.
Proof.
  destruct (build_by_code 0 ex_I) as [g0|] eqn:E; [|vm_compute in E; discriminate].
  exists g0. split; [reflexivity|]. split; [apply (build_by_code_ok _ _ _ E)|].
  vm_compute in E. inversion E; subst. vm_compute. repeat split; reflexivity.
Qed.

(** done: a complete run through environment steps (with a rejected one) *)
Example C18_done_nonvacuous :
  let l := [RStep 0 1; RStep 1 (-1); RStep 0 0; RStep 0 (-1); RStep 1 (-1); RStep 0 (-1)] in
  validb ex_I = true /\
  map (fun k => step_done ex_I (core (run_a obs o_update ex_I (init_w obs ex_I []) (firstn k l))))
      [0; 3; 5; 6]%nat = [false; false; false; true].
Proof. vm_compute. split; reflexivity. Qed.

(** multi environment: a reachable state after constructor, reset, one step;
    its configuration (non-default updater) is the constructor's; an episode
    that fits is padded into the declared space *)
Definition s_fit : stream := [2;2; 1;0; 1;1; 1;1; 1;0].
Example C18_multi_nonvacuous :
  exists m g m' g',
    multi_init p_w 3 cfg_w (fresh s_max) = Ok (Some m) g /\
    multi_reset true m (set_rng g s_fit) = Ok (Some m') g' /\
    reachable cfg_w 3 p_w (set_inner m' (inner_removes (m_inner m') [0%nat])) /\
    i_cfg (m_inner m') = cfg_w /\ wf_paramsb p_w = true /\
    space_fits (i_space (m_inner m')) (m_space m') = true /\
    option_map (fun o => (ob_removed o, obs_contains (m_space m') o))
               (multi_observe (-1) (set_inner m' (inner_removes (m_inner m') [0%nat]))
                              (zero_feats (sp_feats (i_space (m_inner m'))))) =
      Some ([true; false; false; false; false; false; false; false; false], true).
Proof.
  destruct (multi_init p_w 3 cfg_w (fresh s_max)) as [[m|] g| |] eqn:Ei; try (vm_compute in Ei; discriminate).
  destruct (multi_reset true m (set_rng g s_fit)) as [[m'|] g'| |] eqn:Er;
    try (vm_compute in Ei; inversion Ei; subst; vm_compute in Er; discriminate).
  exists m, g, m', g'. split; [reflexivity|]. split; [exact Er|].
  split; [apply reach_step; eapply reach_reset; [eapply reach_init; exact Ei|exact Er]|].
  vm_compute in Ei. inversion Ei; subst. vm_compute in Er. inversion Er; subst.
  vm_compute. repeat split; reflexivity.
Qed.
