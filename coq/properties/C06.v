(** C06 — time only moves forward. Statements only; proofs in proofs/Clock.v. *)
From JSL Require Import Base Instance Dstate Filters World Observers Feasible Derived
     DispatchFun Inv Run Replay FilterSpec FilterFacts Sublist NoDeadlock Clock.
From Coq Require Import Lia.

(** [p_now I fs d] is [Dispatcher.current_time()] for filter configuration [fs]
    (uncached definition; equal to the cached query in every reachable world by
    C05). [w] ranges over the worlds reached by arbitrary request lists. *)

(** No filter, every instance with durations >= 0 (zero included): along every
    history the current time never decreases. *)
Theorem C06_now_never_decreases :
  forall (I : instance) (rs : list request) (r : request), valid I -> has_machines I ->
    let w := run_reqs obs o_update I [] rs in
    p_now I [] (core w) <= p_now I [] (core (step_req obs o_update I w r)).
Proof.
  intros I rs r Hv Hm w. apply (now_step_unfiltered obs o_update I Hv Hm).
  apply (run_Inv obs o_update I [] rs Hv).
Qed.
Print Assumptions C06_now_never_decreases.

(** Positive durations: under ANY composition of built-in filters the current
    time is the one the unfiltered dispatcher shows - filtering never changes
    the current time - hence it never decreases either. *)
Theorem C06_filters_do_not_move_the_clock :
  forall (I : instance) (fs : list fname) (rs : list request), positive I ->
    let d := core (run_reqs obs o_update I fs rs) in
    p_now I fs d = p_now I [] d.
Proof.
  intros I fs rs Hp d.
  assert (Hv : valid I) by (intros j p o Ho; destruct (Hp j p o Ho); lia).
  assert (Hm : has_machines I) by (intros j p o Ho; destruct (Hp j p o Ho); assumption).
  apply (now_filters_irrelevant I Hm d fs (run_Inv obs o_update I fs rs Hv) Hp).
Qed.
Print Assumptions C06_filters_do_not_move_the_clock.

Theorem C06_now_never_decreases_filtered :
  forall (I : instance) (fs : list fname) (rs : list request) (r : request), positive I ->
    let w := run_reqs obs o_update I fs rs in
    p_now I fs (core w) <= p_now I fs (core (step_req obs o_update I w r)).
Proof.
  intros I fs rs r Hp w.
  assert (Hv : valid I) by (intros j p o Ho; destruct (Hp j p o Ho); lia).
  assert (Hm : has_machines I) by (intros j p o Ho; destruct (Hp j p o Ho); assumption).
  apply (now_step_filtered obs o_update I Hv Hm w r fs Hp). apply (run_Inv obs o_update I fs rs Hv).
Qed.
Print Assumptions C06_now_never_decreases_filtered.

(** The set of completed operations only grows (no filter: durations >= 0;
    any filters: positive durations). *)
Theorem C06_completed_only_grows :
  forall (I : instance) (fs : list fname) (rs : list request) (r : request) (k : nat * nat),
    valid I -> has_machines I -> (fs = [] \/ positive I) ->
    let w := run_reqs obs o_update I fs rs in
    In k (p_completed I fs (core w)) -> In k (p_completed I fs (core (step_req obs o_update I w r))).
Proof.
  intros I fs rs r k Hv Hm Hc w. apply (completed_step obs o_update I Hv Hm w r fs k); [|exact Hc].
  apply (run_Inv obs o_update I fs rs Hv).
Qed.
Print Assumptions C06_completed_only_grows.

(** What "completed" means: scheduled and ended by the current time. *)
Theorem C06_completed_means :
  forall (I : instance) (fs : list fname) (rs : list request) (k : nat * nat), valid I ->
    let d := core (run_reqs obs o_update I fs rs) in
    In k (p_completed I fs d) <->
    exists y, In y (all_sops (sched d)) /\ key y = k /\ s_end I y <= p_now I fs d.
Proof. intros I fs rs k Hv d. apply (completed_char I Hv d fs k). apply (run_Inv obs o_update I fs rs Hv). Qed.
Print Assumptions C06_completed_means.

(** Once the schedule is complete the current time equals the makespan. *)
Theorem C06_now_at_completion :
  forall (I : instance) (fs : list fname) (rs : list request), valid I -> has_machines I ->
    let d := core (run_reqs obs o_update I fs rs) in
    complete I (sched d) -> p_now I fs d = makespan I (sched d).
Proof.
  intros I fs rs Hv Hm d. apply (now_at_completion I Hv Hm d fs). apply (run_Inv obs o_update I fs rs Hv).
Qed.
Print Assumptions C06_now_at_completion.

(** Remark (outside the property): with a ZERO duration the dominated-operations
    filter can make the clock go back - which is why the filtered statements
    ask for positive durations. Witness (replayed on the implementation by the
    harness corpus): clock 2 -> 0. *)
Definition zz_I : instance := [[mkop [1%nat] 2; mkop [1%nat] 0]; [mkop [0%nat] 0]].
Example C06_zero_duration_filtered_clock_can_go_back :
  let w := run_reqs obs o_update zz_I [FDominated] [mkreq 0 0 None] in
  validb zz_I = true /\ positiveb zz_I = false /\
  p_now zz_I [FDominated] (core w) = 2 /\
  p_now zz_I [FDominated] (core (step_req obs o_update zz_I w (mkreq 0 1 None))) = 0.
Proof. vm_compute. repeat split; reflexivity. Qed.

Definition ex_I : instance := [[mkop [0%nat; 1%nat] 3; mkop [1%nat] 2]; [mkop [1%nat] 4; mkop [0%nat] 1]].
Example C06_nonvacuous :
  positiveb ex_I = true /\
  map (fun rs => p_now ex_I [FDominated; FNonIdleMachines] (core (run_reqs obs o_update ex_I [FDominated; FNonIdleMachines] rs)))
      [[]; [mkreq 0 0 (Some 0)]; [mkreq 0 0 (Some 0); mkreq 1 0 None]; [mkreq 0 0 (Some 0); mkreq 1 0 None; mkreq 0 1 None];
       [mkreq 0 0 (Some 0); mkreq 1 0 None; mkreq 0 1 None; mkreq 1 1 None]] = [0; 0; 4; 4; 6].
Proof. vm_compute. split; reflexivity. Qed.
