(** C01 — every dispatch history yields a feasible schedule.
    Statements only; proofs are in proofs/Inv.v and proofs/Run.v. *)
From JSL Require Import Base Instance Dstate Filters World Observers Feasible DispatchFun Inv Run.

(** Every instance with non-negative durations (flexible or not, empty jobs,
    zero durations), every filter configuration [fs], every list of requests
    [rs] — ready or not, any machine id or none; rejected ones leave the world
    unchanged — hence every prefix, interleaving and machine choice. *)
Theorem C01_feasible :
  forall (I : instance) (fs : list fname) (rs : list request), valid I ->
    feasible I (sched (core (run_reqs obs o_update I fs rs))) /\
    (count_accepted obs o_update I (init_w obs I fs) rs = num_ops I ->
     complete I (sched (core (run_reqs obs o_update I fs rs)))).
Proof. exact (dispatch_histories_feasible obs o_update). Qed.
Print Assumptions C01_feasible.

(** [Schedule.is_complete()] is true exactly when every operation occurs. *)
Theorem C01_is_complete_iff :
  forall (I : instance) (fs : list fname) (rs : list request), valid I ->
    (is_complete I (sched (core (run_reqs obs o_update I fs rs))) = true <->
     complete I (sched (core (run_reqs obs o_update I fs rs)))).
Proof. intros I fs rs Hv. apply is_complete_spec. apply run_Inv; exact Hv. Qed.
Print Assumptions C01_is_complete_iff.

(** The oracle applied to the implementation's schedules is the specification. *)
Theorem C01_oracle_is_spec :
  forall (I : instance) (S : schedule), feasibleb I S = true <-> feasible I S.
Proof. exact feasibleb_spec. Qed.
Print Assumptions C01_oracle_is_spec.

(** Non-vacuity: a flexible instance with a zero duration and recirculation,
    a request list containing rejected requests, ending complete. *)
Definition ex_I : instance :=
  [[mkop [0%nat; 1%nat] 3; mkop [1%nat] 0; mkop [0%nat] 2]; [mkop [1%nat] 4; mkop [1%nat; 0%nat] 1]].
Definition ex_rs : list request :=
  [mkreq 0 0 (Some 1); mkreq 0 2 None; mkreq 1 0 None; mkreq 1 1 (Some 5); mkreq 0 1 None;
   mkreq 1 1 (Some 0); mkreq 0 2 (Some 0); mkreq 0 2 (Some 0)].
Example C01_nonvacuous :
  validb ex_I = true /\
  count_accepted obs o_update ex_I (init_w obs ex_I []) ex_rs = num_ops ex_I /\
  sched (core (run_reqs obs o_update ex_I [] ex_rs)) =
    [[mksop 1 1 7 0; mksop 0 2 8 0]; [mksop 0 0 0 1; mksop 1 0 3 1; mksop 0 1 7 1]].
Proof. vm_compute. repeat split; reflexivity. Qed.
