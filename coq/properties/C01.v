From JSL Require Import Base Instance Dstate Feasible.
Theorem placeholder_C01 : True. Proof. exact I. Qed.
Print Assumptions placeholder_C01.
