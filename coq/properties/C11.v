(** C11 — incremental features equal a from-scratch recomputation.
    Statements only; proofs in proofs/Feature*.v.

    Setting of every theorem: a system [s0] of subscribers of one dispatcher
    (any observers, any subscription order) in which the observer under study
    sits at index [i], subscribed once, in the state its constructor leaves at
    the INITIAL dispatcher state ([placed s0 i (fresh ...)]; [C11_constructors_place]
    shows that the constructors of the model produce exactly that). Then ANY
    request list [rs] (accepted and rejected requests, any machine choices) is
    run through the dispatcher world ([after_run] = [run_from] over
    [World.dispatch] with the feature-observer system as subscriber). The
    feature arrays afterwards are compared with spec/FeatureSpec.v evaluated on
    the schedule rows [rows w] only.

    [EarliestStartTimeObserver] is the REPAIRED one (fix-C11-earliest-start);
    RemainingOperations / IsCompleted initialise by counting the dispatcher's
    unscheduled operations (repo commit 196fa58), Duration's job sums likewise
    (19e9d43). *)
From JSL Require Import Base Instance Dstate Filters World Observers Feasible Derived DispatchFun Inv Run Replay
     FeatureObservers FeatureSpec FeatureBase FeatureSimple FeatureProofs FeatureEst FeatureComposite FeatureMachines FeatureCompletedOps FeatureCompletedMach.

(** ** IsReady: readiness w.r.t. the installed filter (every entity, every filter, zero durations included) *)
Theorem C11_is_ready :
  forall (I : instance) (fs : list fname), valid I -> forall m rs s0 i,
    placed s0 i (fresh I fs FIsReady m) ->
    let w := after_run I fs s0 rs in
    (t_ops m = true -> forall j p o, get_op I j p = Some o ->
        cell (fo_ops (feat w i)) (op_id I j p) = Some (sp_ready_op I fs (rows w) (j, p))) /\
    (t_mach m = true -> forall mm, (mm < num_machines I)%nat ->
        cell (fo_mach (feat w i)) mm = Some (sp_ready_mach I fs (rows w) mm)) /\
    (t_jobs m = true -> forall j, (j < num_jobs I)%nat ->
        cell (fo_jobs (feat w i)) j = Some (sp_ready_job I fs (rows w) j)).
Proof. exact is_ready_after. Qed.
Print Assumptions C11_is_ready.

(** ** IsScheduled: scheduled flag; number of scheduled-but-unfinished operations per machine / job *)
Theorem C11_is_scheduled :
  forall (I : instance) (fs : list fname), valid I -> forall m rs s0 i,
    placed s0 i (fresh I fs FIsScheduled m) ->
    let w := after_run I fs s0 rs in
    (t_ops m = true -> forall j p o, get_op I j p = Some o ->
        cell (fo_ops (feat w i)) (op_id I j p) = Some (sp_sched_op (rows w) (j, p))) /\
    (t_mach m = true -> forall mm, (mm < num_machines I)%nat ->
        cell (fo_mach (feat w i)) mm = Some (sp_ongoing_mach I fs (rows w) mm)) /\
    (t_jobs m = true -> forall j, (j < num_jobs I)%nat ->
        cell (fo_jobs (feat w i)) j = Some (sp_ongoing_job I fs (rows w) j)).
Proof. exact is_scheduled_after. Qed.
Print Assumptions C11_is_scheduled.

(** ** PositionInJob: number of unscheduled operations in front (0 once scheduled) *)
Theorem C11_position_in_job :
  forall (I : instance) (fs : list fname), valid I -> forall m rs s0 i,
    t_mach m = false -> t_jobs m = false ->
    placed s0 i (fresh I fs FPosInJob m) ->
    let w := after_run I fs s0 rs in
    t_ops m = true -> forall j p o, get_op I j p = Some o ->
        cell (fo_ops (feat w i)) (op_id I j p) = Some (sp_position (rows w) (j, p)).
Proof. exact position_after. Qed.
Print Assumptions C11_position_in_job.

(** ** RemainingOperations: per job; per machine on non-flexible instances.
    (On any instance the machine array is "initial count minus the number of
    operations dispatched on that machine", [remm_vec].) *)
Theorem C11_remaining_operations :
  forall (I : instance) (fs : list fname), valid I -> forall m rs s0 i,
    t_ops m = false -> placed s0 i (fresh_rem I m) ->
    let w := after_run I fs s0 rs in
    (t_jobs m = true -> forall j, (j < num_jobs I)%nat ->
        cell (fo_jobs (feat w i)) j = Some (sp_rem_job I (rows w) j)) /\
    (t_mach m = true -> is_flexible I = false -> forall mm, (mm < num_machines I)%nat ->
        cell (fo_mach (feat w i)) mm = Some (sp_rem_mach I (rows w) mm)).
Proof. exact remaining_operations_after. Qed.
Print Assumptions C11_remaining_operations.

(** ** Duration. What holds ([_partial]): unscheduled operations carry their
    duration; jobs the summed duration of their unscheduled operations; machines
    likewise on non-flexible instances. What does NOT hold: the remaining
    duration of an operation that is still running ([C11_duration_ongoing_refuted]). *)
Theorem C11_duration_partial :
  forall (I : instance) (fs : list fname), valid I -> forall m rs s0 i,
    placed s0 i (fresh I fs FDuration m) ->
    let w := after_run I fs s0 rs in
    (t_ops m = true -> forall j p op, get_op I j p = Some op -> sp_scheduled (rows w) (j, p) = false ->
        cell (fo_ops (feat w i)) (op_id I j p) = Some (sp_dur_op I fs (rows w) (j, p))) /\
    (t_jobs m = true -> forall j, (j < num_jobs I)%nat ->
        cell (fo_jobs (feat w i)) j = Some (sp_dur_job I (rows w) j)) /\
    (t_mach m = true -> is_flexible I = false -> forall mm, (mm < num_machines I)%nat ->
        cell (fo_mach (feat w i)) mm = Some (sp_dur_mach I (rows w) mm)).
Proof. exact duration_partial_after. Qed.
Print Assumptions C11_duration_partial.

(** The full claim "every operation with work left shows its remaining
    duration" is false: a running operation keeps the value computed when it
    was dispatched. Job 0 = one operation of 5 on machine 0, job 1 = two
    operations of 2 on machine 1; after dispatching (0,0) and (1,0) the
    current time is 2, operation (0,0) runs until 5 (3 left) and the array
    still says 5. *)
Definition dur_I : instance := [[mkop [0%nat] 5]; [mkop [1%nat] 2; mkop [1%nat] 2]].
Definition dur_rs : list request := [mkreq 0 0 (Some 0); mkreq 1 0 (Some 1)].
Theorem C11_duration_ongoing_refuted :
  exists (I : instance) (fs : list fname) (rs : list request) (j p : nat),
    validb I = true /\
    let w := after_run I fs (new_sys I fs FDuration ftm_all) rs in
    op_work_left I fs (rows w) (j, p) = true /\
    sp_scheduled (rows w) (j, p) = true /\
    cell (fo_ops (feat w 0)) (op_id I j p) = Some 5 /\ sp_dur_op I fs (rows w) (j, p) = 3.
Proof. exists dur_I, [], dur_rs, 0%nat, 0%nat. vm_compute. repeat split; reflexivity. Qed.
Print Assumptions C11_duration_ongoing_refuted.

(** ** IsCompleted. What holds ([_partial]): the flag of a non-empty job / of
    a machine that has operations (flexible instances included: every eligible
    machine counts) is raised exactly when all its operations are SCHEDULED. The documented
    meaning (every operation COMPLETED) fails ([C11_is_completed_refuted]). *)
Theorem C11_is_completed_partial :
  forall (I : instance) (fs : list fname), valid I -> forall m rs s0 i,
    placed s0 i (fresh_comp I m) ->
    let w := after_run I fs s0 rs in
    (t_jobs m = true -> forall j, (j < num_jobs I)%nat -> get_job I j <> [] ->
        cell (fo_jobs (feat w i)) j = Some (sp_allsched_job I (rows w) j)) /\
    (t_mach m = true -> forall mm, (mm < num_machines I)%nat -> existsb (on_machine I mm) (all_keys I) = true ->
        cell (fo_mach (feat w i)) mm = Some (sp_allsched_mach I (rows w) mm)).
Proof. exact completed_partial_after. Qed.
Print Assumptions C11_is_completed_partial.

(** Operation level: the flags are sticky, so the claim rests on the clock
    being monotone (C06): no filter, or any filters on positive durations. Every
    operation that still has work left shows 0. *)
Theorem C11_is_completed_operations :
  forall (I : instance) (fs : list fname), valid I -> has_machines I -> (fs = [] \/ positive I) ->
    forall m rs s0 i, placed s0 i (fresh_comp I m) ->
    let w := after_run I fs s0 rs in
    t_ops m = true -> forall j p op, get_op I j p = Some op -> op_work_left I fs (rows w) (j, p) = true ->
        cell (fo_ops (feat w i)) (op_id I j p) = Some (sp_completed_op I fs (rows w) (j, p)).
Proof. exact completed_ops_after. Qed.
Print Assumptions C11_is_completed_operations.

(** Job 0 = one operation of 5 on machine 0, job 1 = one operation of 2 on
    machine 1. After dispatching (0,0) the current time is 0, the operation
    runs until 5, job 0 and machine 0 still have work left — and both are
    flagged completed. *)
Definition comp_I : instance := [[mkop [0%nat] 5]; [mkop [1%nat] 2]].
Theorem C11_is_completed_refuted :
  exists (I : instance) (fs : list fname) (rs : list request) (j mm : nat),
    validb I = true /\
    let w := after_run I fs (new_sys I fs FIsCompleted ftm_all) rs in
    job_work_left I fs (rows w) j = true /\ mach_work_left I fs (rows w) mm = true /\
    cell (fo_jobs (feat w 0)) j = Some 1 /\ sp_completed_job I fs (rows w) j = 0 /\
    cell (fo_mach (feat w 0)) mm = Some 1 /\ sp_completed_mach I fs (rows w) mm = 0.
Proof. exists comp_I, [], [mkreq 0 0 (Some 0)], 0%nat, 0%nat. vm_compute. repeat split; reflexivity. Qed.
Print Assumptions C11_is_completed_refuted.

(** ** EarliestStartTime (repaired): relative to the current time, every
    operation (a scheduled one: its start; an unscheduled one: the job chain
    held back by machine availability), every machine (minimum over its
    unscheduled operations; [- now] when none is left), every job that has an
    unscheduled operation. Flexible instances, recirculation, ragged
    per-machine counts, filters and zero durations included. *)
Theorem C11_earliest_start_time :
  forall (I : instance) (fs : list fname), valid I -> forall m rs s0 i,
    placed s0 i (fresh_est I fs m) ->
    let w := after_run I fs s0 rs in
    (t_ops m = true -> forall j p op, get_op I j p = Some op ->
        cell (fo_ops (feat w i)) (op_id I j p) = Some (sp_est_op I fs (rows w) (j, p))) /\
    (t_mach m = true -> forall mm, (mm < num_machines I)%nat ->
        cell (fo_mach (feat w i)) mm = Some (sp_est_mach I fs (rows w) mm)) /\
    (t_jobs m = true -> forall j, (j < num_jobs I)%nat -> job_has_unscheduled I (rows w) j = true ->
        cell (fo_jobs (feat w i)) j = Some (sp_est_job I fs (rows w) j)).
Proof. exact earliest_start_after. Qed.
Print Assumptions C11_earliest_start_time.

(** ** Composite: after any request list the composite's matrices are the
    column-wise concatenation, in component order, of its components' CURRENT
    matrices, its column names are the ones fixed at construction — provided
    no component is notified after the composite ([after_components]: the
    composite was constructed after its parts). *)
Theorem C11_composite :
  forall (I : instance) (fs : list fname) (s0 : fsys) (c : nat) (o0 : fobs),
    after_components s0 c o0 -> fo_cmat o0 = comp_mats s0 (fo_comps o0) ->
    forall rs d, exists s' o',
      run_from fsys f_update I (fw fs d s0) rs = fw fs (fold_left (apply_req I) rs d) s' /\
      nth_error (f_objs s') c = Some o' /\ fo_comps o' = fo_comps o0 /\ fo_cnames o' = fo_cnames o0 /\
      fo_cmat o' = comp_mats s' (fo_comps o0).
Proof. exact composite_after_run. Qed.
Print Assumptions C11_composite.

(** ** Constructors: with supported feature types no constructor raises, in
    any dispatcher state, whatever is subscribed already (regular instances
    with ragged per-machine operation counts included). *)
Theorem C11_constructible :
  forall I fs d k m cs s, k <> FComposite -> k <> FUnsched -> ftm_sub m (supported k) = true ->
    exists s' i, f_new I fs d k m cs s = (s', inl i).
Proof. exact constructible. Qed.
Print Assumptions C11_constructible.

(** The constructors, run on an empty subscriber list at the initial state,
    place exactly the objects the theorems above start from. *)
Theorem C11_constructors_place :
  forall I fs m,
    (forall k, k = FIsReady \/ k = FDuration \/ k = FIsScheduled \/ k = FPosInJob ->
               ftm_sub m (supported k) = true -> placed (new_sys I fs k m) 0 (fresh I fs k m)) /\
    placed (new_sys I fs FEst m) 0 (fresh_est I fs m) /\
    (t_ops m = false -> placed (new_sys I fs FRemOps m) 0 (fresh_rem I m)) /\
    placed (new_sys I fs FIsCompleted m) 0 (fresh_comp I m).
Proof.
  intros I fs m. split; [intros k; apply new_simple|]. split; [apply new_est|]. split; [apply new_rem|apply new_comp].
Qed.
Print Assumptions C11_constructors_place.

(** ** Non-vacuity: a flexible instance with recirculation, a zero duration,
    irregular job lengths and an unused machine id; all seven observers and a
    composite subscribed from the start; a request list with rejected requests. *)
Definition ex_I : instance :=
  [[mkop [0%nat; 2%nat] 3; mkop [2%nat] 0; mkop [0%nat] 2]; [mkop [2%nat] 4; mkop [2%nat; 0%nat] 1]; [mkop [3%nat] 2]].
Definition ex_rs : list request :=
  [mkreq 0 0 (Some 2); mkreq 0 2 None; mkreq 1 0 None; mkreq 1 1 (Some 5); mkreq 0 1 None; mkreq 1 1 (Some 0)].
Definition ex_sys : fsys :=
  fold_left (fun s k => fst (f_new ex_I [FDominated] (init_d ex_I) k (supported k) None s))
            [FIsReady; FEst; FDuration; FIsScheduled; FPosInJob; FRemOps; FIsCompleted; FComposite] empty_sys.
Example C11_nonvacuous :
  validb ex_I = true /\ is_flexible ex_I = true /\
  f_subs ex_sys = [0; 1; 2; 3; 4; 5; 6; 7; 8]%nat /\
  (let w := after_run ex_I [FDominated] ex_sys ex_rs in
   length (all_sops (rows w)) = 4%nat /\
   fo_ops (feat w 1) = Some [0; 7; 8; 3; 7; 0] /\
   fo_jobs (feat w 7) = Some [0; 1; 0] /\
   nth 0 (fo_cmat (feat w 8)) None =
     Some [[0; 0; 0; 1; 0; 1]; [0; 7; 0; 1; 0; 0]; [1; 8; 2; 0; 0; 0]; [0; 3; 0; 1; 0; 1]; [0; 7; 1; 1; 0; 0];
           [1; 0; 2; 0; 0; 0]]).
Proof. vm_compute. repeat split; reflexivity. Qed.
