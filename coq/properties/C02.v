(** C02 — start times are forced, bookkeeping matches, histories replay.
    Statements only; proofs in proofs/Tracking.v, Replay.v, Run.v, SessionInv.v. *)
From JSL Require Import Base Instance Dstate Filters World Observers Session Feasible Derived
     DispatchFun Inv Run Tracking Replay SessionInv.

(** In every world reachable by ANY event script (accepted and rejected
    dispatches and environment steps, queries, resets, observer events), the
    tracking vectors equal their from-scratch recomputation from the schedule
    rows ([dstate_of]: per-row largest end; per-job count and largest end), the
    scheduled-operation count is the number of operations in the rows, and
    [Schedule.makespan()] is the largest end time of any scheduled operation. *)
Theorem C02_tracking :
  forall (I : instance) (fs : list fname) (evs : list val), valid I ->
    let d := core (run_world I evs (init_w obs I fs)) in
    dstate_of I (sched d) = d /\
    num_scheduled (sched d) = length (all_sops (sched d)) /\
    makespan_code I (sched d) = makespan I (sched d).
Proof.
  intros I fs evs Hv d. pose proof (proj1 (reachable_WInv I Hv fs evs)) as Hi. fold d in Hi.
  split; [exact (tracking_derived I d Hi)|]. split; [exact (proj1 (num_scheduled_derived I d Hi))|].
  exact (makespan_derived I d Hi).
Qed.
Print Assumptions C02_tracking.

(** An accepted dispatch appends, to the row of the chosen machine, the
    operation with start = max (end of its job predecessor in the schedule, 0
    if none; end of the last operation in that row, 0 if empty), and touches no
    other row. *)
Theorem C02_start_forced :
  forall (I : instance) (fs : list fname) (rs : list request) (r : request), valid I ->
    let w := run_reqs obs o_update I fs rs in
    accepts obs o_update I w r = true ->
    exists x, s_job x = r_job r /\ s_pos x = r_pos r /\
      s_start x = forced_start I (sched (core w)) (s_job x) (s_pos x) (s_mach x) /\
      sched (core (step_req obs o_update I w r)) =
        upd (sched (core w)) (s_mach x) (nth (s_mach x) (sched (core w)) [] ++ [x]).
Proof.
  intros I fs rs r Hv w Hacc.
  destruct (step_req_cases obs o_update I w r) as [[_ Hf]|(x & o & row & Ha & Hs & _)]; [congruence|].
  exists x. pose proof (run_Inv obs o_update I fs rs Hv) as Hi. fold w in Hi.
  split; [apply (a_job _ _ _ _ _ _ Ha)|]. split; [apply (a_pos _ _ _ _ _ _ Ha)|].
  split; [exact (start_forced I (core w) Hi r x o row Ha)|].
  rewrite Hs. simpl. rewrite (nth_error_nth _ _ _ (a_row _ _ _ _ _ _ Ha)). reflexivity.
Qed.
Print Assumptions C02_start_forced.

(** Replay: the history observer (subscribed from the start) holds exactly the
    accepted dispatches, and re-dispatching them — each as (operation, machine
    it ran on) — from the initial state reproduces the dispatcher state,
    schedule rows included. [Dispatcher.reset] returns to that initial state
    ([C02_reset_is_initial]), so the same holds on a reset dispatcher. *)
Theorem C02_replay :
  forall (I : instance) (fs : list fname) (rs : list request),
    let w := run_from obs o_update I (hist_world fs (init_d I) []) rs in
    objs w = [OHist (accepted_sops I (init_d I) rs)] /\
    core (run_from obs o_update I (hist_world fs (init_d I) [])
                   (map req_of (accepted_sops I (init_d I) rs))) = core w.
Proof.
  intros I fs rs w. unfold w. rewrite history_records_accepted. split; [reflexivity|].
  rewrite core_run_from. cbn [core hist_world]. apply replay_core.
Qed.
Print Assumptions C02_replay.

Theorem C02_reset_is_initial :
  forall (I : instance) (w : wld), core (fst (reset o_reset I w)) = init_d I.
Proof. intros I w. rewrite reset_eq. reflexivity. Qed.
Print Assumptions C02_reset_is_initial.

(** Non-vacuity: flexible instance, zero duration, recirculation, rejected
    requests in between; the recorded history replays to the same rows. *)
Definition ex_I : instance :=
  [[mkop [0%nat; 1%nat] 3; mkop [1%nat] 0; mkop [0%nat] 2]; [mkop [1%nat] 4; mkop [1%nat; 0%nat] 1]].
Definition ex_rs : list request :=
  [mkreq 0 0 (Some 1); mkreq 0 2 None; mkreq 1 0 None; mkreq 1 1 (Some 5); mkreq 0 1 None;
   mkreq 1 1 (Some 0); mkreq 0 2 (Some 0); mkreq 0 2 (Some 0)].
Example C02_nonvacuous :
  validb ex_I = true /\
  length (accepted_sops ex_I (init_d ex_I) ex_rs) = 5%nat /\
  sched (core (run_from obs o_update ex_I (hist_world [] (init_d ex_I) []) ex_rs)) =
    [[mksop 1 1 7 0; mksop 0 2 8 0]; [mksop 0 0 0 1; mksop 1 0 3 1; mksop 0 1 7 1]] /\
  forced_start ex_I [[mksop 1 1 7 0]; [mksop 0 0 0 1; mksop 1 0 3 1; mksop 0 1 7 1]] 0 2 0 = 8.
Proof. vm_compute. repeat split; reflexivity. Qed.
