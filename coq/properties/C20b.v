(** C20b — the images handed to the GIF / video encoder (the part of C20 that
    the repair 6fb35e8 added to the library: [_pad_to_common_shape]).
    Statements only; proofs are in proofs/FramesProofs.v (and GanttProofs.v
    for the order of the frames).

    Model: coq/model/Frames.v. Frames saved with a tight bounding box differ
    in pixel size as soon as the legend shows a longer label; imageio refuses
    to stack images of different shapes, so before the repair NO animation
    was produced for 11 or more jobs. What must hold of the padding for the
    k-th frame of the animation to still show history[:k]: as many images as
    frames, in the same order, one common shape, every pixel of every frame
    in place, only white added, and nothing at all changed where the frames
    already had one shape. *)
From JSL Require Import Base Instance Dstate Filters World Observers Feasible DispatchFun Inv Run
     Gantt GanttSpec GanttProofs Frames FramesProofs FramesAnim.
From Coq Require Import Permutation Lia.

(** As many images as were read, for any list of images (also none). *)
Theorem C20_padding_keeps_the_number_of_frames :
  forall imgs : list image, length (pad_to_common_shape imgs) = length imgs.
Proof. exact pad_length. Qed.
Print Assumptions C20_padding_keeps_the_number_of_frames.

(** What imageio receives has ONE shape - whatever the shapes read (so that
    [mimsave] cannot refuse it), and every image is a rectangular array. *)
Theorem C20_padded_frames_have_one_shape :
  forall (imgs : list image) (i j : image),
    In i (pad_to_common_shape imgs) -> In j (pad_to_common_shape imgs) -> same_shape i j.
Proof. exact pad_one_shape. Qed.
Print Assumptions C20_padded_frames_have_one_shape.

Theorem C20_padded_frames_are_arrays :
  forall imgs : list image, Forall wf_image imgs -> Forall wf_image (pad_to_common_shape imgs).
Proof. exact pad_wf. Qed.
Print Assumptions C20_padded_frames_are_arrays.

(** The common shape is the smallest that holds every frame. *)
Theorem C20_common_shape_is_the_largest_frame :
  forall (imgs : list image) (j : image), In j (pad_to_common_shape imgs) ->
    i_h j = list_max0 (map i_h imgs) /\ i_w j = list_max0 (map i_w imgs).
Proof. exact pad_shape. Qed.
Print Assumptions C20_common_shape_is_the_largest_frame.

(** The k-th image handed on is the k-th image read: every pixel where it
    was, and white (255) wherever the image read had no pixel. *)
Theorem C20_padding_keeps_every_pixel :
  forall (imgs : list image) (k : nat) (i : image),
    nth_error imgs k = Some i ->
    exists j, nth_error (pad_to_common_shape imgs) k = Some j /\
      (forall r c, (r < i_h i)%nat -> (c < i_w i)%nat -> px j r c = px i r c) /\
      (forall r c, (r < i_h j)%nat -> (c < i_w j)%nat -> ~ ((r < i_h i)%nat /\ (c < i_w i)%nat) ->
                   px j r c = WHITE).
Proof. exact pad_pixels. Qed.
Print Assumptions C20_padding_keeps_every_pixel.

(** Frames of one shape (every animation that could be produced before the
    repair) reach imageio untouched; padding twice is padding once. *)
Theorem C20_padding_is_the_identity_on_frames_of_one_shape :
  forall imgs : list image,
    (forall i j, In i imgs -> In j imgs -> same_shape i j) -> pad_to_common_shape imgs = imgs.
Proof. exact pad_identity. Qed.
Print Assumptions C20_padding_is_the_identity_on_frames_of_one_shape.

Theorem C20_padding_idempotent :
  forall imgs : list image,
    pad_to_common_shape (pad_to_common_shape imgs) = pad_to_common_shape imgs.
Proof. exact pad_idempotent. Qed.
Print Assumptions C20_padding_idempotent.

(** End to end, for ANY rendering of a frame into pixels (matplotlib's
    [savefig] and imageio's [imread] are outside the model: [render] is
    universally quantified), any recorded history of any length and any
    directory listing order: the images handed to the encoder are as many as
    the history is long, have one shape, and the k-th of them contains, pixel
    for pixel, the picture of history[:k]. *)
Theorem C20_encoded_frame_k_shows_first_k :
  forall (render : frame -> image)
         (I : instance) (fs : list fname) (rs : list request) (listing : list name),
    valid I -> recorded I fs rs <> [] ->
    Permutation listing (dir_names (fst (create_gantt_chart_frames I (recorded I fs rs)))) ->
    let h := recorded I fs rs in
    load_images (fst (create_gantt_chart_frames I h)) listing = Some (map Some (frames_expected I h)) /\
    let out := pad_to_common_shape (map render (frames_expected I h)) in
    length out = length h /\
    (forall i j, In i out -> In j out -> same_shape i j) /\
    forall k, (1 <= k <= length h)%nat ->
      let pic := render (mkframe (sched_of_history I (firstn k h)) (makespan I (sched_of_history I h))) in
      exists j, nth_error out (k - 1) = Some j /\
        forall r c, (r < i_h pic)%nat -> (c < i_w pic)%nat -> px j r c = px pic r c.
Proof. exact encoded_frames_of_recorded. Qed.
Print Assumptions C20_encoded_frame_k_shows_first_k.

(** Non-vacuity: three frames, the third one wider (the legend grew) and one
    of them lower; the first two are padded, the third is handed on as it is. *)
Example C20_padding_nonvacuous :
  pad_to_common_shape
    [mkimg 2 2 [[1; 2]; [3; 4]]; mkimg 1 2 [[5; 6]]; mkimg 2 3 [[7; 8; 9]; [10; 11; 12]]] =
    [mkimg 2 3 [[1; 2; 255]; [3; 4; 255]]; mkimg 2 3 [[5; 6; 255]; [255; 255; 255]];
     mkimg 2 3 [[7; 8; 9]; [10; 11; 12]]] /\
  pad_to_common_shape [] = [] /\
  pad_to_common_shape [mkimg 0 3 []; mkimg 1 0 [[]]] = [mkimg 1 3 [[255; 255; 255]]; mkimg 1 3 [[255; 255; 255]]].
Proof. vm_compute. repeat split; reflexivity. Qed.
