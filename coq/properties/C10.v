(** C10 — observers see every dispatch once, in order, after it took effect.
    Statements only; proofs in proofs/Notify.v, Replay.v. *)
From JSL Require Import Base Instance Dstate Filters World Observers Feasible
     DispatchFun Run Replay Notify.

(** The notification loop applies the update function to the state of every
    subscribed observer exactly once and to nobody else (subscriber lists built
    by constructors have no duplicates: [C10_constructors_keep_nodup]); with
    duplicates, as many times as the object occurs. The loop is a left fold over
    the subscriber list, i.e. in subscription order; that order is what the
    correspondence check compares with the implementation's call sequence. *)
Theorem C10_each_subscriber_once :
  forall (O : Type) (f : O -> O) (ss : list nat) (os : list O) (i : nat), NoDup ss ->
    nth_error (notify_all f ss os) i =
    if mem_nat i ss then option_map f (nth_error os i) else nth_error os i.
Proof. exact notify_all_spec. Qed.
Print Assumptions C10_each_subscriber_once.

Theorem C10_notified_as_often_as_subscribed :
  forall (O : Type) (f : O -> O) (ss : list nat) (os : list O) (i : nat),
    nth_error (notify_all f ss os) i =
    option_map (iter_n O (count_occ Nat.eq_dec ss i) f) (nth_error os i).
Proof. exact notify_all_count. Qed.
Print Assumptions C10_notified_as_often_as_subscribed.

(** Accepted dispatch: all current subscribers are notified with the appended
    operation and with the dispatcher state AFTER the dispatch (rows and
    tracking vectors updated, cache already empty, so every query made from
    inside [update] is answered for the post-state - C05). *)
Theorem C10_post_state :
  forall (I : instance) (w : wld) (r : request) (x : sop),
    sop_of_request I (core w) r = Some x ->
    let w' := step_req obs o_update I w r in
    objs w' = notify_all (o_update I (filt w) (core w') x) (subs w) (objs w) /\
    wcache w' = empty_cache /\ subs w' = subs w /\
    sched (core w') = upd (sched (core w)) (s_mach x) (row_of (core w) x ++ [x]).
Proof. exact accepted_notifies_post_state. Qed.
Print Assumptions C10_post_state.

Theorem C10_rejected_silent :
  forall (I : instance) (w : wld) (r : request),
    sop_of_request I (core w) r = None -> step_req obs o_update I w r = w.
Proof. exact rejected_notifies_nobody. Qed.
Print Assumptions C10_rejected_silent.

Theorem C10_reset_once :
  forall (I : instance) (w : wld),
    let w' := fst (reset o_reset I w) in
    core w' = init_d I /\ wcache w' = empty_cache /\ subs w' = subs w /\
    objs w' = notify_all (o_reset I (filt w) (init_d I)) (subs w) (objs w).
Proof. exact reset_notifies_post_state. Qed.
Print Assumptions C10_reset_once.

(** The history observer's record equals the sequence of accepted dispatches. *)
Theorem C10_history :
  forall (I : instance) (fs : list fname) (rs : list request) (d : dstate) (h : list sop),
    run_from obs o_update I (hist_world fs d h) rs =
    hist_world fs (fold_left (apply_req I) rs d) (h ++ accepted_sops I d rs).
Proof. exact history_records_accepted. Qed.
Print Assumptions C10_history.

Theorem C10_singleton :
  forall (I : instance) (w : wld) (k : okind),
    is_singleton k = true -> existsb (is_instance k) (subscribed_kinds w) = true ->
    new_observer I k w = (w, inr EValidation).
Proof. exact singleton_not_subscribed_twice. Qed.
Print Assumptions C10_singleton.

Theorem C10_create_or_get :
  forall (I : instance) (w : wld) (k : okind) (al : option (list nat)),
    (forall i, find_sub (objs w) k al (subs w) = Some i ->
       create_or_get I k al w = (w, inl i) /\ In i (subs w) /\ cond_ok al i = true /\
       exists o, nth_error (objs w) i = Some o /\ is_instance k (kind_of o) = true) /\
    (find_sub (objs w) k al (subs w) = None ->
       (forall i o, In i (subs w) -> nth_error (objs w) i = Some o ->
                    is_instance k (kind_of o) && cond_ok al i = false) /\
       create_or_get I k al w = new_observer I k w).
Proof.
  intros I w k al. split.
  - intros i H. split; [exact (create_or_get_returns_match I w k al i H)|exact (find_sub_sound _ _ _ _ _ H)].
  - intros H. split; [exact (find_sub_complete _ _ _ _ H)|].
    unfold create_or_get, bind, get. cbn. rewrite H. reflexivity.
Qed.
Print Assumptions C10_create_or_get.

(** What "matches" means ([isinstance]): every object is an instance of its own
    class, an object of a subclass is an instance of the base class, an object
    of the base class is NOT an instance of the subclass. With the two theorems
    above: create-or-get of a base class returns an already subscribed object
    of a subclass, and a singleton base class cannot be constructed while an
    object of its subclass is subscribed. *)
Theorem C10_instance_of :
  forall (k : okind) (s : bool),
    is_instance k k = true /\
    is_instance (KRec s false) (KRec s true) = true /\
    is_instance (KRec s true) (KRec s false) = false.
Proof.
  intros k s. split; [|split].
  - destruct k as [| | | |[|] [|]|]; reflexivity.
  - destruct s; reflexivity.
  - destruct s; reflexivity.
Qed.
Print Assumptions C10_instance_of.

Theorem C10_constructors_keep_nodup :
  forall (I : instance) (k : okind) (w : wld), SubsOK w -> SubsOK (fst (new_observer I k w)).
Proof. exact new_observer_SubsOK. Qed.
Print Assumptions C10_constructors_keep_nodup.

Definition ex_I : instance := [[mkop [0%nat] 3; mkop [1%nat] 2]; [mkop [1%nat] 4]].
Definition ex_w : wld := mkw (init_d ex_I) empty_cache [] [OHist []; ORec false false []; OMakespan [] 0] [2%nat; 0%nat].
Example C10_nonvacuous :
  objs (step_req obs o_update ex_I ex_w (mkreq 0 0 None)) =
    [OHist [mksop 0 0 0 0]; ORec false false []; OMakespan [-3] 3] /\
  find_sub (objs ex_w) KHist None (subs ex_w) = Some 0%nat /\
  find_sub (objs ex_w) (KRec false false) None (subs ex_w) = None.
Proof. vm_compute. repeat split; reflexivity. Qed.

(** Subclasses: an object of the subclass of the non-singleton recorder is what
    create-or-get of the recorder returns; the singleton recorder cannot be
    constructed while an object of its subclass is subscribed, the other way
    round it can. *)
Definition ex_w2 : wld :=
  mkw (init_d ex_I) empty_cache [] [ORec false true []; ORec true true []; ORec true false []] [0%nat; 1%nat].
Example C10_subclass_nonvacuous :
  create_or_get ex_I (KRec false false) None ex_w2 = (ex_w2, inl 0%nat) /\
  new_observer ex_I (KRec true false) ex_w2 = (ex_w2, inr EValidation) /\
  snd (new_observer ex_I (KRec true true) (mkw (init_d ex_I) empty_cache [] [ORec true false []] [0%nat])) = inl 1%nat.
Proof. vm_compute. repeat split; reflexivity. Qed.

