(** C07 — ready-operation filters prune soundly and never deadlock.
    Statements only; proofs in proofs/FilterFacts.v, Sublist.v, NoDeadlock.v. *)
From JSL Require Import Base Instance Dstate Filters World Observers Feasible Derived
     DispatchFun Inv Run Replay FilterSpec FilterFacts Sublist NoDeadlock.

(** [d] ranges over every dispatcher state satisfying the invariant [Inv]
    (every reachable state does: [C07_reachable]); [L] over every list of
    existing operations with at least one machine - in particular every
    sub-list of the ready operations, in any order. *)

(** Each filter, as written (loops, reversed scan with break, early return on
    a zero duration), returns exactly [List.filter criterion L] for its
    documented criterion stated from scratch in spec/FilterSpec.v (both
    directions of "keeps exactly"; the dominated filter returns the first
    zero-duration operation alone when there is one). *)
Theorem C07_filter_is_criterion :
  forall (I : instance) (d : dstate) (L : list (nat * nat)) (f : fname),
    Inv I d -> ops_ok I L -> apply_filter I d f L = spec_filter I d f L.
Proof. intros I d L f Hi HL. exact (filter_is_spec I d Hi L HL f). Qed.
Print Assumptions C07_filter_is_criterion.

(** Sub-list (same order, no duplicates, no foreign operations) and never
    empty, for every composition of filters. *)
Theorem C07_composite :
  forall (I : instance) (d : dstate) (fs : list fname) (L : list (nat * nat)),
    valid I -> Inv I d -> ops_ok I L ->
    sublist (apply_filters I d fs L) L /\ (L <> [] -> apply_filters I d fs L <> []).
Proof. intros I d fs L Hv Hi HL. exact (filters_sublist_nonempty I Hv d Hi fs L HL). Qed.
Print Assumptions C07_composite.

Theorem C07_sublist_means :
  forall a b, sublist a b -> (forall x, In x a -> In x b) /\ (NoDup b -> NoDup a) /\ sublistb a b = true.
Proof.
  intros a b H. split; [intros x; apply sublist_In; exact H|]. split; [apply sublist_NoDup; exact H|].
  apply sublistb_spec; exact H.
Qed.
Print Assumptions C07_sublist_means.

(** No deadlock: along every request list, under every filter configuration,
    an incomplete schedule has an available operation, the available
    operations are ready operations, and every one of them is accepted on each
    of its eligible machines (so the schedule can be completed by choosing only
    among available operations: each accepted dispatch adds one operation, and
    after num_operations of them the schedule is complete - C01). *)
Theorem C07_no_deadlock :
  forall (I : instance) (fs : list fname) (rs : list request), valid I -> has_machines I ->
    let d := core (run_reqs obs o_update I fs rs) in
    (~ complete I (sched d) -> available I d fs <> []) /\
    sublist (available I d fs) (raw_ready I d) /\
    (forall j p m, In (j, p) (raw_ready I d) -> In m (kmachines I (j, p)) ->
       exists x, sop_of_request I d (mkreq j p (Some (Z.of_nat m))) = Some x /\
                 s_job x = j /\ s_pos x = p /\ s_mach x = m).
Proof.
  intros I fs rs Hv Hm d. pose proof (run_Inv obs o_update I fs rs Hv) as Hi. fold d in Hi.
  split; [exact (no_deadlock I Hv Hm d Hi fs)|]. split; [exact (available_sublist_ready I Hv Hm d Hi fs)|].
  exact (ready_dispatchable I Hm d Hi).
Qed.
Print Assumptions C07_no_deadlock.

Theorem C07_reachable :
  forall (I : instance) (fs : list fname) (rs : list request), valid I ->
    Inv I (core (run_reqs obs o_update I fs rs)).
Proof. intros I fs rs Hv. exact (run_Inv obs o_update I fs rs Hv). Qed.
Print Assumptions C07_reachable.

(** the oracle applied to the implementation's filter outputs is the specification *)
Theorem C07_oracle_sublist : forall a b, sublistb a b = true <-> sublist a b.
Proof. exact sublistb_spec. Qed.
Print Assumptions C07_oracle_sublist.

Definition ex_I : instance :=
  [[mkop [0%nat; 1%nat] 9; mkop [1%nat] 2]; [mkop [1%nat] 4; mkop [0%nat] 6]; [mkop [0%nat] 0; mkop [1%nat] 5];
   [mkop [1%nat] 1]].
Definition ex_d : dstate := core (run_reqs obs o_update ex_I [] [mkreq 0 0 (Some 0); mkreq 1 0 None]).
Definition ex_L := [(0, 1); (1, 1); (3, 0)]%nat.
Example C07_nonvacuous :
  raw_ready ex_I ex_d = [(0, 1); (1, 1); (2, 0); (3, 0)]%nat /\
  apply_filter ex_I ex_d FDominated (raw_ready ex_I ex_d) = [(2, 0)]%nat /\
  apply_filter ex_I ex_d FDominated ex_L = [(1, 1); (3, 0)]%nat /\
  apply_filter ex_I ex_d FNonIdleMachines ex_L = [(0, 1); (3, 0)]%nat /\
  apply_filter ex_I ex_d FNonImmediateOps ex_L = [(3, 0)]%nat /\
  apply_filter ex_I ex_d FNonImmediateMachines ex_L = [(0, 1); (3, 0)]%nat /\
  apply_filters ex_I ex_d [FNonImmediateOps; FNonImmediateMachines] (raw_ready ex_I ex_d) = [(3, 0)]%nat.
Proof. vm_compute. repeat split; reflexivity. Qed.
