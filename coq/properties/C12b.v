(** C12 (continued) — reset makes everything indistinguishable from new:
    the feature observers (model/FeatureObservers.v) and the residual graph
    updater with the observers it depends on (model/Residual.v), both with the
    initialisation as repaired by /repo commits 196fa58 (RemainingOperations /
    IsCompleted count the dispatcher's own unscheduled operations) and
    b64948b / f806e65 (EarliestStartTime recomputes its matrix from the
    dispatcher state). Proofs in proofs/ResetFeatObj.v, ResetFeatures.v,
    ResetResidual.v. The dispatcher and the plain observers are in C12.v.

    Setting. A CREATION SCRIPT is any list of constructor calls [f_new] (any
    of the seven feature observers, the composite, the unscheduled-operations
    observer; any feature-type mask; the dependencies a constructor creates or
    shares through create-or-get included) run on a new dispatcher:
    [fresh_world I fs sc]. The one hypothesis, [scoped], says that a composite
    constructed with an explicit component list names objects that exist at
    that moment (in Python it is handed the objects themselves); scripts
    without explicit component lists satisfy it trivially
    ([C12_scripts_without_explicit_components_scoped]). Then ANY request list
    (accepted and rejected requests) is dispatched, and [Dispatcher.reset]
    ([World.reset] with [f_reset], a loop over the LIVE subscriber list) runs. *)
From JSL Require Import Base Instance Dstate Filters World Observers Graph Feasible DispatchFun Run Replay
     FeatureObservers FeatureBase Residual ResidualProofs CmdC16 ResetFeatObj ResetFeatures ResetResidual.
From Coq Require Import Lia.

(** ** Feature observers *)

(** FULL world equality: dispatcher fields of a new dispatcher, empty cache,
    same filter, and the whole subscriber system (subscription order, every
    feature vector, the earliest-start matrix, the completion counters, the
    deques, composite matrices and column names) equal to what the same
    constructor calls leave on a new dispatcher — whatever order the observers
    were created in. *)
Theorem C12_features_reset_is_fresh :
  forall (I : instance) (fs : list fname) (sc : list cstep) (rs : list request),
    scoped I fs (init_d I) sc empty_sys ->
    fst (reset f_reset I (run_from fsys f_update I (fresh_world I fs sc) rs)) = fresh_world I fs sc.
Proof. exact reset_is_fresh. Qed.
Print Assumptions C12_features_reset_is_fresh.

(** every episode ends in the fresh world, so every episode starts from it *)
Theorem C12_features_every_episode_starts_fresh :
  forall (I : instance) (fs : list fname) (sc : list cstep) (eps : list (list request)),
    scoped I fs (init_d I) sc empty_sys ->
    fold_left (episode I) eps (fresh_world I fs sc) = fresh_world I fs sc.
Proof. exact episodes_are_fresh. Qed.
Print Assumptions C12_features_every_episode_starts_fresh.

(** ... and any further request list evolves the world (dispatcher AND every
    observer, after every single dispatch: take prefixes of [rs]) exactly as
    on freshly constructed objects *)
Theorem C12_features_after_reset_like_fresh :
  forall (I : instance) (fs : list fname) (sc : list cstep) (eps : list (list request)) (rs : list request),
    scoped I fs (init_d I) sc empty_sys ->
    run_from fsys f_update I (fold_left (episode I) eps (fresh_world I fs sc)) rs =
    run_from fsys f_update I (fresh_world I fs sc) rs.
Proof. exact after_reset_like_fresh. Qed.
Print Assumptions C12_features_after_reset_like_fresh.

Lemma scoped_no_explicit I fs d sc : forall s,
  (forall c, In c sc -> cs_comps c = None) -> scoped I fs d sc s.
Proof.
  induction sc as [|c t IH]; intros s H; [exact Logic.I|]. split.
  - intros l x E. rewrite (H c (or_introl eq_refl)) in E. discriminate.
  - apply IH. intros c' Hc'. apply H. right. exact Hc'.
Qed.
Theorem C12_scripts_without_explicit_components_scoped :
  forall I fs (sc : list cstep), (forall c, In c sc -> cs_comps c = None) -> scoped I fs (init_d I) sc empty_sys.
Proof. intros I fs sc. apply scoped_no_explicit. Qed.
Print Assumptions C12_scripts_without_explicit_components_scoped.

(** object level: on the just-reset dispatcher, [reset()] of an observer
    forgets whatever an [update] of an accepted dispatch wrote *)
Theorem C12_feature_object_reset_forgets_update :
  forall (I : instance) (fs : list fname) d x s s' (o : fobs),
    (s_pos x < length (get_job I (s_job x)))%nat ->
    robj I fs (init_d I) s (upd_obs I fs d x s' o) = robj I fs (init_d I) s o.
Proof. exact robj_upd. Qed.
Print Assumptions C12_feature_object_reset_forgets_update.

(** in a well-formed system the reset of the subscriber at [i] is that
    object-level function (nothing else is touched, nothing is appended) *)
Theorem C12_reset_one_is_object_reset :
  forall (I : instance) (fs : list fname) d s i (o : fobs), Wf s -> nth_error (f_objs s) i = Some o ->
    reset_one I fs d s i = fput s i (robj I fs d s o).
Proof. exact reset_one_wf. Qed.
Print Assumptions C12_reset_one_is_object_reset.

(** ** Residual graph updater *)

(** [ps]: the dependency observers the user created before the updater
    (create-or-get UnscheduledOperations, RemainingOperations / IsCompleted
    with any feature types), [rm_m] / [rm_j]: the two options, [g]: ANY graph
    (so: each of the four built-in builders, [C12_updater_reset_is_fresh_builders]).
    Full world equality again: the graph is the initial deep copy, the
    updater's IsCompleted observer and everything subscribed before the
    updater are in their freshly constructed state, in the same order. *)
Theorem C12_updater_reset_is_fresh :
  forall (I : instance) (fs : list fname) (ps : list pre) (rm_m rm_j : bool) (g : graph) (rs : list request),
    fst (reset rgu_reset I (run_from rgu rgu_update I (fresh_rg I fs ps rm_m rm_j g) rs)) = fresh_rg I fs ps rm_m rm_j g.
Proof. exact rgu_reset_is_fresh. Qed.
Print Assumptions C12_updater_reset_is_fresh.

Theorem C12_updater_reset_is_fresh_builders :
  forall (I : instance) (fs : list fname) (b : nat) (g : graph) (ps : list pre) (rm_m rm_j : bool) (rs : list request),
    build_by_code b I = Some g ->
    fst (reset rgu_reset I (run_from rgu rgu_update I (fresh_rg I fs ps rm_m rm_j g) rs)) = fresh_rg I fs ps rm_m rm_j g.
Proof. intros I fs b g ps rm_m rm_j rs _. apply rgu_reset_is_fresh. Qed.
Print Assumptions C12_updater_reset_is_fresh_builders.

Theorem C12_updater_every_episode_starts_fresh :
  forall (I : instance) (fs : list fname) (ps : list pre) (rm_m rm_j : bool) (g : graph) (eps : list (list request)),
    fold_left (episode_rg I) eps (fresh_rg I fs ps rm_m rm_j g) = fresh_rg I fs ps rm_m rm_j g.
Proof. exact rgu_episodes_are_fresh. Qed.
Print Assumptions C12_updater_every_episode_starts_fresh.

Theorem C12_updater_after_reset_like_fresh :
  forall (I : instance) (fs : list fname) (ps : list pre) (rm_m rm_j : bool) (g : graph)
         (eps : list (list request)) (rs : list request),
    run_from rgu rgu_update I (fold_left (episode_rg I) eps (fresh_rg I fs ps rm_m rm_j g)) rs =
    run_from rgu rgu_update I (fresh_rg I fs ps rm_m rm_j g) rs.
Proof. exact rgu_after_reset_like_fresh. Qed.
Print Assumptions C12_updater_after_reset_like_fresh.

(** ** Non-vacuity *)

(** the witness of the defect found on the unrepaired tree: IsCompleted
    created FIRST (subscription order IsCompleted, RemainingOperations,
    UnscheduledOperations), then EarliestStartTime, RemainingOperations again,
    a composite of everything, a composite with explicit components; a
    request list with a rejected request *)
Definition exb_I : instance := [[mkop [0%nat] 3; mkop [1%nat] 2]; [mkop [1%nat; 0%nat] 4; mkop [0%nat] 0]].
Definition exb_sc : list cstep :=
  [mkcs FIsCompleted ftm_all None; mkcs FEst ftm_all None; mkcs FRemOps (mkftm false true true) None;
   mkcs FIsReady (mkftm true false true) None; mkcs FComposite ftm_all None;
   mkcs FComposite ftm_all (Some [3%nat; 0%nat])].
Definition exb_rs : list request :=
  [mkreq 0 0 None; mkreq 1 1 None; mkreq 1 0 (Some 0); mkreq 1 1 None].

Example C12b_features_nonvacuous :
  scoped exb_I [FDominated] (init_d exb_I) exb_sc empty_sys /\
  f_subs (sys_of (fresh_world exb_I [FDominated] exb_sc)) = [0; 1; 2; 3; 4; 5; 6; 7]%nat /\
  map fo_kind (f_objs (sys_of (fresh_world exb_I [FDominated] exb_sc))) =
    [FIsCompleted; FRemOps; FUnsched; FEst; FRemOps; FIsReady; FComposite; FComposite] /\
  (let w := run_from fsys f_update exb_I (fresh_world exb_I [FDominated] exb_sc) exb_rs in
   fo_remj (fget (sys_of w) 0) = [1; 0] /\ fo_remj (fget (sys_of (fresh_world exb_I [FDominated] exb_sc)) 0) = [2; 2] /\
   fo_est (fget (sys_of w) 3) <> fo_est (fget (sys_of (fresh_world exb_I [FDominated] exb_sc)) 3) /\
   fst (reset f_reset exb_I w) = fresh_world exb_I [FDominated] exb_sc).
Proof.
  split.
  - cbn [scoped exb_sc]. repeat split; intros l x E Hin; try discriminate.
    inversion E; subst. destruct Hin as [<-|[<-|[]]]; vm_compute; lia.
  - vm_compute. repeat split; try reflexivity. intros H. discriminate.
Qed.

(** a pre-existing IsCompleted observer that lacks the MACHINES feature (the
    updater creates its own: dependencies IsCompleted, RemainingOperations,
    UnscheduledOperations, IsCompleted, RemainingOperations), agent-task graph *)
Definition exb_rs2 : list request := [mkreq 0 0 None; mkreq 1 0 (Some 0); mkreq 1 1 None].
Example C12b_updater_nonvacuous :
  exists g, build_by_code 1 exb_I = Some g /\
  map dk (u_deps (rgu_fresh exb_I [PIsComp true false true] true true g)) =
    [KC false true; KR false true; KU; KC true true; KR true true] /\
  (let w := run_from rgu rgu_update exb_I (fresh_rg exb_I [] [PIsComp true false true] true true g) exb_rs2 in
   g_removed (u_graph (nth 0 (objs w) (rgu_fresh exb_I [] true true g))) <> g_removed g /\
   fst (reset rgu_reset exb_I w) = fresh_rg exb_I [] [PIsComp true false true] true true g).
Proof.
  eexists. split; [vm_compute; reflexivity|]. vm_compute. repeat split; try reflexivity. intros H. discriminate.
Qed.
