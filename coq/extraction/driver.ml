(* driver.ml — trusted glue: parse "<cmd> <sexp>" lines into Model.val, call
   Model.run_cmd, print the resulting val as an s-expression.  Integers are
   converted through OCaml's 63-bit int; the harness keeps every number far
   below that. *)
open Model

let rec pos_of_int (n : int) : positive =
  if n = 1 then XH
  else if n land 1 = 0 then XO (pos_of_int (n lsr 1))
  else XI (pos_of_int (n lsr 1))

let z_of_int (n : int) : z =
  if n = 0 then Z0 else if n > 0 then Zpos (pos_of_int n) else Zneg (pos_of_int (- n))

let rec int_of_pos (p : positive) : int =
  match p with XH -> 1 | XO q -> 2 * int_of_pos q | XI q -> 2 * int_of_pos q + 1

let int_of_z (x : z) : int =
  match x with Z0 -> 0 | Zpos p -> int_of_pos p | Zneg p -> - (int_of_pos p)

(* parser *)
let parse (s : string) (start : int) : val0 * int =
  let n = String.length s in
  let rec skip i = if i < n && (s.[i] = ' ' || s.[i] = '\t') then skip (i + 1) else i in
  let rec value i =
    let i = skip i in
    if i >= n then failwith "unexpected end"
    else if s.[i] = '(' then
      let rec items i acc =
        let i = skip i in
        if i >= n then failwith "unclosed"
        else if s.[i] = ')' then (VL (List.rev acc), i + 1)
        else let (v, j) = value i in items j (v :: acc)
      in items (i + 1) []
    else
      let j = ref i in
      while !j < n && s.[!j] <> ' ' && s.[!j] <> ')' && s.[!j] <> '(' do incr j done;
      (VI (z_of_int (int_of_string (String.sub s i (!j - i)))), !j)
  in value start

let rec print (b : Buffer.t) (v : val0) : unit =
  match v with
  | VI x -> Buffer.add_string b (string_of_int (int_of_z x))
  | VL l ->
    Buffer.add_char b '(';
    List.iteri (fun i x -> if i > 0 then Buffer.add_char b ' '; print b x) l;
    Buffer.add_char b ')'

let () =
  let b = Buffer.create 65536 in
  (try
    while true do
      let line = input_line stdin in
      if String.length line > 0 then begin
        let sp = String.index line ' ' in
        let c = int_of_string (String.sub line 0 sp) in
        let (v, _) = parse line sp in
        Buffer.clear b;
        print b (run_cmd (z_of_int c) v);
        print_string (Buffer.contents b); print_newline ()
      end
    done
  with End_of_file -> ())
