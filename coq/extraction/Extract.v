(** Extraction of the executable model. Only ExtrOcamlBasic is used: [nat],
    [positive], [Z] stay the extracted inductive types. *)
From JSL Require Import Base Commands.
Require Import ExtrOcamlBasic.
Extraction Language OCaml.
Extraction "model.ml" run_cmd.
