#!/bin/bash
# tools/thorough_all.sh [checks...] - the thorough tier of every registered check on the current /repo tree,
# one line per check. Evidence goes to $VERIF_OUT when set (default: evidence/).
cd /verif
checks="$@"
[ -z "$checks" ] && checks=$(/venv/bin/python -c "import json; print(' '.join(c['property_id'] for c in json.load(open('MANIFEST.json'))['checks']))")
for c in $checks; do
  s=$(date +%s)
  out=$(./check $c --tier thorough 2>&1); rc=$?
  e=$(( $(date +%s) - s ))
  echo "rc=$rc ${e}s :: $(echo "$out" | grep "^$c \[" | tail -1) $(echo "$out" | grep '^VIOLATION\|^KNOWN' | tr '\n' ' ')"
done
