#!/bin/bash
# tools/reconfirm_parallel.sh - every stored seeded change against the current harness, five property groups in
# parallel (checks of different properties do not share files). Logs: .scratch/reconfirm_g<k>.log
cd /verif
./build.sh > /dev/null 2>&1
k=0
for grp in "C01 C02 C03 C04" "C05 C06 C07 C08" "C09 C10 C11 C12" "C13 C14 C15 C16" "C17 C18 C19 C20"; do
  k=$((k+1))
  ids=""
  for p in $grp; do ids="$ids $(ls seeded | grep "^$p-")"; done
  (RECONFIRM_FAST=1 tools/reconfirm_all.sh $ids > .scratch/reconfirm_g$k.log 2>&1 &)
done
echo started
