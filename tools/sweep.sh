#!/bin/bash
# tools/sweep.sh "<seeds>" [checks...] — run the quick tier of the given (default: all registered) checks for
# several seeds on the current /repo tree; print one line per run that is NOT a clean pass.
cd /verif
seeds="${1:-1 2 3}"; shift
checks="$@"
[ -z "$checks" ] && checks=$(/venv/bin/python -c "import json; print(' '.join(c['property_id'] for c in json.load(open('MANIFEST.json'))['checks']))")
for s in $seeds; do
  for c in $checks; do
    out=$(VERIF_SEED=$s ./check $c --tier quick 2>&1); rc=$?
    line=$(echo "$out" | grep "^$c \[" | tail -1)
    if [ $rc -ne 0 ] || echo "$out" | grep -q "^VIOLATION"; then echo "seed=$s $c rc=$rc :: $line :: $(echo "$out" | grep '^VIOLATION' | tail -1)"; else echo "ok seed=$s $line"; fi
  done
done
