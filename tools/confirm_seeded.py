#!/usr/bin/env python3
"""tools/confirm_seeded.py <src dir with patch.diff, demo.py, notes.md> <seeded id> <property> [checks...]

Confirms a seeded change in a scratch worktree of /repo's HEAD (patch applies, unedited test-suite passes with it,
demo fails with it and passes without it), runs the named checks against it (applied to /repo, undone afterwards),
and stores it under /verif/seeded/<id>/ with meta.json. The scratch worktree is removed."""
import json
import os
import shutil
import subprocess
import sys
import tempfile

src, sid, prop = sys.argv[1:4]
checks = sys.argv[4:] or [prop]
env = dict(os.environ, PYTHONHASHSEED="0", MPLBACKEND="Agg")


def sh(cmd, cwd=None, extra=None):
    e = dict(env)
    if extra:
        e.update(extra)
    p = subprocess.run(cmd, shell=True, cwd=cwd, env=e, capture_output=True, text=True)
    return p.returncode, (p.stdout + p.stderr)


FAST = os.environ.get("RECONFIRM_FAST") == "1"   # skip the (already done) validation of the proposal itself
wt = tempfile.mkdtemp(prefix="seedchk-")
os.rmdir(wt)
meta = {"id": sid, "property": prop, "source": src}
try:
    if FAST:
        old = json.load(open(f"/verif/seeded/{sid}/meta.json"))
        for k in ("applies", "tests_with_change", "demo_with_change_exit", "demo_with_change_tail",
                  "demo_without_change_exit"):
            meta[k] = old.get(k)
        raise StopIteration
    rc, out = sh(f"git -C /repo worktree add --detach {wt} HEAD")
    assert rc == 0, out
    rc, out = sh(f"git apply {src}/patch.diff", cwd=wt)
    meta["applies"] = rc == 0
    assert rc == 0, "patch does not apply: " + out
    px = {"PYTHONPATH": wt}
    rc, out = sh("/venv/bin/python -m pytest -q -p no:cacheprovider --timeout=900 2>&1 | tail -1", cwd=wt, extra=px)
    meta["tests_with_change"] = out.strip()
    assert "190 passed" in out, out
    rc1, out1 = sh(f"/venv/bin/python {src}/demo.py", cwd=wt, extra=px)
    meta["demo_with_change_exit"] = rc1
    meta["demo_with_change_tail"] = out1.strip()[-600:]
    sh("git checkout -- .", cwd=wt)
    rc0, out0 = sh(f"/venv/bin/python {src}/demo.py", cwd=wt, extra=px)
    meta["demo_without_change_exit"] = rc0
    assert rc1 != 0 and rc0 == 0, f"demo exit with={rc1} without={rc0}\n{out1[-500:]}\n{out0[-500:]}"
except StopIteration:
    pass
finally:
    if not FAST:
        sh(f"git -C /repo worktree remove --force {wt}")
    shutil.rmtree(wt, ignore_errors=True)

# run the checks against it: in a second scratch worktree with the change applied, selected through VERIF_REPO
# (equivalent to `git -C /repo apply` + check + `git -C /repo checkout -- .`, but does not disturb other users of /repo;
# set SEED_IN_REPO=1 to do it in /repo itself)
results = {}
in_repo = os.environ.get("SEED_IN_REPO") == "1"
wt2 = "/repo"
try:
    if in_repo:
        rc, out = sh("git -C /repo diff --quiet")
        assert rc == 0, "/repo dirty"
    else:
        wt2 = tempfile.mkdtemp(prefix="seedrun-")
        os.rmdir(wt2)
        rc, out = sh(f"git -C /repo worktree add --detach {wt2} HEAD")
        assert rc == 0, out
    rc, out = sh(f"git -C {wt2} apply {src}/patch.diff")
    assert rc == 0, out
    for c in checks:
        for _attempt in range(3):
            rc, out = sh(f"./check {c} --tier quick", cwd="/verif", extra={"VERIF_REPO": wt2, "VERIF_OUT": "/verif/.scratch/seeded-out"})
            if rc != 2:
                break
            print("check broken (exit 2), retrying:", out[-400:])
            import time; time.sleep(20)
        lines = [l for l in out.splitlines() if l.startswith("VIOLATION") or l.startswith(c + " [")]
        results[c] = {"exit": rc, "lines": lines[-2:]}
finally:
    if in_repo:
        sh("git -C /repo checkout -- .")
    else:
        sh(f"git -C /repo worktree remove --force {wt2}")
        shutil.rmtree(wt2, ignore_errors=True)
meta["checks"] = results
meta["caught_by"] = [c for c, r in results.items() if r["exit"] == 1]
dst = f"/verif/seeded/{sid}"
os.makedirs(dst, exist_ok=True)
for f in ("patch.diff", "demo.py", "notes.md"):
    shutil.copy(os.path.join(src, f), dst)
with open(os.path.join(src, "notes.md")) as f:
    meta["needs"] = f.read()[:1500]
meta["ran"] = ["git apply patch.diff (scratch worktree of /repo HEAD)", "pytest (190 passed)",
               "demo.py with change (exit != 0)", "demo.py without change (exit 0)"] + [f"./check {c} --tier quick" for c in checks]
try:
    with open(os.path.join(dst, "meta.json")) as f:
        for k, v in json.load(f).items():
            if k in ("note", "superseded_by_fix"):
                meta[k] = v
except (OSError, ValueError):
    pass
with open(os.path.join(dst, "meta.json"), "w") as f:
    json.dump(meta, f, indent=1)
print(sid, "confirmed; caught by", meta["caught_by"], {c: r["lines"][-1:] for c, r in results.items()})
