#!/bin/bash
# tools/reconfirm_all.sh [ids...] - re-runs every stored seeded change (seeded/<id>/) through confirm_seeded.py
# with the CURRENT harness: a regression test of the checks themselves. Evidence / replays of these runs go to
# .scratch/seeded-out, never to evidence/.
cd /verif
ids="$@"; [ -z "$ids" ] && ids=$(ls seeded)
for id in $ids; do
  prop=${id%%-*}
  if grep -q superseded_by_fix seeded/$id/meta.json 2>/dev/null; then echo "$id skipped: superseded by a fix in /repo"; continue; fi
  src=$(mktemp -d /verif/.scratch/reseed-XXXX); cp seeded/$id/patch.diff seeded/$id/demo.py seeded/$id/notes.md $src/
  checks=$(python3 -c "import json;print(' '.join(json.load(open('seeded/$id/meta.json')).get('checks',{'$prop':0}).keys()))" 2>/dev/null || echo $prop)
  /venv/bin/python tools/confirm_seeded.py $src $id $prop $checks 2>&1 | tail -1 | cut -c1-220
  rm -rf $src
done
