#!/usr/bin/env python3
"""Regenerates MANIFEST.json from the table below (run by hand after adding a check)."""
import json
import os

VERIF = os.path.dirname(os.path.dirname(os.path.abspath(__file__)))

CHECKS = {
    "C01": {
        "text": "Theorem C01_feasible (Coq, induction over arbitrary request lists with the invariant Inv): every "
                "reachable dispatcher schedule is feasible, and complete after num_operations accepted dispatches, "
                "for every instance with durations >= 0, every filter configuration, every interleaving and machine "
                "choice. The hand-written model is tied to /repo on every run by differential execution of generated "
                "event scripts (implementation vs extracted model) and the extracted, proved-correct checker "
                "feasibleb is applied to the implementation's own schedules after every event.",
        "note": "Trusted: Coq kernel, extraction (ExtrOcamlBasic), driver.ml, the harness; the tie between model and "
                "code is sampled (generated event scripts), not proved. Closed under the global context.",
        "technique": "Coq proof (invariant by induction over requests) + differential correspondence with extracted model + extracted verified oracle",
        "design": "DESIGN.md §5 C01",
    },
    "C02": {
        "text": "Theorems C02_tracking, C02_start_forced, C02_replay, C02_reset_is_initial (Coq): in every world reachable by "
                "ANY event script (accepted/rejected dispatches and environment steps, queries, resets, observer events) the "
                "tracking vectors equal dstate_of I rows - a from-scratch recomputation from the schedule rows alone (largest "
                "end per row; per-job count and largest end) -, the count equals the number of operations in the rows and "
                "Schedule.makespan() equals the largest end time; an accepted dispatch appends to the chosen row exactly one "
                "operation starting at max(end of job predecessor in the schedule, end of last operation of the row); the "
                "history observer holds exactly the accepted dispatches and re-dispatching them from the initial (or reset) "
                "state reproduces the dispatcher state. Tied to /repo by differential execution of event scripts; the "
                "extracted from-scratch definitions (dstate_of, forced_start, sp_makespan) are applied to the implementation's "
                "own rows after every event, and recorded histories are replayed on fresh and on reset real dispatchers.",
        "note": "Trusted: Coq kernel, extraction (ExtrOcamlBasic), driver.ml, harness; tie sampled. All theorems closed under "
                "the global context.",
        "technique": "Coq proof (invariant Inv + derived-state equality, replay by induction) + differential correspondence + extracted verified oracle",
        "design": "DESIGN.md §5 C02",
    },
    "C05": {
        "text": "Theorems C05_queries, C05_queries_read_only, C05_partitions (Coq): for every instance with durations >= 0, every "
                "filter configuration and every event script, each of the 17 modelled queries issued in the world reached "
                "returns pure_query on dstate_of I rows (the uncached definition on a state recomputed from the schedule rows), "
                "whatever was asked before (cache-coherence invariant over all events); queries change nothing but the cache; "
                "scheduled/unscheduled partition all operations, ongoing/completed partition the scheduled ones, uncompleted = "
                "unscheduled ++ ongoing. Tied to /repo by differential execution of query-heavy event scripts; the extracted "
                "pure_query is evaluated on the implementation's own rows and compared with every answer.",
        "note": "Trusted: Coq kernel, extraction, driver.ml, harness; tie sampled. Closed under the global context. The defect "
                "found by this check (cache aliasing) is repaired by fix commit 26d3473; the model encodes the repaired code.",
        "technique": "Coq proof (cache-coherence invariant by induction over events) + differential correspondence + extracted verified oracle",
        "design": "DESIGN.md §5 C05",
    },
    "C15": {
        "text": "Theorems C15_eq_iff_same_content, C15_eq_reflexive/_symmetric/_transitive, C15_*_differs_* and C15_op_eq_hash "
                "(Coq): in the model of Operation/ScheduledOperation/Schedule/JobShopInstance.__eq__, of the ==/!= operator "
                "protocol and of Operation.__hash__, == between any two values (foreign values and other kinds included) is "
                "true exactly when their contents (machines in order, duration, job id/position/operation id, start, machine, "
                "row and job shapes) are equal; hence an equivalence; every differing machine list, duration, job structure, "
                "start time or machine assignment yields False; equal operations hash the same key. The unrepaired "
                "`self.__slots__ == value.__slots__` is modelled beside it and refuted (C15_op_eq_unrepaired_refuted). Tied to "
                "/repo by differential execution of ==, != and hash on generated, independently built objects (copies and "
                "single-field mutations, triples, both argument orders); the extracted proved-correct checkers cont_eqb / "
                "reflexiveb / symmetricb / transitiveb are applied to the implementation's own answers.",
        "note": "Trusted: Coq kernel, extraction, driver.ml, harness; CPython's comparison protocol, list equality and int hashing "
                "are modelled; tie sampled. Name/metadata are not content (no __eq__ reads them; stated as theorems). Closed under "
                "the global context. Defect found (Operation.__eq__ always True) repaired by fix commit b4f9bd7.",
        "technique": "Coq proof (boolean equality reflects Leibniz equality of content) + differential correspondence + extracted verified oracle",
        "design": "DESIGN.md §5 C15",
    },
}

NOT_YET = {}


def main():
    props = [json.loads(l) for l in open(os.path.join(VERIF, "properties.jsonl"))]
    checks = []
    na = []
    for p in props:
        pid = p["id"]
        if pid in CHECKS:
            c = CHECKS[pid]
            checks.append({
                "property_id": pid,
                "quick_cmd": f"./check {pid} --tier quick",
                "thorough_cmd": f"./check {pid} --tier thorough",
                "evidence_file": f"/verif/evidence/{pid}.json",
                "replay_cmd_template": f"./check {pid} --replay {{path}}",
                "engine": "rocq-model+correspondence",
                "level_claimed": {"category": "proof", "text": c["text"], "design_ref": c["design"]},
                "level_note": c["note"],
                "technique": c["technique"],
            })
        else:
            na.append({"property_id": pid,
                       "reason": NOT_YET.get(pid, "no check registered yet in this round (the Coq model and "
                                                  "correspondence for it are still being built); not a claim that "
                                                  "the technique cannot apply")})
    manifest = {
        "version": 1,
        "setup_cmd": "./build.sh clean",
        "hooks": {
            "guard": "JOB_SHOP_LIB_VERIF",
            "enable": "no hooks in /repo: every observable is read through public attributes; the harness sets "
                      "JOB_SHOP_LIB_VERIF=1 only for uniformity",
            "baseline_off_cmd": "cd /repo && /venv/bin/python -m pytest -ra -q -p no:cacheprovider --timeout=900 "
                                "--continue-on-collection-errors",
            "source_commits": [],
            "add_only": True,
        },
        "engines": [{
            "name": "rocq-model+correspondence",
            "path": "/verif/coq, /verif/harness",
            "serves_properties": sorted(CHECKS),
            "kind_free_text": "Coq 8.16.1 development (model, spec, proofs, property theorems) + OCaml runner "
                              "extracted from the model + Python differential harness driving /repo",
        }],
        "checks": checks,
        "not_applicable": na,
        "notes": "See DESIGN.md. fix: commits and known findings are listed in known_findings.json.",
    }
    with open(os.path.join(VERIF, "MANIFEST.json"), "w") as f:
        json.dump(manifest, f, indent=1)
    print("wrote MANIFEST.json:", len(checks), "checks,", len(na), "not claimed")


if __name__ == "__main__":
    main()
