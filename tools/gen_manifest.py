#!/usr/bin/env python3
"""Regenerates MANIFEST.json from the table below (run by hand after adding a check)."""
import json
import os

VERIF = os.path.dirname(os.path.dirname(os.path.abspath(__file__)))

CHECKS = {}
for _f in sorted(os.listdir(os.path.join(VERIF, "tools", "checks"))):
    if _f.endswith(".json"):
        with open(os.path.join(VERIF, "tools", "checks", _f)) as _fh:
            CHECKS[_f[:-5]] = json.load(_fh)

NOT_YET = {}


def main():
    props = [json.loads(l) for l in open(os.path.join(VERIF, "properties.jsonl"))]
    checks = []
    na = []
    for p in props:
        pid = p["id"]
        if pid in CHECKS:
            c = CHECKS[pid]
            checks.append({
                "property_id": pid,
                "quick_cmd": f"./check {pid} --tier quick",
                "thorough_cmd": f"./check {pid} --tier thorough",
                "evidence_file": f"/verif/evidence/{pid}.json",
                "replay_cmd_template": f"./check {pid} --replay {{path}}",
                "engine": "rocq-model+correspondence",
                "level_claimed": {"category": "proof", "text": c["text"], "design_ref": c["design"]},
                "level_note": c["note"],
                "technique": c["technique"],
            })
        else:
            na.append({"property_id": pid,
                       "reason": NOT_YET.get(pid, "no check registered yet in this round (the Coq model and "
                                                  "correspondence for it are still being built); not a claim that "
                                                  "the technique cannot apply")})
    manifest = {
        "version": 1,
        "setup_cmd": "./build.sh clean",
        "hooks": {
            "guard": "JOB_SHOP_LIB_VERIF",
            "enable": "no hooks in /repo: every observable is read through public attributes; the harness sets "
                      "JOB_SHOP_LIB_VERIF=1 only for uniformity",
            "baseline_off_cmd": "cd /repo && /venv/bin/python -m pytest -ra -q -p no:cacheprovider --timeout=900 "
                                "--continue-on-collection-errors",
            "source_commits": [],
            "add_only": True,
        },
        "engines": [{
            "name": "rocq-model+correspondence",
            "path": "/verif/coq, /verif/harness",
            "serves_properties": sorted(CHECKS),
            "kind_free_text": "Coq 8.16.1 development (model, spec, proofs, property theorems) + OCaml runner "
                              "extracted from the model + Python differential harness driving /repo",
        }],
        "checks": checks,
        "not_applicable": na,
        "notes": "See DESIGN.md. fix: commits and known findings are listed in known_findings.json.",
    }
    with open(os.path.join(VERIF, "MANIFEST.json"), "w") as f:
        json.dump(manifest, f, indent=1)
    print("wrote MANIFEST.json:", len(checks), "checks,", len(na), "not claimed")


if __name__ == "__main__":
    main()
