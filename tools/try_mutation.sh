#!/bin/bash
# tools/try_mutation.sh <patch.diff> <Cxx> [<Cyy> ...] - apply a seeded change to a scratch worktree of /repo's HEAD
# (selected through VERIF_REPO; /repo itself is not touched), run the quick checks against it, remove the worktree.
# Evidence / replays of these runs go to .scratch/seeded-out. VERIF_SEED is honoured. Prints one line per check.
patch="$(realpath "$1")"; shift
wt=$(mktemp -u /tmp/trymut-XXXXXX)
git -C /repo worktree add --detach "$wt" HEAD -q || exit 2
trap 'git -C /repo worktree remove --force "$wt"; rm -rf "$wt"' EXIT
git -C "$wt" apply "$patch" || { echo "patch does not apply"; exit 2; }
cd /verif
for c in "$@"; do
  out=$(VERIF_REPO="$wt" VERIF_OUT=/verif/.scratch/seeded-out ./check "$c" --tier ${TIER:-quick} 2>&1 | tail -2 | tr '\n' ' ')
  echo "[$c] $out"
done
