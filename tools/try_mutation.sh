#!/bin/bash
# tools/try_mutation.sh <patch.diff> <Cxx> [<Cyy> ...] — apply a seeded change to /repo, run the quick
# checks, ALWAYS undo it afterwards. Prints one line per check.
patch="$1"; shift
cd /repo || exit 2
if ! git diff --quiet; then echo "/repo is dirty"; exit 2; fi
git apply "$patch" || { echo "patch does not apply"; exit 2; }
trap 'git -C /repo checkout -- .' EXIT
cd /verif
for c in "$@"; do
  out=$(./check "$c" --tier quick 2>&1 | tail -2 | tr '\n' ' ')
  echo "[$c] $out"
done
