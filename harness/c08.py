"""C08 — pruning dominated operations never loses the optimum."""
import random

from . import common
from .framework import Check, Failure


def env_default_filters():
    """the default `ready_operations_filter` of both environments (the property's mechanism: "the filter is the
    default of both RL environments")"""
    import inspect

    common.import_impl()
    from job_shop_lib.reinforcement_learning import SingleJobShopGraphEnv, MultiJobShopGraphEnv

    out = []
    for cls in (SingleJobShopGraphEnv, MultiJobShopGraphEnv):
        out.append((cls.__name__, inspect.signature(cls.__init__).parameters["ready_operations_filter"].default))
    return out


def enumerate_tree(spec, filtered, limit=400000, custom=None, past=None):
    """Exhaustive search with the REAL Dispatcher: every available operation x every eligible machine.
    `past`: an abandoned episode played (and looked at) on the same dispatcher before the search starts with
    dispatcher.reset() - the search space is the same, whatever the dispatcher did before.
    Returns (best makespan, leaves, nodes, dead_ends)."""
    common.import_impl()
    from job_shop_lib.dispatching import Dispatcher, filter_dominated_operations

    inst = common.build_instance(spec)
    filt = custom if custom is not None else (filter_dominated_operations if filtered else None)
    d = Dispatcher(inst, ready_operations_filter=filt)
    for j, p, m in past or []:
        d.dispatch(inst.jobs[j][p], m)
        d.available_operations()
        d.current_time()
    best = [None]
    cnt = {"leaves": 0, "nodes": 0, "dead": 0}
    total = sum(len(j) for j in spec)

    def replay(hist):
        d.reset()
        for j, p, m in hist:
            d.dispatch(inst.jobs[j][p], m)

    def rec(hist):
        cnt["nodes"] += 1
        if cnt["nodes"] > limit:
            raise RuntimeError("tree too large")
        replay(hist)
        if len(hist) == total:
            cnt["leaves"] += 1
            mk = d.schedule.makespan()
            if best[0] is None or mk < best[0]:
                best[0] = mk
            return
        avail = [(o.job_id, o.position_in_job, list(o.machines)) for o in d.available_operations()]
        if not avail:
            cnt["dead"] += 1
            return
        for j, p, ms in avail:
            for m in ms:
                rec(hist + [(j, p, m)])

    rec([])
    return best[0], cnt["leaves"], cnt["nodes"], cnt["dead"]


class C08(Check):
    pid = "C08"
    assumptions = ["positive durations, every operation has an eligible machine (the property's own scope)",
                   "the exhaustive comparison is bounded to small instances; it validates the model and searches "
                   "for failing inputs, it is not the proof"]
    modelled_not_verified = [
        "modelled: filter_dominated_operations and Dispatcher.available_operations/dispatch (coq/model/Filters.v, "
        "World.v), the exhaustive searches best_makespan over filtered / all histories (coq/model/Search.v)",
        "the environments and DispatchingRuleSolver install the same filter function object; their use of it is "
        "covered by C04/C18's checks"]
    nontrivial_rule = ("random small instances (<= 3 jobs, <= 3 machines, 4-7 operations in total, flexible "
                       "operations, recirculation, durations 1..9 with occasional values around 2^24); for each the "
                       "complete decision trees of the real Dispatcher with and without the dominated-operations "
                       "filter are enumerated; non-trivial = the filtered tree has strictly fewer leaves than the "
                       "unfiltered one; distinct = SHA1 of the instance")

    def budget(self):
        return 600 if self.tier == "quick" else 3000

    def search_budget(self):
        return 150 if self.tier == "quick" else 1500

    def gen_cases(self, rng, n):
        cases = []
        max_total = 7 if self.tier == "quick" else 8
        while len(cases) < n:
            fam = rng.random()
            if fam < 0.45:
                spec = common.gen_instance(rng, max_jobs=3, max_machines=3, max_ops=3, zero=False,
                                           flexible=rng.random() < 0.5)
            elif fam < 0.8:
                spec = self.tails_instance(rng)
                self.note("family_tails")
            else:
                spec = self.recirculation_instance(rng)
                self.note("family_recirculation")
            total = sum(len(j) for j in spec)
            if total < 4 or total > max_total:
                continue
            if rng.random() < 0.15:
                for job in spec:
                    for o in job:
                        if rng.random() < 0.5:
                            o[1] = (1 << 24) + rng.randint(-2, 3)
            elif rng.random() < 0.3:
                # the same instance on a long time axis (nanoseconds instead of seconds): every duration is
                # multiplied by a large unit and perturbed by a few ticks, so starts and earliest completions
                # differ by amounts far below any relative tolerance
                unit = rng.choice([10 ** 9, 10 ** 12, 1 << 53])
                for job in spec:
                    for o in job:
                        o[1] = o[1] * unit + rng.randint(0, 3)
                self.note("family_long_time_axis")
            case = {"spec": spec}
            if rng.random() < 0.35:
                # the dispatcher used for the search has an abandoned episode behind it
                nxt = [0] * len(spec)
                past = []
                for _ in range(rng.randint(1, 3)):
                    j = rng.randrange(len(spec))
                    if nxt[j] < len(spec[j]):
                        past.append([j, nxt[j], rng.choice(spec[j][nxt[j]][0])])
                        nxt[j] += 1
                if past:
                    case["past"] = past
                    self.note("search_after_abandoned_episode")
            cases.append(case)
            self.note("cases")
            self.note("ops_total", total)
            st = common.instance_stats(spec)
            if st["flexible"]:
                self.note("inst_flexible")
        return cases

    @staticmethod
    def tails_instance(rng):
        """short contested operations (few machines, many equal durations) followed, for some jobs, by a long
        tail on a private machine: which job wins a tie matters for the makespan"""
        nj = rng.randint(2, 3)
        shared = rng.randint(1, 2)
        spec = []
        for j in range(nj):
            job = [[[rng.randrange(shared)], rng.choice([1, 2, 2, 3])] for _ in range(rng.randint(1, 2))]
            if rng.random() < 0.6:
                job.append([[shared + j], rng.randint(6, 12)])
            if rng.random() < 0.3:
                job.insert(0, [[shared + j], rng.randint(1, 4)])
            spec.append(job)
        return spec

    @staticmethod
    def recirculation_instance(rng):
        """a job visiting the same machine twice in a row, other jobs with a short operation there and a long tail"""
        m = rng.randrange(2)
        spec = [[[[m], rng.randint(1, 3)], [[m], rng.randint(2, 6)]]]
        if rng.random() < 0.6:
            spec[0].append([[2], rng.randint(4, 9)])
        if rng.random() < 0.4:
            spec[0].insert(0, [[1 - m], rng.randint(1, 3)])
        for j in range(rng.randint(1, 2)):
            job = []
            if rng.random() < 0.6:
                job.append([[1 - m], rng.randint(1, 4)])
            job.append([[m], rng.randint(1, 2)])
            if rng.random() < 0.7:
                job.append([[1 - m if rng.random() < 0.5 else 2], rng.randint(6, 12)])
            spec.append(job)
        return spec

    def run_impl(self, case):
        from job_shop_lib.dispatching import filter_dominated_operations

        f = enumerate_tree(case["spec"], True, past=case.get("past"))
        u = enumerate_tree(case["spec"], False, past=case.get("past"))
        envs = []
        for name, default in env_default_filters():
            if default is filter_dominated_operations:
                envs.append([name, "is filter_dominated_operations", list(f)])
            elif default is None:
                envs.append([name, "no filter", list(u)])
            else:
                envs.append([name, "other", list(enumerate_tree(case["spec"], True, custom=default,
                                                                past=case.get("past")))])
        return {"filtered": list(f), "unfiltered": list(u), "env_defaults": envs}

    def model_requests(self, case, obs):
        return [(8, [case["spec"]]), (304, [case["spec"]])]

    def judge(self, case, obs, outs):
        search, optbf = outs
        fails = []
        mf = search[0][0] if search[0] else None
        mu = search[1][0] if search[1] else None
        if obs["filtered"][0] != mf:
            fails.append(Failure("tie", "filtered-minimum", "best makespan over filtered histories: implementation "
                                 "vs model", expected=mf, observed=obs["filtered"][0]))
        if obs["unfiltered"][0] != mu:
            fails.append(Failure("tie", "unfiltered-minimum", "best makespan over all histories: implementation vs "
                                 "model", expected=mu, observed=obs["unfiltered"][0]))
        # the two decision trees have the model's shape: complete histories, nodes, dead ends (the filter lets the
        # same operations through in every state of every filtered history)
        for name, k in (("filtered", 2), ("unfiltered", 3)):
            if len(search) > k and list(obs[name][1:4]) != list(search[k]):
                fails.append(Failure("tie", name + "-tree-size",
                                     f"[leaves, nodes, dead ends] of the {name} decision tree: implementation vs model",
                                     expected=search[k], observed=obs[name][1:4]))
        opt = obs["unfiltered"][0]
        ob = optbf[0] if isinstance(optbf, list) and optbf else None
        if isinstance(ob, list):
            ob = ob[0] if ob else None
        if ob is not None and opt is not None and ob != opt:
            fails.append(Failure("tie", "opt_bf", "verified brute-force optimum differs from the implementation's "
                                 "exhaustive search", expected=ob, observed=opt))
        if obs["filtered"][3] > 0 or obs["filtered"][0] is None:
            fails.append(Failure("oracle", "filtered-dead-end", "a filtered history reached a state with no "
                                 "available operation although the schedule was incomplete",
                                 observed=obs["filtered"]))
        elif mu is not None and obs["filtered"][0] != mu:
            # OPT(I) computed by the extracted exhaustive search over ALL dispatch histories of the model (proved to
            # be the optimum: C08_opt); independent of the implementation's own unfiltered search
            fails.append(Failure("oracle", "optimum-lost",
                                 f"best makespan reachable through the dominated-operations filter is "
                                 f"{obs['filtered'][0]}, the optimal makespan of the instance (extracted verified "
                                 f"search) is {mu}", expected=mu, observed=obs["filtered"][0]))
        elif opt is not None and obs["filtered"][0] != opt:
            fails.append(Failure("oracle", "optimum-lost",
                                 f"best makespan reachable through the dominated-operations filter is "
                                 f"{obs['filtered'][0]}, the optimum over all dispatch histories is {opt}",
                                 expected=opt, observed=obs["filtered"][0]))
        for name, kind, res in obs["env_defaults"]:
            if res[3] > 0 or res[0] is None or (opt is not None and res[0] != opt):
                fails.append(Failure("oracle", "env-default-filter",
                                     f"with the default ready_operations_filter of {name} ({kind}) the best reachable "
                                     f"makespan is {res[0]} (dead ends: {res[3]}), the optimum is {opt}",
                                     expected=opt, observed=res[0]))
        return fails

    def nontrivial(self, case, obs):
        return obs["filtered"][1] < obs["unfiltered"][1]

    def shrink_candidates(self, case):
        spec = case["spec"]
        if case.get("past"):
            yield {"spec": spec}
            yield {"spec": spec, "past": case["past"][:-1]} if len(case["past"]) > 1 else {"spec": spec}
        for j in range(len(spec)):
            if len(spec) > 1:
                yield {"spec": spec[:j] + spec[j + 1:]}
        for j, job in enumerate(spec):
            if len(job) > 1:
                yield {"spec": spec[:j] + [job[:-1]] + spec[j + 1:]}
        for j, job in enumerate(spec):
            for p, (ms, dd) in enumerate(job):
                if dd > 1:
                    s2 = [[list(o) for o in jb] for jb in spec]
                    s2[j][p] = [ms, 1 if dd < 100 else dd // 2]
                    yield {"spec": s2}
                if len(ms) > 1:
                    s2 = [[list(o) for o in jb] for jb in spec]
                    s2[j][p] = [ms[:-1], dd]
                    yield {"spec": s2}


CHECK = C08
