"""Generators of event scripts (sessions) for the dispatcher world."""
from __future__ import annotations

import random

from . import common

Q_NOARG = [0, 1, 2, 3, 4, 5, 6, 7, 8, 9]
Q_KEY = [10, 12]
Q_SOP = [11, 13]
Q_JOB = [14]


class Tracker:
    """Minimal book-keeping so that the generator knows which requests are
    valid (it is NOT an oracle: nothing is compared against it)."""

    def __init__(self, spec):
        self.spec = spec
        self.nm = common.num_machines_of(spec)
        self.reset()

    def reset(self):
        self.jnext = [0] * len(self.spec)
        self.mfree = [0] * self.nm
        self.jfree = [0] * len(self.spec)
        self.sops = []

    def ready_jobs(self):
        return [j for j, job in enumerate(self.spec) if self.jnext[j] < len(job)]

    def accept(self, j, m):
        p = self.jnext[j]
        ms, d = self.spec[j][p]
        st = max(self.mfree[m], self.jfree[j])
        self.sops.append([j, p, st, m])
        self.mfree[m] = st + d
        self.jfree[j] = st + d
        self.jnext[j] += 1

    def done(self):
        return not self.ready_jobs()


def valid_request(rng, tr: Tracker, explicit=None):
    jobs = tr.ready_jobs()
    if not jobs:
        return None
    j = rng.choice(jobs)
    p = tr.jnext[j]
    ms = tr.spec[j][p][0]
    m = rng.choice(ms)
    if explicit is None:
        explicit = len(ms) > 1 or rng.random() < 0.5
    if len(ms) > 1:
        explicit = True
    tr.accept(j, m)
    return [0, j, p, [m] if explicit else []]


INVALID_KINDS = ["not_next", "ineligible", "too_large", "neg_wrap", "neg_out", "none_multi"]


def invalid_request(rng, tr: Tracker, kind=None):
    """Returns (event, kind) or None when this kind is impossible here."""
    spec = tr.spec
    kinds = [kind] if kind else rng.sample(INVALID_KINDS, len(INVALID_KINDS))
    for kd in kinds:
        if kd == "not_next":
            cands = [(j, p) for j, job in enumerate(spec) for p in range(len(job))
                     if p != tr.jnext[j]]
            if not cands:
                continue
            j, p = rng.choice(cands)
            ms = spec[j][p][0]
            return [0, j, p, [rng.choice(ms)]], kd
        jobs = tr.ready_jobs()
        if not jobs:
            continue
        j = rng.choice(jobs)
        p = tr.jnext[j]
        ms = spec[j][p][0]
        if kd == "ineligible":
            others = [m for m in range(tr.nm) if m not in ms]
            if not others:
                continue
            return [0, j, p, [rng.choice(others)]], kd
        if kd == "too_large":
            return [0, j, p, [tr.nm + rng.randint(0, 2)]], kd
        if kd == "neg_wrap":
            return [0, j, p, [-rng.randint(1, tr.nm)]], kd
        if kd == "neg_out":
            return [0, j, p, [-tr.nm - rng.randint(1, 2)]], kd
        if kd == "none_multi":
            multi = [jj for jj in jobs if len(spec[jj][tr.jnext[jj]][0]) > 1]
            if not multi:
                continue
            j = rng.choice(multi)
            return [0, j, tr.jnext[j], []], kd
    return None


def random_query(rng, tr: Tracker, p_sub=0.12):
    r = rng.random()
    all_ops = [(j, p) for j, job in enumerate(tr.spec) for p in range(len(job))]
    ready = [[j, tr.jnext[j]] for j in tr.ready_jobs()]
    if r < 0.04:
        return [9, rng.randrange(7)]
    if r < p_sub and ready:
        sub = [k for k in ready if rng.random() < 0.6] or [rng.choice(ready)]
        if rng.random() < 0.3:
            rng.shuffle(sub)
        if rng.random() < 0.5:
            return [1, 15, sub]
        return [1, 16, [rng.randrange(4), sub]]
    if r < p_sub + 0.03 and all_ops:
        return [1, 15, [list(rng.choice(all_ops)) for _ in range(rng.randint(0, 3))]]
    if r < 0.7 or not all_ops:
        return [1, rng.choice(Q_NOARG), []]
    if r < 0.82:
        j, p = rng.choice(all_ops)
        return [1, rng.choice(Q_KEY), [j, p]]
    if r < 0.92 and tr.sops:
        return [1, rng.choice(Q_SOP), list(rng.choice(tr.sops))]
    return [1, 14, rng.randrange(len(tr.spec))]


def to_env_event(rng, ev):
    """dispatch event -> env.step event for the same (job, machine)"""
    _, j, p, m = ev
    return [8, j, m[0] if m else -1]


def invalid_env_step(rng, tr: Tracker):
    spec = tr.spec
    kinds = rng.sample(["finished_job", "ineligible", "too_large", "neg_out", "none_multi"], 5)
    for kd in kinds:
        if kd == "finished_job":
            done = [j for j, job in enumerate(spec) if tr.jnext[j] >= len(job)]
            if not done:
                continue
            j = rng.choice(done)
            return [8, j, rng.choice([-1, 0, tr.nm - 1])], kd
        jobs = tr.ready_jobs()
        if not jobs:
            continue
        j = rng.choice(jobs)
        ms = spec[j][tr.jnext[j]][0]
        if kd == "ineligible":
            others = [m for m in range(tr.nm) if m not in ms]
            if not others:
                continue
            return [8, j, rng.choice(others)], kd
        if kd == "too_large":
            return [8, j, tr.nm + rng.randint(0, 2)], kd
        if kd == "neg_out":
            return [8, j, -tr.nm - rng.randint(1, 2)], kd
        if kd == "none_multi":
            multi = [jj for jj in jobs if len(spec[jj][tr.jnext[jj]][0]) > 1]
            if not multi:
                continue
            return [8, rng.choice(multi), -1], kd
    return None


def is_instance(want, have):
    """isinstance(object of observer kind `have`, class of kind `want`): kinds 7 and 8 are subclasses of the
    recorder classes 5 and 4"""
    return want == have or (want, have) in ((5, 7), (4, 8))


def gen_session(rng: random.Random, spec, *, p_invalid=0.0, p_query=0.0, p_reset=0.0,
                p_obs=0.0, p_snapshot=1.0, start_observers=(), max_events=60,
                snapshot_around_invalid=False, stop_early=0.15, obs_kinds=(0, 1, 2, 3, 4, 5),
                env_mode=False, p_cog=0.2, p_sub=0.12, p_leave=0.0, p_copy=0.03):
    """Returns (events, stats)."""
    tr = Tracker(spec)
    events = []
    stats = {"dispatch": 0, "invalid": {}, "query": 0, "reset": 0, "obs": 0, "snapshot": 0}
    kinds = []   # kind of every observer object created so far
    subs = []    # indices subscribed, in order (mirrors Dispatcher.subscribers)

    def construct(k, subscribe=True):
        if k not in (5, 6, 7) and any(is_instance(k, kinds[i]) for i in subs):
            return  # singleton guard will reject it
        kinds.append(k)
        if subscribe:
            subs.append(len(kinds) - 1)

    for k in start_observers:
        events.append([3, k])
        construct(k)
    if rng.random() < 0.2:
        # sparsely observed session: most states are never looked at (a snapshot reads the schedule and the
        # observers, and the checks attach their queries to snapshots), so lazily computed / cached values are
        # first asked for several dispatches - or a whole reset - after they were last computed
        p_snapshot *= 0.15
        p_query *= 0.3
        stats["sparse"] = 1
    if rng.random() < p_snapshot:
        events.append([7])
    target = None
    total = sum(len(j) for j in spec)
    if rng.random() < stop_early:
        target = rng.randint(0, total)
    n_accepted = 0
    # an episode abandoned right after its first dispatches (on instances that begin with zero-duration
    # operations the schedule is then non-empty with makespan 0), followed by a full one
    early_reset_at = rng.randint(1, 3) if p_reset > 0 and rng.random() < 0.12 else None
    while len(events) < max_events:
        if early_reset_at is not None and n_accepted == early_reset_at:
            early_reset_at = None
            events.append([2])
            tr.reset()
            n_accepted = 0
            stats["reset"] += 1
            stats["early_reset"] = stats.get("early_reset", 0) + 1
            if rng.random() < p_snapshot:
                events.append([7])
            continue
        r = rng.random()
        if r < p_invalid:
            iv = invalid_env_step(rng, tr) if env_mode else invalid_request(rng, tr)
            if iv is not None:
                ev, kd = iv
                ev = list(ev) + ([[]] if len(ev) == 3 and ev[0] == 0 else []) + [1]   # trailing 1 = meant to be rejected
                # (not every rejected request is bracketed by snapshots: looking at the state computes and caches
                # things, and a rejected request must be harmless also when it is the first to touch a new state)
                around = snapshot_around_invalid and rng.random() < 0.65
                if around:
                    events.append([7])
                events.append(ev)
                if around:
                    events.append([7])
                stats["invalid"][kd] = stats["invalid"].get(kd, 0) + 1
                continue
        r = rng.random()
        if r < p_query:
            for _ in range(rng.randint(1, 4)):
                events.append(random_query(rng, tr, p_sub))
                stats["query"] += 1
            continue
        r = rng.random()
        if r < p_reset:
            if env_mode and rng.random() < 0.25:
                events.append([2, 1])       # the episode is restarted with env.dispatcher.reset()
                stats["env_dispatcher_reset"] = stats.get("env_dispatcher_reset", 0) + 1
            else:
                events.append([2])
            tr.reset()
            stats["reset"] += 1
            if rng.random() < p_snapshot:
                events.append([7])
            continue
        r = rng.random()
        if r < p_obs and not env_mode and rng.random() < 0.1:
            # a rejected observer construction (model event 10: nothing changes, ValidationError)
            events.append([10, rng.randrange(4)])
            stats["rejected_construction"] = stats.get("rejected_construction", 0) + 1
            continue
        if r < p_obs:
            c = rng.random()
            if c < 0.35:
                k = rng.choice(obs_kinds)
                if rng.random() < 0.25:
                    # constructed with subscribe=False; the caller subscribes it later (or never)
                    events.append([3, k, 1])
                    before = len(kinds)
                    construct(k, subscribe=False)
                    if len(kinds) > before and rng.random() < 0.7:
                        events.append([5, len(kinds) - 1])
                        subs.append(len(kinds) - 1)
                else:
                    events.append([3, k])
                    construct(k)
            elif c < 0.35 + p_cog and rng.random() < 0.2:
                # create-or-get, unsubscribe what it returned, create-or-get again with the very same arguments:
                # the second call must look at the current subscribers
                k = rng.choice(obs_kinds)
                for _ in range(2):
                    cands = [i for i in subs if is_instance(k, kinds[i])]
                    events.append([6, k, []])
                    if cands:
                        idx = cands[0]
                    else:
                        before = len(kinds)
                        construct(k)
                        idx = before if len(kinds) > before else None
                    if idx is None:
                        break
                    if _ == 0:
                        events.append([4, idx])
                        if idx in subs:
                            subs.remove(idx)
            elif c < 0.35 + p_cog:
                k = rng.choice(obs_kinds)
                if kinds and rng.random() < 0.6:
                    if rng.random() < 0.7:
                        k = kinds[rng.randrange(len(kinds))]
                    same = [i for i in range(len(kinds)) if kinds[i] == k]
                    pool = same if same and rng.random() < 0.7 else list(range(len(kinds)))
                    allowed = sorted(rng.sample(pool, rng.randint(1, min(3, len(pool)))))
                    events.append([6, k, [allowed]])
                    if not any(is_instance(k, kinds[i]) and i in allowed for i in subs):
                        # no match: the library constructs a new one (the singleton guard may refuse)
                        construct(k)
                else:
                    events.append([6, k, []])
                    if not any(is_instance(k, kinds[i]) for i in subs):
                        construct(k)
            elif c < 0.35 + p_cog + (0.65 - p_cog) / 2 and kinds:
                i = rng.randrange(len(kinds))
                events.append([4, i])
                if i in subs:
                    subs.remove(i)
            elif kinds:
                i = rng.randrange(len(kinds))
                events.append([5, i])
                subs.append(i)
            stats["obs"] += 1
            continue
        if p_copy and rng.random() < p_copy:
            # the caller deep-copies what it holds (copy.deepcopy) and goes on with the copy (0) or plays with the
            # copy and goes on with the original (1): a no-op for the model
            events.append([14, rng.randrange(2)])
            stats["deepcopy"] = stats.get("deepcopy", 0) + 1
            continue
        if tr.done() or (target is not None and n_accepted >= target):
            break
        ev = valid_request(rng, tr)
        if env_mode and rng.random() < 0.08:
            # dispatched directly on the environment's public dispatcher, between two steps
            stats["env_direct_dispatch"] = stats.get("env_direct_dispatch", 0) + 1
        elif env_mode:
            ev = to_env_event(rng, ev)
        elif p_leave and rng.random() < p_leave:
            leavers = [i for i in subs if kinds[i] in (4, 5, 7, 8) and subs.count(i) == 1]
            if leavers and len(subs) >= 2:
                who = rng.choice(leavers)
                ev = [12] + list(ev[1:4]) + [who]
                subs.remove(who)
                stats["self_unsubscribe"] = stats.get("self_unsubscribe", 0) + 1
        events.append(ev)
        n_accepted += 1
        stats["dispatch"] += 1
        if rng.random() < p_snapshot:
            events.append([7])
            stats["snapshot"] += 1
    events.append([7])
    return events, stats
