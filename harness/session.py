"""Runs an event script (the model's Session.v protocol) on the real library.

Events (nested int lists):
  [0, job, pos, [m]?]   dispatch(operation, machine_id or None)
  [1, q, arg]           query q
  [2]                   dispatcher.reset()
  [3, kind]             construct an observer (subscribes itself)
  [4, idx]              dispatcher.unsubscribe(objs[idx])
  [5, idx]              dispatcher.subscribe(objs[idx])
  [6, kind]             dispatcher.create_or_get_observer(cls)
  [7]                   snapshot of everything publicly visible
  [8, job, machine]     env.step((job, machine)) (env mode only)
Successful dispatch / reset / env-step events return the indices of the
observer objects that were notified, in notification order.
Outputs: [0, payload] on success, [code] when an exception was raised;
snapshots are returned bare.
"""
from __future__ import annotations

from . import common

FILTER_NAMES = ["dominated_operations", "non_immediate_machines", "non_idle_machines",
                "non_immediate_operations"]


def key(op):
    return [op.job_id, op.position_in_job]


def enc_sop(s):
    return [s.operation.job_id, s.operation.position_in_job, s.start_time, s.machine_id]


def enc_dstate(d):
    return [list(d.machine_next_available_time), list(d.job_next_operation_index),
            list(d.job_next_available_time),
            [[enc_sop(s) for s in row] for row in d.schedule.schedule]]


def make_filter(filters):
    from job_shop_lib.dispatching import (create_composite_operation_filter,
                                          ready_operations_filter_factory)
    if not filters:
        return None
    from job_shop_lib.dispatching import ReadyOperationsFilterType

    names = [FILTER_NAMES[f] for f in filters]
    # the documented ways of naming the same filter configuration (Iterable of names / enum members /
    # callables); which one is used is a function of the configuration, so a case replays identically
    style = (sum(filters) + 3 * len(filters)) % 6
    enums = [ReadyOperationsFilterType(n) for n in names]
    funcs = [ready_operations_filter_factory(n) for n in names]
    if len(names) == 1 and style < 3:
        return ready_operations_filter_factory([names[0], enums[0], funcs[0]][style])
    if style == 0:
        # the caller keeps using its list afterwards (here: to configure a second, stricter filter): the first
        # composite is what it was created as
        mine = list(names)
        f = create_composite_operation_filter(mine)
        mine.append(FILTER_NAMES[(filters[0] + 1) % len(FILTER_NAMES)])
        del mine[0]
        return f
    if style == 1:
        return create_composite_operation_filter(tuple(enums))
    if style == 2:
        return create_composite_operation_filter(n for n in names)          # one-shot generator
    if style == 3:
        return create_composite_operation_filter(funcs)
    if style == 4:
        return create_composite_operation_filter(iter([f if i % 2 else n for i, (n, f) in enumerate(zip(names, funcs))]))
    return create_composite_operation_filter(map(str, names))               # one-shot map object


def _observer_classes():
    common.import_impl()
    from job_shop_lib.dispatching import (DispatcherObserver, HistoryObserver,
                                          UnscheduledOperationsObserver)
    from job_shop_lib.reinforcement_learning import MakespanReward, IdleTimeReward

    def entry(obs, tag, sop):
        d = obs.dispatcher
        return [tag, [enc_sop(sop)] if sop is not None else [], enc_dstate(d),
                d.schedule.makespan(), [key(o) for o in d.scheduled_operations()],
                d.current_time(), [key(o) for o in d.unscheduled_operations()],
                [key(o) for o in d.available_operations()]]

    class Rec(DispatcherObserver):
        def __init__(self, dispatcher, *, subscribe=True):
            super().__init__(dispatcher, subscribe=subscribe)
            self.log = []

        leave_at_next_update = False

        def update(self, scheduled_operation):
            self.log.append(entry(self, 0, scheduled_operation))
            if self.leave_at_next_update:
                # an observer that has seen what it was waiting for detaches ITSELF, from inside the notification
                self.leave_at_next_update = False
                self.dispatcher.unsubscribe(self)

        def reset(self):
            self.log.append(entry(self, 1, None))

    class Rec2(DispatcherObserver):
        _is_singleton = False

        def __init__(self, dispatcher, *, subscribe=True):
            super().__init__(dispatcher, subscribe=subscribe)
            self.log = []

        def __len__(self):
            # a container-like user observer: falsy while it has recorded nothing (it is an observer all the same)
            return len(self.log)

        leave_at_next_update = False

        def update(self, scheduled_operation):
            self.log.append(entry(self, 0, scheduled_operation))
            if self.leave_at_next_update:
                # an observer that has seen what it was waiting for detaches ITSELF, from inside the notification
                self.leave_at_next_update = False
                self.dispatcher.unsubscribe(self)

        def reset(self):
            self.log.append(entry(self, 1, None))

    from job_shop_lib.dispatching.feature_observers import IsReadyObserver

    class Rec2Sub(Rec2):
        """a subclass of the non-singleton recorder that adds nothing: an instance of Rec2 all the same"""

    class RecSub(Rec):
        """a subclass of the singleton recorder"""

    return [HistoryObserver, UnscheduledOperationsObserver, MakespanReward, IdleTimeReward,
            Rec, Rec2, IsReadyObserver, Rec2Sub, RecSub]


_CLASSES = None


def observer_classes():
    global _CLASSES
    if _CLASSES is None:
        _CLASSES = _observer_classes()
    return _CLASSES


def enc_obs(o, dispatcher):
    cls = observer_classes()
    if isinstance(o, cls[0]):
        return [0, [enc_sop(s) for s in o.history]]
    if isinstance(o, cls[1]):
        return [1, [[key(x) for x in dq] for dq in o.unscheduled_operations_per_job],
                [key(x) for x in o.unscheduled_operations], o.num_unscheduled_operations]
    if isinstance(o, cls[2]):
        return [2, list(o.rewards), o.current_makespan, o.last_reward]
    if isinstance(o, cls[3]):
        return [3, list(o.rewards), o.last_reward]
    if isinstance(o, cls[4]):
        return [4, 1, list(o.log)]
    if isinstance(o, cls[5]):
        return [4, 0, list(o.log)]
    if isinstance(o, cls[6]):
        return [5]
    raise TypeError(o)


class ImplSession:
    def __init__(self, spec, filters, env=None):
        common.import_impl()
        from job_shop_lib.dispatching import Dispatcher

        self.instance = common.build_instance(spec)
        self.env = None
        self.calls = []
        self.objs = []
        if env is None:
            self.dispatcher = Dispatcher(self.instance, ready_operations_filter=make_filter(filters))
        else:
            self.env = make_env(self.instance, filters, env)
            self.dispatcher = self.env.dispatcher
            for o in self.dispatcher.subscribers:
                self._wrap(o, None)

    # -- call-order instrumentation (harness side, on the observer OBJECTS) --
    def _wrap(self, o, idx):
        if getattr(o, "_verif_wrapped", False):
            return
        upd, rst = o.update, o.reset
        calls = self.calls
        holder = {"idx": idx}

        def update(sop, _u=upd):
            calls.append(holder["idx"])
            return _u(sop)

        def reset(_r=rst):
            calls.append(holder["idx"])
            return _r()

        try:
            o.update = update
            o.reset = reset
            o._verif_wrapped = True
            o._verif_holder = holder
        except AttributeError:
            pass

    def _register(self, o):
        self.objs.append(o)
        idx = len(self.objs) - 1
        if getattr(o, "_verif_wrapped", False):
            o._verif_holder["idx"] = idx
        else:
            self._wrap(o, idx)
        return idx

    def op(self, k):
        return self.instance.jobs[k[0]][k[1]]

    def sop(self, v):
        from job_shop_lib import ScheduledOperation

        return ScheduledOperation(self.op(v[:2]), v[2], v[3])

    def snapshot(self):
        d = self.dispatcher
        subs = []
        if self.env is None:
            foreign = self.__dict__.get("foreign", [])
            for s in d.subscribers:
                if any(s is f for f in foreign):
                    continue
                idx = [i for i, o in enumerate(self.objs) if o is s]
                subs.append(idx[0] if idx else 10 ** 6)
        return [enc_dstate(d), d.schedule.is_complete(), d.schedule.makespan(),
                d.schedule.num_scheduled_operations, subs,
                [enc_obs(o, d) for o in self.objs] if self.env is None else [],
                deep_digest(self), list(self.__dict__.get("count_problems", [])),
                # what the last env.step of this episode returned as (terminated, truncated)
                list(self.__dict__.get("step_flags", []))]

    def query(self, q, arg):
        d = self.dispatcher
        if q == 0:
            return d.current_time()
        if q == 1:
            return [key(o) for o in d.available_operations()]
        if q == 2:
            return [key(o) for o in d.raw_ready_operations()]
        if q == 3:
            return [key(o) for o in d.unscheduled_operations()]
        if q == 4:
            return [key(o) for o in d.scheduled_operations()]
        if q == 5:
            return sorted(d.available_machines())
        if q == 6:
            return sorted(d.available_jobs())
        if q == 7:
            r = d.completed_operations()
            assert isinstance(r, (set, frozenset))
            return sorted(key(o) for o in r)
        if q == 8:
            return [key(o) for o in d.uncompleted_operations()]
        if q == 9:
            return [enc_sop(s) for s in d.ongoing_operations()]
        if q == 10:
            return d.earliest_start_time(self.op(arg))
        if q == 11:
            return d.remaining_duration(self.sop(arg))
        if q == 12:
            return d.is_scheduled(self.op(arg))
        if q == 13:
            return d.is_ongoing(self.sop(arg))
        if q == 14:
            return key(d.next_operation(arg))
        if q == 15:
            return d.min_start_time([self.op(k) for k in arg])
        if q == 16:
            from job_shop_lib.dispatching import ready_operations_filter_factory

            f = ready_operations_filter_factory(FILTER_NAMES[arg[0]])
            return [key(o) for o in f(d, [self.op(k) for k in arg[1]])]
        raise ValueError(q)

    def run_event(self, ev):
        d = self.dispatcher
        tag = ev[0]
        if tag == 7:
            return common.norm(self.snapshot())
        try:
            if tag in (0, 12):
                m = ev[3][0] if ev[3] else None
                del self.calls[:]
                if tag == 12:
                    # [12, j, p, [m], idx]: a dispatch during which the recording observer idx unsubscribes itself
                    self.objs[ev[4]].leave_at_next_update = True
                try:
                    d.dispatch(self.op(ev[1:3]), m)
                finally:
                    if tag == 12:
                        self.objs[ev[4]].leave_at_next_update = False
                out = self.notified()
            elif tag == 1:
                out = self.query(ev[1], ev[2])
            elif tag == 2:
                del self.calls[:]
                if self.env is not None and not (len(ev) > 1 and ev[1] == 1):
                    self.env.reset()
                else:
                    # (in an environment session [2, 1] is dispatcher.reset() on the environment's public dispatcher)
                    d.reset()
                self.step_flags = []
                out = self.notified()
            elif tag == 3:
                if len(ev) > 2 and ev[2] == 1:
                    o = observer_classes()[ev[1]](d, subscribe=False)
                else:
                    o = observer_classes()[ev[1]](d)
                out = self._register(o)
            elif tag == 4:
                d.unsubscribe(self.objs[ev[1]])
                out = []
            elif tag == 5:
                d.subscribe(self.objs[ev[1]])
                out = []
            elif tag == 6:
                if len(ev) > 2 and ev[2]:
                    # one predicate OBJECT per distinct allowed-list (the way a user passes a module-level
                    # function): asking twice with the same predicate must still look at the CURRENT subscribers
                    key_ = tuple(sorted(set(ev[2][0])))
                    conds = self.__dict__.setdefault("_conds", {})
                    if key_ not in conds:
                        conds[key_] = (lambda allowed, objs: lambda ob: any(
                            ob is objs[a] for a in allowed if a < len(objs)))(set(key_), self.objs)
                    o = d.create_or_get_observer(observer_classes()[ev[1]], condition=conds[key_])
                else:
                    o = d.create_or_get_observer(observer_classes()[ev[1]])
                idx = [i for i, x in enumerate(self.objs) if x is o]
                out = idx[0] if idx else self._register(o)
            elif tag == 9:
                self.evaluate_rule(ev[1])
                return []
            elif tag == 11:
                # a ResidualGraphUpdater (with the observers it creates or gets) attached to the dispatcher; it is
                # kept OUT of the model world: whatever it does on its own graph, the dispatcher's answers and the
                # other observers must be what they are without it
                from job_shop_lib import graphs
                from job_shop_lib.graphs.graph_updaters import ResidualGraphUpdater

                before = list(d.subscribers)
                g = getattr(graphs, GRAPH_BUILDERS[ev[1] % 4])(self.instance)
                self.foreign_updater = ResidualGraphUpdater(d, g)
                foreign = self.__dict__.setdefault("foreign", [])
                foreign.extend(o for o in d.subscribers if not any(o is b for b in before))
                return []
            elif tag == 13:
                # library feature observers (two plain ones and a CompositeFeatureObserver over them) attached outside
                # the model world, each with a counter around update / reset: every accepted dispatch and every
                # dispatcher reset must reach each of them exactly once
                from job_shop_lib.dispatching.feature_observers import (CompositeFeatureObserver, DurationObserver,
                                                                        IsReadyObserver)
                before = list(d.subscribers)
                a, b = IsReadyObserver(d), DurationObserver(d)
                CompositeFeatureObserver(d, feature_observers=[a, b])
                foreign = self.__dict__.setdefault("foreign", [])
                counted = self.__dict__.setdefault("counted", [])
                for o in d.subscribers:
                    if not any(o is x for x in before):
                        foreign.append(o)
                        cnt = {"name": type(o).__name__, "update": 0, "reset": 0}
                        counted.append(cnt)

                        def upd(sop, _u=o.update, _c=cnt):
                            _c["update"] += 1
                            return _u(sop)

                        def rst(_r=o.reset, _c=cnt):
                            _c["reset"] += 1
                            return _r()
                        o.update, o.reset = upd, rst
                return []
            elif tag == 14:
                self.checkpoint(ev[1])
                return []
            elif tag == 10:
                # a constructor call that is rejected (ValidationError): a feature observer asked for a feature
                # type outside its supported_feature_types. It must leave no trace on the dispatcher.
                from job_shop_lib.dispatching.feature_observers import (FeatureType, PositionInJobObserver,
                                                                        RemainingOperationsObserver)
                cls, fts = [(PositionInJobObserver, [FeatureType.JOBS]),
                            (PositionInJobObserver, [FeatureType.OPERATIONS, FeatureType.MACHINES]),
                            (RemainingOperationsObserver, [FeatureType.OPERATIONS]),
                            (RemainingOperationsObserver, [FeatureType.JOBS, FeatureType.OPERATIONS])][ev[1] % 4]
                # (a SINGLE unsupported FeatureType passed without a list is accepted by the library:
                # _get_feature_types_list returns [feature_types] before validating - outside the 20 properties,
                # noted in DESIGN.md)
                cls(d, feature_types=fts)
                raise RuntimeError("the constructor accepted an unsupported feature type")
            elif tag == 8:
                del self.calls[:]
                self.last_step = self.env.step((ev[1], ev[2]))
                self.step_flags = [bool(self.last_step[2]), bool(self.last_step[3])]
                out = self.notified()
            else:
                raise ValueError(tag)
            if tag in (0, 2, 12) and self.__dict__.get("counted"):
                which = "reset" if tag == 2 else "update"
                for c in self.counted:
                    if c[which] != 1:
                        self.__dict__.setdefault("count_problems", []).append(
                            [c["name"], which, c[which]])
                    c["update"] = c["reset"] = 0
        except Exception as e:  # pylint: disable=broad-except
            for c in self.__dict__.get("counted", []):
                c["update"] = c["reset"] = 0
            self.exc_calls = list(self.calls)
            return [common.exn_code(e)] + ([["notified-despite-exception"]] if self.calls and tag in (0, 8) else [])
        return [0, common.norm(out)]

    def checkpoint(self, which):
        """[14, which]: a deep copy of everything the caller holds (the dispatcher with its instance, schedule and
        subscribers, the observers, the environment) is taken with copy.deepcopy. which = 0: the session goes on
        with the COPY (it must be in the very state of the original); which = 1: the copy is played with
        (reset) and thrown away, the session goes on with the original (which must not notice). For the model this
        is a no-op."""
        import copy

        if self.__dict__.get("counted") or self.__dict__.get("foreign"):
            return
        everybody = list(self.objs)
        for o in self.dispatcher.subscribers:
            if not any(o is x for x in everybody):
                everybody.append(o)
        wrapped = []
        for o in everybody:
            if getattr(o, "_verif_wrapped", False):
                wrapped.append((o, o._verif_holder["idx"]))
                del o.update, o.reset, o._verif_wrapped, o._verif_holder
        try:
            d2, every2, env2 = copy.deepcopy((self.dispatcher, everybody, self.env))
        finally:
            for o, idx in wrapped:
                self._wrap(o, idx)
        if which == 1:
            if env2 is not None:
                env2.reset()
            else:
                d2.reset()
            return
        self.dispatcher = d2
        self.env = env2
        self.instance = d2.instance
        self.objs[:] = every2[:len(self.objs)]
        del self.calls[:]
        for o, idx in wrapped:
            self._wrap(every2[next(i for i, x in enumerate(everybody) if x is o)], idx)

    def evaluate_rule(self, r):
        """calls a dispatching rule on the dispatcher and throws the selection away (rules must not change
        the dispatcher; what they select is property C04's business)"""
        from job_shop_lib.dispatching import rules as R

        d = self.dispatcher
        table = [
            lambda: R.shortest_processing_time_rule(d),
            lambda: R.first_come_first_served_rule(d),
            lambda: R.most_work_remaining_rule(d),
            lambda: R.most_operations_remaining_rule(d),
            lambda: R.score_based_rule_with_tie_breaker(
                [R.shortest_processing_time_score, R.first_come_first_served_score])(d),
            lambda: R.score_based_rule_with_tie_breaker(
                [R.most_operations_remaining_score, R.shortest_processing_time_score])(d),
            lambda: R.score_based_rule(R.shortest_processing_time_score)(d),
        ]
        try:
            table[r % len(table)]()
        except (ValueError, IndexError):
            pass           # no operation left: min()/max() of an empty list

    def notified(self):
        if self.env is not None:
            return []   # the env's own observers are not part of the model world
        return [c if c is not None else 10 ** 6 for c in self.calls]

    def run(self, events):
        return [self.run_event(ev) for ev in events]


GRAPH_BUILDERS = ["build_disjunctive_graph", "build_agent_task_graph",
                  "build_complete_agent_task_graph", "build_agent_task_graph_with_jobs"]


def make_env(instance, filters, cfg):
    from job_shop_lib import graphs
    from job_shop_lib.reinforcement_learning import SingleJobShopGraphEnv, MakespanReward, IdleTimeReward
    from job_shop_lib.dispatching import DispatcherObserverConfig
    from job_shop_lib.dispatching.feature_observers import FeatureObserverType

    g = getattr(graphs, GRAPH_BUILDERS[cfg.get("builder", 0)])(instance)
    types = [FeatureObserverType.IS_READY, FeatureObserverType.DURATION, FeatureObserverType.IS_SCHEDULED,
             FeatureObserverType.POSITION_IN_JOB, FeatureObserverType.REMAINING_OPERATIONS,
             FeatureObserverType.IS_COMPLETED]
    fo = [DispatcherObserverConfig(types[i]) for i in cfg.get("features", [0])]
    rw = DispatcherObserverConfig(class_type=IdleTimeReward if cfg.get("idle") else MakespanReward)
    return SingleJobShopGraphEnv(g, fo, reward_function_config=rw,
                                 ready_operations_filter=make_filter(filters),
                                 use_padding=bool(cfg.get("padding", 1)))


def _jsonable(v):
    import numpy as np

    if isinstance(v, np.ndarray):
        return [_jsonable(x) for x in v.tolist()]
    if isinstance(v, float):
        return "nan" if v != v else v
    if isinstance(v, (list, tuple)):
        return [_jsonable(x) for x in v]
    if isinstance(v, dict):
        return {str(k): _jsonable(x) for k, x in v.items()}
    if isinstance(v, (set, frozenset)):
        return sorted(_jsonable(x) for x in v)
    if hasattr(v, "job_id") and hasattr(v, "position_in_job"):
        return ["op", v.job_id, v.position_in_job]
    if hasattr(v, "operation") and hasattr(v, "start_time"):
        return ["sop"] + enc_sop(v)
    if isinstance(v, (int, str, bool)) or v is None:
        return v
    if hasattr(v, "item"):
        return v.item()
    return repr(type(v))


def _attrs(o):
    """(name, value) of every instance attribute, whether stored in __dict__ or in __slots__"""
    names = list(getattr(o, "__dict__", {}).keys())
    for cls in type(o).__mro__:
        sl = cls.__dict__.get("__slots__", ())
        if isinstance(sl, str):
            sl = (sl,)
        for n in sl:
            if isinstance(sl, dict) or True:
                if n not in names and n not in ("__dict__", "__weakref__"):
                    names.append(n)
    out = []
    for n in names:
        try:
            out.append((n, getattr(o, n)))
        except AttributeError:
            pass
    return out


def deep_state(sess):
    """Everything publicly visible of the dispatcher, its observers and the
    environment, as a JSON-able value (used only for before/after equality)."""
    import collections

    d = sess.dispatcher
    out = {"d": enc_dstate(d), "n": d.schedule.num_scheduled_operations,
           "subs": [type(s).__name__ + ":" + str(next((i for i, o in enumerate(sess.objs) if o is s), -1))
                    for s in d.subscribers],
           "queries": [_jsonable(d.current_time()), _jsonable(d.available_operations()),
                       _jsonable(d.raw_ready_operations()), _jsonable(d.unscheduled_operations()),
                       _jsonable(d.scheduled_operations()), _jsonable(d.completed_operations()),
                       _jsonable(d.uncompleted_operations()), _jsonable(d.ongoing_operations()),
                       sorted(d.available_machines()), sorted(d.available_jobs())]}
    obs = []
    for s in d.subscribers:
        st = {}
        for name, val in _attrs(s):
            if name.startswith("_verif") or name in ("update", "reset", "dispatcher"):
                continue
            if isinstance(val, collections.deque):
                val = list(val)
            if name == "job_shop_graph":
                val = {"removed": list(val.removed_nodes), "edges": sorted(map(list, val.graph.edges())),
                       "nodes": sorted(val.graph.nodes())}
            if name in ("initial_job_shop_graph", "feature_observers", "is_completed_observer",
                        "remaining_operations", "unscheduled_operations_observer"):
                continue
            if isinstance(val, list) and val and isinstance(val[0], collections.deque):
                val = [list(x) for x in val]
            st[name] = _jsonable(val)
        obs.append([type(s).__name__, st])
    out["observers"] = obs
    if sess.env is not None:
        env = sess.env
        out["env_obs"] = _jsonable(env.get_observation())
        out["reward"] = _jsonable(list(env.reward_function.rewards))
    return out


def deep_digest(sess):
    import hashlib
    import json

    txt = json.dumps(deep_state(sess), sort_keys=True, default=str)
    return int(hashlib.sha1(txt.encode()).hexdigest()[:14], 16)


def run_session(spec, filters, events, env=None):
    return ImplSession(spec, filters, env).run(events)


def model_case(spec, filters, events):
    # event 11 (a library observer attached outside the model world: it must not influence the dispatcher) is
    # a no-op for the model
    return (1, [spec, filters, [[9, 0] if ev[0] in (11, 13, 14) else ev for ev in expand_events(events)]])


def expand_events(events):
    """event 12 (dispatch during which observer idx unsubscribes itself) is, for the model, the dispatch followed
    by the unsubscription: everybody subscribed when the dispatch was made is notified, then idx is gone"""
    out = []
    for ev in events:
        if ev[0] == 12:
            out.append([0] + list(ev[1:4]))
            out.append([4, ev[4]])
        else:
            out.append(ev)
    return out


def expand_run(events, outs):
    """the implementation's outputs aligned with expand_events (the unsubscription inside the notification
    answers like an ordinary unsubscribe; it did not happen when the dispatch was rejected)"""
    evs2, outs2 = [], []
    for ev, o in zip(events, outs):
        if ev[0] == 12:
            evs2.append([0] + list(ev[1:4]))
            outs2.append(o)
            if o and o[0] == 0:
                evs2.append([4, ev[4]])
                outs2.append([0, []])
        else:
            evs2.append(ev)
            outs2.append(o)
    return evs2, outs2
