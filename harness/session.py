"""Runs an event script (the model's Session.v protocol) on the real library.

Events (nested int lists):
  [0, job, pos, [m]?]   dispatch(operation, machine_id or None)
  [1, q, arg]           query q
  [2]                   dispatcher.reset()
  [3, kind]             construct an observer (subscribes itself)
  [4, idx]              dispatcher.unsubscribe(objs[idx])
  [5, idx]              dispatcher.subscribe(objs[idx])
  [6, kind]             dispatcher.create_or_get_observer(cls)
  [7]                   snapshot of everything publicly visible
Outputs: [0, payload] on success, [code] when an exception was raised;
snapshots are returned bare.
"""
from __future__ import annotations

from . import common

FILTER_NAMES = ["dominated_operations", "non_immediate_machines", "non_idle_machines",
                "non_immediate_operations"]


def key(op):
    return [op.job_id, op.position_in_job]


def enc_sop(s):
    return [s.operation.job_id, s.operation.position_in_job, s.start_time, s.machine_id]


def enc_dstate(d):
    return [list(d.machine_next_available_time), list(d.job_next_operation_index),
            list(d.job_next_available_time),
            [[enc_sop(s) for s in row] for row in d.schedule.schedule]]


def make_filter(filters):
    from job_shop_lib.dispatching import (create_composite_operation_filter,
                                          ready_operations_filter_factory)
    if not filters:
        return None
    names = [FILTER_NAMES[f] for f in filters]
    if len(names) == 1:
        return ready_operations_filter_factory(names[0])
    return create_composite_operation_filter(names)


def _observer_classes():
    common.import_impl()
    from job_shop_lib.dispatching import (DispatcherObserver, HistoryObserver,
                                          UnscheduledOperationsObserver)
    from job_shop_lib.reinforcement_learning import MakespanReward, IdleTimeReward

    def entry(obs, tag, sop):
        d = obs.dispatcher
        return [tag, [enc_sop(sop)] if sop is not None else [], enc_dstate(d),
                d.schedule.makespan(), [key(o) for o in d.scheduled_operations()],
                d.current_time()]

    class Rec(DispatcherObserver):
        def __init__(self, dispatcher, *, subscribe=True):
            super().__init__(dispatcher, subscribe=subscribe)
            self.log = []

        def update(self, scheduled_operation):
            self.log.append(entry(self, 0, scheduled_operation))

        def reset(self):
            self.log.append(entry(self, 1, None))

    class Rec2(DispatcherObserver):
        _is_singleton = False

        def __init__(self, dispatcher, *, subscribe=True):
            super().__init__(dispatcher, subscribe=subscribe)
            self.log = []

        def update(self, scheduled_operation):
            self.log.append(entry(self, 0, scheduled_operation))

        def reset(self):
            self.log.append(entry(self, 1, None))

    return [HistoryObserver, UnscheduledOperationsObserver, MakespanReward, IdleTimeReward,
            Rec, Rec2]


_CLASSES = None


def observer_classes():
    global _CLASSES
    if _CLASSES is None:
        _CLASSES = _observer_classes()
    return _CLASSES


def enc_obs(o, dispatcher):
    cls = observer_classes()
    if isinstance(o, cls[0]):
        return [0, [enc_sop(s) for s in o.history]]
    if isinstance(o, cls[1]):
        return [1, [[key(x) for x in dq] for dq in o.unscheduled_operations_per_job],
                [key(x) for x in o.unscheduled_operations], o.num_unscheduled_operations]
    if isinstance(o, cls[2]):
        return [2, list(o.rewards), o.current_makespan, o.last_reward]
    if isinstance(o, cls[3]):
        return [3, list(o.rewards), o.last_reward]
    if isinstance(o, cls[4]):
        return [4, 1, list(o.log)]
    if isinstance(o, cls[5]):
        return [4, 0, list(o.log)]
    raise TypeError(o)


class ImplSession:
    def __init__(self, spec, filters):
        common.import_impl()
        from job_shop_lib.dispatching import Dispatcher

        self.instance = common.build_instance(spec)
        self.dispatcher = Dispatcher(self.instance, ready_operations_filter=make_filter(filters))
        self.objs = []

    def op(self, k):
        return self.instance.jobs[k[0]][k[1]]

    def sop(self, v):
        from job_shop_lib import ScheduledOperation

        return ScheduledOperation(self.op(v[:2]), v[2], v[3])

    def snapshot(self):
        d = self.dispatcher
        subs = []
        for s in d.subscribers:
            idx = [i for i, o in enumerate(self.objs) if o is s]
            subs.append(idx[0] if idx else 10 ** 6)
        return [enc_dstate(d), d.schedule.is_complete(), d.schedule.makespan(),
                d.schedule.num_scheduled_operations, subs,
                [enc_obs(o, d) for o in self.objs]]

    def query(self, q, arg):
        d = self.dispatcher
        if q == 0:
            return d.current_time()
        if q == 1:
            return [key(o) for o in d.available_operations()]
        if q == 2:
            return [key(o) for o in d.raw_ready_operations()]
        if q == 3:
            return [key(o) for o in d.unscheduled_operations()]
        if q == 4:
            return [key(o) for o in d.scheduled_operations()]
        if q == 5:
            return sorted(d.available_machines())
        if q == 6:
            return sorted(d.available_jobs())
        if q == 7:
            r = d.completed_operations()
            assert isinstance(r, (set, frozenset))
            return sorted(key(o) for o in r)
        if q == 8:
            return [key(o) for o in d.uncompleted_operations()]
        if q == 9:
            return [enc_sop(s) for s in d.ongoing_operations()]
        if q == 10:
            return d.earliest_start_time(self.op(arg))
        if q == 11:
            return d.remaining_duration(self.sop(arg))
        if q == 12:
            return d.is_scheduled(self.op(arg))
        if q == 13:
            return d.is_ongoing(self.sop(arg))
        if q == 14:
            return key(d.next_operation(arg))
        raise ValueError(q)

    def run_event(self, ev):
        d = self.dispatcher
        tag = ev[0]
        if tag == 7:
            return common.norm(self.snapshot())
        try:
            if tag == 0:
                m = ev[3][0] if ev[3] else None
                d.dispatch(self.op(ev[1:3]), m)
                out = []
            elif tag == 1:
                out = self.query(ev[1], ev[2])
            elif tag == 2:
                d.reset()
                out = []
            elif tag == 3:
                o = observer_classes()[ev[1]](d)
                self.objs.append(o)
                out = len(self.objs) - 1
            elif tag == 4:
                d.unsubscribe(self.objs[ev[1]])
                out = []
            elif tag == 5:
                d.subscribe(self.objs[ev[1]])
                out = []
            elif tag == 6:
                o = d.create_or_get_observer(observer_classes()[ev[1]])
                idx = [i for i, x in enumerate(self.objs) if x is o]
                if not idx:
                    self.objs.append(o)
                    idx = [len(self.objs) - 1]
                out = idx[0]
            else:
                raise ValueError(tag)
        except Exception as e:  # pylint: disable=broad-except
            return [common.exn_code(e)]
        return [0, common.norm(out)]

    def run(self, events):
        return [self.run_event(ev) for ev in events]


def run_session(spec, filters, events):
    return ImplSession(spec, filters).run(events)


def model_case(spec, filters, events):
    return (1, [spec, filters, events])
