"""C03 — the CP-SAT solver returns feasible, truly optimal schedules.

(a) structural tie: the CpModelProto the real ORToolsSolver holds after
    `solve` (also after earlier solves on the same object) is canonicalised and
    compared with the model's printed `cp_encode I`;
(b) behavioural: the real solver's variable values are fed to the extracted
    `satb` (validates the assumed solver contract), the returned schedule is
    compared with the model's `reconstruct`, the extracted `feasibleb` /
    `completeb` / `makespan` judge the implementation's own schedule, and the
    reported makespan is compared with the extracted brute force `opt_bf`, the
    proved lower bound, every dispatching-rule solver and (thorough tier) the
    recorded benchmark bounds.
"""
from __future__ import annotations

import math

from . import common
from .framework import Check, Failure

INT_MIN = -2 ** 63
INT_MAX = 2 ** 63 - 1
CLAUSES = ["real-operation-on-eligible-machine", "row-matches-machine", "at-most-once",
           "job-order-no-overlap", "scheduled-part-is-prefix", "machine-rows-sorted-no-overlap",
           "non-negative-start", "complete"]
RULES = ["shortest_processing_time", "first_come_first_served", "most_work_remaining",
         "most_operations_remaining"]
BENCH_QUICK = ["ft06"]
BENCH_THOROUGH = ["ft06", "la01", "la02", "la03", "la04", "la05", "la06", "la16", "orb07", "abz5"]
EXC = {0: "none", 1: "ValidationError", 2: "UninitializedAttributeError", 3: "IndexError",
       4: "other exception", 5: "NoSolutionFoundError"}


# ---------------------------------------------------------------------------
# canonical form of a CpModelProto (same shape as CpSat.enc_model)
# ---------------------------------------------------------------------------

def _simple_var(e):
    if len(e.vars) == 1 and list(e.coeffs) == [1] and e.offset == 0 and e.vars[0] >= 0:
        return int(e.vars[0])
    return [-1, [int(x) for x in e.vars], [int(x) for x in e.coeffs], int(e.offset)]


def _interval(c):
    it = c.interval
    size = int(it.size.offset) if len(it.size.vars) == 0 else [-1, [int(x) for x in it.size.vars]]
    return [_simple_var(it.start), size, _simple_var(it.end)]


def canon_proto(p):
    """variables with domains, linear constraints, intervals, no-overlap groups
    (interval references resolved to their contents), lin_max, objective.
    Anything the encoding is not expected to contain becomes a marker that
    cannot match the model's output."""
    vars_ = [[int(x) for x in v.domain] for v in p.variables]
    cons = []
    for c in p.constraints:
        kind = c.WhichOneof("constraint")
        if len(c.enforcement_literal) > 0:
            cons.append([98, [int(x) for x in c.enforcement_literal]])
            continue
        if kind == "linear":
            terms = sorted([int(v), int(co)] for v, co in zip(c.linear.vars, c.linear.coeffs))
            dom = [int(x) for x in c.linear.domain]
            if len(dom) != 2:
                cons.append([97, terms, dom])
                continue
            cons.append([0, terms, [] if dom[0] == INT_MIN else [dom[0]],
                         [] if dom[1] == INT_MAX else [dom[1]]])
        elif kind == "interval":
            cons.append([1, _interval(c)])
        elif kind == "no_overlap":
            ivs = []
            for i in c.no_overlap.intervals:
                ci = p.constraints[i]
                ivs.append(_interval(ci) if ci.WhichOneof("constraint") == "interval" else [-1, int(i)])
            cons.append([2, ivs])
        elif kind == "lin_max":
            cons.append([3, _simple_var(c.lin_max.target), [_simple_var(e) for e in c.lin_max.exprs]])
        else:
            cons.append([99, [ord(ch) for ch in str(kind)]])
    obj = []
    if p.HasField("objective"):
        o = p.objective
        if (len(o.vars) == 1 and list(o.coeffs) == [1] and o.offset == 0
                and o.scaling_factor in (0, 1) and len(o.domain) == 0):
            obj = [int(o.vars[0])]
        else:
            obj = [-1, [int(x) for x in o.vars], [int(x) for x in o.coeffs]]
    extra = []
    if len(p.search_strategy) or p.HasField("solution_hint") or len(p.assumptions):
        extra = [96]
    out = [vars_, cons, obj]
    return out + [extra] if extra else out


def rows_of(schedule):
    return [[[so.job_id, so.position_in_job, int(so.start_time), so.machine_id] for so in row]
            for row in schedule.schedule]


def n_histories(spec):
    n = sum(len(j) for j in spec)
    r = math.factorial(n)
    for j in spec:
        r //= math.factorial(len(j))
    return r


def small_instances():
    """Bounded-exhaustive sweep (validates the model against the code; never
    stands in for a theorem): 2 jobs x 1-2 operations, machines {0,1},
    durations {0,1,2}; 3 jobs x 1-2 operations, machines {0,1}, durations {0,1}."""
    import itertools

    def jobs(durs):
        ops = [[[m], d] for m in (0, 1) for d in durs]
        return [[a] for a in ops] + [[a, b] for a in ops for b in ops]

    for a, b in itertools.product(jobs((0, 1, 2)), repeat=2):
        yield [a, b]
    for a, b, c in itertools.product(jobs((0, 1)), repeat=3):
        yield [a, b, c]


def _exc_code(e):
    from job_shop_lib.exceptions import NoSolutionFoundError

    if isinstance(e, NoSolutionFoundError):
        return 5
    return common.exn_code(e)


def _one_solve(solver, inst, use_call):
    """-> dict with exception code, schedule observables, solver response."""
    out = {"exc": 0, "rows": [], "meta": [], "sched_makespan": -1, "status": -1, "values": [],
           "objective": [], "proto": []}
    try:
        sched = solver(inst) if use_call else solver.solve(inst)
    except Exception as e:  # pylint: disable=broad-except
        out["exc"] = _exc_code(e)
        out["exc_text"] = [ord(c) for c in (type(e).__name__ + ": " + str(e))[:160]]
        sched = None
    out["proto"] = canon_proto(solver.model.Proto())
    try:
        resp = solver.solver.ResponseProto()
        out["status"] = int(resp.status)
        out["values"] = [int(x) for x in resp.solution]
        if resp.status in (2, 4):
            ov = resp.objective_value
            out["objective"] = [int(ov)] if float(ov) == int(ov) else [-1]
    except Exception:  # pylint: disable=broad-except
        pass  # Solve() was never reached (exception while building the model)
    if sched is not None:
        md = sched.metadata
        st = md.get("status")
        et = md.get("elapsed_time")
        out["rows"] = rows_of(sched)
        out["meta"] = [1 if st == "optimal" else 0 if st == "feasible" else -1,
                       common.norm(md.get("makespan")),
                       1 if isinstance(et, float) and et >= 0 else 0,
                       1 if md.get("solved_by") == "ORToolsSolver" else 0,
                       1 if sorted(md) == ["elapsed_time", "makespan", "solved_by", "status"] else 0]
        out["sched_makespan"] = int(sched.makespan())
        out["same_instance"] = 1 if sched.instance is inst else 0
    return out


class C03(Check):
    pid = "C03"
    assumptions = [
        "non-flexible instance with durations >= 0 (instances without operations included since fix a437e37)",
        "total duration below 2^53: beyond that CP-SAT itself reports OPTIMAL for makespans 1-2 above the optimum "
        "(observed on conflict-free instances with durations 2^53 +- 3: its objective bookkeeping is in doubles), "
        "i.e. the solver contract below does not hold there; the generated instances stay far below",
        "solver contract (Section hypotheses of C03_opt): the values CP-SAT returns satisfy the constraint "
        "set under the semantics of spec/CpSatSpec.v, and status OPTIMAL means no satisfying assignment has "
        "a smaller objective; the first half is re-checked on every solver answer by the extracted satb",
    ]
    modelled_not_verified = [
        "modelled: ORToolsSolver._initialize_model/_create_variables/_add_job_constraints/"
        "_add_machine_constraints/_set_objective (as the CpModelProto they produce), _create_schedule, "
        "Schedule.check_schedule, the status/metadata/exception logic of solve (coq/model/CpSat.v) — tied by "
        "comparing model.Proto() and the returned schedule with the model on every case",
        "assumed, validated by sampling only: OR-tools CP-SAT 9.14 (search, statuses, time limit, semantics of "
        "linear / interval / no_overlap / lin_max constraints — zero-length intervals are NOT exempt from "
        "no_overlap); the canonicaliser resolves the interval indices of no_overlap to their contents",
        "opt_bf (brute force over all dispatch histories, extracted) is proved to be OPT(I) "
        "(C03_opt_bf_correct, via semi-active dominance) — it is exponential, so it is only used up to "
        "~30000 (quick) / 400000 (thorough) histories; larger instances are compared with the proved lower "
        "bound, the rule solvers and the recorded benchmark bounds only",
    ]
    nontrivial_rule = ("random non-flexible instances (1-4 jobs x 1-4 machines, 1-4 operations per job, zero "
                       "durations in ~60% of them, recirculation, unused machine ids, 0-2 earlier solves on the "
                       "same solver object); non-trivial = the solver returned a solution for an instance with "
                       ">= 2 jobs and >= 3 operations; distinct = distinct SHA1 of the case")

    # ---- generation ---------------------------------------------------------
    def budget(self):
        return 1500 if self.tier == "quick" else 8000

    def search_budget(self):
        return 2000 if self.tier == "quick" else 10000

    def _instance(self, rng, zero=None, flexible=False, max_jobs=4, max_ops=4):
        spec = common.gen_instance(rng, max_jobs=max_jobs, max_machines=4, max_ops=max_ops, flexible=flexible,
                                   zero=(rng.random() < 0.6) if zero is None else zero,
                                   big=rng.random() < 0.1, min_jobs=1 if rng.random() < 0.2 else 2,
                                   allow_empty_jobs=rng.random() < 0.05)
        if zero is None and not flexible and rng.random() < 0.25:
            # the defect-prone shape: many zero durations, few machines
            for job in spec:
                for o in job:
                    o[0] = [o[0][0] % 2]
                    if rng.random() < 0.5:
                        o[1] = 0
        return spec

    def make_case(self, rng):
        r = rng.random()
        case = {"spec": None, "prev": [], "limit_us": 10_000_000, "call": 1 if rng.random() < 0.3 else 0}
        if r < 0.012:
            # instances without any operation (the empty schedule, makespan 0, is the optimum)
            case["spec"] = rng.choice([[[]], [], [[], []], [[], [], []]])
            self.note("instance_without_operations")
        elif r < 0.04:
            case["spec"] = self._instance(rng, flexible=True)
            self.note("flexible_stream")
        elif r < 0.12:
            case["spec"] = self._instance(rng)
            case["limit_us"] = 0      # 1e-9 s: the artificial, tiny time limit
            self.note("tiny_limit")
        else:
            big = rng.random() < 0.15
            case["spec"] = self._instance(rng, max_jobs=6 if big else 4, max_ops=5 if big else 4)
            if rng.random() < 0.08:
                case["limit_us"] = -1  # max_time_in_seconds=None
        if rng.random() < 0.08 and case["spec"]:
            total = sum(d for job in case["spec"] for _, d in job)
            case["meta_bounds"] = rng.choice([[0, max(0, total // 3)], [total + 5, total + 9], [total // 2, total // 2]])
            self.note("instance_metadata_with_foreign_bounds")
        if rng.random() < 0.35:
            for _ in range(rng.randint(1, 2)):
                case["prev"].append(self._instance(rng, flexible=rng.random() < 0.15))
            self.note("with_earlier_solves")
            if case["spec"] and rng.random() < 0.5:
                # ... one of them a SIBLING of this instance: same name, same numbers of jobs, operations and
                # machines, other routing and durations (what-if variants of one shop solved by one solver object)
                nm = common.num_machines_of(case["spec"])
                sib = [[[sorted({(m + 1) % nm for m in ms}), rng.randint(1, 9)] for ms, _ in job]
                       for job in case["spec"]]
                if common.num_machines_of(sib) == nm:
                    case["prev"][-1] = sib
                    case["prev_same_name"] = 1
                    self.note("earlier_solve_of_a_sibling_instance_with_the_same_name_and_shape")
            if case["limit_us"] != 0 and rng.random() < 0.3:
                case["prev_limit_us"] = rng.choice([0, 0, 5_000_000, -1])
                self.note("earlier_solves_under_another_time_limit")
        return case

    def gen_cases(self, rng, n):
        cases = []
        names = BENCH_QUICK if self.tier == "quick" else BENCH_THOROUGH
        for nm in names:
            cases.append({"bench": nm, "spec": None, "prev": [[[[0], 0], [[0], 3]], [[[0], 1]]],
                          "limit_us": 30_000_000, "call": 0})
            self.note("benchmark")
        if self.tier == "thorough":
            for spec in small_instances():
                cases.append({"spec": spec, "prev": [], "limit_us": 10_000_000, "call": 0})
                self.note("bounded_exhaustive")
        for _ in range(n):
            c = self.make_case(rng)
            cases.append(c)
            st = common.instance_stats(c["spec"])
            self.note("cases")
            self.note("ops_total", st["ops"])
            if st["zero"]:
                self.note("inst_zero")
            self.note(f"jobs_{st['jobs']}")
        return cases

    # ---- implementation -----------------------------------------------------
    def run_impl(self, case):
        common.import_impl()
        from job_shop_lib.constraint_programming import ORToolsSolver

        lim = case["limit_us"]
        limit = None if lim < 0 else (1e-9 if lim == 0 else lim / 1e6)
        bench = []
        if case.get("bench"):
            from job_shop_lib.benchmarking import load_benchmark_instance

            inst = load_benchmark_instance(case["bench"])
            spec = common.spec_of_instance(inst)
            md = inst.metadata
            bench = [[int(md[k])] if md.get(k) is not None else [] for k in ("optimum", "lower_bound", "upper_bound")]
        else:
            spec = case["spec"]
            inst = common.build_instance(spec)
            if case.get("meta_bounds"):
                # free-form instance metadata that happens to use the benchmark key names with values that do not
                # belong to this instance (typical after deriving an instance from a benchmark's dictionary)
                lb, ub = case["meta_bounds"]
                inst.metadata.update({"lower_bound": lb, "upper_bound": ub, "optimum": ub})
        solver = ORToolsSolver(max_time_in_seconds=limit)
        if "prev_limit_us" in case:
            # the earlier solves ran under ANOTHER value of the documented attribute max_time_in_seconds
            pl = case["prev_limit_us"]
            solver.max_time_in_seconds = None if pl < 0 else (1e-9 if pl == 0 else pl / 1e6)
        earlier = []
        for ps in case["prev"]:
            try:
                es = solver.solve(common.build_instance(ps, name="verif" if case.get("prev_same_name") else "earlier"))
                earlier.append([es, es.metadata.get("makespan"), es.metadata.get("status"), int(es.makespan())])
            except Exception:  # pylint: disable=broad-except
                pass
        solver.max_time_in_seconds = limit
        obs = _one_solve(solver, inst, bool(case.get("call")))
        # the results of the EARLIER solves, looked at again now: what a result reports does not change because the
        # same solver object solved something else afterwards
        obs["earlier_results_unchanged"] = [
            1 if (es.metadata.get("makespan") == mk0 == int(es.makespan()) == mk_rows and es.metadata.get("status") == st0)
            else 0 for es, mk0, st0, mk_rows in earlier]
        obs["spec"] = spec
        obs["bench"] = bench
        # a fresh solver object on the same instance ("does not depend on what was solved before")
        obs["fresh"] = []
        if case["prev"] and lim != 0:
            f = _one_solve(ORToolsSolver(max_time_in_seconds=limit), common.build_instance(spec), False)
            obs["fresh"] = [f["exc"], f["status"], f["meta"][1] if f["meta"] else -1]
        # every dispatching-rule solver (upper bounds)
        rules = []
        if obs["exc"] == 0 and all(len(ms) == 1 for job in spec for ms, _ in job):
            from job_shop_lib.dispatching.rules import DispatchingRuleSolver

            for i, rule in enumerate(RULES):
                try:
                    s = DispatchingRuleSolver(dispatching_rule=rule).solve(common.build_instance(spec))
                    if s.is_complete():
                        rules.append([i, int(s.makespan())])
                except Exception:  # pylint: disable=broad-except
                    pass  # the rule solvers are C04's business
        obs["rules"] = rules
        return obs

    # ---- model --------------------------------------------------------------
    def _bf_ok(self, spec):
        cap = 30000 if self.tier == "quick" else 400000
        return (all(len(ms) == 1 for job in spec for ms, _ in job) and sum(len(j) for j in spec) > 0
                and n_histories(spec) <= cap)

    def model_requests(self, case, obs):
        spec = obs["spec"]
        reqs = [(301, [list(case["prev"]) + [spec]]),
                (302, [spec, max(obs["status"], 0), obs["values"]]),
                (305, [spec, max(obs["status"], 0), obs["values"]]),
                (303, [spec, obs["rows"]])]
        if self._bf_ok(spec):
            reqs.append((304, [spec]))
        return reqs

    # ---- judgement ----------------------------------------------------------
    def judge(self, case, obs, outs):
        fails = []
        spec = obs["spec"]
        enc, res, res_start_only, jd = outs[0], outs[1], outs[2], outs[3]
        bf = outs[4] if len(outs) > 4 else None
        n_ops = sum(len(j) for j in spec)
        exc = obs["exc"]
        status = obs["status"]
        has_solution = status in (2, 4)
        tiny = case["limit_us"] == 0

        # --- (a) structural tie -------------------------------------------------
        if enc[0] != 0:
            # the model says _initialize_model raises (flexible / machine-less operation)
            if exc != enc[0]:
                fails.append(Failure("tie", "encoding-exception",
                                     "model: building the CP model raises " + EXC.get(enc[0], "?"),
                                     expected=enc[0], observed=exc))
            return fails
        if obs["proto"] != enc[1]:
            fails.append(Failure("tie", "encoding",
                                 "solver.model.Proto() (canonicalised) differs from cp_encode I"
                                 + (" after earlier solves on the same object" if case["prev"] else ""),
                                 expected=enc[1], observed=obs["proto"]))

        # --- solver contract (assumed of OR-tools, validated here) --------------
        model_result, satb, objective = res[0], res[1], res[2]
        if has_solution:
            if not satb:
                fails.append(Failure("tie", "solver-contract",
                                     f"CP-SAT status {status} but its values do not satisfy cp_encode I under "
                                     "the semantics of CpSatSpec.v", observed=obs["values"]))
            # (the response's objective_value is a C double: beyond 2^53 it is the makespan variable ROUNDED, so
            # the comparison is made after the same int -> double conversion)
            if [float(x) for x in obs["objective"]] != [float(objective)]:
                fails.append(Failure("tie", "solver-contract-objective",
                                     "objective value of the response differs from the makespan variable",
                                     expected=objective, observed=obs["objective"]))

        # --- (b) behaviour of solve vs the model ---------------------------------
        impl_result = [exc] if exc else [0, obs["rows"], obs["meta"][0], obs["meta"][1]]
        if impl_result != model_result:
            fails.append(Failure("tie", "solve-result",
                                 "solve(): implementation and model (repaired sort key) differ"
                                 + ("; the model with the start-only key reproduces the implementation"
                                    if res_start_only[0] == impl_result else ""),
                                 expected=model_result, observed=impl_result))

        # --- the property itself, on the implementation's output -----------------
        if n_ops == 0 and exc == 5 and not tiny:
            # regression guard of the repaired defect (fix a437e37): AddMaxEquality over no end time
            fails.append(Failure("oracle", "no-solution-empty-instance",
                                 "instance without operations: NoSolutionFoundError although the empty "
                                 "schedule is feasible and complete (AddMaxEquality over no expression)"))
            return fails
        if tiny:
            self.note("tiny_limit_no_solution" if exc == 5 else "tiny_limit_solved_anyway")
        if exc == 5 and not tiny:
            fails.append(Failure("oracle", "no-solution-without-limit",
                                 f"NoSolutionFoundError with a time limit of {case['limit_us']} us "
                                 f"(-1 = none); CP-SAT status {status}"))
        if exc in (1, 2, 3, 4):
            txt = "".join(chr(c) for c in obs.get("exc_text", []))
            fails.append(Failure("oracle", "returns-schedule",
                                 f"solve raised {EXC[exc]} on a valid non-flexible instance"
                                 + (f" although CP-SAT returned a solution (status {status})" if has_solution else "")
                                 + f": {txt}", expected=model_result, observed=[exc]))
        if exc == 0:
            clauses, mk_spec, lb, total, nonflex = jd
            for name, ok in zip(CLAUSES, clauses):
                if not ok:
                    fails.append(Failure("oracle", "feasible:" + name,
                                         f"the returned schedule violates '{name}'", observed=obs["rows"]))
            st_meta, mk_meta, el_ok, by_ok, keys_ok = obs["meta"]
            if not (mk_meta == obs["sched_makespan"] == mk_spec):
                fails.append(Failure("oracle", "reported-makespan",
                                     "metadata makespan, Schedule.makespan() and the makespan of the rows differ",
                                     expected=mk_spec, observed=[mk_meta, obs["sched_makespan"]]))
            if not (el_ok and by_ok and keys_ok and st_meta in (0, 1) and obs.get("same_instance") == 1
                    and st_meta == (1 if status == 4 else 0)):
                fails.append(Failure("oracle", "metadata",
                                     "status / elapsed_time / solved_by / key set of the metadata are off",
                                     observed=[obs["meta"], status]))
            optimal = st_meta == 1
            if mk_spec < lb:
                fails.append(Failure("oracle", "below-lower-bound",
                                     "makespan below max(job length, machine load)", expected=lb, observed=mk_spec))
            if mk_spec > total:
                fails.append(Failure("oracle", "above-horizon", "makespan above total duration",
                                     expected=total, observed=mk_spec))
            if bf is not None:
                self.note("compared_with_opt_bf")
                if not bf:
                    fails.append(Failure("tie", "opt_bf", "brute force found no complete history"))
                elif (optimal and mk_spec != bf[0]) or mk_spec < bf[0]:
                    fails.append(Failure("oracle", "optimal-vs-brute-force",
                                         f"status {'optimal' if optimal else 'feasible'}: makespan {mk_spec}, "
                                         f"independently computed optimum {bf[0]}", expected=bf[0], observed=mk_spec))
            if optimal:
                self.note("rule_results_compared", len(obs["rules"]))
                for i, mk in obs["rules"]:
                    if mk_spec > mk:
                        fails.append(Failure("oracle", "above-rule-result",
                                             f"status optimal but the {RULES[i]} rule solver reaches {mk}",
                                             expected=mk, observed=mk_spec))
            if obs["bench"]:
                opt, blb, bub = obs["bench"]
                if blb and mk_spec < blb[0]:
                    fails.append(Failure("oracle", "benchmark-bounds", "below the recorded lower bound",
                                         expected=blb[0], observed=mk_spec))
                if optimal and ((opt and mk_spec != opt[0]) or (bub and mk_spec > bub[0])):
                    fails.append(Failure("oracle", "benchmark-bounds",
                                         "status optimal but not the recorded optimum / above the recorded upper bound",
                                         expected=[opt, bub], observed=mk_spec))
            self.note("status_optimal" if optimal else "status_feasible")
        if not all(obs.get("earlier_results_unchanged", [])):
            fails.append(Failure("oracle", "earlier-result-changed",
                                 "a schedule returned by an earlier solve of the same solver object reports another "
                                 "makespan / status after the later solve (or its metadata never matched its rows)",
                                 observed=obs["earlier_results_unchanged"]))
        # independence of earlier solves: a fresh object gives the same verdict
        if obs["fresh"] and not tiny:
            f_exc, f_status, f_mk = obs["fresh"]
            mine = [exc, status, obs["meta"][1] if obs["meta"] else -1]
            # (a ValidationError on one side only is the rebuild defect, reported above: CP-SAT may
            # return different optimal assignments in different runs)
            if (f_exc != exc and 1 not in (f_exc, exc)) or (
                    f_exc == 0 and exc == 0 and f_status == 4 and status == 4 and f_mk != mine[2]):
                fails.append(Failure("oracle", "depends-on-earlier-solves",
                                     "a fresh solver object and the re-used one disagree",
                                     expected=obs["fresh"], observed=mine))
        return fails

    # ---- evidence -------------------------------------------------------------
    def nontrivial(self, case, obs):
        spec = obs["spec"]
        return obs["exc"] == 0 and len(spec) >= 2 and sum(len(j) for j in spec) >= 3

    def summarize(self, case):
        return case

    def shrink_candidates(self, case):
        if case.get("bench"):
            return
        if "meta_bounds" in case:
            yield {k: v for k, v in case.items() if k != "meta_bounds"}
        if "prev_limit_us" in case:
            yield {k: v for k, v in case.items() if k != "prev_limit_us"}
        if case["prev"]:
            yield dict(case, prev=[])
            yield dict(case, prev=case["prev"][:-1])
        if case.get("call"):
            yield dict(case, call=0)
        spec = case["spec"]
        for j in range(len(spec)):
            if len(spec) > 1:
                yield dict(case, spec=spec[:j] + spec[j + 1:])
        for j, job in enumerate(spec):
            if len(job) > 1:
                for p in (len(job) - 1, 0):
                    s2 = [list(jb) for jb in spec]
                    s2[j] = job[:p] + job[p + 1:]
                    yield dict(case, spec=s2)
        for j, job in enumerate(spec):
            for p, (ms, d) in enumerate(job):
                for nd in (0, 1, 2):
                    if d > nd and (nd > 0 or d <= 2):
                        s2 = [[list(o) for o in jb] for jb in spec]
                        s2[j][p] = [ms, nd]
                        yield dict(case, spec=s2)
                        break


CHECK = C03
