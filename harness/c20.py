"""C20 — Gantt charts and animations show the schedule that was built.

Two families of cases:

* ``chart``: a schedule (built by the real Dispatcher from a random history
  prefix, or a hand-made ``Schedule`` that passes ``check_schedule``) is drawn
  by the real ``plot_gantt_chart`` (Agg backend, nothing rendered) and the
  artists of the returned Axes are read back: one rectangle per
  ``broken_barh`` call (x, width, y, height, face colour), legend handles and
  labels, y limits / ticks / tick labels, x limit and x ticks.
* ``anim``: a history recorded by a real ``HistoryObserver`` is replayed by
  the real ``create_gantt_chart_frames`` (directly, through
  ``GanttChartCreator.create_gif`` / ``create_video``, or through the solver
  path) with a STUB plot function that records the schedule it is given and
  returns a figure whose ``savefig`` only creates an empty file; the frame
  directory is then read back by the real ``create_gif_from_frames`` /
  ``create_video_from_frames`` with ``imageio.imread`` / ``mimsave`` stubbed
  and ``os.listdir`` answering in a shuffled order. Histories reach 1000+
  operations. A few small cases use the real plotter (artists of every frame
  inspected); one real GIF is written and decoded frame by frame.
"""
from __future__ import annotations

import os
import random
import shutil
import tempfile
import types

from . import common
from .framework import Check, Failure

ORACLE_NAMES = ["drawable", "one-bar-per-operation", "legend-consistent", "rows-labelled",
                "axis-ends-at-makespan-or-limit", "last-tick-is-limit"]
CMAPS = ["viridis", "plasma"]
VIZ = "job_shop_lib.visualization._gantt_chart_video_and_gif_creation"


# ---------------------------------------------------------------------------
# generation (pure python, nothing imported from the implementation)
# ---------------------------------------------------------------------------

def random_history(rng, spec, length=None):
    """A list of [job, pos, machine] requests that a dispatcher accepts."""
    nxt = [0] * len(spec)
    total = sum(len(j) for j in spec)
    if length is None:
        length = total
    out = []
    while len(out) < min(length, total):
        ready = [j for j, job in enumerate(spec) if nxt[j] < len(job)]
        j = rng.choice(ready)
        p = nxt[j]
        m = rng.choice(spec[j][p][0])
        nxt[j] += 1
        out.append([j, p, m])
    return out


def big_spec(rng, n_ops, flat=False):
    """An instance with exactly n_ops operations."""
    if flat:
        nm = rng.randint(1, 3)
        return [[[[rng.randrange(nm)], rng.randint(0, 3)]] for _ in range(n_ops)]
    nj = rng.randint(2, 7)
    nm = rng.randint(1, 5)
    sizes = [n_ops // nj] * nj
    for i in range(n_ops - sum(sizes)):
        sizes[i % nj] += 1
    spec = []
    for s in sizes:
        job = []
        for _ in range(s):
            if rng.random() < 0.3:
                ms = rng.sample(range(nm), rng.randint(1, nm))
            else:
                ms = [rng.randrange(nm)]
            job.append([ms, 0 if rng.random() < 0.15 else rng.randint(1, 9)])
        spec.append(job)
    return [j for j in spec if j] or [[[[0], 1]]]


def hand_rows(rng, spec):
    """Rows that satisfy Schedule.check_schedule but need not be feasible:
    any operation eligible for the machine, non-overlapping, arbitrary gaps,
    possibly the same operation twice."""
    nm = common.num_machines_of(spec)
    rows = []
    for m in range(nm):
        elig = [(j, p) for j, job in enumerate(spec) for p, (ms, _) in enumerate(job) if m in ms]
        row = []
        t = rng.randint(0, 4)
        for _ in range(rng.randint(0, 4) if elig else 0):
            j, p = rng.choice(elig)
            row.append([j, p, t, m])
            t += spec[j][p][1] + rng.choice([0, 0, 1, 3, 10])
        rows.append(row)
    return rows


# ---------------------------------------------------------------------------
# driving the implementation
# ---------------------------------------------------------------------------

def _rows_of(schedule):
    return [[[s.job_id, s.position_in_job, int(s.start_time), s.machine_id] for s in row]
            for row in schedule.schedule]


def _integral(x):
    x = float(x)
    if x != int(x):
        raise ValueError(f"non-integral coordinate {x!r}")
    return int(x)


def _colour_index(rgba, lut):
    rgba = tuple(float(c) for c in rgba)
    for i, c in enumerate(lut):
        if tuple(float(x) for x in c) == rgba:
            return i
    return 999


def read_axes(ax, num_jobs, cmap_name, label_prefix, machine_labels, job_labels=None):
    """The artists of a Gantt chart Axes as nested ints:
    [bars, legend, [ylo, yhi], yticks, xlim, xticks] + flags."""
    import matplotlib.pyplot as plt
    from matplotlib.collections import PolyCollection

    cm = plt.get_cmap(cmap_name, num_jobs)
    lut = [cm(i) for i in range(num_jobs)]
    lut_distinct = int(len(set(tuple(c) for c in lut)) == len(lut))
    bars = []
    for c in ax.collections:
        paths = c.get_paths()
        fcs = c.get_facecolor()
        if not isinstance(c, PolyCollection) or len(paths) != 1 or len(fcs) != 1:
            bars.append([0, 0, 0, -1, 999])
            continue
        v = paths[0].vertices.tolist()
        x, y = v[0]
        w = v[2][0] - x
        h = v[1][1] - y
        rect = (len(v) == 5 and v[1] == [x, y + h] and v[2] == [x + w, y + h]
                and v[3] == [x + w, y] and v[4] == [x, y])
        bars.append([_integral(y), _integral(x), _integral(w), _integral(h) if rect else -1,
                     _colour_index(fcs[0], lut)])
    extra = len(ax.patches) + len(ax.images)
    leg = ax.get_legend()
    legend = []
    texts_ok = 1
    if leg is not None:
        handles = getattr(leg, "legend_handles", None)
        if handles is None:
            handles = leg.legendHandles
        texts = [t.get_text() for t in leg.get_texts()]
        labels = [h.get_label() for h in handles]
        texts_ok = int(texts == labels)
        used = set()
        for h in handles:
            lab = h.get_label()
            ci = _colour_index(h.get_facecolor(), lut)
            j = 999
            if job_labels is not None:
                # labels given by the caller need not be unique (two jobs making the same part): the entry stands
                # for a job that carries this label - the one drawn in this colour if there is one
                cands = [jj for jj, text in enumerate(job_labels) if text == lab and jj not in used]
                exact = [jj for jj in cands
                         if ci == (0 if num_jobs <= 1 else max(0, min(num_jobs - 1, (jj * num_jobs) // (num_jobs - 1))))]
                if exact or cands:
                    j = (exact or cands)[0]
                    used.add(j)
            elif lab.startswith(label_prefix) and lab[len(label_prefix):].isdigit():
                j = int(lab[len(label_prefix):])
            legend.append([j, ci])
    ylo, yhi = ax.get_ylim()
    yticks = [_integral(t) for t in ax.get_yticks()]
    ylabels = [t.get_text() for t in ax.get_yticklabels()]
    ylabels_ok = int(ylabels == machine_labels)
    xlo, xhi = ax.get_xlim()
    expanded = 0
    if xlo == 0 and float(xhi) == int(xhi):
        xlim = int(xhi)
    elif xlo == -xhi and 0 < xhi < 1:
        # matplotlib's answer to set_xlim(0, 0): a symmetric expansion
        xlim, expanded = 0, 1
    else:
        raise ValueError(f"unexpected x limits {(xlo, xhi)!r}")
    xticks = [_integral(t) for t in ax.get_xticks()]
    return {"chart": [bars, legend, [_integral(ylo), _integral(yhi)], yticks, xlim, xticks],
            "flags": [lut_distinct, texts_ok, ylabels_ok, int(extra == 0), expanded]}


def build_schedule(case, inst):
    """-> (Schedule, recorded history as ScheduledOperations)."""
    from job_shop_lib import Schedule, ScheduledOperation
    from job_shop_lib.dispatching import Dispatcher, HistoryObserver

    if case.get("rows") is not None:
        rows = [[ScheduledOperation(inst.jobs[j][p], st, m) for j, p, st, m in row]
                for row in case["rows"]]
        return Schedule(inst, rows), None
    d = Dispatcher(inst)
    ho = HistoryObserver(d)
    for j, p, m in case["history"]:
        d.dispatch(inst.jobs[j][p], m)
    return d.schedule, ho.history


class _FakeOs:
    """os with a listdir that answers in a prescribed (shuffled) order."""

    def __init__(self, seed, log):
        self.path = os.path
        self._seed = seed
        self._log = log

    def listdir(self, path):
        names = sorted(os.listdir(path))
        random.Random(self._seed).shuffle(names)
        self._log.append(list(names))
        return names

    def __getattr__(self, name):
        return getattr(os, name)


def _codes(s):
    return [ord(c) for c in s]


def _name_image(path):
    import numpy as np

    name = os.path.basename(path)
    arr = np.zeros((16, 32, 3), dtype=np.int64)
    arr[0, :len(name), 0] = _codes(name)
    arr[1, 0, 0] = len(name)
    return arr


def _image_name(arr):
    n = int(arr[1, 0, 0])
    return [int(c) for c in arr[0, :n, 0]]


def run_anim(case):
    import warnings
    import matplotlib.pyplot as plt
    from matplotlib.figure import Figure
    import importlib

    from job_shop_lib.dispatching import Dispatcher, HistoryObserver
    from job_shop_lib.visualization import (GanttChartCreator, create_gantt_chart_frames,
                                            create_gif_from_frames, create_video_from_frames,
                                            get_partial_gantt_chart_plotter)

    viz = importlib.import_module(VIZ)
    inst = common.build_instance(case["spec"])
    mode = case["mode"]
    ks = set(case["ks"])
    calls = {}
    ncalls = [0]
    saved = {}
    charts = {}
    real_plot = get_partial_gantt_chart_plotter() if case.get("real_plot") else None

    def stub_plot(schedule, makespan=None, available_operations=None, current_time=None):
        ncalls[0] += 1
        k = ncalls[0]
        if k in ks:
            calls[k] = [k, _rows_of(schedule), [] if makespan is None else int(makespan)]
        if real_plot is not None:
            with warnings.catch_warnings():
                warnings.simplefilter("ignore")      # set_xlim(0, 0) on an all-zero history
                fig = real_plot(schedule, makespan, available_operations, current_time)
            charts[k] = read_axes(fig.axes[0], inst.num_jobs, "viridis", "Job ",
                                  [str(i) for i in range(len(schedule.schedule))])
        else:
            fig = Figure()

        def savefig(path, **_kw):
            saved[k] = os.path.basename(str(path))
            open(path, "wb").close()
        fig.savefig = savefig
        return fig

    tmp = tempfile.mkdtemp(prefix="c20-", dir=os.path.join(common.VERIF, ".scratch"))
    frames_dir = os.path.join(tmp, "frames")
    os.mkdir(frames_dir)
    listings = []
    captured = []
    old_os, old_io = viz.os, viz.imageio
    fake_io = types.SimpleNamespace(
        imread=_name_image,
        mimsave=lambda path, images, **kw: captured.append([_image_name(im) for im in images]))
    err = 0
    try:
        viz.os = _FakeOs(case["shuffle"], listings)
        viz.imageio = fake_io
        # the history: recorded by a real HistoryObserver on a real Dispatcher
        solver = None
        if mode == 3:
            from job_shop_lib.dispatching.rules import DispatchingRuleSolver
            solver = DispatchingRuleSolver(dispatching_rule=case.get("rule", "most_work_remaining"))
            d = Dispatcher(inst, ready_operations_filter=solver.ready_operations_filter)
        else:
            d = Dispatcher(inst)
        # keep = 1: remove_frames=False - the frame files of earlier (not longer) episodes are still in the
        # directory when the frames of this history are written; every frame is written again all the same
        keep = {"remove_frames": False} if case.get("keep") else {}
        if mode in (1, 2):
            creator = GanttChartCreator(
                d, gif_config={"gif_path": os.path.join(tmp, "a.gif"), "frames_dir": frames_dir,
                               "plot_current_time": bool(case["pct"]), **keep},
                video_config={"video_path": os.path.join(tmp, "a.mp4"), "frames_dir": frames_dir,
                              "plot_current_time": bool(case["pct"]), **keep})
            creator.partial_gantt_chart_plotter = stub_plot
            ho = creator.history_observer
            # earlier episodes on the same dispatcher / creator (the life cycle of the RL environments:
            # one creator, dispatcher.reset() per episode, rendering after some of them)
            for wh, render in case.get("warm", []):
                for j, p, m in wh:
                    d.dispatch(inst.jobs[j][p], m)
                if render == 1:
                    creator.create_gif()
                elif render == 2:
                    creator.create_video()
                d.reset()
                os.makedirs(frames_dir, exist_ok=True)
            ncalls[0] = 0
            for acc in (calls, saved, charts):
                acc.clear()
            del listings[:]
            del captured[:]
        else:
            ho = HistoryObserver(d)
        if mode == 3:
            solver.solve(inst, d)
        else:
            for j, p, m in case["history"]:
                d.dispatch(inst.jobs[j][p], m)
        hist = [[s.job_id, s.position_in_job, int(s.start_time), s.machine_id] for s in ho.history]
        try:
            if mode == 1:
                creator.create_gif()            # frames + read back + rmtree
            elif mode == 2:
                creator.create_video()
            else:
                if mode == 3:
                    solver2 = DispatchingRuleSolver(
                        dispatching_rule=case.get("rule", "most_work_remaining"))
                    create_gantt_chart_frames(frames_dir, inst, solver2, stub_plot, bool(case["pct"]))
                else:
                    create_gantt_chart_frames(frames_dir, inst, None, stub_plot, bool(case["pct"]),
                                              ho.history)
                create_gif_from_frames(frames_dir, os.path.join(tmp, "b.gif"), 1)
                create_video_from_frames(frames_dir, os.path.join(tmp, "b.mp4"), 1)
        except Exception as e:  # pylint: disable=broad-except
            err = 5 if isinstance(e, ValueError) else common.exn_code(e)
    finally:
        viz.os, viz.imageio = old_os, old_io
        plt.close("all")
        shutil.rmtree(tmp, ignore_errors=True)
    n = ncalls[0]
    return {"hist": hist, "err": err, "ncalls": n,
            "calls": [calls[k] for k in sorted(calls)],
            "saved": [_codes(saved[k]) if k in saved else [] for k in range(1, n + 1)],
            "listings": [[_codes(x) for x in l] for l in listings],
            "loaded": captured,
            "charts": [[k, charts[k]["chart"], charts[k]["flags"]] for k in sorted(charts)]}


def run_gif(case):
    """One real GIF: real plotter, real savefig, real imageio; decoded again."""
    import imageio
    import numpy as np
    import matplotlib.pyplot as plt

    from job_shop_lib.dispatching import Dispatcher
    from job_shop_lib.visualization import GanttChartCreator

    inst = common.build_instance(case["spec"])
    tmp = tempfile.mkdtemp(prefix="c20-", dir=os.path.join(common.VERIF, ".scratch"))
    try:
        d = Dispatcher(inst)
        frames_dir = os.path.join(tmp, "frames")
        gif = os.path.join(tmp, "a.gif")
        creator = GanttChartCreator(d, gif_config={"gif_path": gif, "frames_dir": frames_dir,
                                                   "remove_frames": False, "fps": 1})
        for j, p, m in case["history"]:
            d.dispatch(inst.jobs[j][p], m)
        n = len(creator.history_observer.history)
        try:
            creator.create_gif()
        except ValueError as e:
            if "same shape" in str(e):
                # the frames written by the library do not all have the same pixel size, so imageio refuses to
                # stack them: no GIF at all
                return {"n": n, "decoded": -1, "best": [], "error": "frames-of-different-size"}
            raise
        decoded = imageio.mimread(gif, memtest=False)
        # reference pictures: rendered independently, one per history prefix
        refs = []
        d2 = Dispatcher(inst)
        makespan = max(s.end_time for s in creator.history_observer.history)
        plotter = creator.partial_gantt_chart_plotter
        for k, (j, p, m) in enumerate(case["history"], start=1):
            d2.dispatch(inst.jobs[j][p], m)
            fig = plotter(d2.schedule, makespan, d2.available_operations(), d2.current_time())
            path = os.path.join(tmp, f"ref{k}.png")
            fig.savefig(path, bbox_inches="tight")
            plt.close(fig)
            refs.append(np.asarray(imageio.imread(path))[..., :3].astype(np.int64))
        step = 1 if n <= 30 else 2
        refs = [r[::step, ::step] for r in refs]
        best = []
        for im in decoded:
            im = np.asarray(im)[..., :3].astype(np.int64)[::step, ::step]
            scores = []
            for r in refs:
                # both on a white canvas that holds either (the library pads smaller frames in white; the
                # reference pictures keep their natural size): what one shows and the other does not counts
                hh, ww = max(im.shape[0], r.shape[0]), max(im.shape[1], r.shape[1])
                a = np.full((hh, ww, 3), 255, dtype=np.int64)
                b = np.full((hh, ww, 3), 255, dtype=np.int64)
                a[:im.shape[0], :im.shape[1]] = im
                b[:r.shape[0], :r.shape[1]] = r
                scores.append(float(np.abs(a - b).mean()))
            best.append(1 + int(np.argmin(scores)))
        return {"n": n, "decoded": len(decoded), "best": best}
    finally:
        plt.close("all")
        shutil.rmtree(tmp, ignore_errors=True)


def pad_images(case):
    """The images of a ``pad`` case: deterministic pixel values below 250, shape [h, w] (+ channels)."""
    import numpy as np

    rng = random.Random(case["seed"])
    out = []
    for h, w in case["shapes"]:
        shape = (h, w) if not case["chan"] else (h, w, case["chan"])
        n = 1
        for x in shape:
            n *= x
        out.append(np.array([rng.randrange(250) for _ in range(n)], dtype=np.uint8).reshape(shape))
    return out


def run_pad(case):
    """What create_gif_from_frames / create_video_from_frames hand to imageio.mimsave when the frame files hold
    images of the given shapes (imageio.imread / mimsave stubbed, real directory with one file per frame)."""
    import importlib
    import numpy as np

    from job_shop_lib.visualization import create_gif_from_frames, create_video_from_frames

    viz = importlib.import_module(VIZ)
    imgs = pad_images(case)
    tmp = tempfile.mkdtemp(prefix="c20-", dir=os.path.join(common.VERIF, ".scratch"))
    captured = []
    old_io = viz.imageio
    err = 0
    try:
        for k in range(1, len(imgs) + 1):
            open(os.path.join(tmp, f"frame_{k:02d}.png"), "wb").close()

        def imread(path):
            name = os.path.basename(str(path))
            return imgs[int(name[len("frame_"):-len(".png")]) - 1].copy()

        viz.imageio = types.SimpleNamespace(
            imread=imread, mimsave=lambda path, images, **kw: captured.append([np.array(im) for im in images]))
        try:
            if case["via"] == "gif":
                create_gif_from_frames(tmp, os.path.join(tmp, "a.gif"), 1)
            else:
                create_video_from_frames(tmp, os.path.join(tmp, "a.mp4"), 1, macro_block_size=case["mb"])
        except Exception as e:  # pylint: disable=broad-except
            err = common.exn_code(e)
    finally:
        viz.imageio = old_io
        shutil.rmtree(tmp, ignore_errors=True)
    out = captured[0] if captured else []
    return {"err": err, "calls": len(captured),
            "in": [[list(im.shape), im.astype(int).tolist()] for im in imgs],
            "out": [[list(im.shape), np.asarray(im).astype(int).tolist()] for im in out]}


def _channel(img, c):
    """[h, w, rows] of channel c (c = None: the image is two-dimensional)."""
    (shape, px) = img
    h, w = shape[0], shape[1]
    if c is None:
        return [h, w, px]
    return [h, w, [[v[c] for v in row] for row in px]]


def _contains(big, small):
    """Is the array `small` a contiguous block of `big` (nested lists, first two axes)?"""
    (bs, bp), (ss, sp) = big, small
    if ss[0] == 0 or ss[1] == 0:
        return ss[0] <= bs[0] and ss[1] <= bs[1]
    for r0 in range(bs[0] - ss[0] + 1):
        for c0 in range(bs[1] - ss[1] + 1):
            if all(bp[r0 + r][c0:c0 + ss[1]] == sp[r] for r in range(ss[0])):
                return True
    return False


def run_chart(case):
    import warnings
    import matplotlib.pyplot as plt
    from job_shop_lib.dispatching import Dispatcher
    from job_shop_lib.visualization import plot_gantt_chart

    inst = common.build_instance(case["spec"])
    sched, _ = build_schedule(case, inst)
    nm = len(sched.schedule)
    prefix = "Job " if not case["labels"] else "J#"
    job_labels = None if not case["labels"] else [f"J#{j}" for j in range(inst.num_jobs)]
    if case["labels"] == 2:
        job_labels = [f"part {j % 2}" for j in range(inst.num_jobs)]      # labels shared by several jobs
    machine_labels = None if not case["labels"] else [f"M{m}" for m in range(nm)]
    kw = {}
    if case["nt"] is not None:
        kw["number_of_x_ticks"] = case["nt"]
    with warnings.catch_warnings():
        warnings.simplefilter("ignore")
        if case.get("open_before") is not None:
            # another chart of the same instance (same default title) is still open: comparing two schedules
            # side by side. Each call draws its own chart.
            d0 = Dispatcher(inst)
            for j, p, m in case["open_before"]:
                d0.dispatch(inst.jobs[j][p], m)
            plot_gantt_chart(d0.schedule, cmap_name=CMAPS[case["cmap"]])
        fig, ax = plot_gantt_chart(sched, xlim=(case["xlim"][0] if case["xlim"] else None),
                                   cmap_name=CMAPS[case["cmap"]], job_labels=job_labels,
                                   machine_labels=machine_labels, **kw)
    if case.get("open_after") is not None:
        # ... or the other way round: a second chart of the same instance is plotted while this one is still
        # open, and THIS one is looked at afterwards (it must still show what it showed)
        with warnings.catch_warnings():
            warnings.simplefilter("ignore")
            d1 = Dispatcher(inst)
            for j, p, m in case["open_after"]:
                d1.dispatch(inst.jobs[j][p], m)
            plot_gantt_chart(d1.schedule, cmap_name=CMAPS[case["cmap"]])
    try:
        same_axes = int(fig.axes and fig.axes[0] is ax)
        obs = read_axes(ax, inst.num_jobs, CMAPS[case["cmap"]], prefix,
                        machine_labels or [str(i) for i in range(nm)],
                        job_labels if case["labels"] == 2 else None)
    finally:
        plt.close("all")
    obs["rows"] = _rows_of(sched)
    obs["flags"].append(same_axes)
    return obs


# ---------------------------------------------------------------------------
# the check
# ---------------------------------------------------------------------------

class C20(Check):
    pid = "C20"
    nontrivial_rule = (
        "chart case: >= 2 bars on >= 2 machine rows from >= 2 jobs; animation case: >= 2 frames; "
        "distinct = distinct SHA1 of the whole case (instance + history/rows + options)")
    assumptions = [
        "the schedule drawn is a Schedule object of the instance (rows pass Schedule.check_schedule); "
        "durations >= 0; number_of_x_ticks >= 1; requested xlim >= 0",
        "animation histories are recorded by a HistoryObserver of a Dispatcher on the same instance "
        "(any requests, any machine choice); the frame directory is empty before the frames are written "
        "and contains nothing but the frames when it is read back",
        "an empty history is outside the property (create_gantt_chart_frames raises ValueError on it)",
    ]
    modelled_not_verified = [
        "modelled (coq/model/Gantt.v): _plot_machine_schedules, _plot_scheduled_operation, "
        "_configure_legend, _configure_axes, create_gantt_chart_frames (history path), _save_frame's "
        "file name, _load_images' read order — tied by differential execution, not verified",
        "matplotlib: broken_barh creates one rectangle (x, y, width, height) with the given face colour; "
        "Normalize/Colormap index arithmetic in floating point agrees with exact arithmetic "
        "(entry j for job j); set_xlim/set_xticks/set_yticks/legend store what they are given; "
        "set_xlim(0, 0) is expanded symmetrically; rendering to pixels (savefig) is trusted",
        "imageio: imread returns the picture stored in the file it is given, mimsave writes the "
        "pictures in list order; os.listdir returns the directory's names in SOME order; "
        "sorted(key=...) sorts by key; str.format '02d' / int() are decimal print / parse",
        "the solver path of create_gantt_chart_frames and GanttChartCreator are exercised by the "
        "harness only (they delegate to the modelled history path)",
    ]

    def budget(self):
        return 260 if self.tier == "quick" else 7800

    def search_budget(self):
        return 400 if self.tier == "quick" else 2600

    # ---- generation -------------------------------------------------------
    def gen_chart(self, rng):
        spec = common.gen_instance(rng, max_jobs=6, max_machines=5, max_ops=5,
                                   big=rng.random() < 0.15)
        case = {"kind": "chart", "spec": spec, "rows": None, "history": None}
        total = sum(len(j) for j in spec)
        if rng.random() < 0.25:
            case["rows"] = hand_rows(rng, spec)
            self.note("chart_hand_made")
        else:
            r = rng.random()
            length = total if r < 0.5 else (0 if r < 0.56 else rng.randint(0, total))
            case["history"] = random_history(rng, spec, length)
            self.note("chart_complete" if length == total else "chart_partial")
            if length == 0:
                self.note("chart_empty_schedule")
        r = rng.random()
        if r < 0.45:
            case["xlim"] = []
        elif r < 0.5:
            case["xlim"] = [0]
        else:
            case["xlim"] = [rng.choice([1, 2, 5, 7, 10, 15, 16, 29, 30, 31, 60, 100, 101, 997,
                                        rng.randint(0, 60), rng.randint(0, 20000)])]
        r = rng.random()
        case["nt"] = None if r < 0.3 else rng.choice([1, 2, 3, 4, 7, 15, 16, 40, rng.randint(1, 200)])
        case["cmap"] = 1 if rng.random() < 0.2 else 0
        case["labels"] = rng.choice([1, 1, 2]) if rng.random() < 0.3 else 0
        if case["labels"] == 2:
            self.note("chart_job_labels_shared_by_several_jobs")
        r_open = rng.random()
        if r_open < 0.2:
            case["open_before"] = random_history(rng, spec, rng.randint(1, total))
            self.note("chart_while_another_chart_is_open")
        elif r_open < 0.4:
            case["open_after"] = random_history(rng, spec, rng.randint(1, total))
            self.note("chart_inspected_after_another_chart_was_plotted")
        st = common.instance_stats(spec)
        for k in ("flexible", "zero"):
            if st[k]:
                self.note("inst_" + k)
        if st["machines"] > len({m for job in spec for ms, _ in job for m in ms}):
            self.note("inst_unused_machine_ids")
        if case["xlim"]:
            self.note("chart_requested_xlim")
        return case

    def gen_anim(self, rng, n=None, real_plot=False, flat=None):
        exact = n is not None and not real_plot
        if n is None:
            n = rng.choice([1, 2, 3, 5, 8, 9, 10, 11, 12, 20, 33])
        if n <= 12 and rng.random() < 0.5 and not flat:
            spec = common.gen_instance(rng, max_jobs=4, max_machines=4, max_ops=4)
            n = min(n, sum(len(j) for j in spec))
        else:
            spec = big_spec(rng, n, flat=bool(flat) if flat is not None else rng.random() < 0.2)
        total = sum(len(j) for j in spec)
        hist = random_history(rng, spec, min(n, total) if exact or rng.random() < 0.7
                              else rng.randint(1, total))
        n = len(hist)
        mode = rng.choice([0, 0, 1, 2]) if not real_plot else 0
        ks = sorted(set(k for k in ([1, 2, 9, 10, 11, 99, 100, 101, n - 1, n]
                                    + [rng.randint(1, n) for _ in range(6)]) if 1 <= k <= n))
        if n <= 40:
            ks = list(range(1, n + 1))
        self.note("anim_frames_total", n)
        self.note("anim_n>=100" if n >= 100 else "anim_n<100")
        self.note(f"anim_mode{mode}")
        case = {"kind": "anim", "spec": spec, "history": hist, "mode": mode, "ks": ks,
                "shuffle": rng.randrange(1 << 30), "pct": int(rng.random() < 0.5),
                "real_plot": int(real_plot)}
        if mode in (1, 2) and rng.random() < 0.5:
            # the recorded history is the one of the CURRENT episode: earlier episodes (some rendered) first
            case["warm"] = [[random_history(rng, spec, rng.randint(1, min(total, 12))), rng.randrange(3)]
                            for _ in range(rng.randint(1, 2))]
            self.note("anim_after_earlier_episodes")
            if rng.random() < 0.5:
                case["keep"] = 1
                case["warm"] = [[wh[:n], r] for wh, r in case["warm"]]
                self.note("anim_frames_of_earlier_episodes_kept_in_the_directory")
            if any(r for _, r in case["warm"]):
                self.note("anim_after_earlier_rendering")
        return case

    def gen_solver(self, rng):
        spec = common.gen_instance(rng, max_jobs=4, max_machines=3, max_ops=4, flexible=False)
        n = sum(len(j) for j in spec)
        self.note("anim_solver_path")
        return {"kind": "anim", "spec": spec, "history": [], "mode": 3, "ks": list(range(1, n + 1)),
                "shuffle": rng.randrange(1 << 30), "pct": 1, "real_plot": 0,
                "rule": rng.choice(["most_work_remaining", "shortest_processing_time",
                                    "first_come_first_served"])}

    def gen_cases(self, rng, n):
        cases = []
        scale = max(1, n // 260)
        n_chart = 150 * scale
        for _ in range(n_chart):
            cases.append(self.gen_chart(rng))
        # animations: the boundary lengths first, then random ones
        sizes = [99, 100, 101, 120, 150, 1000 + rng.randint(0, 300)]
        if self.tier == "thorough":
            sizes += [200, 999, 1000, 1001, 2500]
        for s in sizes:
            cases.append(self.gen_anim(rng, n=s))
        for n_big, mode_big in ((230, 1), (260, 2)):
            # long histories through GanttChartCreator.create_gif / create_video (their own defaults)
            c = self.gen_anim(rng, n=n_big)
            c["mode"] = mode_big
            c.pop("warm", None)
            cases.append(c)
            self.note("anim_long_history_through_the_creator")
        cases.append(self.gen_anim(rng, n=rng.choice([100, 101, 110]), flat=True))
        cases.append(self.gen_anim(rng, n=1000 + rng.randint(1, 400), flat=True))
        for _ in range(60 * scale):
            cases.append(self.gen_anim(rng))
        for _ in range(8 * scale):
            cases.append(self.gen_anim(rng, n=rng.randint(1, 9), real_plot=True))
        for _ in range(6 * scale):
            cases.append(self.gen_solver(rng))
        # the images handed to the encoder: frames of different pixel sizes (legend growing), none, one, empty ones
        for i in range(40 * scale):
            n = rng.choice([0, 1, 2, 3, 3, 4, 5, 6])
            base = [rng.randint(1, 6), rng.randint(1, 6)]
            shapes = []
            for _ in range(n):
                r = rng.random()
                if r < 0.45:
                    shapes.append(list(base))
                elif r < 0.9:
                    shapes.append([max(0, base[0] + rng.choice([-1, 0, 0, 1])), max(0, base[1] + rng.choice([0, 1, 2]))])
                else:
                    shapes.append([rng.randint(0, 7), rng.randint(0, 7)])
            via = "gif" if i % 3 else "video"
            chan = rng.choice([3, 4]) if via == "video" else rng.choice([0, 0, 3, 4])
            cases.append({"kind": "pad", "shapes": shapes, "seed": rng.randrange(10 ** 6), "chan": chan,
                          "via": via, "mb": rng.choice([1, 1, 4, 16])})
            self.note("pad_" + ("one_shape" if len({tuple(x) for x in shapes}) <= 1 else "mixed_shapes"))
        # real GIFs (durations >= 1 so that consecutive frames differ visibly)
        for _ in range(1 if self.tier == "quick" else 3):
            spec = common.gen_instance(rng, max_jobs=3, max_machines=3, max_ops=2, min_jobs=2, zero=False)
            cases.append({"kind": "gif", "spec": spec, "history": random_history(rng, spec)})
            self.note("real_gif")
        # eleven or more jobs: the legend gets wider when "Job 10" appears, the frames differ in pixel size
        nj = rng.randint(11, 13)
        spec = [[[[rng.randrange(3)], rng.randint(1, 4)]] for _ in range(nj)]
        cases.append({"kind": "gif", "spec": spec, "history": random_history(rng, spec)})
        self.note("real_gif_two_digit_job_ids")
        if self.tier == "thorough":
            spec = [[[[rng.randrange(4)], rng.randint(1, 3)] for _ in range(26)] for _ in range(4)]
            cases.insert(0, {"kind": "gif", "spec": spec, "history": random_history(rng, spec, 102)})
            self.note("real_gif_102_frames")
        self.note("cases", len(cases))
        return cases

    # ---- implementation ---------------------------------------------------
    def run_impl(self, case):
        common.import_impl()
        if case["kind"] == "chart":
            return run_chart(case)
        if case["kind"] == "anim":
            return run_anim(case)
        if case["kind"] == "pad":
            return run_pad(case)
        return run_gif(case)

    # ---- model ------------------------------------------------------------
    def model_requests(self, case, obs):
        if case["kind"] == "pad":
            chans = [None] if not case["chan"] else list(range(case["chan"]))
            return [(2008, [_channel(im, c) for im in obs["in"]]) for c in chans]
        spec = case["spec"]
        if case["kind"] == "chart":
            nt = 15 if case["nt"] is None else case["nt"]
            return [(2001, [spec, obs["rows"], case["xlim"], nt]),
                    (2002, [spec, obs["rows"], case["xlim"], obs["chart"]])]
        if case["kind"] == "anim":
            n = obs["ncalls"]
            reqs = [(2003, [spec, obs["hist"], case["ks"]]),
                    (2004, [spec, obs["hist"], case["ks"]]),
                    (2005, list(range(1, n + 1)))]
            for l in obs["listings"]:
                reqs.append((2006, l))
                reqs.append((2007, l))
            for k, chart, _flags in obs["charts"]:
                rows = next(c[1] for c in obs["calls"] if c[0] == k)
                xl = next(c[2] for c in obs["calls"] if c[0] == k)
                reqs.append((2001, [spec, rows, [xl], 15]))
                reqs.append((2002, [spec, rows, [xl], chart]))
            return reqs
        return []

    # ---- judgement --------------------------------------------------------
    def judge_chart(self, where, obs_chart, flags, model_chart, oracle, fails):
        mbars, mleg, myl, myt, mxl, mxt = model_chart
        obars, oleg, oyl, oyt, oxl, oxt = obs_chart
        mxt = mxt[0] if mxt else None
        for name, a, b in (("bars", obars, mbars), ("legend", oleg, mleg), ("ylim", oyl, myl),
                           ("yticks", oyt, myt), ("xlim", oxl, mxl), ("xticks", oxt, mxt)):
            if a != b:
                fails.append(Failure("tie", "chart-impl-vs-model",
                                     f"{where}: {name} on the Axes differ from the model's",
                                     expected=b, observed=a))
        if not oracle[0]:
            fails.append(Failure("tie", "chart-precondition",
                                 f"{where}: the schedule drawn is not a well-formed Schedule"))
            return
        for name, ok in zip(ORACLE_NAMES[1:], oracle[1:]):
            if not ok:
                fails.append(Failure("oracle", "chart:" + name,
                                     f"{where}: the artists on the Axes violate '{name}'",
                                     observed=obs_chart))
        lut_distinct, texts_ok, ylabels_ok, no_extra = flags[:4]
        if not lut_distinct:
            fails.append(Failure("oracle", "chart:legend-consistent",
                                 f"{where}: two jobs share a colour of the colormap"))
        if not texts_ok:
            fails.append(Failure("oracle", "chart:legend-consistent",
                                 f"{where}: legend texts differ from the handles' labels"))
        if not ylabels_ok:
            fails.append(Failure("oracle", "chart:rows-labelled",
                                 f"{where}: y tick labels are not the machine labels in row order"))
        if not no_extra:
            fails.append(Failure("oracle", "chart:one-bar-per-operation",
                                 f"{where}: unexpected extra patches/images on the Axes"))
        if flags[4] and mxl != 0:
            fails.append(Failure("tie", "chart-impl-vs-model", f"{where}: x limits expanded"))

    def judge(self, case, obs, outs):
        fails = []
        if case["kind"] == "chart":
            self.judge_chart("plot_gantt_chart", obs["chart"], obs["flags"], outs[0], outs[1], fails)
            if len(obs["flags"]) > 5 and not obs["flags"][5]:
                fails.append(Failure("oracle", "chart:one-bar-per-operation",
                                     "the returned Axes is not the figure's first Axes"))
            return fails
        if case["kind"] == "pad":
            return self.judge_pad(case, obs, outs)
        if case["kind"] == "gif":
            if obs.get("error") == "frames-of-different-size":
                fails.append(Failure("oracle", "gif:frames-of-different-size",
                                     f"create_gif() raised (imageio: all input arrays must have the same shape) for a "
                                     f"history of {obs['n']} operations: the frames it wrote differ in pixel size"))
                return fails
            if obs["decoded"] != obs["n"]:
                fails.append(Failure("oracle", "gif:frame-count",
                                     f"the GIF has {obs['decoded']} frames for a history of {obs['n']}"))
            elif obs["best"] != list(range(1, obs["n"] + 1)):
                fails.append(Failure("oracle", "gif:frame-order",
                                     "decoded GIF frame i is not closest to the picture of history[:i]",
                                     expected=list(range(1, obs["n"] + 1)), observed=obs["best"]))
            return fails
        # animation
        n = len(obs["hist"])
        frames_m, frames_spec, names_m = outs[0], outs[1], outs[2]
        pos = 3
        if obs["err"] != 0:
            fails.append(Failure("oracle", "anim:replay-raises",
                                 f"creating/reading the frames raised (code {obs['err']})"))
        if frames_m[0] != 0 or frames_m[1] != n:
            fails.append(Failure("tie", "anim-impl-vs-model",
                                 "model: replay raised or wrote a wrong number of files",
                                 expected=[0, n], observed=frames_m[:2]))
        if obs["ncalls"] != n:
            fails.append(Failure("oracle", "anim:one-frame-per-history-entry",
                                 f"{obs['ncalls']} plot calls for a history of {n} entries"))
        if obs["calls"] != frames_m[2]:
            fails.append(Failure("tie", "anim-impl-vs-model",
                                 "schedules handed to the plot function differ from the model's",
                                 expected=self._first_diff(frames_m[2], obs["calls"]),
                                 observed=self._first_diff(obs["calls"], frames_m[2])))
        for c, s in zip(obs["calls"], frames_spec):
            if c != s:
                fails.append(Failure("oracle", "anim:frame-k-shows-history-prefix",
                                     f"plot call #{c[0]} was not given history[:{c[0]}] with the final "
                                     f"makespan as x limit", expected=s, observed=c))
                break
        if obs["saved"] != names_m:
            fails.append(Failure("tie", "anim-impl-vs-model", "frame file names differ from the model's",
                                 expected=self._first_diff(names_m, obs["saved"]),
                                 observed=self._first_diff(obs["saved"], names_m)))
        if len(set(map(tuple, obs["saved"]))) != len(obs["saved"]):
            fails.append(Failure("oracle", "anim:distinct-frame-files",
                                 "two frames were saved under the same file name"))
        if len(obs["loaded"]) != len(obs["listings"]) or (obs["err"] == 0 and not obs["loaded"]):
            fails.append(Failure("oracle", "anim:replay-raises", "frames were not read back"))
        for listing, loaded in zip(obs["listings"], obs["loaded"]):
            m_new, m_old = outs[pos], outs[pos + 1]
            pos += 2
            m_new = m_new[0] if m_new else None
            if loaded != obs["saved"]:
                i = next((i for i, (a, b) in enumerate(zip(loaded, obs["saved"])) if a != b),
                         min(len(loaded), len(obs["saved"])))
                what = ("exactly the order of sorting the names as strings"
                        if loaded == m_old else "neither")
                fails.append(Failure(
                    "oracle", "anim:frame-order",
                    f"history of {n} operations: position {i + 1} of the frames handed to imageio.mimsave "
                    f"is file '{self._s(loaded[i]) if i < len(loaded) else None}', the frame saved by plot "
                    f"call #{i + 1} is '{self._s(obs['saved'][i]) if i < len(obs['saved']) else None}' "
                    f"(observed order = {what})",
                    expected=[self._s(x) for x in obs["saved"][max(0, i - 1):i + 3]],
                    observed=[self._s(x) for x in loaded[max(0, i - 1):i + 3]]))
            if loaded != m_new:
                fails.append(Failure("tie", "anim-impl-vs-model",
                                     "read order differs from the (repaired) model's",
                                     expected=self._first_diff(m_new or [], loaded),
                                     observed=self._first_diff(loaded, m_new or [])))
        for k, chart, flags in obs["charts"]:
            self.judge_chart(f"frame {k}", chart, flags, outs[pos], outs[pos + 1], fails)
            pos += 2
        return fails

    def judge_pad(self, case, obs, outs):
        fails = []
        n = len(obs["in"])
        if obs["err"] != 0 or obs["calls"] != 1:
            fails.append(Failure("oracle", "gif:frames-of-different-size",
                                 f"create_{case['via']}_from_frames raised (code {obs['err']}) / called mimsave "
                                 f"{obs['calls']} times for frames of shapes {case['shapes']}"))
            return fails
        if len(obs["out"]) != n:
            fails.append(Failure("oracle", "gif:frame-count",
                                 f"{len(obs['out'])} images handed to the encoder for {n} frame files"))
            return fails
        if len({tuple(o[0]) for o in obs["out"]}) > 1:
            fails.append(Failure("oracle", "gif:frames-of-different-size",
                                 "the images handed to the encoder differ in shape: imageio refuses them",
                                 observed=[o[0] for o in obs["out"]]))
        for k, (i, o) in enumerate(zip(obs["in"], obs["out"]), start=1):
            if not _contains(o, i):
                fails.append(Failure("oracle", "gif:frame-order",
                                     f"image {k} handed to the encoder does not contain the picture read from "
                                     f"frame file {k} (shape read {i[0]}, handed on {o[0]})"))
                break
        # tie: pixel for pixel what the model hands on (macro-block padding of the video route: identity at 1)
        if case["via"] == "gif" or case["mb"] == 1:
            chans = [None] if not case["chan"] else list(range(case["chan"]))
            for c, m in zip(chans, outs):
                mine = [_channel(o, c) for o in obs["out"]]
                if mine != m:
                    fails.append(Failure("tie", "pad-impl-vs-model",
                                         f"images handed to the encoder differ from the model's (channel {c})",
                                         expected=self._first_diff(m, mine), observed=self._first_diff(mine, m)))
                    break
        return fails

    @staticmethod
    def _s(codes):
        return "".join(chr(c) for c in codes)

    @staticmethod
    def _first_diff(a, b):
        for i, x in enumerate(a):
            if i >= len(b) or b[i] != x:
                return [i, x]
        return [len(a), None]

    # ---- bookkeeping ------------------------------------------------------
    def nontrivial(self, case, obs):
        if case["kind"] == "chart":
            bars = obs["chart"][0]
            return (len(bars) >= 2 and len({b[0] for b in bars}) >= 2
                    and len({b[4] for b in bars}) >= 2)
        if case["kind"] == "anim":
            return obs["ncalls"] >= 2
        return True

    def summarize(self, case):
        if case["kind"] == "anim" and len(case["history"]) > 30:
            c = dict(case)
            c["spec"] = f"<{len(case['spec'])} jobs, {sum(len(j) for j in case['spec'])} operations>"
            c["history"] = f"<{len(case['history'])} dispatches>"
            return c
        return case

    def shrink_candidates(self, case):
        if case["kind"] == "pad":
            for i in range(len(case["shapes"])):
                yield dict(case, shapes=case["shapes"][:i] + case["shapes"][i + 1:])
            if case["chan"]:
                yield dict(case, chan=0, via="gif")
            return
        if case.get("open_before") is not None:
            yield {k: v for k, v in case.items() if k != "open_before"}
        if case.get("open_after") is not None:
            yield {k: v for k, v in case.items() if k != "open_after"}
        if case.get("keep"):
            yield {k: v for k, v in case.items() if k != "keep"}
        if case.get("warm"):
            yield {k: v for k, v in case.items() if k not in ("warm", "keep")}
            yield dict(case, warm=case["warm"][:-1])
        if case["kind"] == "anim" and case["mode"] != 3:
            h = case["history"]
            n = len(h)
            for m in (100, n // 2, n - 10, n - 1):
                if 1 <= m < n:
                    ks = [k for k in case["ks"] if k <= m] or [m]
                    yield dict(case, history=h[:m], ks=ks)
            if case["mode"] != 0:
                yield dict(case, mode=0)
            if case["pct"]:
                yield dict(case, pct=0)
            if len(case["ks"]) > 1:
                yield dict(case, ks=case["ks"][-1:])
        elif case["kind"] == "chart":
            if case["history"]:
                yield dict(case, history=case["history"][:-1])
            if case["rows"]:
                for m, row in enumerate(case["rows"]):
                    if row:
                        rows = [list(r) for r in case["rows"]]
                        rows[m] = row[:-1]
                        yield dict(case, rows=rows)
            if case["labels"]:
                yield dict(case, labels=0)
            if case["cmap"]:
                yield dict(case, cmap=0)
            if case["nt"] is not None:
                yield dict(case, nt=None)


CHECK = C20
