"""Base class for the checks that drive the dispatcher world with event scripts."""
from __future__ import annotations

from . import common, gen, session
from .framework import Check, Failure

CLAUSES = ["real-operation-on-eligible-machine", "row-matches-machine", "at-most-once",
           "job-order-no-overlap", "scheduled-part-is-prefix", "machine-rows-sorted-no-overlap",
           "non-negative-start", "complete"]


class SessionCheck(Check):
    """case = {"spec":..., "filters":[...], "events":[...], "meta": {...}}"""

    gen_kwargs = {}
    inst_kwargs = {}
    with_filters = True

    def make_case(self, rng):
        spec = common.gen_instance(rng, **self.inst_kwargs)
        fs = []
        if self.with_filters and rng.random() < 0.5:
            fs = [rng.randrange(4) for _ in range(rng.randint(1, 3))]
        kw = dict(self.gen_kwargs)
        env = None
        p_env = kw.pop("p_env", 0.0)
        if p_env and rng.random() < p_env and all(len(j) > 0 for j in spec):
            env = {"builder": rng.randrange(4), "features": sorted(rng.sample(range(6), rng.randint(1, 3))),
                   "idle": int(rng.random() < 0.3), "padding": int(rng.random() < 0.7)}
            kw["env_mode"] = True
            kw["p_obs"] = 0.0
            kw.pop("start_observers_choices", None)
        so = kw.pop("start_observers_choices", None)
        if so is not None:
            kw["start_observers"] = rng.sample(so, rng.randint(0, len(so)))
        events, stats = gen.gen_session(rng, spec, **kw)
        case = {"spec": spec, "filters": fs, "events": events}
        if env is not None:
            case["env"] = env
            stats["env"] = 1
        return case, stats

    exhaustive_queries = (0, 1, 2, 3, 4, 7, 8, 9)
    exhaustive_filters = ([], [0], [2], [3], [1], [0, 2])

    def exhaustive_cases(self, rng, limit=4000):
        """Bounded-exhaustive stream of the thorough tier: ALL instances with <= 2 jobs of <= 2 single-machine
        operations on <= 2 machines with durations in {0,1,2}, ALL complete dispatch histories of each, a snapshot
        and a battery of queries after every dispatch. Validation of the model and failing-input search, never a
        stand-in for a theorem. A random sample of `limit` (instance, history, filter) triples is kept."""
        import itertools

        ops = [[[m], d] for m in (0, 1) for d in (0, 1, 2)]
        jobs = [[o] for o in ops] + [[a, b] for a in ops for b in ops]
        insts = [[j] for j in jobs] + [[a, b] for a in jobs for b in jobs]
        out = []
        for spec in insts:
            seqs = set(itertools.permutations([j for j, job in enumerate(spec) for _ in job]))
            for seq in seqs:
                out.append((spec, seq))
        rng.shuffle(out)
        cases = []
        for spec, seq in out[:limit]:
            fs = list(rng.choice(self.exhaustive_filters)) if self.with_filters else []
            nxt = [0] * len(spec)
            evs = [[7]]
            for j in seq:
                evs.append([0, j, nxt[j], []])
                nxt[j] += 1
                evs.append([7])
                qs = list(self.exhaustive_queries)
                rng.shuffle(qs)
                evs.extend([1, q, []] for q in qs)
            cases.append({"spec": [[list(map(lambda o: [list(o[0]), o[1]], job))][0] for job in spec],
                          "filters": fs, "events": evs})
            self.note("exhaustive_cases")
        return cases

    def gen_cases(self, rng, n):
        cases = []
        if self.tier == "thorough" and n >= 1000:
            cases.extend(self.exhaustive_cases(rng))
        for _ in range(n):
            case, stats = self.make_case(rng)
            cases.append(case)
            st = common.instance_stats(case["spec"])
            self.note("cases")
            for k in ("flexible", "zero", "empty_job"):
                if st[k]:
                    self.note("inst_" + k)
            self.note("ops_total", st["ops"])
            self.note("with_filter", 1 if case["filters"] else 0)
            self.note("ev_dispatch", stats["dispatch"])
            self.note("ev_query", stats["query"])
            self.note("ev_reset", stats["reset"])
            self.note("ev_reset_after_first_dispatches", stats.get("early_reset", 0))
            self.note("sparsely_observed_sessions", stats.get("sparse", 0))
            self.note("episodic_sessions", stats.get("episodic", 0))
            self.note("sessions_with_counted_library_feature_observers", stats.get("counted_library_observers", 0))
            self.note("ev_dispatch_during_which_an_observer_unsubscribes_itself", stats.get("self_unsubscribe", 0))
            self.note("sessions_watched_by_a_residual_graph_updater", stats.get("foreign_updater", 0))
            self.note("ev_rejected_observer_construction", stats.get("rejected_construction", 0))
            self.note("ev_deepcopy_checkpoint", stats.get("deepcopy", 0))
            self.note("ev_direct_dispatch_in_an_environment_session", stats.get("env_direct_dispatch", 0))
            self.note("ev_dispatcher_reset_in_an_environment_session", stats.get("env_dispatcher_reset", 0))
            if all(job[0][1] == 0 for job in case["spec"] if job):
                self.note("inst_every_job_starts_with_zero_duration")
            self.note("ev_obs", stats["obs"])
            self.note("env_sessions", stats.get("env", 0))
            for k, v in stats["invalid"].items():
                self.note("invalid_" + k, v)
        return cases

    def run_impl(self, case):
        return session.run_session(case["spec"], case["filters"], case["events"], case.get("env"))

    def snapshots(self, case, obs):
        return [(i, o) for i, (ev, o) in enumerate(zip(case["events"], obs)) if ev[0] == 7]

    def model_requests(self, case, obs):
        reqs = [session.model_case(case["spec"], case["filters"], case["events"])]
        rows = [o[0][3] for _, o in self.snapshots(case, obs)]
        reqs.append((3, [case["spec"], rows]))
        reqs.extend(self.extra_requests(case, obs))
        return reqs

    def extra_requests(self, case, obs):
        return []

    def rows_before(self, case, obs):
        """rows[i] = schedule rows in force when event i is issued (taken from the
        latest snapshot; valid because the generators put a snapshot after
        every state-changing event) or None when unknown."""
        out = []
        cur = None
        dirty = True
        for ev, o in zip(case["events"], obs):
            out.append(None if dirty else cur)
            if ev[0] == 7:
                cur = o[0][3]
                dirty = False
            elif ev[0] in (0, 2, 8) and o and o[0] == 0:
                dirty = True
        return out

    def reset_failures(self, case, obs):
        """Oracle (no model involved): the first snapshot after an accepted reset, before any accepted dispatch,
        shows the initial state - empty rows, zero tracking vectors, nothing scheduled, makespan 0."""
        fails = []
        pending = None
        for i, (ev, o) in enumerate(zip(case["events"], obs)):
            if ev[0] == 2 and o and o[0] == 0:
                pending = i
            elif ev[0] in (0, 8) and o and o[0] == 0:
                pending = None
            elif ev[0] == 7 and pending is not None:
                d = o[0]
                if any(d[3]) or any(d[0]) or any(d[1]) or any(d[2]) or o[2] != 0 or o[3] != 0:
                    fails.append(Failure("oracle", "state-after-reset",
                                         f"snapshot #{i} right after the reset of event #{pending}: the dispatcher still "
                                         f"reflects the earlier episode (rows / tracking vectors / makespan / count "
                                         f"are not those of the initial state)",
                                         expected=[[0] * len(d[0]), [0] * len(d[1]), [0] * len(d[2]),
                                                   [[] for _ in d[3]], 0, 0],
                                         observed=[d[0], d[1], d[2], d[3], o[2], o[3]]))
                pending = None
        return fails

    def tie_failures(self, case, obs, model_out):
        fails = []
        strip = lambda ev, o: o[:6] if ev[0] == 7 else o
        obs = [strip(ev, o) for ev, o in zip(case["events"], obs)]
        if obs != model_out:
            for i, (a, b) in enumerate(zip(obs, model_out)):
                if a != b:
                    fails.append(Failure("tie", "impl-vs-model",
                                         f"event #{i} {case['events'][i]}: implementation and model differ",
                                         expected=b, observed=a))
                    break
            else:
                fails.append(Failure("tie", "impl-vs-model", "different number of outputs"))
        return fails

    def nontrivial(self, case, obs):
        n = sum(1 for ev, o in zip(case["events"], obs) if ev[0] == 0 and o and o[0] == 0)
        return n >= 2 and len(case["spec"]) >= 2

    nontrivial_rule = ("instances and event scripts drawn from the seeded generator (DESIGN 3.3); a case is "
                       "non-trivial when it has >= 2 jobs and >= 2 accepted dispatches; distinct = distinct "
                       "SHA1 of the whole case")

    def summarize(self, case):
        return case

    def shrink_candidates(self, case):
        if "events" not in case:
            return
        evs = case["events"]
        n = len(evs)
        # drop suffixes, then single events, then lower durations
        for cut in (n // 2, n * 3 // 4, n - 1):
            if 0 < cut < n:
                yield dict(case, events=evs[:cut] + [[7]])
        for i in range(n - 1, -1, -1):
            if evs[i][0] in (1, 7, 3, 4, 5, 6):
                yield dict(case, events=evs[:i] + evs[i + 1:])
        if case["filters"]:
            yield dict(case, filters=case["filters"][:-1])
        spec = case["spec"]
        for j, job in enumerate(spec):
            for p, (ms, d) in enumerate(job):
                if d > 1:
                    s2 = [[list(o) for o in jb] for jb in spec]
                    s2[j][p] = [ms, 1]
                    yield dict(case, spec=s2)
