"""C16 — graph encodings are faithful to the instance and the schedule.

Three kinds of cases (all plain JSON):

  {"kind": "build",  "spec": I, "rb": b, "removes": [ids], "other": I2?}
      all four builders on I (then, with "other", all four on I2 BEFORE the graphs of I are
      inspected): nodes, typed edges, the three indices, the
      removed flags, the DiGraph's node set; then `remove_node` for each id on
      a fresh graph of builder rb (ties Graph.remove_node, reused by C17).
  {"kind": "solved", "spec": I, "picks": [[a, b, delay], ...], "rb": 4, "removes": [...]}
      a complete schedule: the real Dispatcher driven by the picks when every
      delay is 0 ("dispatcher-built"), otherwise a hand-made right-shifted
      feasible Schedule; build_solved_disjunctive_graph of it.
  {"kind": "cpsat",  "spec": I}   (thorough tier) schedule from ORToolsSolver.

tie    : implementation == model (commands 1601 / 1602 / 1605)
oracle : the extracted specification applied to the implementation's own node
         and edge lists (commands 1603 / 1604); for solved graphs, networkx's
         DAG test and the duration-weighted longest source->sink path against
         schedule.makespan() (<= always, == for dispatcher-built schedules).
"""
from __future__ import annotations

from . import common
from .framework import Check, Failure

BUILDERS = ["build_disjunctive_graph", "build_agent_task_graph",
            "build_agent_task_graph_with_jobs", "build_complete_agent_task_graph"]
ORACLE_NAMES = ["nodes", "edges-sound", "edges-complete", "edge-keys-unique"]


# --------------------------------------------------------------------------
# implementation side
# --------------------------------------------------------------------------

STEPS = {
    "build_disjunctive_graph": ["add_disjunctive_edges", "add_conjunctive_edges", "add_source_sink_nodes",
                                "add_source_sink_edges"],
    "build_agent_task_graph": ["add_machine_nodes", "add_operation_machine_edges", "add_machine_machine_edges",
                               "add_same_job_operations_edges"],
    "build_agent_task_graph_with_jobs": ["add_machine_nodes", "add_operation_machine_edges",
                                         "add_machine_machine_edges", "add_job_nodes", "add_operation_job_edges",
                                         "add_job_job_edges"],
    "build_complete_agent_task_graph": ["add_machine_nodes", "add_operation_machine_edges", "add_job_nodes",
                                        "add_operation_job_edges", "add_global_node", "add_machine_global_edges",
                                        "add_job_global_edges"],
}


def build_by_route(name, instance, route):
    """route 0: the builder function. Routes 1 / 2: the same graph assembled by hand from the documented public
    building blocks, starting from JobShopGraph(instance, add_operation_nodes=False) and adding the operation nodes
    with graph.add_operation_nodes() (1) or one graph.add_node(Node(OPERATION, operation=op)) per operation (2).
    Every route must give the graph of the builder's definition."""
    from job_shop_lib import graphs
    from job_shop_lib.graphs import JobShopGraph, Node, NodeType

    if not route:
        return getattr(graphs, name)(instance)
    g = JobShopGraph(instance, add_operation_nodes=False)
    if route == 1:
        g.add_operation_nodes()
    else:
        for job in instance.jobs:
            for op in job:
                g.add_node(Node(node_type=NodeType.OPERATION, operation=op))
    from job_shop_lib.graphs import _build_agent_task_graph as _atg

    for step in STEPS[name]:
        # (add_job_job_edges is not re-exported by job_shop_lib.graphs; it is taken from its module)
        (getattr(graphs, step, None) or getattr(_atg, step))(g)
    return g


def enc_node(node):
    from job_shop_lib.graphs import NodeType

    t = node.node_type
    if t == NodeType.OPERATION:
        return [node.node_id, t.value, node.operation.job_id, node.operation.position_in_job]
    if t == NodeType.MACHINE:
        return [node.node_id, t.value, node.machine_id]
    if t == NodeType.JOB:
        return [node.node_id, t.value, node.job_id]
    return [node.node_id, t.value]


def enc_edges(g):
    from job_shop_lib.graphs import EdgeType

    out = []
    for u, v, data in g.graph.edges(data=True):
        if not isinstance(u, int) or not isinstance(v, int):
            raise TypeError("edge endpoint is not an int node id")
        if set(data) - {"type"}:
            raise ValueError(f"unexpected edge attributes {sorted(data)}")
        if "type" in data:
            if not isinstance(data["type"], EdgeType):
                raise TypeError("edge type is not an EdgeType")
            t = data["type"].value
        else:
            t = 2
        out.append([u, v, t])
    return sorted(out)


def enc_graph(g):
    from job_shop_lib.graphs import NodeType, NODE_ATTR

    types = [NodeType.OPERATION, NodeType.MACHINE, NodeType.JOB, NodeType.GLOBAL,
             NodeType.SOURCE, NodeType.SINK]
    extra = sorted(k.value for k in g.nodes_by_type if k not in types and g.nodes_by_type[k])
    if extra:
        raise ValueError(f"unknown node types {extra}")
    nx_nodes = sorted(g.graph.nodes)
    attr_ok = all(g.graph.nodes[i].get(NODE_ATTR) is g.nodes[i] for i in nx_nodes)
    return [1,
            [enc_node(n) for n in g.nodes],
            enc_edges(g),
            [[n.node_id for n in g.nodes_by_type.get(t, [])] for t in types],
            [[n.node_id for n in row] for row in g.nodes_by_machine],
            [[n.node_id for n in row] for row in g.nodes_by_job],
            [bool(x) for x in g.removed_nodes],
            nx_nodes,
            [n.operation.operation_id for n in g.nodes if n.node_type == NodeType.OPERATION],
            attr_ok, g.num_edges]


def run_removes(g, ids):
    out = []
    for u in ids:
        try:
            g.remove_node(u)
        except Exception:  # pylint: disable=broad-except
            out.append([0])
            continue
        out.append([1, [bool(x) for x in g.removed_nodes], enc_edges(g),
                    [n.node_id for n in g.non_removed_nodes()], sorted(g.graph.nodes)])
    return out


def make_schedule(instance, picks):
    """Returns (Schedule, dispatcher_built)."""
    from job_shop_lib import Schedule, ScheduledOperation
    from job_shop_lib.dispatching import Dispatcher

    built = all(p[2] == 0 for p in picks)
    if built:
        d = Dispatcher(instance)
        i = 0
        while not d.schedule.is_complete():
            ready = d.raw_ready_operations()
            a, b, _ = picks[i]
            i += 1
            op = ready[a % len(ready)]
            d.dispatch(op, op.machines[b % len(op.machines)])
        return d.schedule, True
    rows = [[] for _ in range(instance.num_machines)]
    mfree = [0] * instance.num_machines
    jfree = [0] * instance.num_jobs
    jnext = [0] * instance.num_jobs
    for a, b, delay in picks:
        ready = [j for j in range(instance.num_jobs) if jnext[j] < len(instance.jobs[j])]
        j = ready[a % len(ready)]
        op = instance.jobs[j][jnext[j]]
        m = op.machines[b % len(op.machines)]
        st = max(mfree[m], jfree[j]) + delay
        rows[m].append(ScheduledOperation(op, st, m))
        mfree[m] = jfree[j] = st + op.duration
        jnext[j] += 1
    return Schedule(instance, rows), False


def solved_observation(schedule):
    """Graph of the schedule + the networkx-side facts the property talks about."""
    import networkx as nx
    from job_shop_lib.graphs import build_solved_disjunctive_graph, NodeType

    rows = [[[s.operation.job_id, s.operation.position_in_job, s.start_time, s.machine_id]
             for s in row] for row in schedule.schedule]
    g = build_solved_disjunctive_graph(schedule)
    obs = enc_graph(g)
    is_dag = nx.is_directed_acyclic_graph(g.graph)
    longest = -1
    longest_nx = -1
    if is_dag:
        dur = {n.node_id: (n.operation.duration if n.node_type == NodeType.OPERATION else 0)
               for n in g.nodes}
        source = g.nodes_by_type[NodeType.SOURCE][0].node_id
        sink = g.nodes_by_type[NodeType.SINK][0].node_id
        best = {}
        for n in nx.topological_sort(g.graph):
            if n == source:
                best[n] = 0
            preds = [best[p] for p in g.graph.predecessors(n) if p in best]
            if preds:
                best[n] = max(preds) + dur[n]
        longest = best.get(sink, -1)
        h = nx.DiGraph()
        h.add_nodes_from(g.graph.nodes)
        for u, v in g.graph.edges:
            h.add_edge(u, v, w=dur[u])
        longest_nx = nx.dag_longest_path_length(h, weight="w")
    ends = [s.end_time for row in schedule.schedule for s in row]
    return rows, obs, [is_dag, longest, longest_nx, schedule.makespan(), max(ends, default=0),
                       schedule.is_complete()]


class C16(Check):
    pid = "C16"
    assumptions = [
        "valid instance: every job non-empty, every operation has >= 1 machine, durations >= 0",
        "disjunctive-graph edge theorem: no machine id listed twice in one operation's `machines` "
        "(a repeated id makes the implementation add a self-loop; tied to the model, outside the theorem)",
        "solved-graph clauses: complete feasible schedule, durations > 0",
        "operation nodes carry operations of the graph's own instance",
    ]
    modelled_not_verified = [
        "modelled: JobShopGraph.__init__/add_operation_nodes/add_node/add_edge/remove_node/is_removed/"
        "non_removed_nodes, every building block and builder of _build_disjunctive_graph.py and "
        "_build_agent_task_graph.py, build_solved_disjunctive_graph (coq/model/Graph.v) — tied by "
        "differential execution, not verified",
        "networkx contract (sampled): DiGraph = finite map from ordered pairs to one attribute dict, "
        "add_edge on an existing pair overwrites, remove_node drops incident edges and raises on an absent "
        "node, isolates = degree 0, is_directed_acyclic_graph, topological_sort, dag_longest_path_length",
        "itertools.combinations(l, 2) = pairs (l[i], l[k]) with i < k in lexicographic index order",
        "Dispatcher / Schedule produce the rows handed to build_solved_disjunctive_graph (C01/C02's model); "
        "OR-tools CP-SAT only supplies schedules in the thorough tier",
    ]
    nontrivial_rule = ("a case is non-trivial when the instance has >= 2 jobs and >= 3 operations (build) "
                       "or the schedule has >= 3 operations on >= 1 shared machine (solved); distinct = "
                       "distinct SHA1 of the whole case")

    def budget(self):
        return 3000 if self.tier == "quick" else 30000

    def search_budget(self):
        return 3000 if self.tier == "quick" else 20000

    # ---- generation ---------------------------------------------------------
    def gen_spec(self, rng, positive=False, small=False, nonflex=False):
        r = rng.random()
        if r < 0.08:
            # corners: single job / single machine / single operation
            which = rng.randrange(3)
            if which == 0:
                spec = common.gen_instance(rng, max_jobs=1, max_machines=3, max_ops=5, zero=not positive and None)
            elif which == 1:
                spec = common.gen_instance(rng, max_jobs=4, max_machines=1, max_ops=4, zero=not positive and None)
            else:
                spec = [[[[rng.randrange(3)], rng.randint(1, 5)]]]
            self.note("inst_corner")
        else:
            spec = common.gen_instance(
                rng, max_jobs=3 if small else 6, max_machines=3 if small else 5,
                max_ops=3 if small else 5, flexible=False if nonflex else None,
                zero=False if positive else None, regular=rng.random() < 0.2)
        if nonflex:
            spec = [[[ms[:1], d] for ms, d in job] for job in spec]
        if positive:
            spec = [[[ms, max(1, d)] for ms, d in job] for job in spec]
        if rng.random() < 0.25:
            # unused machine ids: shift some ids upwards
            shift = rng.randint(1, 2)
            cut = rng.randrange(common.num_machines_of(spec) + 1)
            spec = [[[[m + shift if m >= cut else m for m in ms], d] for ms, d in job] for job in spec]
            self.note("inst_gap_in_machine_ids")
        return spec

    def gen_removes(self, rng, n_nodes):
        k = rng.randint(0, min(8, n_nodes + 1))
        return [rng.randrange(n_nodes + 2) for _ in range(k)]

    def n_nodes(self, spec, b):
        n = sum(len(j) for j in spec)
        m = common.num_machines_of(spec)
        return n + [2, m, m + len(spec), m + len(spec) + 1, 2][b]

    def gen_cases(self, rng, n):
        cases = []
        n_cp = 0 if self.tier == "quick" else max(1, n // 40)
        for i in range(n):
            r = rng.random()
            if i < n_cp:
                spec = self.gen_spec(rng, positive=True, small=True, nonflex=True)
                case = {"kind": "cpsat", "spec": spec}
            elif r < 0.5:
                spec = self.gen_spec(rng)
                if rng.random() < 0.04:
                    # repeated machine id inside one operation (tie only)
                    j = rng.randrange(len(spec))
                    p = rng.randrange(len(spec[j]))
                    spec[j][p][0] = spec[j][p][0] + [spec[j][p][0][0]]
                    self.note("inst_repeated_machine_id")
                if rng.random() < 0.04:
                    spec.insert(rng.randrange(len(spec) + 1), [])
                    self.note("inst_empty_job(outside scope, tie only)")
                rb = rng.randrange(4)
                case = {"kind": "build", "spec": spec, "rb": rb,
                        "removes": self.gen_removes(rng, self.n_nodes(spec, rb))}
                if rng.random() < 0.3:
                    case["other"] = self.gen_spec(rng)
                    self.note("build_then_other_instance_then_inspect")
                if rng.random() < 0.25:
                    case["copy"] = rng.choice([1, 1, 2])
                    self.note("inspect_deep_copy")
                if rng.random() < 0.03 and sum(len(j) for j in spec) <= 12 and all(
                        len(ms) == 1 for job in spec for ms, _ in job) and all(spec):
                    # (node colours come from operation.machine_id: the plot function is for non-flexible instances)
                    case["plot"] = 1
                    self.note("disjunctive_graph_plotted_before_inspection")
                if rng.random() < 0.2:
                    case["route"] = rng.choice([1, 2])
                    self.note("assembled_from_public_building_blocks")
            else:
                positive = rng.random() < 0.85
                spec = self.gen_spec(rng, positive=positive)
                total = sum(len(j) for j in spec)
                delayed = rng.random() < 0.35
                picks = [[rng.randrange(1000), rng.randrange(1000),
                          (rng.randint(0, 4) if delayed and rng.random() < 0.4 else 0)]
                         for _ in range(total)]
                case = {"kind": "solved", "spec": spec, "picks": picks, "rb": 4,
                        "removes": self.gen_removes(rng, total + 2) if rng.random() < 0.3 else []}
                if rng.random() < 0.3:
                    case["earlier"] = [[rng.randrange(1000), rng.randrange(1000), 0] for _ in range(total)]
                    self.note("solved_after_an_earlier_solved_graph_of_the_same_instance")
            cases.append(case)
            st = common.instance_stats(case["spec"])
            self.note("cases_" + case["kind"])
            self.note("ops_total", st["ops"])
            for k in ("flexible", "zero"):
                if st[k]:
                    self.note("inst_" + k)
            if len({len(j) for j in case["spec"]}) > 1:
                self.note("inst_irregular")
            if any(len({tuple(ms) for ms, _ in job}) < len(job) for job in case["spec"]):
                self.note("inst_recirculation")
            if case["kind"] == "solved":
                self.note("solved_dispatcher_built" if all(p[2] == 0 for p in case["picks"])
                          else "solved_right_shifted")
        return cases

    # ---- implementation -----------------------------------------------------
    def run_impl(self, case):
        common.import_impl()
        from job_shop_lib import graphs

        instance = common.build_instance(case["spec"])
        if case["kind"] == "build":
            built = []
            for name in BUILDERS:
                try:
                    built.append(build_by_route(name, instance, case.get("route", 0)))
                except Exception:  # pylint: disable=broad-except
                    built.append(None)
            if case.get("other"):
                # graphs of ANOTHER instance built afterwards must leave the first ones alone: the graphs below
                # are inspected after these builds (a builder is a function of its instance, with no memory)
                other = common.build_instance(case["other"])
                keep = []
                for name in BUILDERS:
                    try:
                        keep.append(getattr(graphs, name)(other))
                    except Exception:  # pylint: disable=broad-except
                        pass
            if case.get("plot") and built[0] is not None:
                # the disjunctive graph is DRAWN (the library's own plot function is given the graph object) and
                # then inspected: looking at a graph does not change it
                import matplotlib.pyplot as plt
                from job_shop_lib.visualization import plot_disjunctive_graph

                import warnings

                try:
                    with warnings.catch_warnings():
                        warnings.simplefilter("ignore")      # "pygraphviz not installed, using spring layout"
                        plot_disjunctive_graph(built[0])
                finally:
                    plt.close("all")
            if case.get("copy"):
                # what a GraphUpdater / environment hands out from its first reset on: a deep copy
                import copy as _copy

                built = [_copy.deepcopy(g) if g is not None else None for g in built]
                if case["copy"] == 2:
                    built = [_copy.deepcopy(g) if g is not None else None for g in built]
            outs = []
            for g in built:
                try:
                    outs.append(enc_graph(g) if g is not None else [0])
                except Exception:  # pylint: disable=broad-except
                    outs.append([0])
            try:
                g = getattr(graphs, BUILDERS[case["rb"]])(instance)
                rem = run_removes(g, case["removes"])
            except Exception:  # pylint: disable=broad-except
                rem = [0]
            return common.norm([outs, rem])
        if case["kind"] == "solved":
            if case.get("earlier"):
                # another schedule of the SAME instance object was turned into a solved graph before (the graph
                # of a schedule is a function of that schedule alone)
                from job_shop_lib.graphs import build_solved_disjunctive_graph as _bsdg

                earlier_graph = _bsdg(make_schedule(instance, case["earlier"])[0])
            schedule, built = make_schedule(instance, case["picks"])
        else:
            from job_shop_lib.constraint_programming import ORToolsSolver

            schedule, built = ORToolsSolver(max_time_in_seconds=10)(instance), False
        rows, obs, facts = solved_observation(schedule)
        rem = []
        if case.get("removes"):
            from job_shop_lib.graphs import build_solved_disjunctive_graph

            rem = run_removes(build_solved_disjunctive_graph(schedule), case["removes"])
        return common.norm([rows, obs, facts, built, rem])

    # ---- model --------------------------------------------------------------
    def model_requests(self, case, obs):
        spec = case["spec"]
        reqs = []
        if case["kind"] == "build":
            graphs_, _ = obs
            for b, g in enumerate(graphs_):
                reqs.append((1601, [spec, b]))
            for b, g in enumerate(graphs_):
                if g[0] == 1:
                    reqs.append((1603, [spec, b, g[1], g[2]]))
            reqs.append((1605, [spec, case["rb"], [], case["removes"]]))
            return reqs
        rows, g, _, _, _ = obs
        reqs.append((1602, [spec, rows]))
        reqs.append((1604, [spec, rows, g[1], g[2]]))
        if case.get("removes"):
            reqs.append((1605, [spec, 4, rows, case["removes"]]))
        return reqs

    # ---- judgement ----------------------------------------------------------
    def tie_graph(self, name, impl, model, fails, in_scope=True):
        """Primary tie (a Failure): raises-or-not on in-scope input, nodes, typed edges.
        Secondary observables (index rows, removed flags, DiGraph node set, num_edges) are not in
        the property's statement; a disagreement there is counted in the evidence
        (input_distribution: secondary_mismatch:*) and never raised as a violation."""
        if impl[0] != model[0]:
            if in_scope:
                fails.append(Failure("tie", f"{name}:raises",
                                     "implementation and model disagree on whether the builder raises",
                                     expected=model[:1], observed=impl[:1]))
            else:
                self.note(f"secondary_mismatch:{name}:raises-out-of-scope")
            return
        if impl[0] == 0:
            return
        for k, lab in ((1, "nodes"), (2, "edges")):
            if impl[k] != model[k]:
                if in_scope:
                    fails.append(Failure("tie", f"{name}:{lab}",
                                         f"{lab} differ between implementation and model",
                                         expected=model[k], observed=impl[k]))
                else:
                    self.note(f"secondary_mismatch:{name}:{lab}-out-of-scope")
        for k, lab in ((3, "nodes_by_type"), (5, "nodes_by_job"), (6, "removed_nodes")):
            if impl[k] != model[k]:
                self.note(f"secondary_mismatch:{name}:{lab}")
        if [sorted(r) for r in impl[4]] != [sorted(r) for r in model[4]]:
            self.note(f"secondary_mismatch:{name}:nodes_by_machine")
        live = [i for i, r in enumerate(impl[6]) if not r]
        if impl[7] != live:
            self.note(f"secondary_mismatch:{name}:digraph-node-set")
        if not impl[9]:
            self.note(f"secondary_mismatch:{name}:node-attribute")
        if impl[10] != len(impl[2]):
            self.note(f"secondary_mismatch:{name}:num_edges")

    def tie_removes(self, name, impl, model):
        """remove_node belongs to C17's property; here the model of it (Graph.remove_node) is
        only monitored: a disagreement is counted, never raised."""
        self.note("remove_node_calls_compared", len(impl))
        if len(impl) != len(model):
            self.note("secondary_mismatch:remove_node")
            return
        for a, b in zip(impl, model):
            if a[:4] != b[:4] or (a[0] == 1 and a[4] != a[3]):
                self.note("secondary_mismatch:remove_node")
                return

    def judge(self, case, obs, outs):
        fails = []
        spec = case["spec"]
        in_scope = all(len(j) > 0 for j in spec)
        nodup = all(len(set(ms)) == len(ms) for job in spec for ms, _ in job)
        if case["kind"] == "build":
            graphs_, rem = obs
            models = outs[:4]
            k = 4
            for b, (g, m) in enumerate(zip(graphs_, models)):
                name = BUILDERS[b]
                self.tie_graph(name, g, m, fails, (in_scope and nodup) if b == 0 else True)
                if g[0] != 1:
                    if in_scope:
                        fails.append(Failure("oracle", f"{name}:raises",
                                             "the builder raised on an instance whose jobs are all non-empty"))
                    continue
                res = outs[k]
                k += 1
                if bool(res[5]) != nodup or bool(res[4]) != in_scope:
                    fails.append(Failure("tie", "scope-predicates",
                                         "extracted nonempty_jobsb / nodup_machinesb disagree with the harness"))
                scope = (in_scope and nodup) if b == 0 else True
                if scope:
                    for lab, ok in zip(ORACLE_NAMES, res[:4]):
                        if not ok:
                            fails.append(Failure(
                                "oracle", f"{name}:{lab}",
                                f"the graph returned by {name} violates the extracted specification ({lab})",
                                observed=[g[1], g[2]]))
                    if g[8] != [n[0] for n in g[1] if n[1] == 1]:
                        fails.append(Failure("oracle", f"{name}:op-node-id-is-operation-id",
                                             "an operation node's id differs from operation.operation_id",
                                             expected=g[8], observed=[n[0] for n in g[1] if n[1] == 1]))
            mrem = outs[k]
            if rem == [0] or mrem == [0]:
                if rem != mrem:
                    self.note("secondary_mismatch:remove_node")
            else:
                self.tie_removes(BUILDERS[case["rb"]], rem, mrem)
            return fails

        rows, g, facts, built, rem = obs
        name = "build_solved_disjunctive_graph"
        self.tie_graph(name, g, outs[0], fails)
        res = outs[1]
        is_dag, longest, longest_nx, mk, max_end, complete = facts
        feasible_complete, positive, nonempty = bool(res[5]), bool(res[6]), bool(res[7])
        if g[0] != 1:
            fails.append(Failure("oracle", f"{name}:raises", "the builder raised on a complete schedule"))
            return fails
        if nonempty and feasible_complete:
            for lab, ok in zip(ORACLE_NAMES, res[:4]):
                if not ok:
                    fails.append(Failure("oracle", f"{name}:{lab}",
                                         f"the solved graph violates the extracted specification ({lab})",
                                         observed=[rows, g[2]]))
        if not (complete and feasible_complete):
            fails.append(Failure("tie", "solved:schedule-not-feasible-complete",
                                 "the schedule handed to the builder is not complete and feasible",
                                 observed=rows))
        if res[8] != mk or max_end != mk:
            fails.append(Failure("tie", "solved:makespan",
                                 "Schedule.makespan() != max end time (specification's makespan)",
                                 expected=res[8], observed=[mk, max_end]))
        if nonempty and feasible_complete and positive:
            if not res[4]:
                fails.append(Failure("oracle", "solved:edge-respects-times",
                                     "an edge u->v of the solved graph has end(u) > start(v)",
                                     observed=[rows, g[2]]))
            if not is_dag:
                fails.append(Failure("oracle", "solved:acyclic", "the solved graph has a cycle",
                                     observed=[rows, g[2]]))
            else:
                if longest > mk or longest_nx > mk:
                    fails.append(Failure("oracle", "solved:longest-path<=makespan",
                                         "a source->sink path is longer than the makespan",
                                         expected=mk, observed=[longest, longest_nx]))
                if built and (longest != mk or longest_nx != mk):
                    fails.append(Failure("oracle", "solved:critical-path==makespan",
                                         "dispatcher-built schedule: longest source->sink path != makespan",
                                         expected=mk, observed=[longest, longest_nx]))
        if case.get("removes"):
            self.tie_removes(name, rem, outs[2])
        return fails

    def nontrivial(self, case, obs):
        spec = case["spec"]
        n = sum(len(j) for j in spec)
        if case["kind"] == "build":
            return len(spec) >= 2 and n >= 3
        rows = obs[0]
        return n >= 3 and any(len(r) >= 2 for r in rows)

    def summarize(self, case):
        return case

    def shrink_candidates(self, case):
        spec = case["spec"]

        def fix(c):
            if c["kind"] == "solved":
                total = sum(len(j) for j in c["spec"])
                c["picks"] = (c["picks"] + [[0, 0, 0]] * total)[:total]
                if c.get("earlier"):
                    c["earlier"] = (c["earlier"] + [[0, 0, 0]] * total)[:total]
            return c

        if case.get("plot"):
            yield {k: v for k, v in case.items() if k != "plot"}
        if case.get("route"):
            yield {k: v for k, v in case.items() if k != "route"}
        if case.get("copy"):
            yield {k: v for k, v in case.items() if k != "copy"}
        if case.get("earlier"):
            yield {k: v for k, v in case.items() if k != "earlier"}
        if case.get("other"):
            yield {k: v for k, v in case.items() if k != "other"}
            if len(case["other"]) > 1:
                yield dict(case, other=case["other"][:-1])
        if case.get("removes"):
            yield dict(case, removes=case["removes"][:-1])
            yield dict(case, removes=case["removes"][1:])
        for j in range(len(spec)):
            if len(spec) > 1:
                yield fix(dict(case, spec=spec[:j] + spec[j + 1:]))
        for j, job in enumerate(spec):
            if len(job) > 1:
                yield fix(dict(case, spec=spec[:j] + [job[:-1]] + spec[j + 1:]))
        for j, job in enumerate(spec):
            for p, (ms, d) in enumerate(job):
                if len(ms) > 1:
                    s2 = [[list(o) for o in jb] for jb in spec]
                    s2[j][p] = [ms[:-1], d]
                    yield fix(dict(case, spec=s2))
                if d > 1:
                    s2 = [[list(o) for o in jb] for jb in spec]
                    s2[j][p] = [ms, 1]
                    yield fix(dict(case, spec=s2))
        if case["kind"] == "solved" and any(p != [0, 0, 0] for p in case["picks"]):
            yield dict(case, picks=[[0, 0, 0]] * len(case["picks"]))


CHECK = C16
